package mysql

import (
	"bytes"
	"encoding/base64"
	"encoding/binary"
	"encoding/hex"
	"fmt"
	"strconv"
	"strings"

	"verif/harness/internal/props/c01"
	"verif/harness/internal/rig/fakemysql"
	"verif/harness/internal/rig/fakepg"
	"verif/harness/internal/rig/proxyrig"
)

type written = proxyrig.Written

// deviation is one way in which an accepted statement did not behave like its twin (the same statement in a session without
// rejected statements, answered by the reference database holding the application view).
type deviation struct {
	class  string // stable, goes into the signature
	column string // column class when the deviation is about one column
	detail map[string]interface{}
}

func dev(class string, kv ...interface{}) *deviation {
	d := &deviation{class: class, detail: map[string]interface{}{}}
	for i := 0; i+1 < len(kv); i += 2 {
		d.detail[fmt.Sprint(kv[i])] = kv[i+1]
	}
	return d
}

func colClass(c proxyrig.ColSpec) string {
	if !c.Configured() {
		return "unconfigured/" + c.AppType.String()
	}
	return c.Kind + "/" + c.Envelope + "/" + c.DataType + c.TokenType
}

func trunc(s string, n int) string {
	if len(s) > n {
		return s[:n] + "..."
	}
	return s
}

// leak looks for a plaintext in what the database received (raw, hex, HEX, base64).
func leak(stream []byte, m []byte) string {
	if len(m) > 64 {
		m = m[:64]
	}
	for i, rd := range [][]byte{m, []byte(hex.EncodeToString(m)), []byte(strings.ToUpper(hex.EncodeToString(m))), []byte(base64.StdEncoding.EncodeToString(m))} {
		if bytes.Contains(stream, rd) {
			return []string{"raw", "hex", "HEX", "base64"}[i]
		}
	}
	return ""
}

// storedLooksProtected: the documented stored form of a configured column (same rules as the C04 MySQL layer).
func storedLooksProtected(c proxyrig.ColSpec, stored fakepg.Value, plain proxyrig.Val) string {
	if plain.Null {
		if stored != nil {
			return "NULL written but non-NULL stored"
		}
		return ""
	}
	pb := plain.Bytes()
	if c.Kind == "token" {
		var sb []byte
		switch x := stored.(type) {
		case int64:
			sb = []byte(fmt.Sprint(x))
		case string:
			sb = []byte(x)
		case []byte:
			sb = x
		default:
			return "NULL stored for non-NULL value"
		}
		if len(pb) >= 9 && bytes.Equal(sb, pb) {
			return "plaintext stored instead of a token"
		}
		return ""
	}
	sb, ok := stored.([]byte)
	if !ok {
		return fmt.Sprintf("stored value of configured column is %T, not bytes", stored)
	}
	if len(pb) == 0 {
		return ""
	}
	switch c.Kind {
	case "enc":
		if c01.LooksProtected(sb) == "" {
			return "stored value is not an envelope"
		}
	case "search":
		if len(sb) < 34 || sb[0] != 0x7f || c01.LooksProtected(sb[33:]) == "" {
			return "stored value is not hash+envelope"
		}
	case "mask":
		n := c.MaskLen
		if len(pb) <= n {
			if c01.LooksProtected(sb) == "" {
				return "short masked value not stored as an envelope"
			}
		} else if c.MaskSide == "left" {
			if !bytes.HasPrefix(sb, pb[:n]) || c01.LooksProtected(sb[n:]) == "" {
				return "masked value not stored as window+envelope"
			}
		} else {
			if !bytes.HasSuffix(sb, pb[len(pb)-n:]) || c01.LooksProtected(sb[:len(sb)-n]) == "" {
				return "masked value not stored as envelope+window"
			}
		}
	}
	return ""
}

func valEq(a, b fakepg.Value) bool {
	switch x := a.(type) {
	case nil:
		return b == nil
	case []byte:
		y, ok := b.([]byte)
		return ok && bytes.Equal(x, y)
	default:
		return a == b
	}
}

func valOf(v fakepg.Value, t fakepg.ColType) proxyrig.Val {
	switch x := v.(type) {
	case int64:
		return proxyrig.Val{Type: t, I: x}
	case string:
		return proxyrig.Val{Type: fakepg.Text, S: x}
	case []byte:
		return proxyrig.Val{Type: fakepg.Bytea, B: x}
	}
	return proxyrig.Val{Null: true, Type: t}
}

// compareState: the table behind Acra against the reference table: unconfigured columns equal, configured ones in stored form.
func compareState(t proxyrig.TableSpec, srows, rrows [][]fakepg.Value) *deviation {
	if len(srows) != len(rrows) {
		return dev("row count behind acra differs from reference", "store", len(srows), "ref", len(rrows))
	}
	for ri := range rrows {
		for ci, c := range t.Cols {
			sv, rv := srows[ri][ci], rrows[ri][ci]
			if !c.Configured() {
				if !valEq(sv, rv) {
					d := dev("unconfigured column stored differently", "row", ri, "column", c.Name)
					d.column = colClass(c)
					return d
				}
				continue
			}
			if why := storedLooksProtected(c, sv, valOf(rv, c.AppType)); why != "" {
				d := dev("stored form: "+why, "row", ri, "column", c.Name)
				d.column = colClass(c)
				return d
			}
		}
	}
	return nil
}

// ---- results of the scripted client, brought into the shape the stock driver delivers (proxyrig.MyResult) ----

func typeName(t byte) string {
	switch t {
	case fakemysql.TypeLong, fakemysql.TypeInt24:
		return "INT"
	case fakemysql.TypeLongLong:
		return "BIGINT"
	case fakemysql.TypeVarString, fakemysql.TypeString, fakemysql.TypeVarchar:
		return "VARCHAR"
	case fakemysql.TypeTinyBlob, fakemysql.TypeMediumBlob, fakemysql.TypeLongBlob, fakemysql.TypeBlob:
		return "BLOB"
	}
	return fmt.Sprintf("TYPE%d", t)
}

// decodeRawResult parses the frames of a COM_QUERY / COM_STMT_EXECUTE response. malformed != "" when the frames are not a
// well-formed response (the client is then out of step with the server).
func decodeRawResult(frames []fakemysql.Frame, binaryProto bool) (res *proxyrig.MyResult, malformed string) {
	res = &proxyrig.MyResult{}
	if len(frames) == 0 || len(frames[0].Payload) == 0 {
		return res, "empty response"
	}
	p := frames[0].Payload
	switch p[0] {
	case 0x00:
		n, _, _, err := fakemysql.LenEncInt(p[1:])
		if err != nil {
			return res, "OK packet does not parse"
		}
		res.Affected = int64(n)
		return res, ""
	case 0xff:
		e, err := fakemysql.DecodeErr(p)
		if err != nil {
			return res, "ERR packet does not parse"
		}
		res.ErrNo, res.ErrMsg = e.Code, e.Msg
		res.Err = fmt.Errorf("Error %d: %s", e.Code, e.Msg)
		return res, ""
	}
	n64, _, used, err := fakemysql.LenEncInt(p)
	if err != nil || used != len(p) || n64 == 0 || int(n64)+2 > len(frames) {
		return res, "column count packet does not parse"
	}
	n := int(n64)
	types := make([]byte, n)
	for i := 0; i < n; i++ {
		cd, err := fakemysql.DecodeColDef(frames[1+i].Payload)
		if err != nil {
			return res, fmt.Sprintf("column definition %d does not parse", i)
		}
		types[i] = cd.Type
		res.Cols = append(res.Cols, proxyrig.MyCol{Name: cd.Name, DBType: typeName(cd.Type)})
	}
	if !fakemysql.IsEOF(frames[1+n].Payload, false) {
		return res, "no EOF after the column definitions"
	}
	rows := frames[2+n:]
	if len(rows) == 0 {
		return res, "result set without terminator"
	}
	last := rows[len(rows)-1].Payload
	rows = rows[:len(rows)-1]
	if len(last) > 0 && last[0] == 0xff {
		e, _ := fakemysql.DecodeErr(last)
		res.ErrNo, res.ErrMsg = e.Code, e.Msg
		res.Err = fmt.Errorf("Error %d: %s", e.Code, e.Msg)
	} else if !fakemysql.IsEOF(last, false) {
		return res, "result set not terminated by EOF"
	}
	for ri, f := range rows {
		var fields []fakemysql.Field
		var err error
		if binaryProto {
			fields, err = fakemysql.DecodeBinaryRow(f.Payload, types)
		} else {
			fields, err = fakemysql.DecodeTextRow(f.Payload, n)
		}
		if err != nil {
			return res, fmt.Sprintf("row %d does not parse against the column definitions", ri)
		}
		row := make([]proxyrig.MyVal, n)
		for i, fd := range fields {
			switch {
			case fd.Null:
				row[i] = proxyrig.MyVal{Null: true}
			case binaryProto && (types[i] == fakemysql.TypeLong || types[i] == fakemysql.TypeInt24) && len(fd.Data) == 4:
				row[i] = proxyrig.MyVal{Kind: "int64", B: []byte(strconv.FormatInt(int64(int32(binary.LittleEndian.Uint32(fd.Data))), 10))}
			case binaryProto && types[i] == fakemysql.TypeLongLong && len(fd.Data) == 8:
				row[i] = proxyrig.MyVal{Kind: "int64", B: []byte(strconv.FormatInt(int64(binary.LittleEndian.Uint64(fd.Data)), 10))}
			default:
				row[i] = proxyrig.MyVal{Kind: "bytes", B: append([]byte{}, fd.Data...)}
			}
		}
		res.Rows = append(res.Rows, row)
	}
	return res, ""
}

// rawParams encodes database/sql style arguments the way the stock driver binds them (int64 -> LONGLONG, string and []byte ->
// STRING, nil -> NULL).
func rawParams(args []interface{}) []fakemysql.BoundParam {
	out := make([]fakemysql.BoundParam, len(args))
	for i, a := range args {
		switch x := a.(type) {
		case nil:
			out[i] = fakemysql.BoundParam{Type: fakemysql.TypeNull, Null: true}
		case int64:
			b := make([]byte, 8)
			binary.LittleEndian.PutUint64(b, uint64(x))
			out[i] = fakemysql.BoundParam{Type: fakemysql.TypeLongLong, Data: b}
		case string:
			out[i] = fakemysql.BoundParam{Type: fakemysql.TypeString, Data: []byte(x)}
		case []byte:
			out[i] = fakemysql.BoundParam{Type: fakemysql.TypeString, Data: x}
		}
	}
	return out
}

func stmtIDBytes(id uint32) []byte { return []byte{byte(id), byte(id >> 8), byte(id >> 16), byte(id >> 24)} }
