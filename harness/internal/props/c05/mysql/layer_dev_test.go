package mysql

import (
	"os"
	"testing"

	"verif/harness/internal/ev"
)

// TestLayerDev runs the layer alone (development aid); evidence goes to $VERIF_ROOT.
func TestLayerDev(t *testing.T) {
	if os.Getenv("VERIF_ROOT") == "" {
		t.Skip("set VERIF_ROOT to a scratch directory (evidence and replay files are written there)")
	}
	r := ev.New("C05", "exploration")
	Layer(r)
	r.Distinct("dev-run")
	if rc := r.Finish(); rc != 0 {
		t.Fatalf("layer reported violations (rc=%d)", rc)
	}
}
