// Package mysql is the MySQL wire layer of the C05 monitor ("a statement rejected by AcraCensor never reaches the database,
// the client gets an error instead, and every statement the session goes on to accept is still processed according to that
// statement and not the rejected one"): session histories mixing accepted and rejected statements over COM_QUERY and the
// prepared-statement commands, sent through a real MySQL-mode AcraServer with a generated firewall configuration in front of a
// fake MySQL server, observed at the database end and at the client end only.
// Call Layer(r) after the PostgreSQL layer (Acra's SQL dialect is a process global).
package mysql

import (
	"fmt"
	"os"
	"strings"
	"time"

	"github.com/cossacklabs/acra/sqlparser"

	"verif/harness/internal/ev"
	"verif/harness/internal/gen"
	"verif/harness/internal/props/c04"
	"verif/harness/internal/props/c05"
	"verif/harness/internal/rig/censorgen"
	"verif/harness/internal/rig/fakemysql"
	"verif/harness/internal/rig/fakepg"
	"verif/harness/internal/rig/proxyrig"
)

// Layer runs the MySQL wire layer of C05.
func Layer(r *ev.Run) {
	proxyrig.SetDialect(true)
	defer proxyrig.SetDialect(false)
	t0 := time.Now()
	defer func() { r.Extra("mysql_layer_wall_s", time.Since(t0).Seconds()) }()
	r.Rule += " || MySQL wire layer: one evaluation = one protocol step of a client session through a MySQL-mode AcraServer whose firewall configuration is a generated chain " +
		"(a censor-layer configuration of the seed, behind a session-specific prefix: deny the session's second table / deny some of its statements by text / deny one statement kind by %%KIND%% pattern / allow-list of its statements + denyall / no prefix); " +
		"statements: generated INSERT/UPDATE/DELETE/SELECT over two tables with encrypted, searchable, masked and tokenized columns (literals and ? placeholders) and the statements / unparseable strings of the censor-layer case (answered by the fake database with canned replies), each in a formatting variant; " +
		"protocol shapes per statement: COM_QUERY; COM_STMT_PREPARE + COM_STMT_EXECUTE by id [+ re-execution] + COM_STMT_CLOSE; COM_STMT_EXECUTE with the MariaDB id 0xFFFFFFFF (last prepared statement) once / twice / followed by an execute by id; COM_STMT_RESET between executions; COM_STMT_SEND_LONG_DATA (+ RESET) for unconfigured columns; " +
		"up to three statements are open at a time and their steps interleave; statements rejected by construction are injected between any two steps (as COM_QUERY or COM_STMT_PREPARE), in particular between a PREPARE and its EXECUTE(-1); clients: scripted (exact packets) and stock go-sql-driver; " +
		"the firewall's decision is read from both ends (nothing new in the database's log + an error for the client = rejected); accepted steps are also run against a reference database with the application view (the twin session without the rejected statements); " +
		"a case is non-trivial when a rejection was observed earlier in the session and the step agreed with the reference"
	r.Assumptions = append(r.Assumptions,
		"MySQL wire layer: the database is a fake MySQL server (harness codec, statements evaluated by fakepg after translation); it answers COM_STMT_EXECUTE with id 0xFFFFFFFF like MariaDB (last statement prepared on the connection, none after a failed PREPARE or after that statement was closed)",
		"MySQL wire layer: a deviation of an accepted step from the reference is attributed to the rejected statements only if the same accepted steps, replayed in a fresh session without the rejected ones, do not deviate (otherwise it is counted as outside this property)",
		"MySQL wire layer: the client reads the answer to every command before sending the next one (a PREPARE and an EXECUTE(-1) pipelined in one write, MariaDB's direct execution, are not driven); EXECUTE(-1) of a SELECT is sent only directly after its PREPARE (rejected statements in between) and only for statements with parameters, the flow Acra supports",
	)
	wl := c05.NewWorkload(r.Seed, r.Pick(360, 900))
	rng := gen.New(r.Seed, "c05-mysql")
	n := r.Pick(24, 420)
	only := -1
	if v := os.Getenv("VERIF_C05MY_SESSION"); v != "" {
		fmt.Sscan(v, &only)
	}
	for s := 0; s < n; s++ {
		srng := gen.New(r.Seed, fmt.Sprintf("c05my-s%d-%d", s, rng.Int63()))
		if only >= 0 && s != only {
			continue
		}
		session(r, wl, srng, s)
	}
	if only >= 0 {
		return
	}
	// non-vacuity (quick on the unchanged tree observes 2-3 times these numbers; thorough about 17 times more)
	r.RequireAtLeast("mysql_rejected_statements_checked", 120)
	r.RequireAtLeast("mysql_rejected_queries_checked", 40)
	r.RequireAtLeast("mysql_rejected_prepares_checked", 60)
	r.RequireAtLeast("mysql_accepted_steps_after_rejection_equal_reference", 250)
	r.RequireAtLeast("mysql_execute_last_after_rejected_prepare_equal_reference", 15)
	r.RequireAtLeast("mysql_execute_last_with_protected_parameters_after_rejected_prepare_equal_reference", 8)
	r.RequireAtLeast("mysql_execute_last_of_select_after_rejected_prepare_equal_reference", 3)
	r.RequireAtLeast("mysql_execute_last_of_select_with_rejected_select_since_prepare_equal_reference", 2)
	r.RequireAtLeast("mysql_execute_by_id_with_rejection_since_prepare_equal_reference", 25)
	r.RequireAtLeast("mysql_reexecutions_after_rejection_equal_reference", 15)
	r.RequireAtLeast("mysql_reset_steps_after_rejection_equal_reference", 4)
	r.RequireAtLeast("mysql_long_data_steps_after_rejection_equal_reference", 8)
	r.RequireAtLeast("mysql_selects_after_rejection_equal_reference", 20)
	r.RequireAtLeast("mysql_protected_writes_after_rejection_checked", 40)
	r.RequireAtLeast("mysql_decisions_agreed_reject", 120)
	r.RequireAtLeast("mysql_decisions_agreed_accept", 150)
	r.RequireSetAtLeast("mysql_policy_modes", 5)
	if r.Counter("mysql_stock_client_lost_on_rejection") == 0 {
		// the stock driver survives a rejection only when the ERR packet carries the right sequence id
		r.RequireAtLeast("mysql_stock_driver_accepted_steps_after_rejection_equal_reference", 10)
	}
}

type plan struct {
	tables  []proxyrig.TableSpec
	pol     *policy
	client  string
	backlog []*unit
	pool    []*stmt
	scripts map[string]fakemysql.Script
	nUnits  int
}

func fromStep(st proxyrig.MyStep) *stmt {
	return &stmt{src: "rig", kind: st.Kind, table: st.Table, canon: st.SQL, args: st.Args, argCols: st.ArgCols, writes: st.Writes, resultCols: st.ResultCols}
}

var strictParser = sqlparser.New(sqlparser.ModeStrict)

func parses(sql string) bool {
	_, err := strictParser.Parse(sql)
	return err == nil
}

// cannedReply is what both fake databases answer to a censor-layer statement that writes (its tables do not exist in the
// session's schema; SELECTs and UNIONs over them are left to the fake database, which refuses them like any unknown table).
func cannedReply(kind string) fakemysql.Script {
	if kind == "select" || kind == "union" {
		return nil
	}
	return func(string, bool) *fakemysql.Reply { return &fakemysql.Reply{Affected: 1} }
}

func shapeOps(shape string) (ops []string, atomic int) {
	switch shape {
	case "Q":
		return []string{"query"}, 0
	case "P1":
		return []string{"prepare", "execute", "close"}, 0
	case "P2":
		return []string{"prepare", "execute", "execute", "close"}, 0
	case "PL":
		return []string{"prepare", "execute-last", "close"}, 2
	case "PL2":
		return []string{"prepare", "execute-last", "execute-last", "close"}, 3
	case "PLI":
		return []string{"prepare", "execute-last", "execute", "close"}, 2
	case "PR":
		return []string{"prepare", "execute", "reset", "execute", "close"}, 0
	case "PLD":
		return []string{"prepare", "long-execute", "close"}, 0
	case "PLR":
		return []string{"prepare", "long-reset-execute", "close"}, 0
	}
	panic("unknown shape " + shape)
}

func pickShape(rng *gen.Rand, s *stmt, client string, preferLast bool) string {
	reexec := s.kind == "select" || s.kind == "update" || s.kind == "delete" || s.kind == "union"
	if s.src == "unparseable" {
		return []string{"Q", "Q", "P1"}[rng.Intn(3)]
	}
	if client == "driver" {
		switch {
		case len(s.args) == 0 && rng.Intn(2) == 0:
			return "Q"
		case reexec && rng.Intn(3) == 0:
			return "P2"
		}
		return "P1"
	}
	if s.src == "censorgen" {
		switch x := rng.Intn(10); {
		case x < 4:
			return "Q"
		case x < 6:
			return "P1"
		case x < 7 && reexec:
			return "P2"
		case x < 9:
			return "PL"
		}
		return "Q"
	}
	// EXECUTE(-1) of a SELECT needs a parameter (see the assumptions)
	lastOK := !(s.kind == "select" && len(s.args) == 0)
	if len(s.args) == 0 && !preferLast && rng.Intn(2) == 0 {
		return "Q"
	}
	x := rng.Intn(100)
	if preferLast && lastOK {
		x = rng.Intn(45)
	}
	switch {
	case x < 45 && lastOK:
		// the MariaDB "last prepared statement" id: once, twice, or followed by an execute by id
		switch y := rng.Intn(4); {
		case y == 0 && reexec && s.kind != "select":
			return "PL2"
		case y == 1 && reexec:
			return "PLI"
		}
		return "PL"
	case x < 62 && reexec:
		return "PR"
	case x < 80 && reexec:
		return "P2"
	}
	return "P1"
}

func newUnit(id int, s *stmt, shape string) *unit {
	ops, atomic := shapeOps(shape)
	return &unit{id: id, st: s, shape: shape, ops: ops, atomic: atomic}
}

// buildPlan draws tables, statements, the firewall configuration and the protocol shape of every statement.
func buildPlan(r *ev.Run, wl *c05.Workload, rng *gen.Rand, sidx int) *plan {
	p := &plan{scripts: map[string]fakemysql.Script{}}
	p.tables = proxyrig.GenTables(rng, 2, c04.Other, func(c proxyrig.ColSpec) bool { return c.ClientID == "" })
	p.client = "raw"
	if sidx%3 == 2 {
		p.client = "driver"
	}
	mode := []string{"deny-table", "deny-query", "deny-kind", "allowlist", "chain-only"}[(sidx/3+sidx)%5]
	pol := &policy{mode: mode, chainCase: -1}
	p.pol = pol
	work := p.tables
	if mode == "deny-table" {
		pol.deniedTable = p.tables[1].Name
		work = p.tables[:1]
	}
	if mode == "deny-kind" {
		pol.deniedKind = []string{"delete", "update"}[rng.Intn(2)]
	}
	// the session's own statements
	g := proxyrig.NewMySessGen(rng, work)
	var working []*stmt
	nWork := 9 + rng.Intn(9)
	for i := 0; i < nWork; i++ {
		var ms proxyrig.MyStep
		if i < 3 {
			ms = g.Insert()
		} else {
			ms = g.Next()
		}
		s := fromStep(ms)
		if !parses(s.canon) {
			r.Count("mysql_rig_statement_refused_by_parser", 1)
			continue
		}
		if mode == "allowlist" && !ruleable(s.canon) {
			r.Count("mysql_rig_statement_not_expressible_as_rule", 1)
			continue
		}
		working = append(working, s)
		if p.client == "raw" && i >= 3 && i%5 == 4 {
			// a statement whose parameters all belong to unconfigured columns, for COM_STMT_SEND_LONG_DATA
			t := work[rng.Intn(len(work))]
			if ids := g.IDs[t.Name]; len(ids) > 0 {
				blob := append([]byte(fmt.Sprintf("LONGDATA%08x", rng.Uint32())), gen.Bytes(rng, 150+rng.Intn(2500))...)
				ls := &stmt{src: "rig", kind: "update", table: t.Name, canon: "update " + t.Name + " set raw = ? where id = ?", args: []interface{}{blob, int64(ids[rng.Intn(len(ids))])}, argCols: []string{"raw", "id"}, unprotLong: true}
				if mode != "allowlist" || ruleable(ls.canon) {
					working = append(working, ls)
				}
			}
		}
	}
	// every scripted session has SELECTs with parameters (the only SELECTs that can go through EXECUTE(-1))
	if p.client == "raw" {
		have := 0
		for _, s := range working {
			if s.kind == "select" && len(s.args) > 0 {
				have++
			}
		}
		for try := 0; have < 2 && try < 12; try++ {
			s := fromStep(g.Select())
			if len(s.args) == 0 || !parses(s.canon) || (mode == "allowlist" && !ruleable(s.canon)) {
				continue
			}
			working = append(working, s)
			have++
		}
	}
	// candidates for the pool of statements that are rejected by construction
	var cand []*stmt
	gr := proxyrig.NewMySessGen(gen.New(rng.Int63(), "pool"), p.tables)
	if mode == "deny-table" {
		gr = proxyrig.NewMySessGen(gen.New(rng.Int63(), "pool"), p.tables[1:])
	}
	for i := 0; i < 12; i++ {
		var ms proxyrig.MyStep
		switch {
		case mode == "deny-table" && i%2 == 0:
			ms = gr.Insert()
		case mode == "deny-table":
			ms = gr.Select()
		case mode == "deny-kind" && pol.deniedKind == "delete":
			ms = gr.Delete()
		case mode == "deny-kind":
			ms = gr.Update()
		case i < 2:
			ms = gr.Insert()
		case i < 5:
			ms = gr.Select()
		default:
			ms = gr.Next()
		}
		s := fromStep(ms)
		if parses(s.canon) && ruleable(s.canon) {
			cand = append(cand, s)
		}
	}
	// the censor-layer case: configuration (used as chain behind the prefix) and inputs
	var chain *c05.Config
	var inputs []c05.Input
	for try := 0; try < 12; try++ {
		ci := sidx*12 + try
		cfg, ins := wl.Case(ci, 14)
		if try == 0 {
			inputs = ins
		}
		if mode == "allowlist" {
			chain = &c05.Config{IgnoreParseError: cfg.IgnoreParseError, OmitParseFlag: cfg.OmitParseFlag}
			break
		}
		if chainAdmits(cfg, wl, p.tables[0].Name) {
			chain, inputs, pol.chainCase = cfg, ins, ci
			break
		}
	}
	if chain == nil {
		chain = &c05.Config{OmitParseFlag: true}
	}
	full := &c05.Config{IgnoreParseError: chain.IgnoreParseError, OmitParseFlag: chain.OmitParseFlag}
	qrule := func(s *stmt) c05.Rule { return c05.Rule{Kind: "query", Text: s.canon, SrcID: -1} }
	switch mode {
	case "deny-table":
		full.Handlers = append(full.Handlers, c05.Handler{Kind: "deny", Tables: []c05.Rule{{Kind: "table", Text: pol.deniedTable, SrcID: -1}}})
	case "deny-query":
		h := c05.Handler{Kind: "deny"}
		for _, s := range cand {
			h.Queries = append(h.Queries, qrule(s))
		}
		full.Handlers = append(full.Handlers, h)
	case "deny-kind":
		if rule, ok := wholeKindPattern(wl, pol.deniedKind); ok {
			full.Handlers = append(full.Handlers, c05.Handler{Kind: "deny", Patterns: []c05.Rule{rule}})
		}
	case "allowlist":
		h := c05.Handler{Kind: "allow"}
		seen := map[string]bool{}
		for _, s := range working {
			if !seen[s.canon] {
				seen[s.canon] = true
				h.Queries = append(h.Queries, qrule(s))
			}
		}
		full.Handlers = append(full.Handlers, h, c05.Handler{Kind: "denyall"})
	}
	pol.prefixLen = len(full.Handlers)
	full.Handlers = append(full.Handlers, chain.Handlers...)
	pol.cfg = full
	pol.yaml = string(full.YAML(censorVersion))
	// expected decisions, spellings, pool
	for _, s := range working {
		s.exp = expectRig(full, wl, s)
		s.text = variant(rng, s.canon)
	}
	for _, s := range cand {
		s.exp = expectRig(full, wl, s)
		s.text = variant(rng, s.canon)
		if s.exp.Decided && !s.exp.Accept {
			s.pool = true
			p.pool = append(p.pool, s)
		}
	}
	var cg []*stmt
	for _, in := range inputs {
		s := &stmt{in: in}
		if in.S != nil {
			s.src, s.kind, s.canon = "censorgen", in.S.Kind, in.S.Canon
			s.text = in.Text(rng.Intn(censorgen.NVariants))
			if sc := cannedReply(s.kind); sc != nil {
				p.scripts[s.text] = sc
			}
		} else {
			s.src, s.kind, s.canon, s.text = "unparseable", "unparseable", in.Raw, in.Raw
		}
		s.exp = wl.Expect(full, in)
		cg = append(cg, s)
		if s.exp.Decided && !s.exp.Accept {
			ps := *s
			ps.pool = true
			p.pool = append(p.pool, &ps)
		}
	}
	// units: the session's own statements in their order, the censor-layer inputs at random places
	nLast := 0
	for _, s := range working {
		p.nUnits++
		var shape string
		switch {
		case s.unprotLong:
			shape = []string{"PLD", "PLR"}[rng.Intn(2)]
		default:
			preferLast := p.client == "raw" && (s.hasProtectedArgs() || (s.kind == "select" && len(s.args) > 0)) && nLast < 4 && rng.Intn(2) == 0
			shape = pickShape(rng, s, p.client, preferLast)
			if strings.HasPrefix(shape, "PL") {
				nLast++
			}
		}
		p.backlog = append(p.backlog, newUnit(p.nUnits, s, shape))
	}
	for _, s := range cg {
		p.nUnits++
		u := newUnit(p.nUnits, s, pickShape(rng, s, p.client, false))
		at := len(p.backlog)
		if at > 2 {
			at = 2 + rng.Intn(len(p.backlog)-1)
		}
		p.backlog = append(p.backlog[:at], append([]*unit{u}, p.backlog[at:]...)...)
	}
	return p
}

var _ = fakepg.Int4
