package c16

import (
	"fmt"
	"path/filepath"
	"strings"
	"sync"
	"sync/atomic"
	"time"

	acracensor "github.com/cossacklabs/acra/acra-censor"

	"verif/harness/internal/gen"
	"verif/harness/internal/rig/sqlgen"
)

// Burst workload. The writer behind `parse_errors_log` and the `query_capture` handler (common.QueryWriter) takes
// statements through a bounded queue that a background goroutine drains; when the queue is full the statement is
// dropped and a warning is logged. The ordinary phases never fill that queue. Here several thousand DISTINCT statements
// are sent as fast as possible from several goroutines (the drain compares each new statement with all it already
// holds, so it falls behind a burst by itself): unparseable ones to a firewall with parse_errors_log, parseable ones to
// a firewall with query_capture. The oracle is the ordinary one — no marker, and no long token of an unparseable
// statement, in any captured log entry; the burst is only the workload. It counts as run only if the overflow
// warning of the writer was actually captured (guard).

const (
	litIdentifier sqlgen.LitKind = "identifier-of-unparseable-statement"
	burstWorkers                 = 8
)

// burstUnparseable builds n distinct statements the parser rejects, each with marker literals (at least one inside the
// first 60 bytes) and a table identifier that is registered as a token of its own.
func (m *monitor) burstUnparseable(d sqlgen.Dialect, rng *gen.Rand, n int) []stmtCase {
	src := m.reg.source()
	lit := func(want string) string {
		_, sp, _ := src(sqlgen.LitRequest{Dialect: d, Slot: "burst-unparseable", Want: want, Rand: rng})
		return sp
	}
	ident := func() string {
		m.reg.mu.Lock()
		mk := fmt.Sprintf("MK%016x", m.reg.next()*0x9e3779b97f4a7c15)
		m.reg.add(mk, markerInfo{Kind: litIdentifier, Slot: "burst-unparseable/table-name", Judged: true, Part: "whole"})
		m.reg.mu.Unlock()
		return "tb_" + mk
	}
	templates := []struct{ name, text string }{
		{"misspelled-from", "select {s} frm {t} where a = {n} and b = {s}"},
		{"unclosed-values", "insert into {t} (a, b) values ({s}, {n}"},
		{"misspelled-where", "update {t} set a = {s} wher b = {n}"},
		{"double-operator", "delete from {t} where id = = {n} and c = {s}"},
		{"literal-first", "{s} select a from {t} where b = {n}"},
		{"misspelled-verb", "selec a, {n} from {t} where a = {s}"},
		{"number-first", "{n} , {s} into {t} values"},
	}
	g := sqlgen.New(m.r.Seed, "c16-burst-unparseable", d, sqlgen.Options{Literals: src})
	var out []stmtCase
	for i := 0; len(out) < n && i < 3*n; i++ {
		var text, origin string
		var st *sqlgen.Stmt
		if i%3 == 2 {
			// a generated statement, damaged (realistic shapes, markers anywhere)
			st = g.Next()
			var damage string
			text, damage = sqlgen.Break(rng, d, st.Text)
			origin = "burst:damaged:" + damage
		} else {
			tpl := templates[rng.Intn(len(templates))]
			var sb strings.Builder
			for rest := tpl.text; rest != ""; {
				i := strings.IndexByte(rest, '{')
				if i < 0 {
					sb.WriteString(rest)
					break
				}
				sb.WriteString(rest[:i])
				switch rest[i : i+3] {
				case "{s}":
					sb.WriteString(lit("string"))
				case "{n}":
					sb.WriteString(lit("number"))
				default:
					sb.WriteString(ident())
				}
				rest = rest[i+3:]
			}
			text = sb.String()
			origin = "burst:template:" + tpl.name
			st = &sqlgen.Stmt{Dialect: d, Kind: "burst"}
		}
		if !rejected(text) {
			m.r.Count("burst_statement_still_accepted_by_parser(dropped)", 1)
			continue
		}
		out = append(out, stmtCase{st: st, text: text, origin: origin, d: d})
	}
	return out
}

type burstResult struct {
	sent, overflow, firstAt int64
	hits                    []logHit
	entries                 int64
}

// burst sends the statements through one censor from burstWorkers goroutines as fast as possible.
func (m *monitor) burst(cfg censorCfg, cases []stmtCase, format string, level int) (res burstResult, ok bool) {
	r := m.r
	c := acracensor.NewAcraCensor()
	if err := c.LoadConfiguration([]byte(cfg.yaml)); err != nil {
		r.Violation("non-vacuity:censor-config:"+cfg.name, map[string]interface{}{"error": err.Error(), "yaml": cfg.yaml})
		return res, false
	}
	m.setLogging(format, level)
	m.cap.drain()
	m.cap.mu.Lock()
	m.cap.entries, m.cap.bytes = 0, 0
	m.cap.mu.Unlock()
	var sent int64
	m.cap.watchOverflow(&sent)
	var wg sync.WaitGroup
	for w := 0; w < burstWorkers; w++ {
		wg.Add(1)
		go func(w int) {
			defer wg.Done()
			for i := w; i < len(cases); i += burstWorkers {
				text := cases[i].text
				safely(r, "HandleQuery:"+cfg.name, text, func() { _ = c.HandleQuery(text) })
				atomic.AddInt64(&sent, 1)
			}
		}(w)
	}
	wg.Wait()
	c.ReleaseAll()
	res.hits, _, _ = m.cap.drain()
	m.cap.mu.Lock()
	res.entries = m.cap.entries
	r.Count("log_entries_captured", m.cap.entries)
	r.Count("log_bytes_captured", m.cap.bytes)
	m.cap.entries, m.cap.bytes = 0, 0
	m.cap.mu.Unlock()
	res.sent = sent
	res.overflow, res.firstAt = m.cap.watchOverflow(nil)
	return res, true
}

// burstPhase runs the bursts of one dialect.
func (m *monitor) burstPhase(d sqlgen.Dialect, di int, dir string) {
	r := m.r
	t0 := time.Now()
	lap := func(what string) {
		r.Extra(fmt.Sprintf("burst_wall_s_%s_%s", d, what), time.Since(t0).Seconds()) // informational only
		t0 = time.Now()
	}
	rng := gen.New(r.Seed, "c16-burst-"+d.String())
	pick := int(r.Seed) + di
	if pick < 0 {
		pick = -pick
	}
	// --- unparseable statements -> parse_errors_log ------------------------------------------------
	parseErrCfgs := []censorCfg{
		{"burst:parse-errors-log+allowall", "version: 0.85.0\nignore_parse_error: false\nparse_errors_log: " + filepath.Join(dir, "burst-unparsed-1.log") + "\nhandlers:\n  - handler: allowall\n"},
		{"burst:ignore-parse-errors+log+deny-tables", "version: 0.85.0\nignore_parse_error: true\nparse_errors_log: " + filepath.Join(dir, "burst-unparsed-2.log") + "\nhandlers:\n  - handler: deny\n    tables:\n      - orders\n"},
	}
	if !r.Thorough() {
		parseErrCfgs = parseErrCfgs[pick%2 : pick%2+1]
	}
	for ci, cfg := range parseErrCfgs {
		bad := m.burstUnparseable(d, rng, r.Pick(16000, 40000))
		f, l := formats[(pick+ci)%3], levels[(pick+ci)%2]
		lap("generate-unparseable")
		res, ok := m.burst(cfg, bad, f, l.l)
		lap("burst-unparseable")
		if !ok {
			continue
		}
		r.Count("burst_unparseable_statements_sent", res.sent)
		r.Count("unparseable_statements_sent", res.sent)
		r.Count("burst_overflow_warnings_captured:parse_errors_log", res.overflow)
		if res.overflow > 0 {
			r.Count("bursts_that_overflowed_the_writer_queue:parse_errors_log", 1)
			r.Distinct(fmt.Sprintf("burst|%s|%s|%s|%s|overflowed", d, cfg.name, f, l.name))
			r.SetAdd("log_capture_classes", fmt.Sprintf("%s|%s|%s|%s|burst-overflow", d, cfg.name, f, l.name))
		}
		r.Extra(fmt.Sprintf("burst_%s_%s", d, cfg.name), map[string]interface{}{"statements_sent": res.sent, "overflow_warnings_captured": res.overflow,
			"statements_sent_when_first_overflow_warning_was_logged": res.firstAt, "log_entries_captured": res.entries, "formatter": f, "level": l.name})
		for i := 0; i < 2 && i < len(bad); i++ {
			r.SampleN("burst-unparseable-"+d.String(), 2, map[string]interface{}{"dialect": d.String(), "configuration": cfg.name, "unparseable_statement": bad[i].text, "origin": bad[i].origin,
				"statements_in_burst": res.sent, "overflow_warnings_captured": res.overflow})
		}
		for range bad {
			r.Case()
		}
		seen := map[string]int{}
		for _, h := range res.hits {
			if !h.Info.Judged {
				r.Count("unjudged_hex_or_bit_literal_seen_in:log-of-unparseable", 1)
				continue
			}
			what := "literal=" + string(h.Info.Kind)
			if h.Info.Kind == litIdentifier {
				what = "token-kind=identifier"
			}
			where := "unparseable statement shows up in a log entry: dialect=" + d.String() + " statement=dml-or-other " + what
			if h.message != "" {
				where += " message=" + h.message
			}
			where += " workload=burst-overflowing-the-parse_errors_log-writer"
			if seen[where]++; seen[where] > 20 {
				continue // the same signature: enough witnesses
			}
			r.Violation(where, map[string]interface{}{"marker": h.Token, "via": h.via, "formatter": f, "level": l.name, "configuration": cfg.name,
				"statements_in_burst": res.sent, "overflow_warnings_captured": res.overflow})
		}
	}
	// --- parseable statements -> query_capture (quick: one dialect per run, chosen by the seed) ---------
	if !r.Thorough() && (int(r.Seed)+di)%2 != 0 {
		return
	}
	capCfg := censorCfg{"burst:query_capture+allowall", "version: 0.85.0\nhandlers:\n  - handler: query_capture\n    filepath: " + filepath.Join(dir, "burst-capture.log") + "\n  - handler: allowall\n"}
	g := sqlgen.New(r.Seed, "c16-burst-parseable", d, sqlgen.Options{Literals: m.reg.source()})
	n := r.Pick(16000, 30000)
	good := make([]stmtCase, 0, n)
	for i := 0; i < n; i++ {
		st := g.Next()
		good = append(good, stmtCase{st: st, text: st.Text, origin: "burst:gen", d: d})
	}
	f, l := formats[(pick+2)%3], levels[(pick+1)%2]
	lap("generate-parseable")
	res, ok := m.burst(capCfg, good, f, l.l)
	lap("burst-parseable")
	if !ok {
		return
	}
	r.Count("burst_parseable_statements_sent", res.sent)
	r.Count("handlequery_calls", res.sent)
	r.Count("burst_overflow_warnings_captured:query_capture", res.overflow)
	if res.overflow > 0 {
		r.Count("bursts_that_overflowed_the_writer_queue:query_capture", 1)
		r.Distinct(fmt.Sprintf("burst|%s|%s|%s|%s|overflowed", d, capCfg.name, f, l.name))
		r.SetAdd("log_capture_classes", fmt.Sprintf("%s|%s|%s|%s|burst-overflow", d, capCfg.name, f, l.name))
	}
	r.Extra(fmt.Sprintf("burst_%s_%s", d, capCfg.name), map[string]interface{}{"statements_sent": res.sent, "overflow_warnings_captured": res.overflow,
		"statements_sent_when_first_overflow_warning_was_logged": res.firstAt, "log_entries_captured": res.entries, "formatter": f, "level": l.name})
	for range good {
		r.Case()
	}
	for _, h := range res.hits {
		m.leak("log entry contains statement literal: dialect="+d.String(), h.hit, map[string]interface{}{"via": h.via, "formatter": f, "level": l.name, "message_template": h.message,
			"workload": "burst overflowing the query_capture writer", "configuration": capCfg.name})
	}
}
