// Package c16 monitors "literal values from statements never appear in logs".
//
// Events: (a) the redacted strings returned by sqlparser.RedactSQLQuery and Parser.HandleRawSQLQuery; (b) every log
// entry produced while a statement travels through AcraCensor.HandleQuery, captured by a logrus hook on the standard
// logger and by replacing its output writer, for the text / JSON / CEF formatters at levels info and debug.
// Oracles are described in notes/c16.md.
package c16

import (
	"fmt"
	"io"
	"os"
	"path/filepath"
	"reflect"
	"regexp"
	"runtime/debug"
	"strings"
	"sync"
	"sync/atomic"

	"github.com/sirupsen/logrus"

	acracensor "github.com/cossacklabs/acra/acra-censor"
	"github.com/cossacklabs/acra/logging"
	"github.com/cossacklabs/acra/sqlparser"
	mysqld "github.com/cossacklabs/acra/sqlparser/dialect/mysql"
	pgd "github.com/cossacklabs/acra/sqlparser/dialect/postgresql"

	"verif/harness/internal/ev"
	"verif/harness/internal/gen"
	"verif/harness/internal/props"
	"verif/harness/internal/rig/ksrig"
	"verif/harness/internal/rig/sqlgen"
)

func init() { props.Register("C16", props.Monitor{Level: "exploration", Run: Run}) }

// ProxyLayer, when set, is called at the end of Run: the lead plugs the wire-proxy log capture in here.
var ProxyLayer func(r *ev.Run)

const workers = 8

func setDialect(d sqlgen.Dialect) {
	if d == sqlgen.PostgreSQL {
		sqlparser.SetDefaultDialect(pgd.NewPostgreSQLDialect())
	} else {
		sqlparser.SetDefaultDialect(mysqld.NewMySQLDialect())
	}
}

// ---- shape: skeleton of a statement with every value position made anonymous ----

var sqlValPtr = reflect.TypeOf(&sqlparser.SQLVal{})

// anonymise replaces, in place, every literal / placeholder leaf by the same placeholder and every IN-list made
// only of such leaves (or a list bind variable) by the same list placeholder. It reaches every exported field by
// reflection, so it does not depend on the tree walker under test.
func anonymise(v reflect.Value, depth int) {
	if depth > 100 || !v.IsValid() {
		return
	}
	switch v.Kind() {
	case reflect.Interface:
		if v.IsNil() {
			return
		}
		anonymise(v.Elem(), depth+1)
	case reflect.Ptr:
		if v.IsNil() {
			return
		}
		if v.Type() == sqlValPtr && v.CanInterface() {
			sv := v.Interface().(*sqlparser.SQLVal)
			if sv.Type != sqlparser.UnknownVal {
				sv.Type = sqlparser.ValArg
				sv.Val = []byte(":v1")
			}
			return
		}
		if !v.CanInterface() {
			return
		}
		if c, ok := v.Interface().(*sqlparser.ComparisonExpr); ok {
			if c.Operator == sqlparser.InStr || c.Operator == sqlparser.NotInStr {
				switch r := c.Right.(type) {
				case sqlparser.ListArg:
					c.Right = sqlparser.ListArg("::l")
				case sqlparser.ValTuple:
					all := len(r) > 0
					for _, e := range r {
						if sv, ok := e.(*sqlparser.SQLVal); !ok || sv.Type == sqlparser.UnknownVal {
							all = false
						}
					}
					if all {
						c.Right = sqlparser.ListArg("::l")
					}
				}
			}
		}
		anonymise(v.Elem(), depth+1)
	case reflect.Struct:
		t := v.Type()
		for i := 0; i < v.NumField(); i++ {
			if t.Field(i).PkgPath != "" {
				continue
			}
			anonymise(v.Field(i), depth+1)
		}
	case reflect.Slice:
		if v.Type().Elem().Kind() == reflect.Uint8 {
			return
		}
		for i := 0; i < v.Len(); i++ {
			anonymise(v.Index(i), depth+1)
		}
	}
}

// reIntervalPlaceholder: PostgreSQL "interval '1 day'" is redacted to "interval :replaced1". Acra's grammar wants a quoted
// string after INTERVAL, so that text is not accepted again, but the property asks that the shape is kept, not that the
// redacted text is grammatical: for the shape comparison the placeholder is given back a string spelling.
var reIntervalPlaceholder = regexp.MustCompile(`\binterval :replaced[0-9]+`)

func skeleton(sql string) (string, sqlparser.Statement, error) {
	t, err := sqlparser.New(sqlparser.ModeStrict).Parse(sql)
	if err != nil {
		return "", nil, err
	}
	anonymise(reflect.ValueOf(t), 0)
	return sqlparser.String(t), t, nil
}

// ---- log capture ----

type logHit struct {
	hit
	via, message string
}

type capture struct {
	reg     *registry
	mu      sync.Mutex
	entries int64
	bytes   int64
	hits    []logHit
	texts   []string // messages and field values seen (kept only while collecting a baseline)
	keep    bool
	lines   []string // formatted output lines (kept only for the unparseable-token check)
	// burst workload: number of queue-full warnings of the query writer seen since watchOverflow(sent) was called
	overflow, firstOverflowAtSent int64
	sent                          *int64
}

// watchOverflow starts counting the query writer's queue-full warnings (sent = counter of statements sent so far, read when
// the first warning arrives); called with nil it stops and returns (warnings seen, statements sent at the first warning).
func (c *capture) watchOverflow(sent *int64) (n, firstAt int64) {
	c.mu.Lock()
	defer c.mu.Unlock()
	n, firstAt = c.overflow, c.firstOverflowAtSent
	c.overflow, c.firstOverflowAtSent, c.sent = 0, 0, sent
	return
}

// isQueueFullWarning recognises the writer's queue-full entry: a WARNING of the logger that carries
// internal_object=querywriter (or, should the field be renamed, the message as worded today).
func isQueueFullWarning(e *logrus.Entry) bool {
	return e.Level == logrus.WarnLevel && (fmt.Sprint(e.Data["internal_object"]) == "querywriter" || strings.HasPrefix(e.Message, "Too much input queries"))
}

func (c *capture) Levels() []logrus.Level { return logrus.AllLevels }

func messageTemplate(m string) string {
	if i := strings.IndexAny(m, ":'\""); i > 0 {
		m = m[:i]
	}
	f := strings.Fields(m)
	if len(f) > 6 {
		f = f[:6]
	}
	return strings.Join(f, " ")
}

func (c *capture) Fire(e *logrus.Entry) error {
	c.mu.Lock()
	c.entries++
	if c.keep {
		c.texts = append(c.texts, e.Message)
	}
	if c.sent != nil && isQueueFullWarning(e) {
		if c.overflow++; c.overflow == 1 {
			c.firstOverflowAtSent = atomic.LoadInt64(c.sent)
		}
	}
	c.mu.Unlock()
	tpl := messageTemplate(e.Message)
	for _, h := range c.reg.scan(e.Message) {
		c.add(logHit{h, "hook:message", tpl})
	}
	for k, v := range e.Data {
		s := fmt.Sprint(v)
		if c.keep {
			c.mu.Lock()
			c.texts = append(c.texts, s)
			c.mu.Unlock()
		}
		for _, h := range c.reg.scan(s) {
			c.add(logHit{h, "hook:field:" + k, tpl})
		}
	}
	return nil
}

func (c *capture) Write(p []byte) (int, error) {
	s := string(p)
	c.mu.Lock()
	c.bytes += int64(len(p))
	if c.keep {
		c.lines = append(c.lines, s)
	}
	c.mu.Unlock()
	for _, h := range c.reg.scan(s) {
		c.add(logHit{h, "writer", ""})
	}
	return len(p), nil
}

func (c *capture) add(h logHit) {
	c.mu.Lock()
	if len(c.hits) < 200000 {
		c.hits = append(c.hits, h)
	}
	c.mu.Unlock()
}

func (c *capture) drain() (hits []logHit, texts, lines []string) {
	c.mu.Lock()
	hits, texts, lines = c.hits, c.texts, c.lines
	c.hits, c.texts, c.lines = nil, nil, nil
	c.mu.Unlock()
	return
}

// ---- censor configurations ----

type censorCfg struct {
	name string
	yaml string
}

func censorConfigs(dir string) []censorCfg {
	capFile := func(n string) string { return filepath.Join(dir, n) }
	return []censorCfg{
		{"allowall", "version: 0.85.0\nhandlers:\n  - handler: allowall\n"},
		{"denyall", "version: 0.85.0\nhandlers:\n  - handler: denyall\n"},
		{"allow-tables+denyall", "version: 0.85.0\nhandlers:\n  - handler: allow\n    tables:\n      - users\n      - orders\n      - t\n  - handler: denyall\n"},
		{"deny-tables+allowall", "version: 0.85.0\nhandlers:\n  - handler: deny\n    tables:\n      - orders\n      - logs\n  - handler: allowall\n"},
		{"allow-patterns+denyall", "version: 0.85.0\nhandlers:\n  - handler: allow\n    patterns:\n      - \"%%SELECT%%\"\n      - \"insert into users (id, name) values (%%VALUE%%, %%VALUE%%)\"\n      - \"select * from t where a in (%%LIST_OF_VALUES%%)\"\n      - \"update t set a = %%VALUE%% %%WHERE%%\"\n  - handler: denyall\n"},
		{"deny-patterns+allowall", "version: 0.85.0\nhandlers:\n  - handler: deny\n    patterns:\n      - \"%%INSERT%%\"\n      - \"%%DELETE%%\"\n      - \"select * from users %%WHERE%%\"\n  - handler: allowall\n"},
		{"deny-queries+allow-queries", "version: 0.85.0\nhandlers:\n  - handler: deny\n    queries:\n      - select 1 from dual\n      - delete from t\n  - handler: allow\n    queries:\n      - select 2 from dual\n"},
		{"query_capture+allowall", "version: 0.85.0\nhandlers:\n  - handler: query_capture\n    filepath: " + capFile("capture-1.log") + "\n  - handler: allowall\n"},
		{"query_capture+deny-tables", "version: 0.85.0\nhandlers:\n  - handler: query_capture\n    filepath: " + capFile("capture-2.log") + "\n  - handler: deny\n    tables:\n      - users\n      - t\n"},
		{"query_ignore+denyall", "version: 0.85.0\nhandlers:\n  - handler: query_ignore\n    queries:\n      - ROLLBACK\n      - COMMIT\n      - select 1 from dual\n  - handler: denyall\n"},
		{"ignore-parse-errors+log+allow-tables+denyall", "version: 0.85.0\nignore_parse_error: true\nparse_errors_log: " + capFile("unparsed-1.log") + "\nhandlers:\n  - handler: allow\n    tables:\n      - users\n      - t\n  - handler: denyall\n"},
		{"parse-errors-log+allowall", "version: 0.85.0\nignore_parse_error: false\nparse_errors_log: " + capFile("unparsed-2.log") + "\nhandlers:\n  - handler: allowall\n"},
		{"ignore-parse-errors+allowall", "version: 0.85.0\nignore_parse_error: true\nhandlers:\n  - handler: allowall\n"},
	}
}

type censor struct {
	cfg censorCfg
	c   *acracensor.AcraCensor
}

func buildCensors(r *ev.Run, dir string) []censor {
	var out []censor
	for _, cfg := range censorConfigs(dir) {
		c := acracensor.NewAcraCensor()
		if err := c.LoadConfiguration([]byte(cfg.yaml)); err != nil {
			r.Violation("non-vacuity:censor-config:"+cfg.name, map[string]interface{}{"error": err.Error(), "yaml": cfg.yaml})
			continue
		}
		out = append(out, censor{cfg, c})
	}
	return out
}

// ---- run ----

type stmtCase struct {
	st     *sqlgen.Stmt
	text   string
	origin string
	d      sqlgen.Dialect
}

type monitor struct {
	r   *ev.Run
	reg *registry
	cap *capture
}

// position names the syntactic position of a literal for a violation signature: the clause that decides whether
// the tree walker reaches it, by construction of the statement (never by what Acra printed). PostgreSQL escape
// strings are named by their spelling alone: they survive at every position.
func position(kind sqlgen.LitKind, slot string) string {
	if kind == sqlgen.LitEscape {
		return "any"
	}
	el := strings.Split(slot, "/")
	has := func(x string) bool {
		for _, e := range el {
			if e == x {
				return true
			}
		}
		return false
	}
	switch {
	case strings.HasSuffix(slot, "func-arg/separator"):
		return "group-concat-separator"
	case has("returning"):
		return "returning"
	case has("update-from"):
		return "update-from"
	case has("execute-values"), has("show-like"), has("ddl-default"), has("ddl-comment"):
		return el[0]
	case len(el) >= 2 && el[len(el)-2] == "union" && (el[len(el)-1] == "order-by" || el[len(el)-1] == "limit" || el[len(el)-1] == "offset"):
		return "union-level-" + el[len(el)-1]
	case has("union"):
		return "union-level-order-by" // expression inside the union's own ORDER BY
	}
	return slot
}

func (m *monitor) leak(where string, h hit, detail map[string]interface{}) {
	if !h.Info.Judged {
		m.r.Count("unjudged_hex_or_bit_literal_seen_in:"+where, 1)
		m.r.SetAdd("unjudged_literal_kinds_observed_unredacted", string(h.Info.Kind))
		return
	}
	detail["marker"] = h.Token
	detail["literal_kind"] = string(h.Info.Kind)
	detail["slot"] = h.Info.Slot
	detail["part"] = h.Info.Part
	kind := string(h.Info.Kind)
	if strings.HasSuffix(h.Info.Part, "unrepresentable") {
		kind += "(not-representable-as-a-go-number)"
	}
	m.r.Violation(fmt.Sprintf("%s literal=%s position=%s", where, kind, position(h.Info.Kind, h.Info.Slot)), detail)
}

// Run is the C16 monitor.
func Run(r *ev.Run) {
	r.Rule = "cases = statements of both dialect modes with a unique marker at every literal position (seeded grammar-based generator of rig/sqlgen with a marker LiteralSource; plus fixed shapes for EXECUTE / PREPARE / SHOW / DDL / SET), each (a) redacted through RedactSQLQuery and HandleRawSQLQuery (strict and default parser modes) and (b) sent through AcraCensor.HandleQuery under every firewall configuration x {text, json, cef} formatter x {info, debug} level with all log entries captured; " +
		"plus damaged (unparseable) variants of the same statements and the invalid statements of Acra's parser tests. A case is non-trivial when the statement was accepted (resp. rejected, for the unparseable set) and all its markers were looked for; distinct = (dialect, statement kind, literal kind, slot) for redaction, (configuration, formatter, level, outcome) for log capture, (damage kind, entry point) for unparseable statements"
	r.Assumptions = []string{
		"judged literal spellings are exactly the ones the property names: '..', E'..' (PostgreSQL), \"..\" (MySQL), integers, decimals, exponents, negative numbers; hex / bit literals are generated and their survival is reported in evidence but not judged",
		"quoted identifiers, aliases, charset names and type lengths are not literal values and carry no markers",
		"the query-capture file and the parse-error file an operator may configure are exempt by the property; they are written to scratch paths that are not scanned",
		"log capture is in-process on logrus' standard logger (the logger every Acra component logs through); the wire-proxy layer is added through ProxyLayer by the lead",
		"tokenizer verbosity (SetTokenizerVerbosity) stays at its default (off)",
	}
	reg := newRegistry()
	m := &monitor{r: r, reg: reg, cap: &capture{reg: reg}}
	std := logrus.StandardLogger()
	oldOut, oldLevel, oldFmt, oldHooks := std.Out, std.GetLevel(), std.Formatter, std.ReplaceHooks(make(logrus.LevelHooks))
	defer func() {
		std.ReplaceHooks(oldHooks)
		logrus.SetOutput(oldOut)
		logrus.SetLevel(oldLevel)
		logrus.SetFormatter(oldFmt)
		setDialect(sqlgen.MySQL)
	}()
	if os.Getenv("VERIF_LOGS") != "" {
		logrus.SetOutput(io.MultiWriter(m.cap, os.Stderr))
	} else {
		logrus.SetOutput(m.cap)
	}
	logrus.AddHook(m.cap)
	dir := ksrig.ScratchDir("c16")
	for _, d := range []sqlgen.Dialect{sqlgen.MySQL, sqlgen.PostgreSQL} {
		setDialect(d)
		sub := filepath.Join(dir, d.String())
		_ = os.MkdirAll(sub, 0o755)
		m.runDialect(d, sub)
	}
	// non-vacuity
	r.RequireAtLeast("statements_redacted", int64(r.Pick(4500, 220000)))
	r.RequireAtLeast("markers_looked_for_in_redacted_forms", int64(r.Pick(30000, 1200000)))
	r.RequireAtLeast("shape_checked", int64(r.Pick(4000, 200000)))
	r.RequireAtLeast("handlequery_calls", int64(r.Pick(60000, 2000000)))
	r.RequireAtLeast("handlequery_allowed", 10000)
	r.RequireAtLeast("handlequery_denied", 10000)
	r.RequireAtLeast("log_entries_captured", int64(r.Pick(60000, 2000000)))
	r.RequireAtLeast("log_bytes_captured", 1000000)
	r.RequireAtLeast("unparseable_statements_sent", int64(r.Pick(1500, 12000)))
	r.RequireSetAtLeast("log_capture_classes", 100)
	r.RequireSetAtLeast("judged_literal_kinds_checked", 9)
	r.RequireSetAtLeast("slots_checked", 30)
	// the burst workload counts only if the writer's queue really overflowed (its warning was captured), per dialect
	r.RequireAtLeast("bursts_that_overflowed_the_writer_queue:parse_errors_log", int64(r.Pick(2, 4)))
	r.RequireAtLeast("bursts_that_overflowed_the_writer_queue:query_capture", int64(r.Pick(1, 2)))
	if ProxyLayer != nil {
		ProxyLayer(r)
	}
}

var formats = []string{logging.PlaintextFormatString, logging.JSONFormatString, logging.CefFormatString}
var levels = []struct {
	name string
	l    int
}{{"info", logging.LogVerbose}, {"debug", logging.LogDebug}}

func (m *monitor) runDialect(d sqlgen.Dialect, dir string) {
	r := m.r
	n := r.Pick(5000, 240000) / 2
	// statements are generated sequentially (markers and texts are a pure function of the seed)
	g := sqlgen.New(r.Seed, "c16", d, sqlgen.Options{Literals: m.reg.source()})
	gDeep := sqlgen.New(r.Seed, "c16-deep", d, sqlgen.Options{Literals: m.reg.source(), MaxDepth: 4})
	rng := gen.New(r.Seed, "c16-extra-"+d.String())
	const chunk = 12000
	censors := buildCensors(r, dir)
	defer func() {
		for _, c := range censors {
			c.c.ReleaseAll()
		}
	}()
	combo := 0
	for done := 0; done < n; {
		k := chunk
		if n-done < k {
			k = n - done
		}
		cases := make([]stmtCase, 0, k+64)
		for i := 0; i < k; i++ {
			var st *sqlgen.Stmt
			switch {
			case (done+i)%25 == 24:
				st = g.NextKind("set")
			case (done+i)%6 == 5:
				st = gDeep.Next()
			default:
				st = g.Next()
			}
			cases = append(cases, stmtCase{st: st, text: st.Text, origin: "gen", d: d})
		}
		if done == 0 {
			cases = append(cases, m.fixedShapes(d, rng)...)
		}
		m.redactionPhase(d, cases)
		// log capture: every statement under every configuration, one (formatter, level) combination per
		// slice; the first 240 statements of the dialect under all six combinations
		per := (len(cases) + 5) / 6
		for ci := 0; ci < 6; ci++ {
			f, l := formats[(combo+ci)%3], levels[((combo+ci)/3)%2]
			lo, hi := ci*per, (ci+1)*per
			if hi > len(cases) {
				hi = len(cases)
			}
			if lo < hi {
				m.logPhase(d, censors, cases[lo:hi], f, l.name, l.l)
			}
			if done == 0 {
				top := 240
				if top > len(cases) {
					top = len(cases)
				}
				m.logPhase(d, censors, cases[:top], f, l.name, l.l)
			}
		}
		combo++
		// unparseable variants of a part of the chunk
		m.unparseablePhase(d, censors, cases, rng, r.Pick(600, 6000)/((n+chunk-1)/chunk))
		done += k
	}
	m.harvestedInvalid(d, censors)
	di := 0
	if d == sqlgen.PostgreSQL {
		di = 1
	}
	m.burstPhase(d, di, dir)
}

// fixedShapes are parseable statements outside the generator's DML grammar that carry literals.
func (m *monitor) fixedShapes(d sqlgen.Dialect, rng *gen.Rand) []stmtCase {
	src := m.reg.source()
	lit := func(slot, want string) sqlgen.Literal {
		k, sp, v := src(sqlgen.LitRequest{Dialect: d, Slot: slot, Want: want, Rand: rng})
		return sqlgen.Literal{Kind: k, Slot: slot, Spelling: sp, Value: v}
	}
	var out []stmtCase
	add := func(kind, tpl string, slots ...string) {
		for rep := 0; rep < 6; rep++ {
			text := tpl
			var lits []sqlgen.Literal
			for _, s := range slots {
				want := "any"
				if strings.HasSuffix(s, ":str") {
					want, s = "single", strings.TrimSuffix(s, ":str")
				}
				if strings.HasSuffix(s, ":int") {
					want, s = "int", strings.TrimSuffix(s, ":int")
				}
				l := lit(s, want)
				l.Offset = strings.Index(text, "{}")
				text = strings.Replace(text, "{}", l.Spelling, 1)
				lits = append(lits, l)
			}
			out = append(out, stmtCase{st: &sqlgen.Stmt{Dialect: d, Text: text, Kind: kind, Literals: lits, Features: []string{"fixed-shape-" + kind}}, text: text, origin: "fixed", d: d})
		}
	}
	if d == sqlgen.PostgreSQL {
		add("execute", "execute stmt1 ({}, {})", "execute-values", "execute-values")
		add("prepare", "prepare p1 (int, text) as select * from users where id = $1 and name = {} limit {}", "prepare/where", "prepare/limit:int")
		add("update-from", "update users set name = {} from orders where orders.user_id = users.id and orders.note = {} returning {}", "set", "where", "returning")
		add("insert-returning", "insert into users (id, name) values ({}, {}) returning {}", "values", "values", "returning")
		add("delete-returning", "delete from users where id = {} returning {}", "where", "returning")
	} else {
		add("prepare", "prepare p1 from 'select * from users where id = ? and age > 5'")
		add("insert-set", "insert into users set name = {}, age = {} on duplicate key update age = {}", "set", "set", "on-dup")
		add("delete-multi", "delete a, b from users a join orders b on a.id = b.user_id and b.note = {} where a.name = {}", "join-on", "where")
		add("delete-using", "delete from a using users as a join orders on a.id = orders.user_id and orders.note = {} where a.name = {}", "join-on", "where")
	}
	add("show", "show tables like {}", "show-like:str")
	add("create-table", "create table tx (a int default {}, b varchar(20) default {} comment {})", "ddl-default:int", "ddl-default:str", "ddl-comment:str")
	add("set", "set @a = {}, @b = {}", "set", "set")
	add("union-order-limit", "select a from t where b = {} union select a from t where b = {} order by a + {} limit {}", "union/where", "union/where", "union/order-by", "union/limit:int")
	add("group-concat-separator", "select group_concat(a order by b separator {}) from t where c = {}", "func-arg/separator:str", "where")
	return out
}

// fragile names, by construction, the constructs of a generated statement whose printed form is known to be
// fragile (used only to key signatures).
func fragile(st *sqlgen.Stmt) string {
	var out []string
	for _, f := range st.Features {
		switch f {
		case "ident-embedded-quote", "interval-pg", "cast-varchar", "group-concat-separator":
			out = append(out, f)
		}
	}
	if len(out) == 0 {
		return "unknown"
	}
	return strings.Join(out, "+")
}

// openJoinBeforeOnDup recognises the statement shape of C13's known finding
// insert-select-parentheses-dropped-before-on-duplicate-key (the printer drops the parentheses around a SELECT that
// ends in a join without ON/USING and is followed by ON DUPLICATE KEY).
func openJoinBeforeOnDup(text string) bool {
	t, err := sqlparser.New(sqlparser.ModeStrict).Parse(strings.TrimSuffix(strings.TrimSpace(text), ";"))
	if err != nil {
		return false
	}
	ins, ok := t.(*sqlparser.Insert)
	if !ok || len(ins.OnDup) == 0 {
		return false
	}
	var last func(rows sqlparser.InsertRows) bool
	last = func(rows sqlparser.InsertRows) bool {
		switch v := rows.(type) {
		case *sqlparser.Union:
			if v.OrderBy != nil || v.Limit != nil || v.Lock != "" {
				return false
			}
			if right, ok := v.Right.(*sqlparser.Select); ok {
				return last(right)
			}
		case *sqlparser.Select:
			if v.Where != nil || v.GroupBy != nil || v.Having != nil || v.OrderBy != nil || v.Limit != nil || v.Lock != "" || len(v.From) == 0 {
				return false
			}
			j, ok := v.From[len(v.From)-1].(*sqlparser.JoinTableExpr)
			return ok && j.Condition.On == nil && j.Condition.Using == nil && !strings.HasPrefix(j.Join, "natural")
		}
		return false
	}
	return last(ins.Rows)
}

func safely(r *ev.Run, what string, text string, f func()) {
	defer func() {
		if p := recover(); p != nil {
			// a crash is C14's subject; recorded, not judged here
			r.Count("panics_observed_not_judged_here", 1)
			r.SetAdd("panic_sites_observed", what)
			r.SampleN("panic-"+what, 1, map[string]interface{}{"note": "panic observed (not a C16 verdict)", "where": what, "statement": text, "panic": fmt.Sprint(p), "stack": firstAcraFrame(string(debug.Stack()))})
		}
	}()
	f()
}

func firstAcraFrame(stack string) string {
	for _, ln := range strings.Split(stack, "\n") {
		if strings.HasPrefix(ln, "github.com/cossacklabs/acra/") {
			return ln
		}
	}
	return ""
}

// redactionPhase: oracle (a) on the strings returned by the redaction entry points + the shape oracle.
func (m *monitor) redactionPhase(d sqlgen.Dialect, cases []stmtCase) {
	r := m.r
	type res struct {
		ok            bool
		redacted      map[string]string
		shapeErr      string
		intervalCanon bool
		skOrig        string
		skRed         string
	}
	out := make([]res, len(cases))
	var wg sync.WaitGroup
	ch := make(chan int, 128)
	for w := 0; w < workers; w++ {
		wg.Add(1)
		go func() {
			defer wg.Done()
			for i := range ch {
				c := cases[i]
				safely(r, "redaction", c.text, func() {
					red := map[string]string{}
					if s, err := sqlparser.RedactSQLQuery(c.text); err == nil {
						red["RedactSQLQuery"] = s
					}
					for _, mode := range []sqlparser.Mode{sqlparser.ModeStrict, sqlparser.ModeDefault} {
						_, s, parsed, err := sqlparser.New(mode).HandleRawSQLQuery(c.text)
						if err == nil && parsed != nil {
							if _, notParsed := parsed.(sqlparser.NotParsedStatement); !notParsed {
								red["HandleRawSQLQuery("+string(mode)+")"] = s
							}
						}
					}
					if len(red) == 0 {
						return
					}
					o := res{ok: true, redacted: red}
					// shape (data-manipulation statements: their redacted form is meant to be fed back to the parser,
					// e.g. as an allow/deny query of the firewall)
					so, _, err := skeleton(strings.TrimSuffix(strings.TrimSpace(c.text), ";"))
					if err == nil && c.st.DML() && c.origin == "gen" {
						o.skOrig = so
						sr, _, err := skeleton(red["HandleRawSQLQuery(strict)"])
						if err != nil && d == sqlgen.PostgreSQL {
							if canon := reIntervalPlaceholder.ReplaceAllString(red["HandleRawSQLQuery(strict)"], "interval 'x'"); canon != red["HandleRawSQLQuery(strict)"] {
								o.intervalCanon = true
								sr, _, err = skeleton(canon)
							}
						}
						if err != nil {
							o.shapeErr = err.Error()
						} else {
							o.skRed = sr
						}
					}
					out[i] = o
				})
			}
		}()
	}
	for i := range cases {
		ch <- i
	}
	close(ch)
	wg.Wait()
	for i, c := range cases {
		r.Case()
		o := out[i]
		if !o.ok {
			r.Count("statements_rejected_by_parser:"+c.origin, 1)
			continue
		}
		r.Count("statements_redacted", 1)
		r.SetAdd("statement_kinds_redacted", d.String()+"|"+c.st.Kind)
		for _, l := range c.st.Literals {
			if l.Kind.IsString() || l.Kind.IsNumber() {
				r.Distinct(fmt.Sprintf("redact|%s|%s|%s|%s", d, c.st.Kind, l.Kind, l.Slot))
				r.SetAdd("judged_literal_kinds_checked", string(l.Kind))
				r.SetAdd("slots_checked", l.Slot)
			}
		}
		r.Count("markers_looked_for_in_redacted_forms", int64(len(c.st.Literals)*len(o.redacted)))
		for entry, red := range o.redacted {
			for _, h := range m.reg.scan(red) {
				m.leak("redacted form contains statement literal: dialect="+d.String(), h, map[string]interface{}{"statement": c.text, "redacted": red, "entry_point": entry, "statement_kind": c.st.Kind})
			}
		}
		if o.skOrig != "" {
			r.Count("shape_checked", 1)
			if o.intervalCanon {
				r.Count("shape_checked_after_interval_placeholder_canonicalisation", 1)
			}
			switch {
			case o.shapeErr != "":
				cause := fragile(c.st)
				if cause == "unknown" && openJoinBeforeOnDup(c.text) {
					cause = "insert-select-ending-in-join-without-condition-before-on-duplicate-key"
				}
				r.Violation(fmt.Sprintf("redacted form does not parse: dialect=%s cause=%s", d, cause), map[string]interface{}{"statement": c.text, "redacted": o.redacted["HandleRawSQLQuery(strict)"], "error": o.shapeErr})
			case o.skOrig != o.skRed:
				r.Violation(fmt.Sprintf("redacted form changes the statement's shape: dialect=%s cause=%s", d, fragile(c.st)), map[string]interface{}{"statement": c.text, "redacted": o.redacted["HandleRawSQLQuery(strict)"], "skeleton_original": o.skOrig, "skeleton_redacted": o.skRed})
			}
		}
		r.SampleN("redact-"+d.String()+"-"+c.st.Kind, 1, map[string]interface{}{"dialect": d.String(), "statement": c.text, "redacted": o.redacted["HandleRawSQLQuery(strict)"], "literals": len(c.st.Literals)})
	}
}

func (m *monitor) setLogging(format string, level int) {
	logging.CreateFormatter(format)
	logging.SetLogLevel(level)
}

// logPhase: oracle (b): every statement through every censor configuration under one formatter and level.
func (m *monitor) logPhase(d sqlgen.Dialect, censors []censor, cases []stmtCase, format, levelName string, level int) {
	r := m.r
	m.setLogging(format, level)
	m.cap.drain()
	type outc struct{ allowed, denied int }
	outs := make([]outc, len(censors))
	var mu sync.Mutex
	var wg sync.WaitGroup
	ch := make(chan int, 128)
	for w := 0; w < workers; w++ {
		wg.Add(1)
		go func() {
			defer wg.Done()
			for i := range ch {
				for ci, c := range censors {
					var err error
					safely(r, "HandleQuery:"+c.cfg.name, cases[i].text, func() { err = c.c.HandleQuery(cases[i].text) })
					mu.Lock()
					if err == nil {
						outs[ci].allowed++
					} else {
						outs[ci].denied++
					}
					mu.Unlock()
				}
			}
		}()
	}
	for i := range cases {
		ch <- i
	}
	close(ch)
	wg.Wait()
	hits, _, _ := m.cap.drain()
	m.cap.mu.Lock()
	entries, bytes := m.cap.entries, m.cap.bytes
	m.cap.entries, m.cap.bytes = 0, 0
	m.cap.mu.Unlock()
	r.Count("log_entries_captured", entries)
	r.Count("log_bytes_captured", bytes)
	for ci, c := range censors {
		r.Count("handlequery_calls", int64(outs[ci].allowed+outs[ci].denied))
		r.Count("handlequery_allowed", int64(outs[ci].allowed))
		r.Count("handlequery_denied", int64(outs[ci].denied))
		if outs[ci].allowed > 0 {
			k := fmt.Sprintf("%s|%s|%s|%s|allowed", d, c.cfg.name, format, levelName)
			r.Distinct("log|" + k)
			r.SetAdd("log_capture_classes", k)
		}
		if outs[ci].denied > 0 {
			k := fmt.Sprintf("%s|%s|%s|%s|denied", d, c.cfg.name, format, levelName)
			r.Distinct("log|" + k)
			r.SetAdd("log_capture_classes", k)
		}
	}
	for _, h := range hits {
		where := "log entry contains statement literal:"
		m.leak(where+" dialect="+d.String(), h.hit, map[string]interface{}{"via": h.via, "formatter": format, "level": levelName, "message_template": h.message})
	}
}

// unparseablePhase: statements the parser rejects must leave no token of theirs in any log entry.
func (m *monitor) unparseablePhase(d sqlgen.Dialect, censors []censor, cases []stmtCase, rng *gen.Rand, n int) {
	if n < 1 {
		n = 1
	}
	var bad []stmtCase
	for i := 0; i < n*3 && len(bad) < n; i++ {
		c := cases[rng.Intn(len(cases))]
		text, damage := sqlgen.Break(rng, d, c.text)
		if !rejected(text) {
			m.r.Count("damaged_statement_still_accepted", 1)
			continue
		}
		bad = append(bad, stmtCase{st: c.st, text: text, origin: "damaged:" + damage + ":" + c.st.Kind, d: d})
	}
	m.unparseable(d, censors, bad)
}

// rejected: the statement cannot be parsed (a syntax error anywhere, including DDL that Parse accepts "partially").
func rejected(text string) (rej bool) {
	defer func() {
		if recover() != nil {
			rej = true // the tokenizer crashed: certainly not parsed (the crash itself is C14's subject)
		}
	}()
	s := strings.TrimSuffix(strings.TrimSpace(text), ";")
	if _, err := sqlparser.ParseStrictDDL(s); err != nil {
		return true
	}
	return false
}

func (m *monitor) unparseable(d sqlgen.Dialect, censors []censor, bad []stmtCase) {
	r := m.r
	if len(bad) == 0 {
		return
	}
	for fi, format := range formats {
		l := levels[fi%2]
		if r.Thorough() {
			l = levels[(fi+int(r.Seed))%2]
		}
		m.setLogging(format, l.l)
		// baseline: what the same code logs for a statement that shares no token with anything
		m.cap.drain()
		m.cap.mu.Lock()
		m.cap.keep = true
		m.cap.mu.Unlock()
		for _, c := range censors {
			safely(r, "HandleQuery:"+c.cfg.name, ")(", func() { _ = c.c.HandleQuery(")(") })
		}
		safely(r, "redaction", ")(", func() {
			_, _ = sqlparser.RedactSQLQuery(")(")
			_, _, _, _ = sqlparser.New(sqlparser.ModeDefault).HandleRawSQLQuery(")(")
		})
		_, btexts, blines := m.cap.drain()
		baseline := strings.Join(btexts, "\n") + "\n" + strings.Join(blines, "\n")
		for _, c := range bad {
			r.Case()
			r.Count("unparseable_statements_sent", 1)
			m.cap.drain()
			safely(r, "redaction", c.text, func() {
				_, _ = sqlparser.RedactSQLQuery(c.text)
				_, _, _, _ = sqlparser.New(sqlparser.ModeStrict).HandleRawSQLQuery(c.text)
				_, _, _, _ = sqlparser.New(sqlparser.ModeDefault).HandleRawSQLQuery(c.text)
			})
			for _, cs := range censors {
				safely(r, "HandleQuery:"+cs.cfg.name, c.text, func() { _ = cs.c.HandleQuery(c.text) })
			}
			hits, texts, lines := m.cap.drain()
			r.Distinct(fmt.Sprintf("unparseable|%s|%s|%s", d, c.origin, format))
			// markers first (unambiguous)
			seen := map[string]bool{}
			for _, h := range hits {
				if seen[h.Token] {
					continue
				}
				seen[h.Token] = true
				where := "unparseable statement shows up in a log entry: dialect=" + d.String() + " statement=" + classOfUnparseable(c)
				if h.message != "" {
					where += " message=" + h.message
				}
				if !h.Info.Judged {
					r.Count("unjudged_hex_or_bit_literal_seen_in:log-of-unparseable", 1)
					continue
				}
				r.Violation(where, map[string]interface{}{"statement": c.text, "marker": h.Token, "via": h.via, "formatter": format, "level": l.name, "origin": c.origin})
			}
			// every other token of the statement that is 8+ characters long
			// every other token of the statement that is 8+ characters long, looked for together with a neighbouring
			// token exactly as they stand in the statement (Acra's own wording, e.g. "interval expression" in an error
			// text, must not count as the statement showing up)
			toks, _ := sqlgen.LexTokens(d, c.text)
			all := strings.Join(texts, "\n") + "\n" + strings.Join(lines, "\n")
			for ti, t := range toks {
				tt := strings.Trim(t.Text, "'\"`")
				if len(tt) < 8 || t.Kind == "comment" {
					continue
				}
				if len(m.reg.scan(tt)) > 0 {
					continue // judged through its marker above
				}
				r.Count("unparseable_tokens_looked_for", 1)
				var windows []string
				if ti > 0 {
					windows = append(windows, c.text[toks[ti-1].Offset:t.Offset+len(t.Text)])
				}
				if ti+1 < len(toks) {
					windows = append(windows, c.text[t.Offset:toks[ti+1].Offset+len(toks[ti+1].Text)])
				}
				for _, w := range windows {
					if len(w) >= 10 && strings.Contains(all, w) && !strings.Contains(baseline, w) {
						r.Violation("unparseable statement shows up in a log entry: dialect="+d.String()+" statement="+classOfUnparseable(c)+" token-kind="+t.Kind,
							map[string]interface{}{"statement": c.text, "token": tt, "fragment_found": w, "formatter": format, "level": l.name, "origin": c.origin})
						break
					}
				}
			}
			r.SampleN("unparseable-"+d.String(), 2, map[string]interface{}{"dialect": d.String(), "unparseable_statement": c.text, "origin": c.origin, "log_entries_while_handling": len(texts)})
		}
		m.cap.mu.Lock()
		m.cap.keep = false
		m.cap.entries, m.cap.bytes = 0, 0
		m.cap.mu.Unlock()
	}
}

// classOfUnparseable names the statement family by construction (verb of the original statement).
func classOfUnparseable(c stmtCase) string {
	if c.st != nil {
		switch c.st.Kind {
		case "create-table":
			return "ddl"
		}
		return "dml-or-other"
	}
	w := strings.ToLower(strings.TrimSpace(c.text))
	for _, v := range []string{"create", "alter", "drop", "rename", "truncate"} {
		if strings.HasPrefix(w, v) {
			return "ddl"
		}
	}
	return "dml-or-other"
}

// harvestedInvalid: the statements Acra's own tests expect to be rejected, plus damaged DDL with markers.
func (m *monitor) harvestedInvalid(d sqlgen.Dialect, censors []censor) {
	hs, err := sqlgen.Harvest(sqlgen.RepoPath())
	if err != nil {
		m.r.Violation("non-vacuity:harvest", map[string]interface{}{"error": err.Error()})
		return
	}
	var bad []stmtCase
	for _, h := range hs {
		if h.Explicit && h.Dialect != d {
			continue
		}
		if len(h.Text) > 2000 || !rejected(h.Text) {
			continue
		}
		bad = append(bad, stmtCase{text: h.Text, origin: "harvest-invalid", d: d})
	}
	m.r.Count("harvested_unparseable_statements:"+d.String(), int64(len(bad)))
	// DDL whose tail is damaged: Parse() accepts such statements "partially"
	src := m.reg.source()
	rng := gen.New(m.r.Seed, "c16-ddl-"+d.String())
	for i := 0; i < 12; i++ {
		_, s1, _ := src(sqlgen.LitRequest{Dialect: d, Slot: "ddl-default", Want: "single", Rand: rng})
		_, s2, _ := src(sqlgen.LitRequest{Dialect: d, Slot: "ddl-default", Want: "int", Rand: rng})
		tpl := []string{
			"create table tx (a varchar(20) default %s, b int default %s blah blah)",
			"create table tx (a varchar(20) default %s, b int default %s) engine = = x",
			"create table if not exists tx (a varchar(20) comment %s, b int default %s,, c int)",
		}[i%3]
		text := fmt.Sprintf(tpl, s1, s2)
		if rejected(text) {
			bad = append(bad, stmtCase{st: &sqlgen.Stmt{Kind: "create-table"}, text: text, origin: "damaged-ddl", d: d})
		}
	}
	m.unparseable(d, censors, bad)
}
