package c16

// Skeleton is the shape of a statement as the shape oracle sees it (the printed syntax tree with every literal / placeholder
// leaf made anonymous and every all-literal IN list folded into one list placeholder), for the wire layers that judge the
// redacted statements found in captured log entries. It parses with Acra's current default dialect.
func Skeleton(sql string) (string, error) {
	s, _, err := skeleton(sql)
	return s, err
}
