package mysql

import (
	"encoding/binary"
	"fmt"
	"os"
	"path/filepath"
	"strconv"
	"strings"
	"sync"

	"github.com/cossacklabs/acra/keystore"

	"verif/harness/internal/rig/fakemysql"
	"verif/harness/internal/rig/fakepg"
	"verif/harness/internal/rig/ksrig"
	"verif/harness/internal/rig/proxyrig"
	"verif/harness/internal/rig/sqlgen"
)

const clientID = "c16_mysql_client"

func sp(s string) *string { return &s }

// The encryptor configuration: one table with every kind of configured column, next to tables Acra knows nothing about.
var confCols = []proxyrig.ColSpec{
	{Name: "e_ab", Kind: "enc", Envelope: "acrablock"},
	{Name: "e_as", Kind: "enc", Envelope: "acrastruct"},
	{Name: "s_ab", Kind: "search", Envelope: "acrablock"},
	{Name: "s_as", Kind: "search", Envelope: "acrastruct"},
	{Name: "m_str", Kind: "mask", Envelope: "acrablock", DataType: "str", MaskPat: "xxxx", MaskLen: 3, MaskSide: "left"},
	{Name: "m_ab", Kind: "mask", Envelope: "acrablock", MaskPat: "##", MaskLen: 2, MaskSide: "right"},
	{Name: "t_i32", Kind: "token", TokenType: "int32", Consist: true},
	{Name: "t_i64", Kind: "token", TokenType: "int64", Consist: false},
	{Name: "t_str", Kind: "token", TokenType: "str", Consist: true},
	{Name: "t_bytes", Kind: "token", TokenType: "bytes", Consist: false},
	{Name: "t_email", Kind: "token", TokenType: "email", Consist: true},
	{Name: "ty_i32_err", Kind: "enc", Envelope: "acrablock", DataType: "int32", OnFail: "error"},
	{Name: "ty_i64_def", Kind: "enc", Envelope: "acrastruct", DataType: "int64", OnFail: "default_value", Default: sp("7")},
	{Name: "ty_str_ct", Kind: "enc", Envelope: "acrablock", DataType: "str", OnFail: "ciphertext"},
	{Name: "ty_str_def", Kind: "enc", Envelope: "acrablock", DataType: "str", OnFail: "default_value", Default: sp("dflt")},
	{Name: "ty_bytes_err", Kind: "enc", Envelope: "acrablock", DataType: "bytes", OnFail: "error"},
	{Name: "ty_str_err", Kind: "search", Envelope: "acrablock", DataType: "str", OnFail: "error"},
}

var plainCols = []string{"id", "note", "raw", "name", "created"}

func confTable() proxyrig.TableSpec {
	t := proxyrig.TableSpec{Name: "tabc"}
	for _, n := range plainCols {
		t.Cols = append(t.Cols, proxyrig.ColSpec{Name: n, AppType: fakepg.Text, StoreType: fakepg.Text})
	}
	t.Cols = append(t.Cols, confCols...)
	return t
}

func confCol(name string) *proxyrig.ColSpec {
	for i := range confCols {
		if confCols[i].Name == name {
			return &confCols[i]
		}
	}
	return nil
}

// generator schema: the configured table, the plain ones and the generator's own.
var genSchema = &sqlgen.Schema{Tables: []sqlgen.Table{
	{Name: "tabc", Columns: []string{"id", "note", "e_ab", "s_ab", "t_i32", "t_str", "ty_i32_err", "ty_str_ct", "m_str", "name"}},
	{Name: "tabp", Columns: plainCols},
	{Name: "tabd", Columns: plainCols},
	{Name: "t", Columns: []string{"a", "b", "c", "d", "id"}},
}}

// censorClasses are the firewall configurations a session runs under ("" = no firewall rules at all).
var censorClasses = []string{"none", "capture+allowall", "capture+deny-table+allowall", "ignore+allow-tables+denyall", "parse-errors-log-ignored+capture+allowall", "parse-errors-log-denied+deny-patterns+allowall", "allow-patterns+denyall"}

const ignoredQuery = "select id from tabp where note = 'this statement is on the ignore list'"

func censorYAML(class, dir string) (yaml, captureFile, parseErrFile string) {
	cf, pf := filepath.Join(dir, "captured-queries.log"), filepath.Join(dir, "parse-errors.log")
	switch class {
	case "none":
		return "", "", ""
	case "capture+allowall":
		return "version: 0.85.0\nhandlers:\n  - handler: query_capture\n    filepath: " + cf + "\n  - handler: allowall\n", cf, ""
	case "capture+deny-table+allowall":
		return "version: 0.85.0\nhandlers:\n  - handler: query_capture\n    filepath: " + cf + "\n  - handler: deny\n    tables:\n      - tabd\n  - handler: allowall\n", cf, ""
	case "ignore+allow-tables+denyall":
		return "version: 0.85.0\nhandlers:\n  - handler: query_ignore\n    queries:\n      - " + ignoredQuery + "\n      - COMMIT\n  - handler: allow\n    tables:\n      - tabc\n      - tabp\n  - handler: denyall\n", "", ""
	case "parse-errors-log-ignored+capture+allowall":
		return "version: 0.85.0\nignore_parse_error: true\nparse_errors_log: " + pf + "\nhandlers:\n  - handler: query_capture\n    filepath: " + cf + "\n  - handler: allowall\n", cf, pf
	case "parse-errors-log-denied+deny-patterns+allowall":
		return "version: 0.85.0\nignore_parse_error: false\nparse_errors_log: " + pf + "\nhandlers:\n  - handler: deny\n    patterns:\n      - \"%%DELETE%%\"\n      - \"select id from tabd %%WHERE%%\"\n      - \"insert into tabd (id, note) values (%%VALUE%%, %%VALUE%%)\"\n  - handler: allowall\n", "", pf
	case "allow-patterns+denyall":
		return "version: 0.85.0\nhandlers:\n  - handler: allow\n    patterns:\n      - \"%%SELECT%%\"\n      - \"insert into tabp (id, note) values (%%VALUE%%, %%VALUE%%)\"\n      - \"update tabp set note = %%VALUE%% %%WHERE%%\"\n  - handler: allow\n    queries:\n      - " + ignoredQuery + "\n  - handler: denyall\n", "", ""
	}
	panic("unknown censor class " + class)
}

// world is one session's environment: keystore, scripted database, one MySQL-mode AcraServer, a scripted client.
type world struct {
	dir         string
	srv         *fakemysql.Server
	acra        *proxyrig.Acra
	cl          *proxyrig.MyRaw
	caps        uint32
	captureFile string
	parseFile   string

	mu    sync.Mutex
	reply func(sql string, binary bool) *fakemysql.Reply // the answer to the next statement
}

func (w *world) setReply(rep func(sql string, binary bool) *fakemysql.Reply) {
	w.mu.Lock()
	w.reply = rep
	w.mu.Unlock()
}

func openWorld(class string, deprecateEOF bool) (*world, error) {
	w := &world{dir: ksrig.ScratchDir("c16my")}
	ks, err := ksrig.V1(filepath.Join(w.dir, "keys"), ksrig.RandBytes(32), keystore.InfiniteCacheSize)
	if err != nil {
		return nil, err
	}
	if err := ksrig.GenClient(ks, []byte(clientID)); err != nil {
		return nil, err
	}
	if w.srv, err = fakemysql.NewServer(fakepg.NewDB()); err != nil {
		return nil, err
	}
	w.srv.Fallback = func(sql string, binary bool) *fakemysql.Reply {
		w.mu.Lock()
		f := w.reply
		w.mu.Unlock()
		if f == nil {
			return &fakemysql.Reply{}
		}
		return f(sql, binary)
	}
	yaml, cf, pf := censorYAML(class, w.dir)
	w.captureFile, w.parseFile = cf, pf
	w.acra, err = proxyrig.Start(proxyrig.Opts{KS: ks, ClientID: []byte(clientID), DBPort: w.srv.Port(), SchemaYAML: proxyrig.YAML([]proxyrig.TableSpec{confTable()}), CensorYAML: yaml, MySQL: true})
	if err != nil {
		w.srv.Close()
		return nil, fmt.Errorf("start acra: %w", err)
	}
	if deprecateEOF {
		w.caps = fakemysql.CapDeprecateEOF
	}
	if err := w.dial(); err != nil {
		w.close()
		return nil, err
	}
	return w, nil
}

func (w *world) dial() error {
	cl, err := proxyrig.DialMyRaw(w.acra.Port, w.caps)
	if err != nil {
		return err
	}
	cl.SetNegotiated((proxyrig.MyRawBaseCaps | w.caps) & w.srv.Caps)
	w.cl = cl
	return nil
}

func (w *world) close() {
	if w.cl != nil {
		w.cl.Close()
	}
	if w.acra != nil {
		w.acra.Stop()
	}
	if w.srv != nil {
		w.srv.Close()
	}
}

func (w *world) remove() { os.RemoveAll(w.dir) }

// lastForwarded returns the newest statement text / execute the database received.
func (w *world) lastForwarded() (fakemysql.Received, bool) {
	log := w.srv.Log()
	for i := len(log) - 1; i >= 0; i-- {
		switch log[i].Cmd {
		case fakemysql.ComQuery, fakemysql.ComStmtPrepare, fakemysql.ComStmtExecute:
			return log[i], true
		}
	}
	return fakemysql.Received{}, false
}

// ---- replies ----

// errEcho is what a real server answers to a statement it cannot parse: the message quotes the statement from the offending
// token on (up to 80 bytes).
func errEcho(forwardedFrom string, atPrepare bool) *fakemysql.Reply {
	near := forwardedFrom
	if len(near) > 80 {
		near = near[:80]
	}
	return &fakemysql.Reply{ErrAtPrepare: atPrepare, Err: &fakemysql.ErrInfo{Code: 1064, State: "42000",
		Msg: "You have an error in your SQL syntax; check the manual that corresponds to your MySQL server version for the right syntax to use near '" + near + "' at line 1"}}
}

func colDef(table, name string, typ byte) fakemysql.ColDef {
	cd := fakemysql.ColDef{Schema: "db", Table: table, OrgTable: table, Name: name, OrgName: name, Type: typ, Length: 255}
	switch typ {
	case fakemysql.TypeBlob:
		cd.Charset, cd.Flags, cd.Length = 63, fakemysql.FlagBlob|fakemysql.FlagBinary, 65535
	case fakemysql.TypeLong, fakemysql.TypeLongLong:
		cd.Charset, cd.Flags, cd.Length = 63, fakemysql.FlagNum, 20
	default:
		cd.Charset = 33
	}
	return cd
}

// storeType says how the database describes a column of tabc.
func storeType(col string) byte {
	if c := confCol(col); c != nil {
		switch {
		case c.Kind == "token" && c.TokenType == "int32":
			return fakemysql.TypeLong
		case c.Kind == "token" && c.TokenType == "int64":
			return fakemysql.TypeLongLong
		case c.Kind == "token" && (c.TokenType == "str" || c.TokenType == "email"):
			return fakemysql.TypeVarString
		}
		return fakemysql.TypeBlob
	}
	return fakemysql.TypeVarString
}

// field encodes a stored value for a result set.
func field(typ byte, v []byte, binaryProto bool) fakemysql.Field {
	if v == nil {
		return fakemysql.Field{Null: true}
	}
	if binaryProto && (typ == fakemysql.TypeLong || typ == fakemysql.TypeLongLong) {
		n, err := strconv.ParseInt(strings.TrimSpace(string(v)), 10, 64)
		if err != nil {
			n = 0
		}
		b := make([]byte, 8)
		binary.LittleEndian.PutUint64(b, uint64(n))
		if typ == fakemysql.TypeLong {
			return fakemysql.Field{Data: b[:4]}
		}
		return fakemysql.Field{Data: b}
	}
	return fakemysql.Field{Data: v}
}

// rowsReply builds a result set over named columns of a table.
func rowsReply(table string, cols []string, rows [][][]byte, binaryProto bool) *fakemysql.Reply {
	rep := &fakemysql.Reply{}
	var types []byte
	for _, c := range cols {
		t := storeType(c)
		if table != "tabc" {
			t = fakemysql.TypeVarString
		}
		types = append(types, t)
		rep.Cols = append(rep.Cols, colDef(table, c, t))
	}
	for _, row := range rows {
		var fs []fakemysql.Field
		for i, v := range row {
			fs = append(fs, field(types[i], v, binaryProto))
		}
		rep.Rows = append(rep.Rows, fs)
	}
	if rep.Rows == nil {
		rep.Rows = [][]fakemysql.Field{}
	}
	return rep
}

// genericRows answers a SELECT of n columns about which nothing is known: n text columns, one row.
func genericRows(table string, n int, binaryProto bool) *fakemysql.Reply {
	var cols []string
	var row [][]byte
	for i := 0; i < n; i++ {
		cols = append(cols, fmt.Sprintf("c%d", i+1))
		row = append(row, []byte(fmt.Sprintf("v%d", i+1)))
	}
	rep := rowsReply("", cols, [][][]byte{row}, binaryProto)
	for i := range rep.Cols {
		rep.Cols[i].Table, rep.Cols[i].OrgTable = table, table
	}
	return rep
}
