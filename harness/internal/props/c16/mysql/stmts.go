package mysql

import (
	"fmt"
	"strings"

	"verif/harness/internal/gen"
)

// tpl is a statement shape with literal slots. Slots: {a} any literal, {s} any string spelling, {q} a quoted string
// ('..' / ".."), {n} any number spelling, {i} plain non-negative integer, {c} marker word inside an ordinary comment (reported,
// not judged: comment text is not a literal value), {f} a spelling Acra's grammar does not know (makes the statement unparseable),
// {T} a table. Positions name the slots in order (signature material).
type tpl struct {
	name      string
	text      string
	positions []string
	dml       bool // shape of the logged redacted form is judged
	rows      int  // > 0: a SELECT whose reply is a result set of that many columns
}

var templates = []tpl{
	// VALUES
	{"insert-values", "insert into {T} (id, note) values ({n}, {s})", []string{"values", "values"}, true, 0},
	{"insert-values-multi-row", "insert into {T} (id, note) values ({n}, {s}), ({n}, {q}), ({i}, {s})", []string{"values", "values", "values-row-2", "values-row-2", "values-row-3", "values-row-3"}, true, 0},
	{"insert-values-null-adjacent", "insert into {T} (id, note, raw, name) values ({n}, NULL, {s}, NULL), (NULL, {s}, DEFAULT, {a})", []string{"values-next-to-null", "values-next-to-null", "values-next-to-null", "values-next-to-null"}, true, 0},
	{"insert-schema-order", "insert into tabp values ({i}, {s}, {s}, {n}, {q})", []string{"values", "values", "values", "values", "values"}, true, 0},
	{"insert-set", "insert into {T} set note = {s}, id = {n}", []string{"insert-set", "insert-set"}, true, 0},
	{"replace", "replace into {T} (id, note) values ({n}, {s})", []string{"values", "values"}, true, 0},
	{"insert-select", "insert into {T} (id, note) select id + {n}, concat(note, {s}) from tabp where note <> {s}", []string{"insert-select/select-list", "insert-select/func-arg", "insert-select/where"}, true, 0},
	// ON DUPLICATE KEY UPDATE
	{"on-dup", "insert into {T} (id, note) values ({n}, {s}) on duplicate key update note = {s}, id = id + {n}", []string{"values", "values", "on-duplicate-key-update", "on-duplicate-key-update"}, true, 0},
	{"on-dup-values-func", "insert into {T} (id, note) values ({i}, {q}) on duplicate key update note = concat(values(note), {s}), name = if(id > {n}, {s}, NULL)", []string{"values", "values", "on-duplicate-key-update/func-arg", "on-duplicate-key-update/func-arg", "on-duplicate-key-update/func-arg"}, true, 0},
	// SET of UPDATE
	{"update-set-where", "update {T} set note = {s}, name = {a} where id = {n} and note <> {s}", []string{"update-set", "update-set", "where", "where"}, true, 0},
	{"update-limit", "update {T} set note = {q} where id > {n} order by id limit {i}", []string{"update-set", "where", "limit"}, true, 0},
	// WHERE
	{"where-eq", "select id, note from {T} where note = {a}", []string{"where"}, true, 2},
	{"where-value-on-the-left", "select id from {T} where {s} = note or {n} < id", []string{"where", "where"}, true, 1},
	{"where-null-safe-eq-null", "select id from {T} where name <=> NULL and note = {a} and raw is not null", []string{"where-next-to-null"}, true, 1},
	{"where-is-null-or", "select id, note from {T} where note is null or note = {s} or id = {n}", []string{"where-next-to-null", "where-next-to-null"}, true, 2},
	{"where-between", "select id from {T} where id between {n} and {n} or note not between {s} and {s}", []string{"between", "between", "between", "between"}, true, 1},
	{"where-like-escape", "select id from {T} where note like {q} escape '|' or note not like {q}", []string{"like", "like"}, true, 1},
	{"where-regexp", "select id from {T} where note regexp {q} or note rlike {q}", []string{"regexp", "regexp"}, true, 1},
	{"where-in-list", "select id, note from {T} where note in ({s}, {s}, {a}) and id not in ({n}, {n})", []string{"in-list", "in-list", "in-list", "in-list", "in-list"}, true, 2},
	{"where-in-list-mixed", "select id from {T} where note in ({s}, name, {n}, NULL, {s})", []string{"in-list-mixed", "in-list-mixed", "in-list-mixed"}, true, 1},
	{"where-tuple-in", "select id from {T} where (id, note) in (({n}, {s}), ({n}, {s}))", []string{"tuple-in-list", "tuple-in-list", "tuple-in-list", "tuple-in-list"}, true, 1},
	{"where-subselect", "select id from {T} where id = (select max(id) from tabp where note = {s}) or exists (select 1 from tabp where name = {a} limit {i})", []string{"sub-select/where", "sub-select/where", "sub-select/limit"}, true, 1},
	{"where-not-paren", "select id from {T} where not (note = {s} and (id < {n} or id > {n}))", []string{"where", "where", "where"}, true, 1},
	{"where-arith", "select id from {T} where id + {n} > {n} * id and id % {i} = {i} and -id < {n}", []string{"where/arithmetic", "where/arithmetic", "where/arithmetic", "where/arithmetic", "where/arithmetic"}, true, 1},
	{"where-case", "select case when note = {s} then {a} when id > {n} then {a} else {a} end from {T}", []string{"case", "case", "case", "case", "case"}, true, 1},
	{"delete-where-limit", "delete from {T} where note = {s} or id = {n} order by id limit {i}", []string{"where", "where", "limit"}, true, 0},
	{"delete-multi", "delete a from {T} a join tabp b on a.id = b.id and b.note = {s} where a.note = {s}", []string{"join-on", "where"}, true, 0},
	{"join-on", "select a.id, b.note from {T} a left join tabp b on a.id = b.id and b.note = {s} where a.note = {s} or b.id = {n}", []string{"join-on", "where", "where"}, true, 2},
	// LIMIT
	{"limit", "select id from {T} limit {i}", []string{"limit"}, true, 1},
	{"limit-comma", "select id, note from {T} order by id limit {i}, {i}", []string{"limit", "limit"}, true, 2},
	{"limit-offset", "select id from {T} where note = {s} limit {i} offset {i}", []string{"where", "limit", "offset"}, true, 1},
	// function arguments, select list, grouping
	{"func-args", "select concat({s}, note, {a}), substring(note, {i}), substring(note, {i}, {i}) from {T}", []string{"func-arg", "func-arg", "func-arg", "func-arg", "func-arg"}, true, 3},
	{"func-args-nested", "select upper(concat(lower({s}), trim(replace(note, {s}, {s})))), coalesce(name, {a}), ifnull(note, {s}), if(id = {n}, {s}, {n}) from {T}", []string{"func-arg/nested", "func-arg/nested", "func-arg/nested", "func-arg", "func-arg", "func-arg", "func-arg", "func-arg"}, true, 4},
	{"func-convert-cast", "select convert({s}, binary), cast({s} as char(40)), cast({n} as signed), convert({q} using utf8) from {T}", []string{"func-arg/convert", "func-arg/cast", "func-arg/cast", "func-arg/convert-using"}, true, 4},
	{"func-match-against", "select id from {T} where match(note) against ({q} in boolean mode)", []string{"func-arg/match-against"}, true, 1},
	{"select-list", "select {a}, id, {s} as tag, {n} as k from {T}", []string{"select-list", "select-list", "select-list"}, true, 4},
	{"select-no-table", "select {a}, {n}, {s}", []string{"select-list", "select-list", "select-list"}, true, 3},
	{"group-having-order", "select note, count(*) from {T} where id > {n} group by note, concat(name, {s}) having count(*) > {n} and max(note) <> {s} order by field(note, {s}, {s}), id + {n}", []string{"where", "group-by", "having", "having", "order-by/func-arg", "order-by/func-arg", "order-by"}, true, 2},
	{"union", "select id from {T} where note = {s} union all select id from tabp where id = {n} union select {a} order by id limit {i}", []string{"union-arm/where", "union-arm/where", "union-arm/select-list", "union/limit"}, true, 1},
	{"interval", "select id from {T} where created < now() - interval {i} day and created > date_add(now(), interval {i} hour)", []string{"interval", "interval"}, true, 1},
	// comments
	{"version-comment-select-list", "select /*!50000 {a}, */ id from {T} where note = {s}", []string{"version-comment/select-list", "where"}, true, 2},
	{"version-comment-where", "select id from {T} /*!40101 where note = {s} and id <> {n} */ limit {i}", []string{"version-comment/where", "version-comment/where", "limit"}, true, 1},
	{"version-comment-no-version", "select /*! straight_join */ id from {T} where note = {s} /*! and id = {n} */", []string{"where", "trailing-version-comment/where"}, true, 1},
	{"version-comment-whole-statement", "/*!50000 select id from {T} where note = {s} and id = {n} */", []string{"version-comment-whole-statement", "version-comment-whole-statement"}, false, 0},
	{"version-comment-set", "/*!40101 SET @old_mode = {s} */", []string{"version-comment-whole-statement"}, false, 0},
	{"comment-inline", "select /* {c} */ id from {T} where note = {s} /* {c} */ and id = {n}", []string{"comment-text", "where", "comment-text", "where"}, true, 1},
	{"comment-margins", "/* {c} */ select id from {T} where note = {s} -- {c}", []string{"comment-text", "where", "comment-text"}, true, 1},
	{"comment-hash", "select id from {T} # {c}\n where note = {s}", []string{"comment-text", "where"}, true, 1},
	{"comment-between-literals", "insert into {T} (id, note) values ({n} /* {c} */, /* {c} */ {s})", []string{"values", "comment-text", "comment-text", "values"}, true, 0},
	// SET and other statements
	{"set-user-variables", "set @a = {a}, @b = {a}, @c = {s}", []string{"set", "set", "set"}, false, 0},
	{"set-session", "set session sql_mode = {q}, @@wait_timeout = {i}", []string{"set", "set"}, false, 0},
	{"set-names", "set names {q}", []string{"set-names"}, false, 0},
	{"create-table", "create table tx (a int default {i}, b varchar(20) default {q} comment {q})", []string{"ddl-default", "ddl-default", "ddl-comment"}, false, 0},
	{"select-dual-semicolon", "select {a} from dual;", []string{"select-list"}, true, 1},
}

// templates whose literal Acra's grammar leaves in place today; each has its own position so that a finding about it is separate.
var oddTemplates = []tpl{
	{"prepare-from-text", "prepare s1 from 'select id from tabp where note = ''{w}'' and id = {i}'", []string{"sql-prepare-statement-text", "sql-prepare-statement-text"}, false, 0},
	{"typed-literal-date", "select id, date {q}, time {q} from {T}", []string{"typed-literal-date-time", "typed-literal-date-time"}, false, 2},
	{"typed-literal-timestamp-where", "select id from {T} where created > timestamp {q}", []string{"typed-literal-date-time"}, false, 1},
}

// statements Acra's grammar cannot parse: nothing of them may reach a log entry. {id} is an identifier made of a marker.
var unparseableTemplates = []tpl{
	{"misspelled-keywords", "selec id frm {T} where note = {s} and id = {n}", []string{"unparseable", "unparseable"}, false, 0},
	{"unterminated-string", "select id from {T} where id = {n} and note = 'open {w}", []string{"unparseable", "unparseable"}, false, 0},
	{"dangling-operator", "select id from {T} where note = {s} and", []string{"unparseable"}, false, 0},
	{"into-outfile", "select id from {T} where note = {s} into outfile {q}", []string{"unparseable", "unparseable"}, false, 0},
	{"call-procedure", "call tb_{w}({s}, {n})", []string{"unparseable-identifier", "unparseable", "unparseable"}, false, 0},
	{"foreign-string-spelling", "select id from {T} where note = {f} and id = {n}", []string{"unparseable", "unparseable"}, false, 0},
	{"foreign-string-spelling-insert", "insert into {T} (id, note) values ({n}, {f})", []string{"unparseable", "unparseable"}, false, 0},
	{"unbalanced-parenthesis", "insert into {T} (id, note values ({n}, {s})", []string{"unparseable", "unparseable"}, false, 0},
	{"unknown-statement", "handler tb_{w} read first where note = {s}", []string{"unparseable-identifier", "unparseable"}, false, 0},
	{"load-data", "load data infile {q} into table {T} fields terminated by {q}", []string{"unparseable", "unparseable"}, false, 0},
	{"garbage-after-statement", "select id from {T} where note = {s} {s} tb_{w}", []string{"unparseable", "unparseable", "unparseable-identifier"}, false, 0},
}

// built is a statement ready to be sent.
type built struct {
	tpl    tpl
	text   string
	table  string
	lits   []lit
	tokens []string // registered tokens of the literals (for the detail of a report)
}

// build fills a template. step is recorded in every marker.
func (g *registry) build(rng *gen.Rand, t tpl, class string, table string, step int) built {
	b := built{tpl: t, table: table}
	var out strings.Builder
	text := strings.ReplaceAll(t.text, "{T}", table)
	pi := 0
	for i := 0; i < len(text); {
		if text[i] != '{' {
			out.WriteByte(text[i])
			i++
			continue
		}
		j := strings.IndexByte(text[i:], '}')
		slot := text[i+1 : i+j]
		i += j + 1
		pos := "?"
		if pi < len(t.positions) {
			pos = t.positions[pi]
		}
		pi++
		mi := markerInfo{Position: pos, Class: class, Judged: true, Step: step}
		var l lit
		switch slot {
		case "a":
			l = g.anyLit(rng, "any", mi)
		case "s":
			l = g.anyLit(rng, "string", mi)
		case "q":
			l = g.anyLit(rng, "quoted", mi)
		case "n":
			l = g.anyLit(rng, "number", mi)
		case "i":
			l = g.anyLit(rng, "int", mi)
		case "f":
			l = g.stringLit(rng, foreignStrings[rng.Intn(len(foreignStrings))], mi)
		case "c":
			mi.Judged, mi.Class, mi.Spelling = false, "comment-text", "comment-text"
			l = lit{Spelling: "comment-text", Text: "note " + g.core(mi) + " about 'x'"}
		case "w":
			mi.Spelling = "bare-word"
			if pos == "sql-prepare-statement-text" {
				mi.Spelling = "str-single-inside-statement-text"
			}
			l = lit{Spelling: mi.Spelling, Text: g.core(mi)}
		default:
			panic(fmt.Sprintf("template %s: unknown slot {%s}", t.name, slot))
		}
		out.WriteString(l.Text)
		b.lits = append(b.lits, l)
	}
	if pi != len(t.positions) {
		panic(fmt.Sprintf("template %s: %d slots, %d positions", t.name, pi, len(t.positions)))
	}
	b.text = out.String()
	return b
}
