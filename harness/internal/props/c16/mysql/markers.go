package mysql

import (
	"encoding/base64"
	"encoding/binary"
	"encoding/hex"
	"fmt"
	"regexp"
	"strconv"
	"strings"
	"sync"
)

// markerInfo says where a marker token was written.
type markerInfo struct {
	Spelling string // how the value was spelled / bound (signature material)
	Position string // syntactic position or parameter class (signature material)
	Class    string // parseable | unparseable | bound-parameter | long-data | comment-text
	Judged   bool   // false: generated and reported only (text of ordinary comments)
	Step     int    // serial number of the step that issued it
}

// registry maps every issued marker token to its origin. Tokens are
//   - string cores  MYQ<13 hex> (16 ASCII letters/digits: every escaping scheme leaves them as they are),
//   - maximal decimal digit runs from disjoint families (see numbers below),
//   - the 8 little-endian bytes of integers bound as LONGLONG parameters (looked for in decoded hex / base64 / byte lists).
type registry struct {
	mu        sync.RWMutex
	seq       uint64
	toks      map[string]markerInfo
	bin       map[string]markerInfo // 8 raw bytes
	recording bool
	recorded  []string
}

// startRecording / stopRecording collect the tokens registered while one statement is built.
func (g *registry) startRecording() {
	g.mu.Lock()
	g.recording, g.recorded = true, nil
	g.mu.Unlock()
}

func (g *registry) stopRecording() []string {
	g.mu.Lock()
	defer g.mu.Unlock()
	g.recording = false
	return g.recorded
}

// setClass records, once the statement is complete, whether Acra's parser accepts it. Bare words (identifiers) of a statement
// that parses are not literal values.
func (g *registry) setClass(toks []string, class string) {
	g.mu.Lock()
	for _, t := range toks {
		for _, m := range []map[string]markerInfo{g.toks, g.bin} {
			if mi, ok := m[t]; ok && (mi.Class == "parseable" || mi.Class == "unparseable") {
				mi.Class = class
				if class == "parseable" && mi.Spelling == "bare-word" {
					mi.Judged = false
				}
				m[t] = mi
			}
		}
	}
	g.mu.Unlock()
}

func newRegistry() *registry {
	return &registry{toks: map[string]markerInfo{}, bin: map[string]markerInfo{}}
}

func (g *registry) next() uint64 {
	g.mu.Lock()
	g.seq++
	n := g.seq
	g.mu.Unlock()
	return n
}

func (g *registry) add(tok string, mi markerInfo) {
	g.mu.Lock()
	g.toks[tok] = mi
	if g.recording {
		g.recorded = append(g.recorded, tok)
	}
	g.mu.Unlock()
}

func (g *registry) addBin(b []byte, mi markerInfo) {
	g.mu.Lock()
	g.bin[string(b)] = mi
	if g.recording {
		g.recorded = append(g.recorded, string(b))
	}
	g.mu.Unlock()
}

func (g *registry) lookup(tok string) (markerInfo, bool) {
	g.mu.RLock()
	mi, ok := g.toks[tok]
	g.mu.RUnlock()
	return mi, ok
}

// core returns a fresh string core and registers it.
func (g *registry) core(mi markerInfo) string {
	n := g.next()
	c := fmt.Sprintf("MYQ%013x", (n*0x9e3779b97f4a7c15)&0xfffffffffffff)
	g.add(c, mi)
	return c
}

// counter returns a fresh 8-digit counter text.
func (g *registry) counter() (uint64, string) {
	n := g.next()
	return n, fmt.Sprintf("%08d", n%100000000)
}

type hit struct {
	Token     string
	Rendering string // raw | hex | base64 | bits | byte-list | decimal | little-endian-bytes(<outer rendering>)
	Info      markerInfo
}

var (
	reCore    = regexp.MustCompile(`MYQ[0-9a-f]{13}`)
	reHexRun  = regexp.MustCompile(`(?:[0-9a-fA-F]{2}){8,}`)
	reB64Run  = regexp.MustCompile(`[A-Za-z0-9+/_-]{12,}={0,2}`)
	reBitRun  = regexp.MustCompile(`[01]{64,}`)
	reByteLst = regexp.MustCompile(`(?:\d{1,3}[ ,]+){7,}\d{1,3}`)
)

func isLetter(c byte) bool { return c >= 'a' && c <= 'z' || c >= 'A' && c <= 'Z' }

// scan finds issued markers in a text in every rendering the oracle knows.
func (g *registry) scan(text string) []hit {
	var hits []hit
	g.scanPlain(text, "raw", &hits)
	// hexadecimal renderings (either case) of the bytes
	if len(text) >= 16 {
		for _, m := range reHexRun.FindAllString(text, -1) {
			// the run may start on an odd boundary (glued to a preceding hex digit)
			for off := 0; off < 2; off++ {
				s := m[off:]
				s = s[:len(s)&^1]
				if b, err := hex.DecodeString(s); err == nil {
					g.scanDecoded(b, "hex", &hits)
				}
			}
		}
		for _, m := range reB64Run.FindAllString(text, -1) {
			body := strings.TrimRight(m, "=")
			for off := 0; off < 4 && off < len(body); off++ {
				s := body[off:]
				s = s[:len(s)-len(s)%4]
				if len(s) < 12 {
					continue
				}
				for _, enc := range []*base64.Encoding{base64.RawStdEncoding, base64.RawURLEncoding} {
					if b, err := enc.DecodeString(s); err == nil {
						g.scanDecoded(b, "base64", &hits)
					}
				}
			}
			// the unaligned tail
			for _, enc := range []*base64.Encoding{base64.RawStdEncoding, base64.RawURLEncoding} {
				if b, err := enc.DecodeString(body); err == nil {
					g.scanDecoded(b, "base64", &hits)
				}
			}
		}
		for _, m := range reBitRun.FindAllString(text, -1) {
			for off := 0; off < 8 && off+64 <= len(m); off++ {
				s := m[off:]
				s = s[:len(s)-len(s)%8]
				b := make([]byte, len(s)/8)
				for i := range b {
					v, _ := strconv.ParseUint(s[i*8:i*8+8], 2, 8)
					b[i] = byte(v)
				}
				g.scanDecoded(b, "bits", &hits)
			}
		}
		for _, m := range reByteLst.FindAllString(text, -1) {
			var b []byte
			ok := true
			for _, f := range strings.FieldsFunc(m, func(r rune) bool { return r == ' ' || r == ',' }) {
				v, err := strconv.Atoi(f)
				if err != nil || v > 255 {
					ok = false
					break
				}
				b = append(b, byte(v))
			}
			if ok {
				g.scanDecoded(b, "byte-list", &hits)
			}
		}
	}
	return hits
}

func (g *registry) scanDecoded(b []byte, rendering string, hits *[]hit) {
	g.scanPlain(string(b), rendering, hits)
	// integers bound in the binary protocol: 8 little-endian bytes (all issued ones are below 2^40)
	for i := 0; i+8 <= len(b); i++ {
		if b[i+5] != 0 || b[i+6] != 0 || b[i+7] != 0 {
			continue
		}
		g.mu.RLock()
		mi, ok := g.bin[string(b[i:i+8])]
		g.mu.RUnlock()
		if ok {
			*hits = append(*hits, hit{strconv.FormatUint(binary.LittleEndian.Uint64(b[i:]), 10), "little-endian-bytes(" + rendering + ")", mi})
		}
	}
}

// scanPlain looks for string cores and for decimal digit runs. A digit run counts only when the whole maximal run is an
// issued marker and it is not glued to letters (timestamps, digests, identifiers cannot match); a run followed by an exponent
// (E+09) is accepted: that is how Go prints a float64.
func (g *registry) scanPlain(text, rendering string, hits *[]hit) {
	if strings.Contains(text, "MYQ") {
		for _, m := range reCore.FindAllString(text, -1) {
			if mi, ok := g.lookup(m); ok {
				*hits = append(*hits, hit{m, rendering, mi})
			}
		}
	}
	for i := 0; i < len(text); {
		if text[i] < '0' || text[i] > '9' {
			i++
			continue
		}
		j := i
		for j < len(text) && text[j] >= '0' && text[j] <= '9' {
			j++
		}
		if j-i >= 8 && (i == 0 || !isLetter(text[i-1])) {
			gluedRight := j < len(text) && isLetter(text[j])
			if gluedRight && (text[j] == 'E' || text[j] == 'e') && j+1 < len(text) && (text[j+1] == '+' || text[j+1] == '-' || (text[j+1] >= '0' && text[j+1] <= '9')) {
				gluedRight = false
			}
			if !gluedRight {
				if mi, ok := g.lookup(text[i:j]); ok {
					r := rendering
					if r == "raw" {
						r = "decimal"
					}
					*hits = append(*hits, hit{text[i:j], r, mi})
				}
			}
		}
		i = j
	}
}
