package mysql

import (
	"fmt"
	"strings"

	"verif/harness/internal/rig/fakemysql"
	"verif/harness/internal/rig/proxyrig"
	"verif/harness/internal/rig/sqlgen"
)

// ---- statements with bound parameters ----

var boundShapes = []struct {
	name  string
	text  string   // {s}: a literal next to the placeholders
	cols  []string // column behind each placeholder ("" = none / unconfigured)
	ncols int
}{
	{"bound-insert-plain", "insert into tabp (id, note, raw, name) values (?, ?, ?, ?)", []string{"", "", "", ""}, 0},
	{"bound-insert-configured", "insert into tabc (id, note, e_ab, s_ab, t_i32, t_str, ty_i32_err, m_str) values (?, ?, ?, ?, ?, ?, ?, ?)", []string{"", "", "e_ab", "s_ab", "t_i32", "t_str", "ty_i32_err", "m_str"}, 0},
	{"bound-insert-configured-2", "insert into tabc (id, e_as, t_i64, t_email, t_bytes, ty_i64_def, ty_str_ct, ty_bytes_err) values (?, ?, ?, ?, ?, ?, ?, ?)", []string{"", "e_as", "t_i64", "t_email", "t_bytes", "ty_i64_def", "ty_str_ct", "ty_bytes_err"}, 0},
	{"bound-insert-literal-next-to-placeholders", "insert into tabc (id, note, e_ab, name) values (?, {s}, ?, {s})", []string{"", "e_ab"}, 0},
	{"bound-update", "update tabc set e_ab = ?, t_i32 = ?, note = ? where id = ? and note = ?", []string{"e_ab", "t_i32", "", "", ""}, 0},
	{"bound-select-plain", "select id, note from tabp where note = ? and id in (?, ?) limit ?", []string{"", "", "", ""}, 2},
	{"bound-select-searchable", "select id, e_ab from tabc where s_ab = ? and id = ? or t_str = ?", []string{"s_ab", "", "t_str"}, 2},
	{"bound-on-duplicate-key-update", "insert into tabc (id, t_i32) values (?, ?) on duplicate key update note = ?, e_ab = ?", []string{"", "t_i32", "", "e_ab"}, 0},
	{"bound-delete", "delete from tabp where note = ? or id = ? limit ?", []string{"", "", ""}, 0},
	{"bound-select-function-arguments", "select concat(?, note), substring(note, ?) from tabd where name <=> ?", []string{"", "", ""}, 2},
}

func (S *sess) bound() {
	L := S.L
	L.step++
	sh := boundShapes[(L.sidx*7+S.sent)%len(boundShapes)]
	L.reg.startRecording()
	text := sh.text
	for strings.Contains(text, "{s}") {
		l := L.reg.anyLit(S.rng, "string", markerInfo{Position: "literal-next-to-placeholders", Class: "parseable", Judged: true, Step: L.step})
		text = strings.Replace(text, "{s}", l.Text, 1)
		L.r.SetAdd("mysql_literal_spellings_sent", l.Spelling)
	}
	var params []param
	longAt := -1
	if S.rng.Intn(3) == 0 {
		longAt = S.rng.Intn(len(sh.cols))
	}
	for i, col := range sh.cols {
		pos := "parameter-of-unconfigured-column"
		if col != "" {
			pos = "parameter-of-column:" + colClass(col)
		}
		mi := markerInfo{Position: pos, Judged: true, Step: L.step}
		var p param
		switch {
		case i == longAt:
			p = L.reg.longDataParam(S.rng, mi)
		case S.rng.Intn(3) > 0 && col != "":
			// the type an application would bind for the column ... or a plain string
			p = L.reg.boundParam(S.rng, naturalParamType(S, col), mi)
		default:
			p = L.reg.boundParam(S.rng, paramTypes[(L.step+i*5)%len(paramTypes)], mi)
		}
		L.r.SetAdd("mysql_parameter_types_sent", p.TypeName)
		if p.Marked {
			L.r.Count("mysql_bound_parameters_with_markers_sent", 1)
		} else {
			L.r.Count("mysql_bound_parameters_without_marker_sent(type too narrow or NULL)", 1)
		}
		params = append(params, p)
	}
	toks := L.reg.stopRecording()
	st := stmt{kind: "bound", shape: sh.name, text: text, proto: "prepare", params: params, ncols: sh.ncols, table: "tabp", tokens: toks, dml: true, wantShape: true}
	st.class, st.skeleton = classify(text)
	L.reg.setClass(toks, st.class)
	S.pickReply(&st)
	if st.reply == "err-echo-at-prepare" {
		st.reply = "err-echo"
	}
	S.send(st)
}

func colClass(col string) string {
	c := confCol(col)
	if c == nil {
		return "unconfigured"
	}
	s := c.Kind
	if c.TokenType != "" {
		s += "/" + c.TokenType
	}
	if c.DataType != "" {
		s += "/" + c.DataType
	}
	if c.OnFail != "" {
		s += "/on-fail-" + c.OnFail
	}
	return s
}

func naturalParamType(S *sess, col string) string {
	c := confCol(col)
	switch {
	case c == nil:
		return "VAR_STRING"
	case c.TokenType == "int32" || c.DataType == "int32":
		return []string{"LONG", "LONG-negative", "LONGLONG", "VAR_STRING"}[S.rng.Intn(4)]
	case c.TokenType == "int64" || c.DataType == "int64":
		return []string{"LONGLONG", "LONGLONG-negative", "LONGLONG-unsigned-above-2^63", "VAR_STRING"}[S.rng.Intn(4)]
	}
	return stringParamTypes[S.rng.Intn(len(stringParamTypes))]
}

// ---- round trips: marker values written into configured columns, then read back through Acra ----

func (S *sess) roundTrip() {
	L := S.L
	// always a type-aware integer column and an integer token column (alternating widths), plus 2-4 other configured columns
	L.trips++
	must := [][]string{{"ty_i32_err", "t_i64"}, {"ty_i64_def", "t_i32"}}[(L.trips/3)%2]
	cols := []string{"id", "note"}
	cols = append(cols, must...)
	k := 2 + S.rng.Intn(3)
	for _, i := range S.rng.Perm(len(confCols)) {
		if n := confCols[i].Name; n != must[0] && n != must[1] && k > 0 {
			cols = append(cols, n)
			k--
		}
	}
	// one trip in three writes a value that is no integer into the type-aware integer column (it is encrypted all the same
	// and fails to convert on the way back), one in three into the integer token column (tokenization fails: Acra forwards
	// the statement as it came), one in three writes integers everywhere
	variant := []string{"non-integer-into-type-aware-column", "non-integer-into-token-column", "integers"}[L.trips%3]
	isInt := func(c *proxyrig.ColSpec) bool {
		return c != nil && (c.TokenType == "int32" || c.DataType == "int32" || c.TokenType == "int64" || c.DataType == "int64")
	}
	nonIntFor := func(c *proxyrig.ColSpec) bool {
		switch {
		case !isInt(c):
			return false
		case c.Kind == "token":
			return variant == "non-integer-into-token-column"
		}
		return variant == "non-integer-into-type-aware-column"
	}
	L.step++
	bound := S.rng.Intn(3) == 0
	L.reg.startRecording()
	var vals []string
	var params []param
	for _, col := range cols {
		c := confCol(col)
		mi := markerInfo{Position: "values-of-column:" + colClass(col), Class: "parseable", Judged: true, Step: L.step}
		if bound {
			mi.Position = "parameter-of-column:" + colClass(col)
			t := "VAR_STRING"
			if nonIntFor(c) {
				t = stringParamTypes[S.rng.Intn(len(stringParamTypes))]
			} else if isInt(c) {
				t = map[bool]string{true: "LONG", false: "LONGLONG"}[c.TokenType == "int32" || c.DataType == "int32"]
			} else if c != nil {
				t = naturalParamType(S, col)
			} else if col == "id" {
				t = "LONG"
			}
			p := L.reg.boundParam(S.rng, t, mi)
			L.r.SetAdd("mysql_parameter_types_sent", p.TypeName)
			L.r.Count("mysql_bound_parameters_with_markers_sent", 1)
			params = append(params, p)
			vals = append(vals, "?")
			continue
		}
		var l lit
		switch {
		case col == "id":
			l = L.reg.numberLit("int", mi)
		case c != nil && (c.TokenType == "int32" || c.DataType == "int32") && !nonIntFor(c):
			l = L.reg.int32Lit(mi)
		case c != nil && (c.TokenType == "int64" || c.DataType == "int64") && !nonIntFor(c):
			l = L.reg.numberLit([]string{"int", "neg-int", "int-beyond-int64"}[S.rng.Intn(3)], mi)
		case c != nil && c.TokenType == "email":
			mi.Spelling = "str-single"
			l = lit{Spelling: "str-single", Text: "'" + L.reg.core(mi) + "@example.com'"}
		default:
			// a string (for the integer columns: a value that is no integer)
			l = L.reg.anyLit(S.rng, "string", mi)
		}
		L.r.SetAdd("mysql_literal_spellings_sent", l.Spelling)
		vals = append(vals, l.Text)
	}
	toks := L.reg.stopRecording()
	var written []string
	for _, t := range toks {
		if strings.HasPrefix(t, "MYQ") {
			written = append(written, t)
		}
	}
	text := fmt.Sprintf("insert into tabc (%s) values (%s)", strings.Join(cols, ", "), strings.Join(vals, ", "))
	ins := stmt{kind: "round-trip-insert", shape: "round-trip-insert", text: text, proto: "query", reply: "ok", tokens: toks, dml: true, wantShape: true, table: "tabc"}
	if bound {
		ins.proto, ins.params, ins.shape = "prepare", params, "round-trip-insert-bound"
	}
	ins.class, ins.skeleton = classify(text)
	L.reg.setClass(toks, ins.class)
	before := S.w.srv.LogLen()
	S.send(ins)
	L.r.Count("mysql_round_trips:"+variant, 1)
	// what the database stores: the values of the forwarded statement
	stored := S.storedRow(before, len(cols))
	if stored == nil {
		L.r.Count("mysql_round_trip_inserts_not_forwarded_or_not_understood", 1)
		stored = make([][]byte, len(cols))
		for i := range stored {
			stored[i] = []byte(fmt.Sprintf("not stored %d", i))
		}
	}
	for _, how := range []string{"stored", "damaged", "foreign"} {
		if !S.alive() {
			return
		}
		row := make([][]byte, len(stored))
		for i, v := range stored {
			row[i] = damage(v, how, cols[i], S.rng.Intn(1000))
		}
		order := S.rng.Perm(len(cols))
		var scols []string
		var srow [][]byte
		for _, i := range order {
			scols = append(scols, cols[i])
			srow = append(srow, row[i])
		}
		L.step++
		L.reg.startRecording()
		l := L.reg.anyLit(S.rng, "any", markerInfo{Position: "where", Class: "parseable", Judged: true, Step: L.step})
		toks := L.reg.stopRecording()
		text := fmt.Sprintf("select %s from tabc where note <> %s", strings.Join(scols, ", "), l.Text)
		sel := stmt{kind: "round-trip-select", shape: "round-trip-select-" + how, text: text, proto: S.pickProto(), reply: "table-rows", table: "tabc", cols: scols, rows: [][][]byte{srow, srow}, tokens: toks, dml: true, wantShape: true}
		if how == "stored" {
			sel.written = written
		}
		sel.class, sel.skeleton = classify(text)
		L.reg.setClass(toks, sel.class)
		errs := L.cap.errorEntries()
		S.send(sel)
		L.r.Count("mysql_round_trip_rows_read_back:"+how, 1)
		L.r.Count("mysql_log_entries_about_failed_column_processing", L.cap.errorEntries()-errs)
	}
}

// storedRow extracts the values of the INSERT the database received after log position `from`.
func (S *sess) storedRow(from, n int) [][]byte {
	log := S.w.srv.Log()
	for i := len(log) - 1; i >= from; i-- {
		rec := log[i]
		switch rec.Cmd {
		case fakemysql.ComQuery:
			lits, err := sqlgen.LexLiterals(sqlgen.MySQL, rec.SQL)
			if err != nil || len(lits) != n {
				return nil
			}
			var out [][]byte
			for _, l := range lits {
				out = append(out, l.Value)
			}
			return out
		case fakemysql.ComStmtExecute:
			if rec.Exec == nil || len(rec.Exec.Params) != n {
				return nil
			}
			var out [][]byte
			for _, p := range rec.Exec.Params {
				switch {
				case p.Null:
					out = append(out, nil)
				default:
					if v, ok := p.Int(); ok {
						out = append(out, []byte(fmt.Sprint(v)))
					} else {
						out = append(out, p.Data)
					}
				}
			}
			return out
		}
	}
	return nil
}

// damage returns what the database hands back for a stored value: stored = as is; damaged = one byte of the tail changed
// (a token: another number / string); foreign = bytes Acra never produced.
func damage(v []byte, how, col string, salt int) []byte {
	if v == nil || how == "stored" {
		return v
	}
	t := storeType(col)
	if how == "foreign" {
		if t == fakemysql.TypeLong || t == fakemysql.TypeLongLong {
			return []byte(fmt.Sprint(100000 + salt))
		}
		return []byte(fmt.Sprintf("plain bytes that are no envelope %d", salt))
	}
	if t == fakemysql.TypeLong || t == fakemysql.TypeLongLong {
		return []byte(fmt.Sprint(200000 + salt))
	}
	out := append([]byte{}, v...)
	if len(out) > 0 {
		out[len(out)-1-(salt%min(len(out), 8))] ^= 0x5a
	}
	return out
}

func min(a, b int) int {
	if a < b {
		return a
	}
	return b
}
