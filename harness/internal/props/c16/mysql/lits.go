package mysql

import (
	"encoding/binary"
	"encoding/hex"
	"fmt"
	"math"
	"strings"

	"verif/harness/internal/gen"
	"verif/harness/internal/rig/fakemysql"
	"verif/harness/internal/rig/sqlgen"
)

// lit is one literal written into a statement.
type lit struct {
	Spelling string // literal kind, e.g. str-single
	Text     string // exact text in the statement
	Value    []byte // the bytes / digits a MySQL server reads
}

// String spellings MySQL has. The last group is not accepted by Acra's grammar: statements carrying them belong to the
// "unparseable" class (whose text must not reach the log at all).
var (
	stringSpellings = []string{"str-single", "str-single-backslash-escapes", "str-double", "str-double-backslash-escapes", "hexstr-upper-X", "hexstr-lower-x", "hexnum-0x", "bit-b", "bit-B", "binary-introducer", "binary-introducer-double-quoted"}
	foreignStrings  = []string{"charset-introducer-utf8", "charset-introducer-utf8mb4", "charset-introducer-latin1-hex", "national-N", "bit-0b", "adjacent-strings"}
	numberSpellings = []string{"int", "int-beyond-int64", "int-leading-zero", "decimal", "decimal-no-integer-part", "decimal-trailing-dot", "exponent", "exponent-beyond-float64", "exponent-capital-E", "neg-int", "neg-int-spaced", "plus-int", "neg-decimal", "neg-exponent", "neg-int-beyond-int64"}
)

var sqlEscapes = []struct{ raw, esc string }{{"'", `\'`}, {`\`, `\\`}, {"\n", `\n`}, {"\x00", `\0`}, {"\x1a", `\Z`}, {"\t", `\t`}, {`"`, `\"`}, {"%", `\%`}, {"_", `\_`}, {"\r", `\r`}, {"\b", `\b`}}

// stringLit writes pre+core+suf in the given spelling. The core stays literal in every spelling that is textual.
func (g *registry) stringLit(rng *gen.Rand, spelling string, mi markerInfo) lit {
	mi.Spelling = spelling
	core := g.core(mi)
	pre := []string{"", "", "a ", "it's ", "x% ", "100 ", "é", `C:\dir `}[rng.Intn(8)]
	suf := []string{"", "", " z", "_", " -- c", " /* c", " 42", ` "q"`, "\n"}[rng.Intn(9)]
	if rng.Intn(25) == 0 {
		suf += " " + strings.Repeat("long value ", 28)
	}
	val := pre + core + suf
	quote := func(q byte, backslashes bool) string {
		var b strings.Builder
		b.WriteByte(q)
		for i := 0; i < len(val); i++ {
			c := val[i]
			switch {
			case c == q && !backslashes:
				b.WriteByte(q)
				b.WriteByte(q)
			case c == q:
				b.WriteString(`\` + string(q))
			case c == '\\':
				b.WriteString(`\\`)
			case c == '\n' && backslashes:
				b.WriteString(`\n`)
			default:
				b.WriteByte(c)
			}
		}
		if backslashes {
			// every escape sequence the manual lists, after the value proper (the core is not touched)
			k := rng.Intn(len(sqlEscapes))
			b.WriteString(sqlEscapes[k].esc)
			esc := sqlEscapes[k]
			if esc.esc == `\%` || esc.esc == `\_` {
				val += esc.esc // these two keep their backslash
			} else {
				val += esc.raw
			}
		}
		b.WriteByte(q)
		return b.String()
	}
	var text string
	switch spelling {
	case "str-single":
		text = quote('\'', false)
	case "str-single-backslash-escapes":
		text = quote('\'', true)
	case "str-double":
		text = quote('"', false)
	case "str-double-backslash-escapes":
		text = quote('"', true)
	case "hexstr-upper-X":
		text = "X'" + strings.ToUpper(hex.EncodeToString([]byte(val))) + "'"
	case "hexstr-lower-x":
		text = "x'" + hex.EncodeToString([]byte(val)) + "'"
	case "hexnum-0x":
		text = "0x" + strings.ToUpper(hex.EncodeToString([]byte(val)))
	case "bit-b", "bit-B", "bit-0b":
		val = core // 128 bits
		var b strings.Builder
		for _, c := range []byte(val) {
			fmt.Fprintf(&b, "%08b", c)
		}
		switch spelling {
		case "bit-b":
			text = "b'" + b.String() + "'"
		case "bit-B":
			text = "B'" + b.String() + "'"
		default:
			text = "0b" + b.String()
		}
	case "binary-introducer":
		text = "_binary" + []string{"", " "}[rng.Intn(2)] + quote('\'', false)
	case "binary-introducer-double-quoted":
		text = "_binary " + quote('"', false)
	case "charset-introducer-utf8":
		text = "_utf8" + quote('\'', false)
	case "charset-introducer-utf8mb4":
		text = "_utf8mb4 " + quote('\'', false) + " collate utf8mb4_bin"
	case "charset-introducer-latin1-hex":
		text = "_latin1 X'" + hex.EncodeToString([]byte(val)) + "'"
	case "national-N":
		text = "N" + quote('\'', false)
	case "adjacent-strings":
		text = quote('\'', false) + " 'tail'"
		val += "tail"
	default:
		panic("unknown string spelling " + spelling)
	}
	return lit{Spelling: spelling, Text: text, Value: []byte(val)}
}

// numberLit writes a number whose digit runs identify it. Families (first two digits) are disjoint from each other and
// from those of the in-process C16 monitor.
func (g *registry) numberLit(spelling string, mi markerInfo) lit {
	mi.Spelling = spelling
	n, c := g.counter()
	f := fmt.Sprintf("%06d", n%1000000)
	var s string
	switch spelling {
	case "int":
		s = "41" + c + "1"
		g.add(s, mi)
	case "int-beyond-int64":
		s = "41" + c + "100000000000009"
		g.add(s, mi)
	case "neg-int-beyond-int64":
		s = "-49" + c + "100000000000009"
		g.add(s[1:], mi)
	case "int-leading-zero":
		s = "041" + c + "18"
		g.add(s, mi)
		g.add(s[1:], mi)
	case "decimal":
		s = "43" + c + ".5" + f + "1"
		g.add("43"+c, mi)
		g.add("5"+f+"1", mi)
	case "decimal-no-integer-part":
		s = ".52" + c + "1"
		g.add("52"+c+"1", mi)
	case "decimal-trailing-dot":
		s = "53" + c + "1."
		g.add("53"+c+"1", mi)
	case "exponent":
		s = "45" + c + ".5e5"
		g.add("45"+c, mi)
	case "exponent-beyond-float64":
		s = "45" + c + ".5e999"
		g.add("45"+c, mi)
	case "exponent-capital-E":
		s = "54" + c + "1E3"
		g.add("54"+c+"1", mi)
	case "neg-int":
		s = "-49" + c + "1"
		g.add("49"+c+"1", mi)
	case "neg-int-spaced":
		s = "- 49" + c + "2"
		g.add("49"+c+"2", mi)
	case "plus-int":
		s = "+47" + c + "1"
		g.add("47"+c+"1", mi)
	case "neg-decimal":
		s = "-44" + c + ".6" + f + "1"
		g.add("44"+c, mi)
		g.add("6"+f+"1", mi)
	case "neg-exponent":
		s = "-46" + c + ".5e5"
		g.add("46"+c, mi)
	default:
		panic("unknown number spelling " + spelling)
	}
	return lit{Spelling: spelling, Text: s, Value: []byte(s)}
}

// anyLit draws a literal for a position. want: "string" | "number" | "int" (plain non-negative integer: LIMIT) | "any".
func (g *registry) anyLit(rng *gen.Rand, want string, mi markerInfo) lit {
	switch want {
	case "int":
		return g.numberLit("int", mi)
	case "number":
		return g.numberLit(numberSpellings[rng.Intn(len(numberSpellings))], mi)
	case "string":
		return g.stringLit(rng, stringSpellings[rng.Intn(len(stringSpellings))], mi)
	case "quoted":
		return g.stringLit(rng, stringSpellings[rng.Intn(4)], mi)
	}
	if rng.Intn(5) < 3 {
		return g.stringLit(rng, stringSpellings[rng.Intn(len(stringSpellings))], mi)
	}
	return g.numberLit(numberSpellings[rng.Intn(len(numberSpellings))], mi)
}

// source adapts the registry to the shared statement generator: every literal position of a generated statement gets a
// fresh marker in a MySQL spelling Acra's grammar accepts.
func (g *registry) source(step *int, class string) sqlgen.LiteralSource {
	return func(q sqlgen.LitRequest) (sqlgen.LitKind, string, []byte) {
		rng := q.Rand
		mi := markerInfo{Position: slotPosition(q.Slot), Class: class, Judged: true, Step: *step}
		if mi.Position == "group-concat-separator" {
			// known finding of the in-process part (the grammar keeps the separator as printed text): not reported twice
			mi.Judged, mi.Class = false, "group-concat-separator(known-finding-of-the-in-process-part)"
		}
		var l lit
		switch q.Want {
		case "single":
			l = g.stringLit(rng, "str-single", mi)
		case "string":
			l = g.anyLit(rng, "string", mi)
		case "number":
			l = g.anyLit(rng, "number", mi)
		case "unsigned":
			l = g.numberLit([]string{"int", "int-beyond-int64", "decimal", "exponent", "exponent-beyond-float64"}[rng.Intn(5)], mi)
		case "int":
			l = g.numberLit("int", mi)
		default:
			l = g.anyLit(rng, "any", mi)
		}
		return sqlgenKind(l.Spelling), l.Text, l.Value
	}
}

func sqlgenKind(spelling string) sqlgen.LitKind {
	switch {
	case strings.HasPrefix(spelling, "str-double"):
		return sqlgen.LitDouble
	case strings.HasPrefix(spelling, "str-"), strings.HasPrefix(spelling, "binary-"):
		return sqlgen.LitSingle
	case strings.HasPrefix(spelling, "hexstr"):
		return sqlgen.LitHexStr
	case strings.HasPrefix(spelling, "hexnum"):
		return sqlgen.LitHexNum
	case strings.HasPrefix(spelling, "bit"):
		return sqlgen.LitBit
	case strings.HasPrefix(spelling, "neg-int"):
		return sqlgen.LitNegInt
	case strings.HasPrefix(spelling, "neg-decimal"):
		return sqlgen.LitNegDecimal
	case strings.HasPrefix(spelling, "neg-exp"):
		return sqlgen.LitNegExp
	case strings.HasPrefix(spelling, "decimal"):
		return sqlgen.LitDecimal
	case strings.HasPrefix(spelling, "exponent"):
		return sqlgen.LitExponent
	}
	return sqlgen.LitInt
}

// slotPosition folds the generator's slot paths into position classes (signature material: the clause, by construction).
func slotPosition(slot string) string {
	el := strings.Split(slot, "/")
	last := el[len(el)-1]
	if last == "separator" {
		return "group-concat-separator"
	}
	for _, e := range el {
		switch e {
		case "limit", "offset", "on-dup", "values", "set", "having", "in-list":
			return "generated:" + e
		}
	}
	if len(el) > 1 && (last == "func-arg" || last == "case" || last == "sub") {
		return "generated:" + el[0] + "/" + last
	}
	return "generated:" + el[0]
}

// ---- bound parameters ----

// param is one COM_STMT_EXECUTE parameter carrying a marker where the type is wide enough for one.
type param struct {
	TypeName string
	BP       fakemysql.BoundParam
	Long     [][]byte // chunks sent with COM_STMT_SEND_LONG_DATA (BP.Omit is set)
	Marked   bool
}

var paramTypes = []string{"LONGLONG", "LONGLONG-negative", "LONGLONG-unsigned-above-2^63", "LONG", "LONG-negative", "INT24", "SHORT", "TINY", "YEAR", "FLOAT", "DOUBLE", "NEWDECIMAL", "DECIMAL",
	"VAR_STRING", "STRING", "VARCHAR", "BLOB", "TINY_BLOB", "MEDIUM_BLOB", "LONG_BLOB", "JSON", "ENUM", "SET", "BIT", "GEOMETRY", "DATE", "DATETIME", "TIMESTAMP", "TIME", "NULL-type", "NULL-bit"}

var stringParamTypes = []string{"VAR_STRING", "STRING", "VARCHAR", "BLOB", "TINY_BLOB", "MEDIUM_BLOB", "LONG_BLOB"}

func le(n uint64, width int) []byte {
	b := make([]byte, 8)
	binary.LittleEndian.PutUint64(b, n)
	return b[:width]
}

// boundParam builds a parameter of the named type.
func (g *registry) boundParam(rng *gen.Rand, typeName string, mi markerInfo) param {
	mi.Spelling = "bound:" + typeName
	mi.Class = "bound-parameter"
	p := param{TypeName: typeName, Marked: true}
	str := func(t byte) {
		core := g.core(mi)
		pre := []string{"", "p ", "it's ", "\x00\x01\xfe", "é"}[rng.Intn(5)]
		suf := []string{"", " s", "\xff\x00", "'", `\`}[rng.Intn(5)]
		p.BP = fakemysql.BoundParam{Type: t, Data: []byte(pre + core + suf)}
	}
	switch typeName {
	case "LONGLONG", "LONGLONG-negative":
		_, c := g.counter()
		s := "48" + c + "1"
		var v int64
		fmt.Sscan(s, &v)
		g.add(s, mi)
		if typeName == "LONGLONG-negative" {
			v = -v
		} else {
			g.addBin(le(uint64(v), 8), mi)
		}
		p.BP = fakemysql.BoundParam{Type: fakemysql.TypeLongLong, Data: le(uint64(v), 8)}
	case "LONGLONG-unsigned-above-2^63":
		_, c := g.counter()
		s := "182" + c + "000000001"
		var v uint64
		fmt.Sscan(s, &v)
		g.add(s, mi)
		// Acra decodes integers as signed
		g.add(fmt.Sprint(-int64(v)), mi)
		g.add(strings.TrimPrefix(fmt.Sprint(int64(v)), "-"), mi)
		p.BP = fakemysql.BoundParam{Type: fakemysql.TypeLongLong, Unsigned: true, Data: le(v, 8)}
	case "LONG", "LONG-negative", "INT24":
		n, _ := g.counter()
		s := fmt.Sprintf("13%07d1", n%10000000)
		var v int64
		fmt.Sscan(s, &v)
		g.add(s, mi)
		if typeName == "LONG-negative" {
			v = -v
		}
		t := byte(fakemysql.TypeLong)
		if typeName == "INT24" {
			t = fakemysql.TypeInt24
		}
		p.BP = fakemysql.BoundParam{Type: t, Data: le(uint64(v), 4)}
	case "SHORT", "YEAR":
		// too narrow for a marker: driven, not judged
		t := byte(fakemysql.TypeShort)
		if typeName == "YEAR" {
			t = fakemysql.TypeYear
		}
		p.BP, p.Marked = fakemysql.BoundParam{Type: t, Data: le(uint64(1000+rng.Intn(9000)), 2)}, false
	case "TINY":
		p.BP, p.Marked = fakemysql.BoundParam{Type: fakemysql.TypeTiny, Data: []byte{byte(rng.Intn(256))}}, false
	case "FLOAT":
		// 24 bits of mantissa: too narrow for a marker
		p.BP, p.Marked = fakemysql.BoundParam{Type: fakemysql.TypeFloat, Data: le(uint64(math.Float32bits(float32(rng.Intn(1<<20))+0.5)), 4)}, false
	case "DOUBLE":
		_, c := g.counter()
		var v float64
		fmt.Sscan("47"+c+".5", &v)
		g.add("47"+c, mi)
		g.add("7"+c+"5", mi) // 4.7<c>5E+09
		p.BP = fakemysql.BoundParam{Type: fakemysql.TypeDouble, Data: le(math.Float64bits(v), 8)}
	case "NEWDECIMAL", "DECIMAL":
		n, c := g.counter()
		f := fmt.Sprintf("%06d", n%1000000)
		g.add("43"+c, mi)
		g.add("5"+f+"1", mi)
		t := byte(fakemysql.TypeNewDecimal)
		if typeName == "DECIMAL" {
			t = fakemysql.TypeDecimal
		}
		p.BP = fakemysql.BoundParam{Type: t, Data: []byte("43" + c + ".5" + f + "1")}
	case "VAR_STRING":
		str(fakemysql.TypeVarString)
	case "STRING":
		str(fakemysql.TypeString)
	case "VARCHAR":
		str(fakemysql.TypeVarchar)
	case "BLOB":
		str(fakemysql.TypeBlob)
	case "TINY_BLOB":
		str(fakemysql.TypeTinyBlob)
	case "MEDIUM_BLOB":
		str(fakemysql.TypeMediumBlob)
	case "LONG_BLOB":
		str(fakemysql.TypeLongBlob)
	case "JSON":
		core := g.core(mi)
		p.BP = fakemysql.BoundParam{Type: fakemysql.TypeJSON, Data: []byte(`{"k": "` + core + `"}`)}
	case "ENUM":
		str(fakemysql.TypeEnum)
	case "SET":
		str(fakemysql.TypeSet)
	case "BIT":
		str(fakemysql.TypeBit)
	case "GEOMETRY":
		str(fakemysql.TypeGeometry)
	case "DATE":
		p.BP, p.Marked = fakemysql.BoundParam{Type: fakemysql.TypeDate, Data: []byte{0xe8, 0x07, byte(1 + rng.Intn(12)), byte(1 + rng.Intn(28))}}, false
	case "DATETIME", "TIMESTAMP":
		t := byte(fakemysql.TypeDatetime)
		if typeName == "TIMESTAMP" {
			t = fakemysql.TypeTimestamp
		}
		us := uint32(rng.Intn(1000000))
		p.BP, p.Marked = fakemysql.BoundParam{Type: t, Data: []byte{0xe8, 0x07, 5, 17, byte(rng.Intn(24)), byte(rng.Intn(60)), byte(rng.Intn(60)), byte(us), byte(us >> 8), byte(us >> 16), byte(us >> 24)}}, false
	case "TIME":
		p.BP, p.Marked = fakemysql.BoundParam{Type: fakemysql.TypeTime, Data: []byte{0, 0, 0, 0, 0, byte(rng.Intn(24)), byte(rng.Intn(60)), byte(rng.Intn(60))}}, false
	case "NULL-type":
		p.BP, p.Marked = fakemysql.BoundParam{Type: fakemysql.TypeNull, Null: true}, false
	case "NULL-bit":
		p.BP, p.Marked = fakemysql.BoundParam{Type: stringOrIntType(rng), Null: true}, false
	default:
		panic("unknown parameter type " + typeName)
	}
	return p
}

func stringOrIntType(rng *gen.Rand) byte {
	return []byte{fakemysql.TypeVarString, fakemysql.TypeBlob, fakemysql.TypeLongLong, fakemysql.TypeLong}[rng.Intn(4)]
}

// longDataParam builds a string/blob parameter whose value travels in 1-3 COM_STMT_SEND_LONG_DATA chunks, a marker in each.
func (g *registry) longDataParam(rng *gen.Rand, mi markerInfo) param {
	t := []byte{fakemysql.TypeBlob, fakemysql.TypeLongBlob, fakemysql.TypeVarString, fakemysql.TypeMediumBlob}[rng.Intn(4)]
	mi.Spelling = "long-data"
	mi.Class = "long-data"
	p := param{TypeName: "long-data", Marked: true, BP: fakemysql.BoundParam{Type: t, Omit: true}}
	for k := 0; k < 1+rng.Intn(3); k++ {
		chunk := []byte("chunk " + g.core(mi) + " ")
		if rng.Intn(3) == 0 {
			chunk = append(chunk, []byte(strings.Repeat("padding ", 40))...)
		}
		p.Long = append(p.Long, chunk)
	}
	return p
}

// int32Lit writes an integer literal that fits int32.
func (g *registry) int32Lit(mi markerInfo) lit {
	mi.Spelling = "int-within-int32"
	n, _ := g.counter()
	s := fmt.Sprintf("13%07d1", n%10000000)
	g.add(s, mi)
	return lit{Spelling: mi.Spelling, Text: s, Value: []byte(s)}
}
