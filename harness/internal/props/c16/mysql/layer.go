// Package mysql is the MySQL wire layer of the C16 monitor ("literal values of client statements never appear in Acra's logs:
// only the redacted form with placeholders is written, and it keeps the statement's shape"): the sibling of proxylayers.Logs
// (PostgreSQL). A MySQL-mode AcraServer built by Acra's own proxy factory stands between a scripted MySQL client and a scripted
// MySQL server; everything Acra writes while statements travel through it is captured: the logger (hook on logrus' standard
// logger = message and fields, and its output writer = formatted bytes) at every log level and in every log format, the
// query_capture file and the parse_errors_log file of AcraCensor.
package mysql

import (
	"bytes"
	"encoding/json"
	"fmt"
	"io"
	"os"
	"regexp"
	"strings"
	"sync"
	"time"

	"github.com/sirupsen/logrus"

	"github.com/cossacklabs/acra/logging"
	"github.com/cossacklabs/acra/sqlparser"

	"verif/harness/internal/ev"
	"verif/harness/internal/gen"
	"verif/harness/internal/props/c16"
	"verif/harness/internal/rig/fakemysql"
	"verif/harness/internal/rig/proxyrig"
	"verif/harness/internal/rig/sqlgen"
)

// ---- capture ----

type logHit struct {
	hit
	via, template, level string
	entry                string
}

type loggedForm struct{ Kind, Text string }

type capture struct {
	reg      *registry
	mu       sync.Mutex
	entries  int64
	bytes    int64
	byLevel  map[string]int64
	hits     []logHit
	forms    []loggedForm        // redacted statements found in entries since the last takeForms
	viaHook  map[string]struct{} // tokens already reported through the hook (the writer sees the same entry again)
	tee      io.Writer
	messages map[string]int64 // message templates seen (evidence)
}

func (c *capture) Levels() []logrus.Level { return logrus.AllLevels }

// messageTemplate is the constant head of a log message (signature material): the text up to the first colon, quotation mark
// or opening apostrophe, at most seven words.
func messageTemplate(m string) string {
	cut := len(m)
	for _, sep := range []string{":", "\"", " '", "("} {
		if i := strings.Index(m, sep); i > 0 && i < cut {
			cut = i
		}
	}
	f := strings.Fields(m[:cut])
	for i, w := range f {
		// a word that looks like data (a long run of digits / hex digits) ends the constant head
		if reDataWord.MatchString(w) {
			f = f[:i]
			break
		}
	}
	if len(f) > 7 {
		f = f[:7]
	}
	return strings.TrimRight(strings.Join(f, " "), ",.;")
}

var reDataWord = regexp.MustCompile(`[0-9a-fA-F]{8,}|[0-9]{6,}|MYQ`)

var reQuotedQuery = regexp.MustCompile(`(?s)^(Allowed|Denied) query: '(.*)'\s*$`)

func (c *capture) Fire(e *logrus.Entry) error {
	tpl := messageTemplate(e.Message)
	var joined strings.Builder
	joined.WriteString(e.Message)
	var forms []loggedForm
	for k, v := range e.Data {
		s := fmt.Sprint(v)
		joined.WriteByte('\n')
		joined.WriteString(s)
		if k == "sql" {
			forms = append(forms, loggedForm{"debug-sql-field", s})
		}
	}
	if m := reQuotedQuery.FindStringSubmatch(e.Message); m != nil {
		forms = append(forms, loggedForm{strings.ToLower(m[1]) + "-query-message", m[2]})
	}
	c.mu.Lock()
	c.entries++
	c.byLevel[e.Level.String()]++
	c.messages[tpl]++
	c.forms = append(c.forms, forms...)
	c.mu.Unlock()
	if hs := c.reg.scan(joined.String()); len(hs) > 0 {
		// attribute each hit to the message or to a field
		var out []logHit
		for _, h := range c.reg.scan(e.Message) {
			out = append(out, logHit{h, "message", tpl, e.Level.String(), clip(e.Message, 700)})
		}
		for k, v := range e.Data {
			s := fmt.Sprint(v)
			via := "field:" + k
			if k == logrus.ErrorKey {
				// which error text it is (its constant head) tells one leaking error from another
				head := messageTemplate(s)
				if len(head) > 48 || len(c.reg.scan(head)) > 0 {
					head = "value"
				}
				via += "(" + head + ")"
			}
			for _, h := range c.reg.scan(s) {
				out = append(out, logHit{h, via, tpl, e.Level.String(), clip(e.Message+" | "+k+"="+s, 700)})
			}
		}
		c.mu.Lock()
		for _, h := range out {
			c.viaHook[h.Token] = struct{}{}
		}
		if len(c.hits) < 100000 {
			c.hits = append(c.hits, out...)
		}
		c.mu.Unlock()
	}
	return nil
}

func (c *capture) Write(p []byte) (int, error) {
	if c.tee != nil {
		c.tee.Write(p)
	}
	s := string(p)
	hs := c.reg.scan(s)
	c.mu.Lock()
	c.bytes += int64(len(p))
	for _, h := range hs {
		if _, seen := c.viaHook[h.Token]; !seen && len(c.hits) < 100000 {
			c.hits = append(c.hits, logHit{h, "formatted-output", "", "", clip(s, 700)})
		}
	}
	c.mu.Unlock()
	return len(p), nil
}

func (c *capture) takeHits() []logHit {
	c.mu.Lock()
	defer c.mu.Unlock()
	h := c.hits
	c.hits = nil
	return h
}

func (c *capture) takeForms() []loggedForm {
	c.mu.Lock()
	defer c.mu.Unlock()
	f := c.forms
	c.forms = nil
	return f
}

func clip(s string, n int) string {
	if len(s) > n {
		return s[:n] + "..."
	}
	return s
}

// ---- the layer ----

var (
	formats = []string{logging.PlaintextFormatString, logging.JSONFormatString, logging.CefFormatString}
	levels  = []struct {
		name string
		l    int
	}{{"debug", logging.LogDebug}, {"info", logging.LogVerbose}, {"warning", logging.LogDiscard}}
)

type layer struct {
	r     *ev.Run
	reg   *registry
	cap   *capture
	step  int
	trips int
	// current session
	sidx                 int
	format, level, class string
}

// Layer runs the MySQL part of C16.
func Layer(r *ev.Run) {
	proxyrig.SetDialect(true)
	defer proxyrig.SetDialect(false)
	t0 := time.Now()
	defer func() { r.Extra("mysql_log_layer_wall_s", time.Since(t0).Seconds()) }()
	r.Rule += " || MySQL wire layer: sessions of a scripted MySQL client through a MySQL-mode AcraServer (Acra's proxy factory; encryptor configuration with encrypted, searchable, masked, tokenized and type-aware columns with every on-fail policy) in front of a scripted MySQL server, one session per (log format, log level, firewall configuration) with every log entry (hook + formatted output) and the firewall's query_capture / parse_errors_log files captured. " +
		"Statements carry a unique marker in every literal: directed statement shapes for every literal position (VALUES rows, NULL-adjacent values, INSERT..SET, ON DUPLICATE KEY UPDATE, UPDATE SET, WHERE comparisons / BETWEEN / LIKE / REGEXP / IN lists / tuples / sub-selects / CASE / arithmetic, LIMIT and OFFSET, function arguments, select list, GROUP BY / HAVING / ORDER BY, unions, /*! version comments */, SET, DDL defaults) x every MySQL spelling ('..' and \"..\" with doubled quotes and backslash escapes, X'..' x'..' 0x.. b'..' B'..', _binary introducer, integers incl. beyond int64 / leading zero, decimals, exponents incl. beyond float64, signed and spaced-sign numbers), generated statements of rig/sqlgen, statements Acra's grammar rejects (charset introducers, N'..', 0b.., adjacent strings, damaged statements), sent as COM_QUERY and as COM_STMT_PREPARE; " +
		"COM_STMT_EXECUTE parameters of every type (markers where the type is wide enough), NULLs, COM_STMT_SEND_LONG_DATA; round trips (INSERT of marker values into configured columns, SELECT answered with the stored / damaged / foreign bytes in both row protocols) so that decryption, detokenization and type-conversion error paths log; database ERR packets quoting the forwarded statement. distinct = (statement shape or parameter class, protocol, log format, level, firewall configuration, outcome)"
	r.Assumptions = append(r.Assumptions,
		"MySQL wire layer: database and client are the harness's scripted MySQL codec (the database answers what the step prescribes; what a statement means is irrelevant to this property)",
		"MySQL wire layer: hexadecimal and bit literals (X'..', 0x.., b'..') ARE judged here: they are string / numeric values of the statement in a quoting form of the dialect (the in-process part of the monitor only reports them)",
		"MySQL wire layer: text inside ordinary comments is not a literal value (markers there are reported, not judged); literals inside /*! version comments */ are executed by the server and are judged",
		"MySQL wire layer: TINY / SHORT / YEAR / FLOAT / temporal parameters are too narrow to carry an unmistakable marker: driven, not judged",
		"MySQL wire layer: the parse_errors_log file may hold the statements Acra could not parse (the property exempts it); a literal of a statement Acra DID parse is judged there too",
	)
	L := &layer{r: r, reg: newRegistry()}
	L.cap = &capture{reg: L.reg, byLevel: map[string]int64{}, viaHook: map[string]struct{}{}, messages: map[string]int64{}}
	std := logrus.StandardLogger()
	oldOut, oldLevel, oldFmt := std.Out, std.GetLevel(), std.Formatter
	if os.Getenv("VERIF_LOGS") != "" {
		L.cap.tee = os.Stderr
	}
	std.AddHook(L.cap)
	logrus.SetOutput(L.cap)
	defer func() {
		logrus.SetOutput(oldOut)
		logrus.SetLevel(oldLevel)
		logrus.SetFormatter(oldFmt)
		nh := logrus.LevelHooks{}
		for lvl, hs := range std.Hooks {
			for _, h := range hs {
				if h != logrus.Hook(L.cap) {
					nh[lvl] = append(nh[lvl], h)
				}
			}
		}
		std.ReplaceHooks(nh)
	}()
	rng := gen.New(r.Seed, "c16-mysql")
	n := r.Pick(27, 378)
	for s := 0; s < n; s++ {
		L.sidx, L.format, L.level, L.class = s, formats[s%3], levels[(s/3)%3].name, censorClasses[s%len(censorClasses)]
		std.SetFormatter(logging.CreateFormatter(L.format))
		logging.SetLogLevel(levels[(s/3)%3].l)
		L.session(gen.New(r.Seed, fmt.Sprintf("c16my-%d-%d", s, rng.Int63())), (s/9)%2 == 1)
	}
	L.cap.mu.Lock()
	r.Count("mysql_log_entries_captured", L.cap.entries)
	r.Count("mysql_log_bytes_captured", L.cap.bytes)
	for lvl, c := range L.cap.byLevel {
		r.Count("mysql_log_entries_captured_of_level:"+lvl, c)
	}
	top := map[string]int64{}
	for m, c := range L.cap.messages {
		if c >= 20 {
			top[m] = c
		}
	}
	L.cap.mu.Unlock()
	r.Extra("mysql_log_message_templates_seen_20_times_or_more", top)
	// non-vacuity: the logs must really hold the redacted statements and the entries expected of every level and sink
	r.RequireAtLeast("mysql_log_entries_captured", int64(r.Pick(15000, 200000)))
	for _, lvl := range []string{"debug", "info", "warning", "error"} {
		r.RequireAtLeast("mysql_log_entries_captured_of_level:"+lvl, 100)
	}
	for _, f := range formats {
		for _, l := range levels {
			r.RequireAtLeast("mysql_log_entries_captured_in:"+f+"/"+l.name, 50)
		}
	}
	r.RequireAtLeast("mysql_statements_sent:COM_QUERY", 500)
	r.RequireAtLeast("mysql_statements_sent:COM_STMT_PREPARE", 300)
	r.RequireAtLeast("mysql_markers_issued_and_looked_for", 5000)
	r.RequireAtLeast("mysql_redacted_statements_found_in_log:debug-sql-field", 250)
	r.RequireAtLeast("mysql_redacted_statements_found_in_log:allowed-query-message", 150)
	r.RequireAtLeast("mysql_redacted_statements_found_in_log:denied-query-message", 30)
	r.RequireAtLeast("mysql_logged_redacted_forms_shape_checked", 300)
	r.RequireAtLeast("mysql_query_capture_file_statements_read", 150)
	r.RequireAtLeast("mysql_query_capture_file_statements_shape_checked", 100)
	r.RequireAtLeast("mysql_parse_errors_file_statements_read_equal_to_sent_ones", 15)
	r.RequireAtLeast("mysql_unparseable_statements_sent", 100)
	r.RequireAtLeast("mysql_statements_rejected_by_the_firewall", 60)
	r.RequireAtLeast("mysql_bound_parameters_with_markers_sent", 300)
	r.RequireAtLeast("mysql_long_data_chunks_sent", 20)
	r.RequireAtLeast("mysql_database_errors_echoing_the_statement", 100)
	r.RequireAtLeast("mysql_round_trip_rows_read_back:stored", 60)
	r.RequireAtLeast("mysql_round_trip_rows_read_back:damaged", 60)
	r.RequireAtLeast("mysql_round_trip_rows_read_back:foreign", 60)
	for _, v := range []string{"non-integer-into-type-aware-column", "non-integer-into-token-column", "integers"} {
		r.RequireAtLeast("mysql_round_trips:"+v, 20)
	}
	r.RequireAtLeast("mysql_round_trip_values_read_back_and_revealed_by_acra", 40)
	r.RequireAtLeast("mysql_log_entries_about_failed_column_processing", 20)
	r.RequireSetAtLeast("mysql_literal_spellings_sent", len(stringSpellings)+len(numberSpellings)+len(foreignStrings))
	r.RequireSetAtLeast("mysql_parameter_types_sent", len(paramTypes))
	r.RequireSetAtLeast("mysql_statement_shapes_sent", len(templates)+len(unparseableTemplates))
}

// plan item kinds of a session
type item struct {
	kind string
	tpl  tpl
}

func (L *layer) session(rng *gen.Rand, deprecateEOF bool) {
	r := L.r
	w, err := openWorld(L.class, deprecateEOF)
	if err != nil {
		r.Violation("mysql wire: world could not be built: "+L.class, map[string]interface{}{"err": err.Error()})
		return
	}
	defer w.remove()
	entries0 := L.cap.entriesNow()
	S := &sess{L: L, w: w, rng: rng, skeletons: map[string]struct{}{}, unparseableSent: map[string]struct{}{}}
	// the plan: directed shapes rotate over the sessions so that every shape meets every configuration
	var plan []item
	k := r.Pick(30, 30)
	for i := 0; i < k; i++ {
		plan = append(plan, item{"directed", templates[(L.sidx*k+i)%len(templates)]})
	}
	plan = append(plan, item{"odd", oddTemplates[L.sidx%len(oddTemplates)]})
	for i := 0; i < 5; i++ {
		plan = append(plan, item{"unparseable", unparseableTemplates[(L.sidx*5+i)%len(unparseableTemplates)]})
	}
	for i := 0; i < 10; i++ {
		plan = append(plan, item{kind: "generated"})
	}
	for i := 0; i < 2; i++ {
		plan = append(plan, item{kind: "generated-damaged"})
	}
	for i := 0; i < 7; i++ {
		plan = append(plan, item{kind: "bound"})
	}
	for i := 0; i < 4; i++ {
		plan = append(plan, item{kind: "round-trip"})
	}
	plan = append(plan, item{kind: "ignored"})
	rng.Shuffle(len(plan), func(i, j int) { plan[i], plan[j] = plan[j], plan[i] })
	S.gen = sqlgen.New(r.Seed, fmt.Sprintf("c16my-gen-%d", L.sidx), sqlgen.MySQL, sqlgen.Options{Schema: genSchema, Literals: L.reg.source(&L.step, "parseable"), Placeholders: "none"})
	for _, it := range plan {
		if !S.alive() {
			break
		}
		switch it.kind {
		case "directed", "odd":
			S.directed(it.tpl, it.kind)
		case "unparseable":
			S.unparseable(it.tpl)
		case "generated":
			S.generated(false)
		case "generated-damaged":
			S.generated(true)
		case "bound":
			S.bound()
		case "round-trip":
			S.roundTrip()
		case "ignored":
			S.send(stmt{kind: "ignore-list", shape: "ignore-list", text: ignoredQuery, class: "parseable", tokens: nil, proto: "query", reply: "rows", ncols: 1})
		}
	}
	w.close()
	// the firewall's writers flush when released
	w.acra.Censor.ReleaseAll()
	S.readFiles()
	L.flushHits()
	n := L.cap.entriesNow() - entries0
	r.Count("mysql_log_entries_captured_in:"+L.format+"/"+L.level, n)
	r.Count("mysql_sessions_run", 1)
	r.Count("mysql_sessions_run_under:"+L.class, 1)
}

func (c *capture) entriesNow() int64 { c.mu.Lock(); defer c.mu.Unlock(); return c.entries }

// sess is one session's state.
type sess struct {
	L               *layer
	w               *world
	rng             *gen.Rand
	gen             *sqlgen.Gen
	broken          int
	skeletons       map[string]struct{} // shapes of the statements sent (query-capture file lines must be among them)
	unparseableSent map[string]struct{}
	sent            int
}

func (S *sess) alive() bool { return S.broken < 40 }

// stmt is one statement to send.
type stmt struct {
	kind   string // directed | odd | unparseable | generated | generated-damaged | bound | round-trip-insert | round-trip-select | ignore-list
	shape  string // template name / generator kind (signature material)
	text   string
	class  string // parseable | unparseable (decided by Acra's strict parser)
	proto  string // query | prepare
	dml    bool
	params []param
	// the database's answer: ok | rows | err-echo | err-echo-at-prepare | table-rows
	reply     string
	ncols     int
	table     string
	cols      []string
	rows      [][][]byte
	tokens    []string
	skeleton  string
	wantShape bool
	// round trips: tokens of the values written before; the reply Acra hands to the client is searched for them
	written  []string
	revealed int
}

// classify asks Acra's strict parser (the firewall's) whether it accepts the statement, prepared the way HandleRawSQLQuery
// prepares it, and returns the statement's shape when it does.
func classify(text string) (class, skeleton string) {
	stripped, _ := sqlparser.SplitMarginComments(text)
	stripped = strings.TrimSuffix(stripped, ";")
	sk, err := c16.Skeleton(stripped)
	if err != nil {
		return "unparseable", ""
	}
	return "parseable", sk
}

func isDMLText(s string) bool {
	s = strings.ToLower(strings.TrimLeft(s, " \t\n("))
	for _, p := range []string{"select", "insert", "update", "delete", "replace"} {
		if strings.HasPrefix(s, p) {
			return true
		}
	}
	return false
}

func (S *sess) pickProto() string {
	if S.rng.Intn(5) < 2 {
		return "prepare"
	}
	return "query"
}

func (S *sess) pickReply(st *stmt) {
	switch {
	case S.rng.Intn(6) == 0 && st.proto == "prepare":
		st.reply = "err-echo-at-prepare"
	case S.rng.Intn(6) == 0:
		st.reply = "err-echo"
	case st.ncols > 0:
		st.reply = "rows"
	default:
		st.reply = "ok"
	}
}

func (S *sess) table() string { return []string{"tabc", "tabp", "tabp", "tabd"}[S.rng.Intn(4)] }

func (S *sess) directed(t tpl, kind string) {
	L := S.L
	L.step++
	L.reg.startRecording()
	b := L.reg.build(S.rng, t, "parseable", S.table(), L.step)
	toks := L.reg.stopRecording()
	st := stmt{kind: kind, shape: t.name, text: b.text, proto: S.pickProto(), dml: t.dml, ncols: t.rows, table: b.table, tokens: toks}
	st.class, st.skeleton = classify(st.text)
	L.reg.setClass(toks, st.class)
	for _, l := range b.lits {
		L.r.SetAdd("mysql_literal_spellings_sent", l.Spelling)
	}
	S.pickReply(&st)
	st.wantShape = t.dml && kind == "directed"
	S.send(st)
}

func (S *sess) unparseable(t tpl) {
	L := S.L
	L.step++
	L.reg.startRecording()
	b := L.reg.build(S.rng, t, "unparseable", S.table(), L.step)
	toks := L.reg.stopRecording()
	st := stmt{kind: "unparseable", shape: t.name, text: b.text, proto: S.pickProto(), table: b.table, tokens: toks}
	st.class, st.skeleton = classify(st.text)
	L.reg.setClass(toks, st.class)
	for _, l := range b.lits {
		L.r.SetAdd("mysql_literal_spellings_sent", l.Spelling)
	}
	S.pickReply(&st)
	S.send(st)
}

func (S *sess) generated(damage bool) {
	L := S.L
	L.step++
	L.reg.startRecording()
	g := S.gen.Next()
	toks := L.reg.stopRecording()
	text := g.Text
	kind := "generated"
	if damage {
		text, _ = sqlgen.Break(S.rng, sqlgen.MySQL, text)
		kind = "generated-damaged"
	}
	st := stmt{kind: kind, shape: "generated-" + g.Kind, text: text, proto: S.pickProto(), dml: g.DML(), tokens: toks}
	st.class, st.skeleton = classify(text)
	L.reg.setClass(toks, st.class)
	if g.Kind == "select" || g.Kind == "union" {
		st.ncols = 1
	}
	S.pickReply(&st)
	S.send(st)
}

// flushHits turns captured marker hits into violations / reports.
func (L *layer) flushHits() {
	for _, h := range L.cap.takeHits() {
		L.report("log", h.hit, map[string]interface{}{"via": h.via, "message_template": h.template, "entry_level": h.level, "entry": h.entry}, h.template, h.via)
	}
}

// report judges one marker found in a sink.
func (L *layer) report(sink string, h hit, detail map[string]interface{}, template, via string) {
	r := L.r
	if !h.Info.Judged {
		r.Count("mysql_unjudged_marker_seen_in:"+sink+":"+h.Info.Class, 1)
		return
	}
	if sink == "parse-errors-file" && h.Info.Class == "unparseable" {
		r.Count("mysql_markers_of_unparseable_statements_in_the_parse_errors_file(exempt)", 1)
		return
	}
	detail["marker"] = h.Token
	detail["rendering"] = h.Rendering
	detail["format"], detail["level"], detail["firewall"], detail["session"], detail["issued_at_step"] = L.format, L.level, L.class, L.sidx, h.Info.Step
	what := "statement literal"
	switch h.Info.Class {
	case "unparseable":
		what = "text of a statement Acra could not parse"
	case "bound-parameter":
		what = "bound parameter value"
	case "long-data":
		what = "long-data parameter value"
	}
	where := "a log entry"
	switch sink {
	case "query-capture-file":
		where = "the query_capture file"
	case "parse-errors-file":
		where = "the parse_errors_log file (statement was parsed)"
	}
	sig := fmt.Sprintf("mysql wire: %s appears in %s: spelling=%s position=%s rendering=%s", what, where, h.Info.Spelling, h.Info.Position, h.Rendering)
	if sink == "log" {
		sig += fmt.Sprintf(" message=%s via=%s", template, via)
	}
	r.Violation(sig, detail)
}

var reJSONLine = regexp.MustCompile(`^\s*\{`)

// readFiles reads what the firewall wrote to its files during the session.
func (S *sess) readFiles() {
	L, r, w := S.L, S.L.r, S.w
	read := func(path string) []string {
		if path == "" {
			return nil
		}
		// the writer dumps from a goroutine after Release: wait until the file is there and stops growing (watchdog: inconclusive)
		var last int64 = -1
		stable := 0
		deadline := time.Now().Add(10 * time.Second)
		for time.Now().Before(deadline) {
			fi, err := os.Stat(path)
			if err == nil && fi.Size() == last && last > 0 {
				if stable++; stable >= 3 {
					break
				}
			} else {
				stable = 0
				if err == nil {
					last = fi.Size()
				}
			}
			time.Sleep(15 * time.Millisecond)
		}
		b, err := os.ReadFile(path)
		if err != nil || len(b) == 0 {
			r.Count("mysql_firewall_files_found_empty", 1)
			return nil
		}
		var out []string
		for _, ln := range bytes.Split(b, []byte{'\n'}) {
			if !reJSONLine.Match(ln) {
				continue
			}
			var q struct {
				RawQuery string `json:"raw_query"`
			}
			if json.Unmarshal(ln, &q) == nil {
				out = append(out, q.RawQuery)
			}
			// the line as written, too
			for _, h := range L.reg.scan(string(ln)) {
				_ = h
			}
		}
		return out
	}
	for _, q := range read(w.captureFile) {
		r.Count("mysql_query_capture_file_statements_read", 1)
		hits := L.reg.scan(q)
		for _, h := range hits {
			L.report("query-capture-file", h, map[string]interface{}{"captured": clip(q, 700)}, "", "")
		}
		if !isDMLText(q) || len(hits) > 0 {
			continue // a line holding a marker is reported as that (its shape cannot be told from the damage)
		}
		sk, err := c16.Skeleton(q)
		if err != nil {
			r.Count("mysql_query_capture_file_statements_not_reparseable(not judged here)", 1)
			continue
		}
		r.Count("mysql_query_capture_file_statements_shape_checked", 1)
		if _, ok := S.skeletons[sk]; !ok {
			r.Violation("mysql wire: statement in the query_capture file has the shape of no statement that was sent", map[string]interface{}{"captured": clip(q, 700), "skeleton": clip(sk, 700), "firewall": L.class, "session": L.sidx})
		}
	}
	for _, q := range read(w.parseFile) {
		if _, ok := S.unparseableSent[q]; ok {
			r.Count("mysql_parse_errors_file_statements_read_equal_to_sent_ones", 1)
		} else {
			r.Count("mysql_parse_errors_file_statements_read_other", 1)
		}
		for _, h := range L.reg.scan(q) {
			L.report("parse-errors-file", h, map[string]interface{}{"written": clip(q, 700)}, "", "")
		}
	}
}

// send runs one statement through Acra and judges what was logged meanwhile.
func (S *sess) send(st stmt) {
	L, r, w := S.L, S.L.r, S.w
	r.Case()
	S.sent++
	r.SetAdd("mysql_statement_shapes_sent", st.shape)
	r.Count("mysql_markers_issued_and_looked_for", int64(len(st.tokens)))
	if st.class == "unparseable" {
		r.Count("mysql_unparseable_statements_sent", 1)
		S.unparseableSent[st.text] = struct{}{}
	} else {
		if st.skeleton == "" {
			_, st.skeleton = classify(st.text)
		}
		S.skeletons[st.skeleton] = struct{}{}
	}
	echoes := 0
	w.setReply(func(sql string, binaryProto bool) *fakemysql.Reply {
		switch st.reply {
		case "err-echo", "err-echo-at-prepare":
			echoes++
			from := sql
			if len(from) > 30 {
				from = from[len(from)/3:]
			}
			return errEcho(from, st.reply == "err-echo-at-prepare")
		case "rows":
			return genericRows(st.table, st.ncols, binaryProto)
		case "table-rows":
			return rowsReply(st.table, st.cols, st.rows, binaryProto)
		}
		return &fakemysql.Reply{Affected: 1}
	})
	L.cap.takeForms()
	outcome := S.exchange(&st)
	r.Count("mysql_round_trip_values_read_back_and_revealed_by_acra", int64(st.revealed))
	if echoes > 0 {
		r.Count("mysql_database_errors_echoing_the_statement", 1)
	}
	if outcome == "rejected-by-acra" {
		r.Count("mysql_statements_rejected_by_the_firewall", 1)
	}
	// what the log holds about this statement
	forms := L.cap.takeForms()
	for _, f := range forms {
		if st.class != "parseable" {
			continue
		}
		if f.Text == "" {
			continue
		}
		r.Count("mysql_redacted_statements_found_in_log:"+f.Kind, 1)
		if !st.wantShape || st.skeleton == "" {
			continue
		}
		if f.Kind != "debug-sql-field" && len(f.Text) >= 100 {
			continue // the firewall's messages cut the statement at 100 bytes
		}
		r.Count("mysql_logged_redacted_forms_shape_checked", 1)
		sk, err := c16.Skeleton(f.Text)
		switch {
		case err != nil:
			r.Violation(fmt.Sprintf("mysql wire: redacted statement in a log entry does not parse: shape=%s entry=%s", st.shape, f.Kind), map[string]interface{}{"statement": clip(st.text, 700), "logged": clip(f.Text, 700), "error": err.Error(), "format": L.format, "level": L.level, "firewall": L.class})
		case sk != st.skeleton:
			r.Violation(fmt.Sprintf("mysql wire: redacted statement in a log entry does not keep the statement's shape: shape=%s entry=%s", st.shape, f.Kind), map[string]interface{}{"statement": clip(st.text, 700), "logged": clip(f.Text, 700), "skeleton_of_statement": clip(st.skeleton, 700), "skeleton_of_logged": clip(sk, 700), "format": L.format, "level": L.level, "firewall": L.class})
		}
	}
	r.Distinct(fmt.Sprintf("mysql-logs|%s|%s|%s|%s|%s|%s|%s", st.shape, st.proto, st.class, L.format, L.level, L.class, outcome))
	r.SampleN("mysql-"+st.kind, 2, map[string]interface{}{"statement": clip(st.text, 400), "protocol": st.proto, "class": st.class, "reply": st.reply, "outcome": outcome, "format": L.format, "level": L.level, "firewall": L.class, "logged_forms": forms})
	L.flushHits()
}

// countRevealed counts the values written earlier that the reply delivers in clear.
func (st *stmt) countRevealed(frames []fakemysql.Frame) {
	if len(st.written) == 0 {
		return
	}
	var all []byte
	for _, f := range frames {
		all = append(all, f.Payload...)
	}
	for _, t := range st.written {
		if bytes.Contains(all, []byte(t)) {
			st.revealed++
		}
	}
}

// exchange performs the protocol exchange of a statement. Outcomes: ok | rows | database-error | rejected-by-acra | connection-lost.
func (S *sess) exchange(st *stmt) string {
	r, w := S.L.r, S.w
	lost := func(err error) string {
		if err == proxyrig.ErrTimeout {
			r.Inconclusive("mysql wire: exchange watchdog expired")
		}
		r.Count("mysql_connections_lost", 1)
		r.SampleN("mysql-connection-lost", 6, map[string]interface{}{"note": "Acra closed the client connection (not a C16 verdict)", "statement": clip(st.text, 300), "shape": st.shape, "protocol": st.proto, "reply": st.reply, "error": fmt.Sprint(err)})
		r.SetAdd("mysql_connections_lost_at_shapes", st.shape+"/"+st.reply)
		S.broken++
		w.cl.Abort()
		if err := w.dial(); err != nil {
			S.broken = 100
		}
		return "connection-lost"
	}
	first := func(frames []fakemysql.Frame) string {
		if len(frames) == 0 || len(frames[0].Payload) == 0 {
			return "ok"
		}
		p := frames[0].Payload
		switch {
		case p[0] == 0xff:
			e, err := fakemysql.DecodeErr(p)
			switch {
			case err == nil && e.Code == 1064:
				return "database-error"
			case err == nil && e.Msg == "Query execution was interrupted":
				return "rejected-by-acra"
			}
			return "error-from-acra"
		case p[0] == 0x00:
			return "ok"
		}
		return "rows"
	}
	if st.proto == "query" {
		r.Count("mysql_statements_sent:COM_QUERY", 1)
		frames, err := w.cl.Command(append([]byte{fakemysql.ComQuery}, st.text...), "query")
		if err != nil {
			return lost(err)
		}
		st.countRevealed(frames)
		return first(frames)
	}
	r.Count("mysql_statements_sent:COM_STMT_PREPARE", 1)
	frames, err := w.cl.Command(append([]byte{fakemysql.ComStmtPrepare}, st.text...), "prepare")
	if err != nil {
		return lost(err)
	}
	if len(frames) == 0 || len(frames[0].Payload) == 0 || frames[0].Payload[0] == 0xff {
		return first(frames)
	}
	pok, err := fakemysql.DecodePrepareOK(frames[0].Payload)
	if err != nil {
		return lost(err)
	}
	if int(pok.Params) != len(st.params) {
		// the statement text holds '?' the plan did not count (inside a generated literal): leave it prepared
		r.Count("mysql_prepared_statements_not_executed(parameter count differs)", 1)
		return "prepared-only"
	}
	var bps []fakemysql.BoundParam
	for i, p := range st.params {
		bps = append(bps, p.BP)
		for _, chunk := range p.Long {
			payload := []byte{fakemysql.ComStmtSendLong, byte(pok.StmtID), byte(pok.StmtID >> 8), byte(pok.StmtID >> 16), byte(pok.StmtID >> 24), byte(i), byte(i >> 8)}
			if _, err := w.cl.Command(append(payload, chunk...), "none"); err != nil {
				return lost(err)
			}
			r.Count("mysql_long_data_chunks_sent", 1)
		}
	}
	r.Count("mysql_statements_sent:COM_STMT_EXECUTE", 1)
	frames, err = w.cl.Command(fakemysql.EncodeExecute(pok.StmtID, bps), "execute")
	if err != nil {
		return lost(err)
	}
	st.countRevealed(frames)
	out := first(frames)
	if S.rng.Intn(2) == 0 {
		w.cl.Command([]byte{fakemysql.ComStmtClose, byte(pok.StmtID), byte(pok.StmtID >> 8), byte(pok.StmtID >> 16), byte(pok.StmtID >> 24)}, "none")
	}
	return out
}

// errorEntries returns the number of entries of level error captured so far.
func (c *capture) errorEntries() int64 {
	c.mu.Lock()
	defer c.mu.Unlock()
	return c.byLevel["error"]
}
