package mysql

import (
	"os"
	"testing"

	"github.com/sirupsen/logrus"
	"io"

	"verif/harness/internal/ev"
)

// TestLayerDev runs the layer alone (development aid); evidence goes to $VERIF_ROOT.
func TestLayerDev(t *testing.T) {
	if os.Getenv("VERIF_ROOT") == "" {
		t.Skip("set VERIF_ROOT to a scratch directory")
	}
	logrus.SetOutput(io.Discard)
	r := ev.New("C16", "exploration")
	Layer(r)
	r.Distinct("dev-run")
	if rc := r.Finish(); rc != 0 {
		t.Fatalf("layer reported violations (rc=%d)", rc)
	}
}
