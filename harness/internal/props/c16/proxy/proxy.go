// Package proxy plugs the wire-proxy log capture into the C16 monitor.
package proxy

import (
	"verif/harness/internal/props/c16"
	"verif/harness/internal/props/proxylayers"
)

func init() { c16.ProxyLayer = proxylayers.Logs }
