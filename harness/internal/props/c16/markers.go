package c16

import (
	"fmt"
	"regexp"
	"strings"
	"sync"

	"verif/harness/internal/rig/sqlgen"
)

// markerInfo says which literal a marker token belongs to.
type markerInfo struct {
	Kind   sqlgen.LitKind
	Slot   string
	Judged bool   // false for hex / bit literals: generated and reported, not judged (the property's list of spellings does not name them)
	Part   string // whole | integer-part | fraction-part
}

// registry maps every issued marker token to its literal. Markers are unique per literal:
// strings carry MK<16 hex>; numbers come from disjoint digit families so that a maximal digit run found in a
// log line identifies the literal: integers 70<8 digits>1, negatives 79<8>1, decimals 73<8>.5<6>1, negative decimals
// 74<8>.6<6>1, exponents 7.3<8>e5 (judged on the run 3<8>), negative exponents 7.4<8>e5.
type registry struct {
	mu      sync.Mutex
	seq     uint64
	markers map[string]markerInfo
}

func newRegistry() *registry { return &registry{markers: map[string]markerInfo{}} }

func (g *registry) next() uint64 { g.seq++; return g.seq }

func (g *registry) add(tok string, mi markerInfo) { g.markers[tok] = mi }

func (g *registry) lookup(tok string) (markerInfo, bool) {
	g.mu.Lock()
	mi, ok := g.markers[tok]
	g.mu.Unlock()
	return mi, ok
}

// source returns a sqlgen.LiteralSource that writes a fresh marker at every literal position.
// It is called from a single goroutine (statement generation is sequential).
func (g *registry) source() sqlgen.LiteralSource {
	return func(q sqlgen.LitRequest) (sqlgen.LitKind, string, []byte) {
		g.mu.Lock()
		defer g.mu.Unlock()
		r := q.Rand
		n := g.next()
		str := func(forceSingle bool) (sqlgen.LitKind, string, []byte) {
			mk := fmt.Sprintf("MK%016x", n*0x9e3779b97f4a7c15)
			// surround the marker with ordinary and awkward text
			pre := []string{"", "", "a ", "it''s ", "x%", "100 ", "é"}[r.Intn(7)]
			suf := []string{"", "", " z", "_", " -- c", "/*", " 42"}[r.Intn(7)]
			if r.Intn(25) == 0 {
				// a long value (the normalizer treats values over 256 bytes differently)
				suf += " " + strings.Repeat("long value ", 28)
			}
			val := strings.ReplaceAll(pre, "''", "'") + mk + suf
			switch {
			case !forceSingle && q.Dialect == sqlgen.MySQL && r.Intn(3) == 0:
				g.add(mk, markerInfo{Kind: sqlgen.LitDouble, Slot: q.Slot, Judged: true, Part: "whole"})
				return sqlgen.LitDouble, `"` + strings.ReplaceAll(pre, "''", "'") + mk + suf + `"`, []byte(val)
			case !forceSingle && q.Dialect == sqlgen.PostgreSQL && r.Intn(3) == 0:
				g.add(mk, markerInfo{Kind: sqlgen.LitEscape, Slot: q.Slot, Judged: true, Part: "whole"})
				esc := []string{"", `\n`, `\t`}[r.Intn(3)]
				ev := map[string]string{"": "", `\n`: "\n", `\t`: "\t"}[esc]
				return sqlgen.LitEscape, "E'" + pre + mk + esc + suf + "'", []byte(val[:len(val)-len(suf)] + ev + suf)
			}
			g.add(mk, markerInfo{Kind: sqlgen.LitSingle, Slot: q.Slot, Judged: true, Part: "whole"})
			return sqlgen.LitSingle, "'" + pre + mk + suf + "'", []byte(val)
		}
		num := func(allowNeg, intOnly bool) (sqlgen.LitKind, string, []byte) {
			c := fmt.Sprintf("%08d", n%100000000)
			k := r.Intn(6)
			if intOnly {
				k = 0
			}
			if !allowNeg && k >= 3 {
				k -= 3
			}
			var kind sqlgen.LitKind
			var s string
			switch k {
			case 0:
				kind, s = sqlgen.LitInt, "70"+c+"1"
				switch {
				case !intOnly && n%6 == 1:
					// an integer beyond int64: still an integer literal of the statement
					s += "00000000000009"
					g.add(s, markerInfo{kind, q.Slot, true, "whole-unrepresentable"})
				case !intOnly && n%6 == 2:
					// leading zero with digits 8/9 (not an octal number for a base-0 parser)
					s = "0" + s + "8"
					g.add(s, markerInfo{kind, q.Slot, true, "whole-unrepresentable"})
				default:
					g.add(s, markerInfo{kind, q.Slot, true, "whole"})
				}
			case 1:
				kind = sqlgen.LitDecimal
				f := fmt.Sprintf("5%06d1", n%1000000)
				s = "73" + c + "." + f
				g.add("73"+c, markerInfo{kind, q.Slot, true, "integer-part"})
				g.add(f, markerInfo{kind, q.Slot, true, "fraction-part"})
			case 2:
				kind, s = sqlgen.LitExponent, "75"+c+".5e5"
				if n%5 == 1 {
					// beyond float64
					s = "75" + c + ".5e999"
					g.add("75"+c, markerInfo{kind, q.Slot, true, "integer-part-unrepresentable"})
				} else {
					g.add("75"+c, markerInfo{kind, q.Slot, true, "integer-part"})
				}
			case 3:
				kind, s = sqlgen.LitNegInt, "-79"+c+"1"
				g.add("79"+c+"1", markerInfo{kind, q.Slot, true, "whole"})
			case 4:
				kind = sqlgen.LitNegDecimal
				f := fmt.Sprintf("6%06d1", n%1000000)
				s = "-74" + c + "." + f
				g.add("74"+c, markerInfo{kind, q.Slot, true, "integer-part"})
				g.add(f, markerInfo{kind, q.Slot, true, "fraction-part"})
			default:
				kind, s = sqlgen.LitNegExp, "-76"+c+".5e5"
				g.add("76"+c, markerInfo{kind, q.Slot, true, "integer-part"})
			}
			return kind, s, []byte(s)
		}
		switch q.Want {
		case "string":
			return str(false)
		case "single":
			return str(true)
		case "number":
			return num(true, false)
		case "unsigned":
			return num(false, false)
		case "int":
			return num(false, true)
		}
		switch k := r.Intn(20); {
		case k < 9:
			return str(false)
		case k < 17:
			return num(true, false)
		case k == 17:
			h := fmt.Sprintf("4D4B%012X", n)
			g.add(strings.ToLower(h), markerInfo{sqlgen.LitHexNum, q.Slot, false, "whole"})
			return sqlgen.LitHexNum, "0x" + h, []byte(strings.ToLower(h))
		case k == 18:
			h := fmt.Sprintf("4d4b%012x", n)
			g.add(h, markerInfo{sqlgen.LitHexStr, q.Slot, false, "whole"})
			return sqlgen.LitHexStr, "x'" + h + "'", []byte(h)
		default:
			b := fmt.Sprintf("1011%028b", n)
			g.add(b, markerInfo{sqlgen.LitBit, q.Slot, false, "whole"})
			return sqlgen.LitBit, "b'" + b + "'", []byte(b)
		}
	}
}

var (
	reMK    = regexp.MustCompile(`MK[0-9a-f]{16}`)
	reHexMK = regexp.MustCompile(`(?i)4d4b[0-9a-f]{12}`)
)

func isLetter(c byte) bool { return c >= 'a' && c <= 'z' || c >= 'A' && c <= 'Z' }

type hit struct {
	Token string
	Info  markerInfo
}

// scan finds issued markers in a text. A digit run counts only when the whole maximal run is an issued marker,
// so that timestamps and other numbers in log lines cannot be taken for one.
func (g *registry) scan(text string) []hit {
	var hits []hit
	if strings.Contains(text, "MK") {
		for _, m := range reMK.FindAllString(text, -1) {
			if mi, ok := g.lookup(m); ok {
				hits = append(hits, hit{m, mi})
			}
		}
	}
	// maximal digit runs that are not glued to letters (so digits inside hex strings / identifiers never count)
	for i := 0; i < len(text); {
		if text[i] < '0' || text[i] > '9' {
			i++
			continue
		}
		j := i
		for j < len(text) && text[j] >= '0' && text[j] <= '9' {
			j++
		}
		if j-i >= 8 && (i == 0 || !isLetter(text[i-1])) && (j == len(text) || !isLetter(text[j])) {
			if mi, ok := g.lookup(text[i:j]); ok {
				hits = append(hits, hit{text[i:j], mi})
			}
		}
		i = j
	}
	if strings.Contains(text, "4d4b") || strings.Contains(text, "4D4B") {
		for _, m := range reHexMK.FindAllString(text, -1) {
			if mi, ok := g.lookup(strings.ToLower(m)); ok {
				hits = append(hits, hit{m, mi})
			}
		}
	}
	return hits
}
