// Package c16 will hold the monitor of property C16 (not built yet; nothing is registered).
package c16
