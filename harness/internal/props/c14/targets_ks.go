package c14

import (
	"bytes"
	"context"
	stdasn1 "encoding/asn1"
	"errors"
	"fmt"
	"os"
	"path/filepath"
	"sort"
	"sync"
	"strings"
	"time"

	"github.com/cossacklabs/acra/keystore"
	"github.com/cossacklabs/acra/keystore/filesystem"
	keystoreV2 "github.com/cossacklabs/acra/keystore/v2/keystore"
	"github.com/cossacklabs/acra/keystore/v2/keystore/api"
	"github.com/cossacklabs/acra/keystore/v2/keystore/asn1"
	v2crypto "github.com/cossacklabs/acra/keystore/v2/keystore/crypto"
	fsV2 "github.com/cossacklabs/acra/keystore/v2/keystore/filesystem"
	"github.com/cossacklabs/acra/keystore/v2/keystore/filesystem/backend"
	"github.com/cossacklabs/acra/keystore/v2/keystore/signature"

	"verif/harness/internal/gen"
	"verif/harness/internal/rig/ksrig"
)

var v2k = ksrig.V2Keys{Enc: bytes.Repeat([]byte{0x11}, 32), Sig: bytes.Repeat([]byte{0x22}, 32)}

// derFields walks DER and records every tag and length octet group as a field.
func derFields(b []byte, base int, depth int, out *[]fld) {
	off := 0
	for off < len(b) && len(*out) < 400 {
		start := off
		tag := b[off]
		off++
		if off >= len(b) {
			return
		}
		l := int(b[off])
		lenOff := off
		off++
		lw := 1
		if l&0x80 != 0 {
			n := l & 0x7f
			if n == 0 || n > 4 || off+n > len(b) {
				return
			}
			*out = append(*out, fld{name: fmt.Sprintf("d%d.lenform", depth), off: base + lenOff, w: 1})
			l = 0
			for i := 0; i < n; i++ {
				l = l<<8 | int(b[off+i])
			}
			lenOff = off
			lw = n
			off += n
		}
		*out = append(*out, fld{name: fmt.Sprintf("d%d.tag", depth), off: base + start, w: 1}, fld{name: fmt.Sprintf("d%d.len", depth), off: base + lenOff, w: lw, be: true})
		if off+l > len(b) {
			return
		}
		if tag&0x20 != 0 && depth < 8 {
			derFields(b[off:off+l], base+off, depth+1, out)
		}
		off += l
	}
}

func derArt(kind string, b []byte) art {
	var f []fld
	derFields(b, 0, 0, &f)
	return art{kind: kind, b: b, f: f}
}

type v2world struct {
	backend *backend.InMemory
	rings   map[string][]byte // path (without suffix) -> stored bytes
	paths   []string
	export  []byte
}

// buildV2 creates a real v2 keystore over an in-memory backend with keys of every kind.
func buildV2() (*v2world, error) {
	be := backend.NewInMemory()
	sks, err := ksrig.V2OnBackend(be, v2k)
	if err != nil {
		return nil, err
	}
	id := []byte("client_one")
	if err := ksrig.GenClient(sks, id); err != nil {
		return nil, err
	}
	// rotate once so that rings have two keys
	if err := sks.GenerateClientIDSymmetricKey(id); err != nil {
		return nil, err
	}
	if err := sks.GeneratePoisonKeyPair(); err != nil {
		return nil, err
	}
	w := &v2world{backend: be, rings: map[string][]byte{}}
	all, err := be.ListAll()
	if err != nil {
		return nil, err
	}
	for _, p := range all {
		if !strings.HasSuffix(p, ".keyring") {
			continue
		}
		b, err := be.Get(p)
		if err != nil {
			return nil, err
		}
		name := strings.TrimSuffix(p, ".keyring")
		w.rings[name] = b
		w.paths = append(w.paths, name)
	}
	sort.Strings(w.paths)
	if len(w.paths) == 0 {
		return nil, errors.New("no key rings created")
	}
	suite, err := keystoreV2.NewSCellSuite(v2k.Enc, v2k.Sig)
	if err != nil {
		return nil, err
	}
	store, err := fsV2.CustomKeyStore(be, suite)
	if err != nil {
		return nil, err
	}
	exp, err := store.(api.BackupKeystore).ExportKeyRings(w.paths, suite, keystore.ExportAllKeys)
	if err == nil {
		w.export = exp
	}
	return w, nil
}

func v2SigContext(path string) []byte {
	return []byte("AKSv2 keystore: key ring signature: " + path)
}

// sinkStorage discards every write (the v1 import target must not touch the disk with attacker-chosen names).
type sinkStorage struct {
	filesystem.DummyStorage
	writes int
}

func (s *sinkStorage) MkdirAll(path string, perm os.FileMode) error { return nil }
func (s *sinkStorage) WriteFile(path string, data []byte, perm os.FileMode) error {
	s.writes++
	return nil
}
func (s *sinkStorage) Rename(o, n string) error                       { return nil }
func (s *sinkStorage) Remove(p string) error                          { return nil }
func (s *sinkStorage) RemoveAll(p string) error                       { return nil }
func (s *sinkStorage) Link(o, n string) error                         { return nil }
func (s *sinkStorage) Copy(o, n string) error                         { return nil }
func (s *sinkStorage) TempFile(p string, m os.FileMode) (string, error) { return "", errors.New("sink") }
func (s *sinkStorage) TempDir(p string, m os.FileMode) (string, error)  { return "", errors.New("sink") }

func listKeyFiles(dir string) []string {
	var out []string
	filepath.Walk(dir, func(p string, info os.FileInfo, err error) error {
		if err == nil && info.Mode().IsRegular() {
			rel, _ := filepath.Rel(dir, p)
			out = append(out, rel)
		}
		return nil
	})
	sort.Strings(out)
	return out
}

func init() {
	// ---- v2 ----
	v2seeds := func(g *gen.Rand) []art {
		w, err := buildV2()
		if err != nil {
			panic(err)
		}
		var out []art
		for _, p := range w.paths {
			out = append(out, derArt("signed-keyring", w.rings[p]))
		}
		if w.export != nil {
			out = append(out, derArt("signed-export", w.export))
		}
		// inner objects
		if vc, err := asn1.UnmarshalVerifiedContainer(w.rings[w.paths[0]]); err == nil {
			out = append(out, derArt("keyring-der", vc.Payload.Data.FullBytes), derArt("payload-der", vc.Payload.RawContent))
		}
		kd, _ := stdasn1.Marshal(asn1.KeyDirectory{Name: []byte("dir"), KeyRings: []asn1.KeyRingReference{{Name: []byte("r"), Signatures: []asn1.Signature{{Algorithm: asn1.Sha256OID, Signature: []byte("sig")}}}}})
		out = append(out, derArt("keydirectory-der", kd))
		ek, _ := (&asn1.EncryptedKeys{KeyRings: []asn1.KeyRing{{Purpose: []byte("p"), Current: 0, Keys: []asn1.Key{{Seqnum: 1, State: asn1.KeyActive, ValidSince: time.Unix(1, 0), ValidUntil: time.Unix(2, 0),
			Data: []asn1.KeyData{{Format: asn1.ThemisSymmetricKeyFormat, SymmetricKey: []byte("k")}}}}}}}).Marshal()
		out = append(out, derArt("encryptedkeys-der", ek))
		return out
	}
	reg(&target{name: "ks2.asn1-unmarshal", group: "keystore", seeds: v2seeds, run: func(in []byte) error {
		_, err := asn1.UnmarshalVerifiedContainer(in)
		if r, e := asn1.UnmarshalKeyRing(in); e == nil {
			_, _ = r.KeyWithSeqnum(r.Current)
			err = nil
		}
		if _, e := asn1.UnmarshalKeyDirectory(in); e == nil {
			err = nil
		}
		if _, e := asn1.UnmarshalEncryptedKeys(in); e == nil {
			err = nil
		}
		return err
	}})
	var notary *signature.Notary
	var suite *v2crypto.KeyStoreSuite
	v2setup := func() error {
		var err error
		suite, err = keystoreV2.NewSCellSuite(v2k.Enc, v2k.Sig)
		if err != nil {
			return err
		}
		notary, err = signature.NewNotary(suite.SignatureAlgorithms)
		return err
	}
	reg(&target{name: "ks2.notary-verify", group: "keystore", seeds: v2seeds, setup: v2setup, run: func(in []byte) error {
		// context of the storage-keys ring and of exports; a hostile file is verified under whatever path it sits at
		_, err := notary.Verify(in, v2SigContext("client/client_one/storage"))
		_, _ = notary.Verify(in, []byte("some other context"))
		return err
	}})

	// OpenKeyRing over a backend holding arbitrary ring bytes. Input = [ring selector][stored bytes].
	type ringState struct {
		paths []string
	}
	var rs ringState
	openRing := func(in []byte) error {
		if len(in) < 1 {
			return errors.New("short")
		}
		path := rs.paths[int(in[0])%len(rs.paths)]
		be := backend.NewInMemory()
		if err := be.Put(path+".keyring", dup(in[1:])); err != nil {
			return fmt.Errorf("harness: %w", err)
		}
		ks, err := fsV2.CustomKeyStore(be, suite)
		if err != nil {
			return fmt.Errorf("harness: %w", err)
		}
		defer ks.Close()
		ring, err := ks.OpenKeyRing(path)
		if err != nil {
			return err
		}
		cur, _ := ring.CurrentKey()
		all, _ := ring.AllKeys()
		for _, s := range append(all, cur, 0, 1, -1, 1<<31) {
			_, _ = ring.State(s)
			_, _ = ring.ValidSince(s)
			_, _ = ring.ValidUntil(s)
			fs, _ := ring.Formats(s)
			for _, f := range append(fs, api.ThemisKeyPairFormat, api.ThemisSymmetricKeyFormat) {
				_, _ = ring.PublicKey(s, f)
				_, _ = ring.PrivateKey(s, f)
				_, _ = ring.SymmetricKey(s, f)
			}
		}
		// and through the server keystore facade
		sks := keystoreV2.NewServerKeyStore(ks)
		_, _ = sks.GetClientIDSymmetricKeys([]byte("client_one"))
		_, _ = sks.GetServerDecryptionPrivateKeys([]byte("client_one"))
		_, _ = sks.GetClientIDEncryptionPublicKey([]byte("client_one"))
		_, _ = sks.GetHMACSecretKey([]byte("client_one"))
		_, _ = sks.GetPoisonKeyPair()
		return nil
	}
	ringSetup := func() error {
		if err := v2setup(); err != nil {
			return err
		}
		w, err := buildV2()
		if err != nil {
			return err
		}
		rs.paths = w.paths
		return nil
	}
	reg(&target{name: "ks2.open-keyring.stored-bytes", group: "keystore", setup: ringSetup, run: openRing,
		seeds: func(g *gen.Rand) []art {
			w, err := buildV2()
			if err != nil {
				panic(err)
			}
			var out []art
			for i, p := range w.paths {
				out = append(out, nb("ring+bytes").u8("ring", uint64(i)).embed(derArt("signed-keyring", w.rings[p])).art())
			}
			return out
		}})
	// Same entry point, but the hostile ring is correctly signed (an attacker who can make the keystore sign, a
	// downgraded/corrupted writer, or a bundle import): structural oddities reach the ring accessors.
	type signedState struct {
		w      *v2world
		notary *signature.Notary
	}
	reg(&target{name: "ks2.open-keyring.signed-hostile-ring", group: "keystore", setup: ringSetup, run: openRing, weight: 0.5,
		prepare: func(g *gen.Rand) interface{} {
			w, err := buildV2()
			if err != nil {
				panic(err)
			}
			s, err := keystoreV2.NewSCellSuite(v2k.Enc, v2k.Sig)
			if err != nil {
				panic(err)
			}
			n, err := signature.NewNotary(s.SignatureAlgorithms)
			if err != nil {
				panic(err)
			}
			return &signedState{w, n}
		},
		gen: func(g *gen.Rand, st interface{}, i int) ([]byte, string, string) {
			ss := st.(*signedState)
			k := g.Intn(len(ss.w.paths))
			if i == 0 {
				k = 0
			}
			path := ss.w.paths[k]
			vc, err := asn1.UnmarshalVerifiedContainer(ss.w.rings[path])
			if err != nil {
				panic(err)
			}
			ring, err := asn1.UnmarshalKeyRing(vc.Payload.Data.FullBytes)
			if err != nil {
				panic(err)
			}
			sign := func(data interface{}, ct asn1.ContentType, ver int) []byte {
				c := asn1.SignedContainer{Payload: asn1.SignedPayload{ContentType: ct, Version: ver, LastModified: time.Unix(1700000000, 0), Data: data}}
				b, err := ss.notary.Sign(&c, v2SigContext(path))
				if err != nil {
					return nil
				}
				return b
			}
			class, detail := "valid:signed-ring", ""
			var signed []byte
			if i == 0 {
				signed = sign(*ring, asn1.TypeKeyRing, asn1.KeyRingVersion2)
			} else if g.Intn(2) == 0 {
				// structural mutation of the ring object
				vals := []int{0, 1, 2, -1, -2, len(ring.Keys), len(ring.Keys) + 1, 0x7f, 0x80, 0xff, 0x7fff, 0xffff, 1<<31 - 1, -1 << 31, 1 << 31, 1<<63 - 1, -1 << 63}
				pick := func() int { return vals[g.Intn(len(vals))] }
				switch g.Intn(12) {
				case 0:
					ring.Current = pick()
					class, detail = "signed-struct:current", fmt.Sprint(ring.Current)
				case 1:
					ring.Keys = nil
					class = "signed-struct:no-keys"
				case 2:
					for j := range ring.Keys {
						ring.Keys[j].Seqnum = pick()
					}
					class = "signed-struct:seqnum"
				case 3:
					for j := range ring.Keys {
						ring.Keys[j].Data = nil
					}
					class = "signed-struct:no-keydata"
				case 4:
					for j := range ring.Keys {
						ring.Keys[j].State = asn1.KeyState(pick())
					}
					class = "signed-struct:state"
				case 5:
					for j := range ring.Keys {
						for d := range ring.Keys[j].Data {
							ring.Keys[j].Data[d].Format = asn1.KeyFormat(pick())
						}
					}
					class = "signed-struct:format"
				case 6:
					for j := range ring.Keys {
						for d := range ring.Keys[j].Data {
							n := []int{0, 1, 12, 44, 45, 46}[g.Intn(6)]
							ring.Keys[j].Data[d].PrivateKey = gen.Bytes(g, n)
							ring.Keys[j].Data[d].SymmetricKey = gen.Bytes(g, n)
							ring.Keys[j].Data[d].PublicKey = gen.Bytes(g, n)
						}
					}
					class = "signed-struct:key-bytes"
				case 7:
					if len(ring.Keys) > 0 {
						ring.Keys = append(ring.Keys, ring.Keys[0], ring.Keys[0])
					}
					class = "signed-struct:dup-keys"
				case 8:
					ring.Purpose = gen.Bytes(g, randLens[g.Intn(len(randLens))])
					class = "signed-struct:purpose"
				case 9:
					for j := range ring.Keys {
						ring.Keys[j].ValidSince, ring.Keys[j].ValidUntil = time.Unix(2000000000, 0), time.Unix(0, 0)
					}
					class = "signed-struct:validity"
				case 10:
					signed = sign(*ring, asn1.ContentType(pick()), asn1.KeyRingVersion2)
					class = "signed-struct:content-type"
				default:
					signed = sign(*ring, asn1.TypeKeyRing, pick())
					class = "signed-struct:version"
				}
				if signed == nil {
					signed = sign(*ring, asn1.TypeKeyRing, asn1.KeyRingVersion2)
				}
			} else {
				// DER-level mutation of the ring object, then signed
				mb, c, d := mutate(g, derArt("keyring-der", vc.Payload.Data.FullBytes))
				var rv stdasn1.RawValue
				if _, err := stdasn1.Unmarshal(mb, &rv); err == nil {
					signed = sign(rv, asn1.TypeKeyRing, asn1.KeyRingVersion2)
				}
				if signed == nil {
					signed = sign(stdasn1.RawValue{Tag: 4, Bytes: mb}, asn1.TypeKeyRing, asn1.KeyRingVersion2)
					c = "octets:" + c
				}
				class, detail = "signed-der:"+c, d
			}
			if signed == nil {
				signed = ss.w.rings[path]
				class = "valid:signed-ring"
			}
			return append([]byte{byte(k)}, signed...), class, detail
		}})
	reg(&target{name: "ks2.import-keyrings", group: "keystore", setup: v2setup,
		seeds: func(g *gen.Rand) []art {
			w, err := buildV2()
			if err != nil {
				panic(err)
			}
			if w.export == nil {
				panic("no export bundle")
			}
			return []art{derArt("signed-export", w.export), derArt("signed-keyring", w.rings[w.paths[0]])}
		},
		run: func(in []byte) error {
			ks, err := fsV2.NewInMemory(suite)
			if err != nil {
				return fmt.Errorf("harness: %w", err)
			}
			defer ks.Close()
			_, err = ks.(api.BackupKeystore).ImportKeyRings(in, suite, nil)
			return err
		}})

	// ---- v1: key files with arbitrary content ----
	type v1state struct {
		dir   string
		files []string
		orig  [][]byte
		ks    *filesystem.KeyStore
	}
	var v1 v1state
	reg(&target{name: "ks1.key-files", group: "keystore", weight: 0.5,
		seeds: func(g *gen.Rand) []art {
			w := getWorld()
			var out []art
			for i, f := range listKeyFiles(w.dir) {
				b, err := os.ReadFile(filepath.Join(w.dir, f))
				if err != nil {
					continue
				}
				a := nb("keyfile").u8("file", uint64(i)).bytes(b).art()
				// Secure Cell header of the encrypted private/symmetric key files and Themis key header of public ones
				a.f = append(a.f, fld{name: "hdr0", off: 1, w: 4}, fld{name: "hdr1", off: 5, w: 4}, fld{name: "hdr2", off: 9, w: 4}, fld{name: "hdr3", off: 13, w: 4}, fld{name: "hdr1be", off: 5, w: 4, be: true})
				out = append(out, clip(a))
			}
			return out
		},
		setup: func() error {
			w, err := mustWorld()
			if err != nil {
				return err
			}
			v1.dir = ksrig.ScratchDir("c14-ks1")
			v1.files = listKeyFiles(w.dir)
			for _, f := range v1.files {
				b, err := os.ReadFile(filepath.Join(w.dir, f))
				if err != nil {
					return err
				}
				v1.orig = append(v1.orig, b)
				os.MkdirAll(filepath.Dir(filepath.Join(v1.dir, f)), 0o700)
				if err := os.WriteFile(filepath.Join(v1.dir, f), b, 0o600); err != nil {
					return err
				}
			}
			v1.ks, err = ksrig.V1(v1.dir, dup(masterKey), keystore.WithoutCache)
			return err
		},
		run: func(in []byte) error {
			if len(in) < 1 || len(v1.files) == 0 {
				return errors.New("short")
			}
			k := int(in[0]) % len(v1.files)
			p := filepath.Join(v1.dir, v1.files[k])
			if err := os.WriteFile(p, in[1:], 0o600); err != nil {
				return fmt.Errorf("harness: %w", err)
			}
			defer os.WriteFile(p, v1.orig[k], 0o600)
			id := []byte("client_one")
			var first error
			note := func(err error) {
				if err != nil && first == nil {
					first = err
				}
			}
			_, err := v1.ks.GetClientIDSymmetricKeys(id)
			note(err)
			_, err = v1.ks.GetClientIDSymmetricKey(id)
			note(err)
			_, err = v1.ks.GetServerDecryptionPrivateKeys(id)
			note(err)
			_, err = v1.ks.GetServerDecryptionPrivateKey(id)
			note(err)
			_, err = v1.ks.GetClientIDEncryptionPublicKey(id)
			note(err)
			_, err = v1.ks.GetHMACSecretKey(id)
			note(err)
			_, err = v1.ks.GetPoisonKeyPair()
			note(err)
			_, err = v1.ks.GetPoisonPrivateKeys()
			note(err)
			_, err = v1.ks.GetPoisonSymmetricKeys()
			note(err)
			_, err = v1.ks.ListKeys()
			note(err)
			return first
		}})
	// ---- v1: export bundle decoder ----
	var v1sink *sinkStorage
	var v1backuper *filesystem.KeyBackuper
	type bundleState struct {
		bundle art
		plain  []byte
		keys   []byte
	}
	var bundleOnce sync.Once
	var theBundle *bundleState
	mkBundle := func(kind string, keys, data []byte) art {
		a := nb(kind).u8("keys_len", uint64(len(keys))).bytes(keys)
		base := a.len()
		a.bytes(data)
		a.mark(fld{name: "cell_hdr0", off: base, w: 4}).mark(fld{name: "cell_ivlen", off: base + 4, w: 4}).mark(fld{name: "cell_taglen", off: base + 8, w: 4}).mark(fld{name: "cell_msglen", off: base + 12, w: 4})
		return clip(a.art())
	}
	reg(&target{name: "ks1.import-bundle", group: "keystore",
		prepare: func(g *gen.Rand) interface{} {
			bundleOnce.Do(func() {
				w := getWorld()
				b := w.bundle
				if b == nil {
					panic(fmt.Sprintf("no export bundle of the fresh keystore; files: %v", listKeyFiles(w.dir)))
				}
				st := &bundleState{bundle: mkBundle("bundle", b.Keys, b.Data), keys: dup(b.Keys)}
				dec, _ := keystore.NewSCellKeyEncryptor(dup(b.Keys))
				if plain, err := dec.Decrypt(context.Background(), b.Data, keystore.NewEmptyKeyContext(nil)); err == nil {
					st.plain = plain
				}
				theBundle = st
			})
			return theBundle
		},
		gen: func(g *gen.Rand, sti interface{}, i int) ([]byte, string, string) {
			st := sti.(*bundleState)
			if i == 0 {
				return dup(st.bundle.b), "valid:bundle", ""
			}
			if st.plain != nil && g.Intn(2) == 0 {
				// gob level: mutate the decrypted key list and encrypt it again under the bundle key
				mb, c, d := mutate(g, art{kind: "bundle-gob", b: st.plain})
				enc, _ := keystore.NewSCellKeyEncryptor(dup(st.keys))
				data, err := enc.Encrypt(context.Background(), mb, keystore.NewEmptyKeyContext(nil))
				if err == nil {
					return mkBundle("bundle", st.keys, data).b, "reencrypted:" + c, d
				}
			}
			return mutate(g, st.bundle)
		},
		setup: func() error {
			w, err := mustWorld()
			if err != nil {
				return err
			}
			v1sink = &sinkStorage{}
			enc, _ := keystore.NewSCellKeyEncryptor(dup(masterKey))
			v1backuper, err = filesystem.NewKeyBackuper(w.dir, w.dir, v1sink, enc, w.ks)
			return err
		},
		run: func(in []byte) error {
			if len(in) < 1 {
				return errors.New("short")
			}
			kl := int(in[0])
			if kl > len(in)-1 {
				kl = len(in) - 1
			}
			_, err := v1backuper.Import(&keystore.KeysBackup{Keys: dup(in[1:1+kl]), Data: dup(in[1+kl:])})
			return err
		}})
}
