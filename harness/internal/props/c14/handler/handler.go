// Package handler is the handler-level layer of the C14 monitor: hostile client packets and hostile database responses are
// sent into a live AcraServer. The oracle: every recovered "Panic in connection processing" is a crashed connection handler
// (violation), the process and its listener survive (a fresh ordinary session works after every hostile one), a hostile
// exchange ends with the connection closed or an error within the watchdog, and the heap does not grow out of proportion.
package handler

import (
	"bytes"
	"encoding/binary"
	"fmt"
	"net"
	"regexp"
	"runtime"
	"strings"
	"sync"
	"time"

	"github.com/cossacklabs/acra/keystore"
	"github.com/jackc/pgx/v5/pgproto3"
	"github.com/sirupsen/logrus"

	"verif/harness/internal/ev"
	"verif/harness/internal/gen"
	"verif/harness/internal/props"
	"verif/harness/internal/props/c04"
	"verif/harness/internal/props/c14"
	"verif/harness/internal/rig/fakepg"
	"verif/harness/internal/rig/ksrig"
	"verif/harness/internal/rig/proxyrig"
)

func init() {
	c14.HandlerLayer = Layer
	// C14H runs the handler layer alone (development aid, not a registered check)
	props.Register("C14H", props.Monitor{Level: "exploration", Run: func(r *ev.Run) { r.Rule = "handler layer only"; Layer(r) }})
}

type panicHook struct {
	mu     sync.Mutex
	panics []string
}

func (h *panicHook) Levels() []logrus.Level { return []logrus.Level{logrus.ErrorLevel} }

func (h *panicHook) Fire(e *logrus.Entry) error {
	if strings.HasPrefix(e.Message, "Panic in connection processing") {
		h.mu.Lock()
		h.panics = append(h.panics, fmt.Sprintf("%v|%v", e.Data["function"], e.Data["error"]))
		h.mu.Unlock()
	}
	return nil
}

func (h *panicHook) take() []string {
	h.mu.Lock()
	defer h.mu.Unlock()
	p := h.panics
	h.panics = nil
	return p
}

var numRe = regexp.MustCompile(`[0-9]+`)

const schema = `
schemas:
  - table: t
    columns: [id, note, enc, srch, num, tok, msk, raw]
    encrypted:
      - column: enc
        crypto_envelope: acrablock
      - column: srch
        searchable: true
      - column: num
        data_type: int32
        crypto_envelope: acrablock
      - column: tok
        token_type: str
        consistent_tokenization: true
      - column: msk
        crypto_envelope: acrablock
        masking: "xxxx"
        plaintext_length: 3
        plaintext_side: left
`

// boundary values for 32-bit length / count fields
var b32 = []uint32{0, 1, 3, 4, 5, 0x7f, 0xff, 0x100, 0xffff, 0x10000, 0x7fffffff, 0x80000000, 0xfffffffe, 0xffffffff}

func mutateFrames(r *gen.Rand, frames []byte) []byte {
	b := append([]byte{}, frames...)
	if len(b) == 0 {
		return gen.Bytes(r, 1+r.Intn(64))
	}
	switch r.Intn(8) {
	case 0: // truncate
		return b[:r.Intn(len(b))]
	case 1: // overwrite a 4-byte field anywhere with a boundary value
		if len(b) >= 5 {
			at := r.Intn(len(b) - 4)
			binary.BigEndian.PutUint32(b[at:], b32[r.Intn(len(b32))])
		}
	case 2: // overwrite a 2-byte field with a boundary value
		if len(b) >= 3 {
			at := r.Intn(len(b) - 2)
			binary.BigEndian.PutUint16(b[at:], []uint16{0, 1, 0x7fff, 0x8000, 0xffff}[r.Intn(5)])
		}
	case 3: // flip bits
		for k := 1 + r.Intn(4); k > 0; k-- {
			b[r.Intn(len(b))] ^= 1 << uint(r.Intn(8))
		}
	case 4: // change a message type byte (first byte)
		b[0] = byte(r.Intn(256))
	case 5: // append garbage
		b = append(b, gen.Bytes(r, 1+r.Intn(200))...)
	case 6: // the length field of the first message
		if len(b) >= 5 {
			binary.BigEndian.PutUint32(b[1:], b32[r.Intn(len(b32))])
		}
	default: // random bytes with a plausible header
		b = append([]byte{[]byte("QPBEDCSHXdcfFp")[r.Intn(14)]}, gen.Bytes(r, 4+r.Intn(60))...)
	}
	return b
}

func validClientFrames(r *gen.Rand) []byte {
	var msgs []pgproto3.FrontendMessage
	switch r.Intn(5) {
	case 0:
		msgs = []pgproto3.FrontendMessage{&pgproto3.Query{String: "insert into t (id, enc, srch, num, tok, msk) values (1, 'secret', 'find', 5, 'token', 'maskedvalue')"}}
	case 1:
		msgs = []pgproto3.FrontendMessage{&pgproto3.Parse{Name: "s", Query: "insert into t (id, enc, num) values ($1, $2, $3)", ParameterOIDs: []uint32{23, 17, 23}},
			&pgproto3.Bind{PreparedStatement: "s", ParameterFormatCodes: []int16{0, 1, 1}, Parameters: [][]byte{[]byte("2"), []byte("bin"), {0, 0, 0, 7}}, ResultFormatCodes: []int16{1}},
			&pgproto3.Describe{ObjectType: 'P'}, &pgproto3.Execute{}, &pgproto3.Sync{}}
	case 2:
		msgs = []pgproto3.FrontendMessage{&pgproto3.Query{String: "select * from t where srch = 'find'"}}
	case 3:
		msgs = []pgproto3.FrontendMessage{&pgproto3.Parse{Query: "select id, enc, num, tok, msk from t where id = $1"}, &pgproto3.Bind{Parameters: [][]byte{[]byte("1")}, ResultFormatCodes: []int16{1, 0, 1, 0, 0}}, &pgproto3.Execute{MaxRows: 1}, &pgproto3.Sync{}}
	default:
		msgs = []pgproto3.FrontendMessage{&pgproto3.Query{String: "update t set enc = 'x', tok = 'y' where id = 1"}, &pgproto3.Close{ObjectType: 'S', Name: "s"}, &pgproto3.Sync{}}
	}
	var out []byte
	for _, m := range msgs {
		b, _ := m.Encode(nil)
		out = append(out, b...)
	}
	return out
}

func heap() uint64 {
	var m runtime.MemStats
	runtime.ReadMemStats(&m)
	return m.HeapAlloc
}

// Layer is plugged into c14.HandlerLayer.
func Layer(r *ev.Run) {
	rng := gen.New(r.Seed, "c14-handler")
	hook := &panicHook{}
	std := logrus.StandardLogger()
	std.AddHook(hook)
	defer func() {
		nh := logrus.LevelHooks{}
		for lvl, hs := range std.Hooks {
			for _, h := range hs {
				if h != logrus.Hook(hook) {
					nh[lvl] = append(nh[lvl], h)
				}
			}
		}
		std.ReplaceHooks(nh)
	}()
	dir := ksrig.ScratchDir("c14h")
	ks, err := ksrig.V1(dir, ksrig.RandBytes(32), keystore.InfiniteCacheSize)
	if err != nil {
		panic(err)
	}
	ksrig.GenClient(ks, []byte(c04.Owner))
	db := fakepg.NewDB()
	db.CreateTable("t", []fakepg.Column{{Name: "id", Type: fakepg.Int4}, {Name: "note", Type: fakepg.Text}, {Name: "enc", Type: fakepg.Bytea}, {Name: "srch", Type: fakepg.Bytea}, {Name: "num", Type: fakepg.Bytea}, {Name: "tok", Type: fakepg.Text}, {Name: "msk", Type: fakepg.Bytea}, {Name: "raw", Type: fakepg.Bytea}})
	srv, err := fakepg.NewServer(db)
	if err != nil {
		panic(err)
	}
	defer srv.Close()
	a, err := proxyrig.Start(proxyrig.Opts{KS: ks, ClientID: []byte(c04.Owner), DBPort: srv.Port(), SchemaYAML: schema})
	if err != nil {
		r.Violation("handler: acra could not be started", map[string]interface{}{"err": err.Error()})
		return
	}
	defer a.Stop()
	// a healthy session seeds some rows
	if c, _, err := proxyrig.DialPG(a.Port); err == nil {
		c.Simple("insert into t (id, note, enc, srch, num, tok, msk, raw) values (1, 'n', 'secret', 'find', 5, 'token', 'maskedvalue', '\\x00')")
		c.Close()
	}
	healthy := func(what string, detail map[string]interface{}) bool {
		c, _, err := proxyrig.DialPG(a.Port)
		if err != nil {
			r.Violation("handler: server does not accept sessions any more after "+what, detail)
			return false
		}
		defer c.Close()
		msgs, err := c.Simple("select id, enc, num from t where id = 1")
		// hostile inputs that happen to be valid statements may have inserted further rows with id 1 (all with num = 5)
		if err != nil || len(proxyrig.Rows(msgs)) < 1 || string(proxyrig.Rows(msgs)[0][2]) != "5" {
			r.Violation("handler: an ordinary session no longer works after "+what, detail)
			return false
		}
		return true
	}
	report := func(dir string, input []byte, detail map[string]interface{}) {
		for _, p := range hook.take() {
			sig := numRe.ReplaceAllString(p, "N")
			detail["panic"] = p
			detail["input"] = ev.FullHex(clip(input, 4096))
			r.Violation(fmt.Sprintf("handler: connection handler panicked (%s input): %s", dir, sig), detail)
		}
	}
	n := r.Pick(200, 800)
	// (a) hostile client bytes
	for i := 0; i < n; i++ {
		r.Case()
		input := mutateFrames(rng, validClientFrames(rng))
		before := heap()
		conn, err := net.DialTimeout("tcp", fmt.Sprintf("127.0.0.1:%d", a.Port), 2*time.Second)
		if err != nil {
			r.Violation("handler: listener gone", nil)
			return
		}
		startup, _ := (&pgproto3.StartupMessage{ProtocolVersion: pgproto3.ProtocolVersionNumber, Parameters: map[string]string{"user": "u"}}).Encode(nil)
		if rng.Intn(10) == 0 {
			startup = mutateFrames(rng, startup)
		}
		conn.SetDeadline(time.Now().Add(3 * time.Second))
		conn.Write(startup)
		conn.Write(input)
		// read whatever comes until the peer closes or goes quiet (short logical wait: the verdict does not depend on it)
		buf := make([]byte, 65536)
		conn.SetReadDeadline(time.Now().Add(150 * time.Millisecond))
		for {
			if _, err := conn.Read(buf); err != nil {
				break
			}
			conn.SetReadDeadline(time.Now().Add(150 * time.Millisecond))
		}
		conn.Close()
		detail := map[string]interface{}{"direction": "client->acra", "case": i}
		report("client", input, detail)
		if grown := int64(heap()) - int64(before); grown > 256<<20 {
			r.Violation("handler: heap grew by more than 256 MiB while handling a client input of a few hundred bytes", map[string]interface{}{"input": ev.FullHex(clip(input, 4096)), "grown": grown})
		}
		if i%20 == 19 && !healthy("hostile client input", map[string]interface{}{"input": ev.FullHex(clip(input, 4096))}) {
			return
		}
		r.Distinct(fmt.Sprintf("client|%c|%d", input0(input), len(input)%7))
	}
	r.Count("handler_client_inputs", int64(n))
	// (b) hostile database responses: the fake database answers a fixed query with mutated bytes
	valid := func() []byte {
		msgs := []pgproto3.BackendMessage{
			&pgproto3.RowDescription{Fields: []pgproto3.FieldDescription{{Name: []byte("id"), DataTypeOID: 23, DataTypeSize: 4, TypeModifier: -1}, {Name: []byte("enc"), DataTypeOID: 17, DataTypeSize: -1, TypeModifier: -1}, {Name: []byte("num"), DataTypeOID: 17, DataTypeSize: -1, TypeModifier: -1}}},
			&pgproto3.DataRow{Values: [][]byte{[]byte("1"), []byte(`\x2525250102030405060708f0` + "22222222"), nil}},
			&pgproto3.DataRow{Values: [][]byte{[]byte("2"), gen.Bytes(rng, 40), []byte("x")}},
			&pgproto3.CommandComplete{CommandTag: []byte("SELECT 2")},
			&pgproto3.ReadyForQuery{TxStatus: 'I'},
		}
		var out []byte
		for _, m := range msgs {
			b, _ := m.Encode(nil)
			out = append(out, b...)
		}
		return out
	}
	for i := 0; i < n/2; i++ {
		r.Case()
		input := mutateFrames(rng, valid())
		srv.SetRawScript("select id, enc, num from t /* hostile */", input)
		c, _, err := proxyrig.DialPG(a.Port)
		if err != nil {
			r.Violation("handler: listener gone", nil)
			return
		}
		before := heap()
		q, _ := (&pgproto3.Query{String: "select id, enc, num from t /* hostile */"}).Encode(nil)
		c.SendRaw(q)
		c.DrainRaw(150 * time.Millisecond)
		c.Abort()
		detail := map[string]interface{}{"direction": "database->acra", "case": i}
		report("database", input, detail)
		if grown := int64(heap()) - int64(before); grown > 256<<20 {
			r.Violation("handler: heap grew by more than 256 MiB while handling a database response of a few hundred bytes", map[string]interface{}{"input": ev.FullHex(clip(input, 4096)), "grown": grown})
		}
		if i%20 == 19 && !healthy("hostile database response", map[string]interface{}{"input": ev.FullHex(clip(input, 4096))}) {
			return
		}
		r.Distinct(fmt.Sprintf("database|%c|%d", input0(input), len(input)%7))
	}
	r.Count("handler_database_inputs", int64(n/2))
	// (c) pipelining: valid extended-protocol statements on configured columns sent back to back without waiting for the
	// answers (libpq pipeline mode, asynchronous drivers): the proxy's client-side goroutine analyses statement n+1 while its
	// database-side goroutine handles the answers to statement n. Shared per-session state touched by both must survive that;
	// a runtime fatal error ("concurrent map writes") takes the whole process down, a recovered panic is reported by the hook.
	rounds := r.Pick(6, 24)
	for round := 0; round < rounds; round++ {
		r.Case()
		c, _, err := proxyrig.DialPG(a.Port)
		if err != nil {
			r.Violation("handler: listener gone", nil)
			return
		}
		const perRound = 250
		var batch []byte
		for i := 0; i < perRound; i++ {
			id := 100000 + round*perRound + i
			var msgs []pgproto3.FrontendMessage
			switch i % 3 {
			case 0:
				msgs = []pgproto3.FrontendMessage{
					&pgproto3.Parse{Query: "insert into t (id, note, enc, srch) values ($1, $2, $3, $4)"},
					&pgproto3.Describe{ObjectType: 'S'},
					&pgproto3.Bind{Parameters: [][]byte{[]byte(fmt.Sprint(id)), []byte("n"), []byte("pipelined secret"), []byte("pipelined find")}},
					&pgproto3.Execute{}, &pgproto3.Sync{}}
			case 1:
				msgs = []pgproto3.FrontendMessage{
					&pgproto3.Parse{Query: "select id, enc, srch from t where srch = $1 and id = $2"},
					&pgproto3.Describe{ObjectType: 'S'},
					&pgproto3.Bind{Parameters: [][]byte{[]byte("pipelined find"), []byte(fmt.Sprint(id - 1))}},
					&pgproto3.Execute{}, &pgproto3.Sync{}}
			default:
				msgs = []pgproto3.FrontendMessage{
					&pgproto3.Parse{Query: "update t set enc = $1, tok = $2 where id = $3"},
					&pgproto3.Bind{Parameters: [][]byte{[]byte("pipelined secret 2"), []byte("pipelined token"), []byte(fmt.Sprint(id - 2))}},
					&pgproto3.Execute{}, &pgproto3.Sync{}}
			}
			for _, m := range msgs {
				b, _ := m.Encode(nil)
				batch = append(batch, b...)
			}
		}
		c.SendRaw(batch)
		mark := len(c.RawIn())
		c.DrainRaw(400 * time.Millisecond)
		raw := c.RawIn()[mark:]
		c.Abort()
		ready := bytes.Count(raw, []byte{'Z', 0, 0, 0, 5})
		r.Count("handler_pipelined_statements_sent", perRound)
		r.Count("handler_pipelined_ready_for_query_seen", int64(ready))
		report("pipelined client", batch[:200], map[string]interface{}{"direction": "client->acra (pipelined valid statements)", "round": round})
		if !healthy("a pipelined batch of valid statements", map[string]interface{}{"round": round}) {
			return
		}
		r.Distinct(fmt.Sprintf("pipelined|round%d", round%4))
	}
	healthy("the whole hostile run", nil)
	r.RequireAtLeast("handler_client_inputs", 100)
	r.RequireAtLeast("handler_pipelined_ready_for_query_seen", 200)
}

func input0(b []byte) byte {
	if len(b) == 0 {
		return '-'
	}
	if b[0] < 0x21 || b[0] > 0x7e {
		return '?'
	}
	return b[0]
}

func clip(b []byte, n int) []byte {
	if len(b) > n {
		return b[:n]
	}
	return b
}
