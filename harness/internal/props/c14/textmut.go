package c14

import (
	"fmt"
	"strings"

	"verif/harness/internal/gen"
)

// splitTokens cuts text into words, runs of spaces and single punctuation characters (lossless).
func splitTokens(s string) []string {
	var out []string
	cur := strings.Builder{}
	kind := 0 // 1 word 2 space
	flush := func() {
		if cur.Len() > 0 {
			out = append(out, cur.String())
			cur.Reset()
		}
	}
	for i := 0; i < len(s); i++ {
		c := s[i]
		k := 3
		switch {
		case c == '_' || c >= '0' && c <= '9' || c >= 'a' && c <= 'z' || c >= 'A' && c <= 'Z' || c >= 0x80:
			k = 1
		case c == ' ' || c == '\t' || c == '\n' || c == '\r':
			k = 2
		}
		if k != kind || k == 3 {
			flush()
		}
		kind = k
		cur.WriteByte(c)
	}
	flush()
	return out
}

var nastyBytes = []string{"\x00", "\xff", "\xc3", "\xe2\x82", "\xf0\x9f\x98\x80", "\\", "'", "\"", "`", "--", "/*", "*/", "#", ";", "\n", "\r\n", "\x1a", "$$", "$1", ":", "::", "%%", "%%VALUE%%", "\\x", "\\\\", "{", "}", "[", "]", "&", "*", "!", "|", ">", "- ", "? ", "\t"}

// textMutator derives inputs from a corpus of valid texts of one language (SQL, YAML, log lines).
type textMutator struct {
	corpus []string
	vocab  []string
	bombs  []func(g *gen.Rand, n int) string // nesting / repetition generators
}

func (m *textMutator) gen(g *gen.Rand) (string, string, string) {
	base := m.corpus[g.Intn(len(m.corpus))]
	p := g.Intn(100)
	switch {
	case p < 8:
		return base, "valid", ""
	case p < 38:
		toks := splitTokens(base)
		if len(toks) == 0 {
			return base, "valid", ""
		}
		n := 1 + g.Intn(3)
		var what []string
		for k := 0; k < n && len(toks) > 0; k++ {
			i := g.Intn(len(toks))
			switch g.Intn(5) {
			case 0:
				toks = append(toks[:i], toks[i+1:]...)
				what = append(what, "del")
			case 1:
				toks = append(toks[:i+1], append([]string{toks[i]}, toks[i+1:]...)...)
				what = append(what, "dup")
			case 2:
				toks[i] = m.vocab[g.Intn(len(m.vocab))]
				what = append(what, "repl")
			case 3:
				toks = append(toks[:i], append([]string{" " + m.vocab[g.Intn(len(m.vocab))] + " "}, toks[i:]...)...)
				what = append(what, "ins")
			default:
				j := g.Intn(len(toks))
				toks[i], toks[j] = toks[j], toks[i]
				what = append(what, "swap")
			}
		}
		return strings.Join(toks, ""), "token-edit", strings.Join(what, ",")
	case p < 48:
		// nasty byte sequences inserted at token boundaries
		toks := splitTokens(base)
		n := 1 + g.Intn(3)
		for k := 0; k < n; k++ {
			i := 0
			if len(toks) > 0 {
				i = g.Intn(len(toks) + 1)
			}
			toks = append(toks[:i], append([]string{nastyBytes[g.Intn(len(nastyBytes))]}, toks[i:]...)...)
		}
		return strings.Join(toks, ""), "nasty-insert", ""
	case p < 56:
		cut := 0
		if len(base) > 0 {
			cut = g.Intn(len(base))
		}
		return base[:cut], "trunc", fmt.Sprintf("cut=%d/%d", cut, len(base))
	case p < 64:
		b := []byte(base)
		if len(b) == 0 {
			return base, "valid", ""
		}
		for k := 0; k < 1+g.Intn(3); k++ {
			i := g.Intn(len(b) * 8)
			b[i/8] ^= 1 << uint(i%8)
		}
		return string(b), "bitflip", ""
	case p < 76:
		if len(m.bombs) == 0 {
			return base + base, "concat2", ""
		}
		sizes := []int{1, 2, 10, 100, 1000, 2000}
		n := sizes[g.Intn(len(sizes))]
		k := g.Intn(len(m.bombs))
		return m.bombs[k](g, n), fmt.Sprintf("bomb%d", k), fmt.Sprintf("n=%d", n)
	case p < 82:
		other := m.corpus[g.Intn(len(m.corpus))]
		sep := []string{";", " ", "\n", "; ", " union ", ","}[g.Intn(6)]
		return base + sep + other, "concat2", sep
	case p < 88:
		n := randLens[g.Intn(len(randLens))]
		b := gen.Bytes(g, n)
		if g.Intn(2) == 0 {
			for i := range b {
				b[i] = 0x20 + b[i]%0x5f
			}
			return string(b), "random-ascii", fmt.Sprintf("len=%d", n)
		}
		return string(b), "random", fmt.Sprintf("len=%d", n)
	case p < 94:
		// very long literal / identifier / number inside a valid text
		toks := splitTokens(base)
		if len(toks) == 0 {
			return base, "valid", ""
		}
		i := g.Intn(len(toks))
		n := []int{255, 256, 1024, 65535, 65536}[g.Intn(5)]
		ch := []string{"a", "9", "'", "\\", "\x00", "é", "("}[g.Intn(7)]
		toks[i] = strings.Repeat(ch, n)
		return strings.Join(toks, ""), "long-token", fmt.Sprintf("%q x %d", ch, n)
	default:
		// random sequence of vocabulary words
		n := 1 + g.Intn(30)
		var sb strings.Builder
		for i := 0; i < n; i++ {
			sb.WriteString(m.vocab[g.Intn(len(m.vocab))])
			sb.WriteByte(' ')
		}
		return sb.String(), "vocab-soup", fmt.Sprintf("n=%d", n)
	}
}
