package c14

import (
	"bytes"
	"errors"
	"io"
	"strings"
	"sync"

	"github.com/cossacklabs/acra/logging"
	"github.com/sirupsen/logrus"

	"verif/harness/internal/gen"
)

var auditKey = bytes.Repeat([]byte{0x33}, 32)

var (
	logLinesMu    sync.Mutex
	logLinesCache = map[string][]string{}
)

// honestLogLines produces a real audit log (two chains) with Acra's own formatter, hooks and handler.
func honestLogLines(format string) []string {
	logLinesMu.Lock()
	defer logLinesMu.Unlock()
	if l, ok := logLinesCache[format]; ok {
		return l
	}
	var buf bytes.Buffer
	hooks, err := logging.NewHooks(dup(auditKey), format)
	if err != nil {
		panic(err)
	}
	formatter := logging.CreateCryptoFormatter(format)
	formatter.SetServiceName("verif-service")
	formatter.SetHooks(hooks)
	h, err := logging.NewAuditLogHandler(formatter, &buf)
	if err != nil {
		panic(err)
	}
	std := logrus.StandardLogger()
	oldOut, oldFmt, oldLvl := std.Out, std.Formatter, std.Level
	logrus.SetOutput(h)
	logrus.SetFormatter(h)
	logrus.SetLevel(logrus.InfoLevel)
	for chain := 0; chain < 2; chain++ {
		logrus.WithField("version", "0.95.0").Infof("Starting service %v [pid=%v]", "acra-server", 4242)
		logrus.WithField("client_id", "client one").WithField("code", 508).Warningln("message with = sign and \"quotes\" | pipe \\ backslash")
		logrus.WithError(errors.New("some error: with colon")).Errorln("failure")
		logrus.Infof("multi word message %d", chain)
		h.ResetChain(dup(auditKey))
	}
	h.FinalizeChain()
	logrus.SetOutput(oldOut)
	logrus.SetFormatter(oldFmt)
	logrus.SetLevel(oldLvl)
	var lines []string
	for _, l := range strings.Split(buf.String(), "\n") {
		if l != "" {
			lines = append(lines, l)
		}
	}
	if len(lines) < 4 {
		panic("audit log generation produced too few lines for format " + format)
	}
	logLinesCache[format] = lines
	return lines
}

var logVocab = []string{"integrity=", " integrity=", "chain=new", "chain=end", "chain=", "=", " ", "|", "\\|", "\\=", "\"", "\\\"", "{", "}", "[", "]", ":", ",", "CEF:0", "time=", "level=", "msg=", "unixTime=", "\"integrity\":", "\"chain\":\"new\"",
	"null", "true", "1e999", "\\u0000", "\\ud800", "deadbeef", "zz", "00", "ffffffffffffffffffffffffffffffffffffffffffffffffffffffffffffffff", "End of current audit log chain", "\t", "\r"}

func init() {
	for _, format := range []string{logging.PlaintextFormatString, logging.JSONFormatString, logging.CefFormatString} {
		format := format
		lineGen := func(multi bool) func(g *gen.Rand, st interface{}, i int) ([]byte, string, string) {
			return func(g *gen.Rand, st interface{}, i int) ([]byte, string, string) {
				lines := st.([]string)
				if multi {
					whole := strings.Join(lines, "\n")
					if i == 0 {
						return []byte(whole), "valid", ""
					}
					// mutate one line or the whole text
					if g.Intn(2) == 0 {
						m := &textMutator{corpus: lines, vocab: logVocab, bombs: logBombs}
						k := g.Intn(len(lines))
						s, c, d := m.gen(g)
						cp := append([]string{}, lines...)
						switch g.Intn(4) {
						case 0:
							cp[k] = s
						case 1:
							cp = append(cp[:k], append([]string{s}, cp[k:]...)...)
							c = "insert-line:" + c
						case 2:
							cp = append(cp[:k], cp[k+1:]...)
							c = "drop-line"
						default:
							j := g.Intn(len(cp))
							cp[k], cp[j] = cp[j], cp[k]
							c = "swap-lines"
						}
						return []byte(strings.Join(cp, "\n")), c, d
					}
					m := &textMutator{corpus: []string{whole}, vocab: logVocab, bombs: logBombs}
					s, c, d := m.gen(g)
					return []byte(s), "whole:" + c, d
				}
				if i == 0 {
					return []byte(lines[0]), "valid", ""
				}
				m := &textMutator{corpus: lines, vocab: logVocab, bombs: logBombs}
				s, c, d := m.gen(g)
				return []byte(s), c, d
			}
		}
		prep := func(g *gen.Rand) interface{} { return honestLogLines(format) }
		var parser logging.LogParser
		reg(&target{name: "log.parse." + format, group: "auditlog", prepare: prep, gen: lineGen(false),
			setup: func() error { var err error; parser, err = logging.NewLogParser(format); return err },
			run: func(in []byte) error {
				e, err := parser.ParseEntry(string(in))
				if err != nil {
					return err
				}
				_ = e.IsNewChain || e.IsEndChain
				return nil
			}})
		var vparser logging.LogParser
		reg(&target{name: "log.verify." + format, group: "auditlog", prepare: prep, gen: lineGen(true),
			setup: func() error { var err error; vparser, err = logging.NewLogParser(format); return err },
			run: func(in []byte) error {
				v, err := logging.NewIntegrityCheckVerifier(dup(auditKey), vparser)
				if err != nil {
					return err
				}
				lines := strings.Split(string(in), "\n")
				ch := make(chan *logging.LogEntryInfo, len(lines))
				for i, l := range lines {
					ch <- &logging.LogEntryInfo{RawLogEntry: l, LineNumber: i}
				}
				close(ch)
				_, err = v.VerifyIntegrityCheck(&logging.LogEntrySource{Entries: ch})
				return err
			}})
	}
	_ = io.Discard
}
