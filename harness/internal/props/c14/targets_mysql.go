package c14

import (
	"context"
	"errors"
	"fmt"

	"github.com/cossacklabs/acra/decryptor/base"
	"github.com/cossacklabs/acra/decryptor/mysql"
	mybase "github.com/cossacklabs/acra/decryptor/mysql/base"
	encbase "github.com/cossacklabs/acra/encryptor/base"
	"github.com/cossacklabs/acra/encryptor/base/config"
	"github.com/cossacklabs/acra/pseudonymization"
	tokenCommon "github.com/cossacklabs/acra/pseudonymization/common"
	"github.com/cossacklabs/acra/pseudonymization/storage"

	"verif/harness/internal/gen"
)

// ---- MySQL wire artefacts (laid out by the documented protocol, fields annotated) ----

func myPkt(kind string, seq byte, payload art) art {
	b := nb(kind)
	b.le24("paylen", uint64(len(payload.b))).u8("seq", uint64(seq)).embed(payload)
	return b.art()
}

func myColDef(schema, table, name string, typ byte, flags uint16, charset uint16, collen uint32, extInfo bool, withDefault bool) art {
	b := nb("coldef")
	b.lestr("catalog_len", []byte("def")).lestr("schema_len", []byte(schema)).lestr("table_len", []byte(table)).lestr("orgtable_len", []byte(table)).
		lestr("name_len", []byte(name)).lestr("orgname_len", []byte(name))
	if extInfo {
		ext := nb("ext").u8("ext_kind", 0).lestr("ext_val_len", []byte("json")).art()
		b.lenenc("ext_len", uint64(len(ext.b))).embed(ext)
	}
	b.lenenc("fixed_len", 0x0c).le16("charset", uint64(charset)).le32("column_length", uint64(collen)).u8("type", uint64(typ)).le16("flags", uint64(flags)).u8("decimals", 0).raw(0, 0)
	if withDefault {
		b.lestr("default_len", []byte("dflt"))
	}
	return b.art()
}

func myEOF() art { return nb("eof").u8("marker", 0xfe).le16("warnings", 0).le16("status", 2).art() }
func myOK() art {
	return nb("ok").u8("marker", 0).lenenc("affected", 1).lenenc("last_id", 0).le16("status", 2).le16("warnings", 0).art()
}
func myErr() art {
	return nb("err").u8("marker", 0xff).le16("code", 1064).raw('#').str("42000").str("syntax error").art()
}

const (
	capLongPassword   = 0x1
	capProtocol41     = 0x200
	capSSL            = 0x800
	capSecureConn     = 0x8000
	capPluginAuth     = 0x80000
	capDeprecateEOF   = 0x1000000
	mariaExtTypeInfo  = 0x8
	mariaCacheMeta    = 0x10
)

func myHandshake(caps uint32, extCaps uint32) art {
	b := nb("handshake")
	b.u8("proto", 10).cstr("8.0.33-verif").le32("conn_id", 77).bytes([]byte("abcdefgh")).raw(0).
		le16("caps_lo", uint64(caps&0xffff)).u8("charset", 33).le16("status", 2).le16("caps_hi", uint64(caps>>16)).u8("auth_len", 21)
	b.raw(0, 0, 0, 0, 0, 0).le32("maria_ext_caps", uint64(extCaps))
	b.bytes([]byte("ijklmnopqrst")).raw(0).cstr("mysql_native_password")
	return b.art()
}

func myHandshakeResponse(caps uint32, extCaps uint32) art {
	b := nb("hsresp")
	b.le32("client_caps", uint64(caps)).le32("max_packet", 1<<24).u8("charset", 33).bytes(make([]byte, 19)).le32("maria_ext_caps", uint64(extCaps)).
		cstr("user").u8("auth_len", 20).bytes(make([]byte, 20)).cstr("db").cstr("mysql_native_password")
	return b.art()
}

func myCom(cmd byte, rest []byte) art {
	return nb(fmt.Sprintf("com%02x", cmd)).u8("cmd", uint64(cmd)).bytes(rest).art()
}

type myParam struct {
	typ      byte
	unsigned byte
	val      []byte // encoded value; nil = NULL
	isStr    bool
}

func myStmtExecute(id uint32, params []myParam, newBound byte) art {
	b := nb("stmt_execute")
	b.u8("cmd", 0x17).le32("stmt_id", uint64(id)).u8("flags", 0).le32("iterations", 1)
	if len(params) > 0 {
		bm := make([]byte, (len(params)+7)/8)
		for i, p := range params {
			if p.val == nil {
				bm[i/8] |= 1 << uint(i%8)
			}
		}
		for i := range bm {
			b.u8(fmt.Sprintf("nullbitmap%d", i), uint64(bm[i]))
		}
		b.u8("new_params_bound", uint64(newBound))
		if newBound == 1 {
			for i, p := range params {
				b.u8(fmt.Sprintf("ptype%d", i), uint64(p.typ)).u8(fmt.Sprintf("punsigned%d", i), uint64(p.unsigned))
			}
			for i, p := range params {
				if p.val == nil {
					continue
				}
				if p.isStr {
					b.lestr(fmt.Sprintf("pval%d_len", i), p.val)
				} else {
					b.bytes(p.val)
				}
			}
		}
	}
	return b.art()
}

func myPrepareOK(id uint32, cols, params uint16) art {
	return nb("prepare_ok").u8("status", 0).le32("stmt_id", uint64(id)).le16("num_columns", uint64(cols)).le16("num_params", uint64(params)).u8("reserved", 0).le16("warnings", 0).art()
}

func myTextRow(vals [][]byte) art {
	b := nb("textrow")
	for i, v := range vals {
		if v == nil {
			b.u8(fmt.Sprintf("col%d_null", i), 0xfb)
			continue
		}
		b.lestr(fmt.Sprintf("col%d_len", i), v)
	}
	return b.art()
}

type myBinVal struct {
	fixed []byte // for fixed-width types
	str   []byte // for length-encoded
	null  bool
}

func myBinRow(vals []myBinVal) art {
	b := nb("binrow")
	b.u8("header", 0)
	bm := make([]byte, (len(vals)+7+2)/8)
	for i, v := range vals {
		if v.null {
			bm[(i+2)/8] |= 1 << uint((i+2)%8)
		}
	}
	for i := range bm {
		b.u8(fmt.Sprintf("nullbitmap%d", i), uint64(bm[i]))
	}
	for i, v := range vals {
		switch {
		case v.null:
		case v.fixed != nil:
			b.bytes(v.fixed)
		default:
			b.lestr(fmt.Sprintf("col%d_len", i), v.str)
		}
	}
	return b.art()
}

func schemaStore(mysqlMode bool) (*config.MapTableSchemaStore, error) {
	return config.MapTableSchemaStoreFromConfig([]byte(SchemaYAML), mysqlMode)
}

// protect produces a valid protected value for a column of table t under the first client.
func (w *world) protect(column string, plaintext []byte) []byte {
	out, err := w.env.WriteChain().EncryptWithClientID(w.ids[0], plaintext, w.env.Setting(column))
	if err != nil {
		panic(fmt.Errorf("protect %s: %w", column, err))
	}
	return out
}

// ---- scripted sessions ----

type segArt struct {
	side byte
	name string
	a    art
}

type script struct {
	name string
	segs []segArt
	rare bool // chosen less often (scripts whose failure paths make the proxy wait on its own timers)
}

func catArts(kind string, parts ...art) art {
	b := nb(kind)
	for _, p := range parts {
		b.embed(p)
	}
	return b.art()
}

func frameSession(segs []seg) []byte {
	var out []byte
	for _, s := range segs {
		out = append(out, s.side)
		out = append(out, encInt(uint64(len(s.data)), 4, false)...)
		out = append(out, s.data...)
	}
	return out
}

func parseSession(in []byte) []seg {
	var out []seg
	for len(in) >= 5 {
		side := in[0]
		l := int(decInt(in[1:5], false))
		in = in[5:]
		if l > len(in) {
			l = len(in)
		}
		if side == 'C' || side == 'D' {
			out = append(out, seg{side, in[:l]})
		}
		in = in[l:]
	}
	return out
}

// sessionGen mutates exactly one segment of the hostile side of one script; the other side stays valid.
func sessionGen(scripts func(g *gen.Rand) []script, side byte) (func(g *gen.Rand) interface{}, func(g *gen.Rand, st interface{}, i int) ([]byte, string, string)) {
	prep := func(g *gen.Rand) interface{} { return scripts(g) }
	genf := func(g *gen.Rand, st interface{}, i int) ([]byte, string, string) {
		cur := st.([]script)
		sc := cur[g.Intn(len(cur))]
		if sc.rare && g.Intn(8) != 0 {
			sc = cur[g.Intn(len(cur))]
		}
		if i == 0 {
			sc = cur[0]
		}
		var idxs []int
		for j, s := range sc.segs {
			if s.side == side {
				idxs = append(idxs, j)
			}
		}
		k := idxs[g.Intn(len(idxs))]
		a := sc.segs[k].a
		a.kind = sc.name + "#" + sc.segs[k].name
		var mb []byte
		var class, detail string
		if i == 0 {
			mb, class, detail = dup(a.b), "valid:"+a.kind, ""
		} else {
			mb, class, detail = mutate(g, a)
		}
		var segs []seg
		for j, s := range sc.segs {
			if j == k {
				segs = append(segs, seg{s.side, mb})
			} else {
				segs = append(segs, seg{s.side, s.a.b})
			}
		}
		return frameSession(segs), class, detail
	}
	return prep, genf
}

// selfTestSessions runs every valid script through the rig: each must end without an error, otherwise the scripted
// sessions do not reach the decoders they are meant to reach (rig self-test, an infrastructure matter).
func selfTestSessions(scripts []script, run func([]byte) error) error {
	for _, sc := range scripts {
		var segs []seg
		for _, s := range sc.segs {
			segs = append(segs, seg{s.side, s.a.b})
		}
		if err := run(frameSession(segs)); err != nil {
			return fmt.Errorf("rig self-test: valid session %q ends with: %v", sc.name, err)
		}
	}
	return nil
}

func lei(v uint64, w int) []byte { return encInt(v, w, false) }

func mysqlScripts(g *gen.Rand) []script {
	w := getWorld()
	ab := w.protect("plain_ab", []byte("secret-ab"))
	as := w.protect("plain_as", []byte("secret-as"))
	sab := w.protect("search_ab", []byte("needle"))
	mab := w.protect("mask_ab_r", []byte("4111111111111111"))
	ti := w.protect("typed_i32", []byte("123"))
	var out []script
	for _, variant := range []struct {
		name          string
		ccaps, cext   uint32
		scaps, sext   uint32
		deprecateEOF  bool
		extInfo       bool
	}{
		// the low byte of the client capabilities is what real connectors send (LONG_PASSWORD|LONG_FLAG|CONNECT_WITH_DB|LOCAL_FILES):
		// the proxy also dispatches the handshake response on its first byte, 0x8d is not a command it acts on
		{"plain", 0x8d | capProtocol41 | capSecureConn | capPluginAuth, 0, 0xff | capProtocol41 | capSecureConn | capPluginAuth, 0, false, false},
		{"depeof", 0x8d | capProtocol41 | capSecureConn | capPluginAuth | capDeprecateEOF, 0, 0xff | capProtocol41 | capSecureConn | capPluginAuth | capDeprecateEOF, 0, true, false},
		{"maria", 0x8c | capProtocol41 | capSecureConn | capPluginAuth, mariaExtTypeInfo, 0xfe | capProtocol41 | capSecureConn | capPluginAuth, mariaExtTypeInfo, false, true},
	} {
		seq := byte(0)
		pk := func(name string, a art) art { seq++; return myPkt(name, seq-1, a) }
		cols := []art{
			myColDef("db", "t", "id", 3, 0, 63, 11, variant.extInfo, false),
			myColDef("db", "t", "plain_as", 252, 0x90, 63, 65535, variant.extInfo, false),
			myColDef("db", "t", "plain_ab", 252, 0x90, 63, 65535, variant.extInfo, false),
			myColDef("db", "t", "search_ab", 253, 0x80, 63, 255, variant.extInfo, false),
			myColDef("db", "t", "mask_ab_r", 254, 0x80, 63, 255, variant.extInfo, false),
			myColDef("db", "t", "tok_i32", 3, 0, 63, 11, variant.extInfo, false),
			myColDef("db", "t", "tok_str", 253, 0, 33, 255, variant.extInfo, true),
			myColDef("db", "t", "typed_i32", 252, 0x90, 63, 255, variant.extInfo, false),
		}
		resultHead := func(kind string) art {
			seq = 1
			parts := []art{pk("colcount", nb("colcount").lenenc("count", uint64(len(cols))).art())}
			for _, c := range cols {
				parts = append(parts, pk("coldef", c))
			}
			if !variant.deprecateEOF {
				parts = append(parts, pk("eof", myEOF()))
			}
			return catArts(kind, parts...)
		}
		// text result set
		textRes := func() art {
			h := resultHead("text-resultset")
			rows := []art{
				pk("textrow", myTextRow([][]byte{[]byte("1"), as, ab, sab, mab, []byte("123"), []byte("tok"), ti})),
				pk("textrow", myTextRow([][]byte{[]byte("2"), nil, []byte("plain"), nil, []byte("x"), []byte("-5"), nil, []byte("zz")})),
			}
			var tailp art
			if variant.deprecateEOF {
				tailp = pk("ok-eof", nb("ok-eof").u8("marker", 0xfe).lenenc("affected", 0).lenenc("last_id", 0).le16("status", 2).le16("warnings", 0).art())
			} else {
				tailp = pk("eof", myEOF())
			}
			return catArts("text-resultset", h, rows[0], rows[1], tailp)
		}
		binRes := func() art {
			h := resultHead("bin-resultset")
			rows := []art{
				pk("binrow", myBinRow([]myBinVal{{fixed: lei(1, 4)}, {str: as}, {str: ab}, {str: sab}, {str: mab}, {fixed: lei(123, 4)}, {str: []byte("tok")}, {str: ti}})),
				pk("binrow", myBinRow([]myBinVal{{fixed: lei(2, 4)}, {null: true}, {str: []byte("plain")}, {null: true}, {str: []byte("x")}, {fixed: lei(0xfffffffb, 4)}, {null: true}, {str: []byte("zz")}})),
			}
			return catArts("bin-resultset", h, rows[0], rows[1], pk("eof", myEOF()))
		}
		q := func(s string) art { seq = 0; return pk("com_query", myCom(0x03, []byte(s))) }
		prep := func(s string) art { seq = 0; return pk("com_stmt_prepare", myCom(0x16, []byte(s))) }
		seq = 0
		hs := pk("handshake", myHandshake(variant.scaps, variant.sext))
		hr := pk("hsresp", myHandshakeResponse(variant.ccaps, variant.cext))
		authOK := pk("ok", myOK())
		sel := "select id, plain_as, plain_ab, search_ab, mask_ab_r, tok_i32, tok_str, typed_i32 from t where search_ab = 'needle' and id = 5"
		ins := "insert into t (id, plain_ab, search_ab, tok_str, tok_i32, tok_email) values (?, ?, ?, ?, ?, ?)"
		// prepare response for ins: 6 params
		prepInsResp := func() art {
			seq = 1
			parts := []art{pk("prepare_ok", myPrepareOK(1, 0, 6))}
			for i := 0; i < 6; i++ {
				parts = append(parts, pk("paramdef", myColDef("", "", "?", 253, 0x80, 63, 0, variant.extInfo, false)))
			}
			if !variant.deprecateEOF {
				parts = append(parts, pk("eof", myEOF()))
			}
			return catArts("prepare-response", parts...)
		}
		prepSelResp := func() art {
			seq = 1
			parts := []art{pk("prepare_ok", myPrepareOK(2, uint16(len(cols)), 1))}
			parts = append(parts, pk("paramdef", myColDef("", "", "?", 253, 0x80, 63, 0, variant.extInfo, false)))
			if !variant.deprecateEOF {
				parts = append(parts, pk("eof", myEOF()))
			}
			for _, c := range cols {
				parts = append(parts, pk("coldef", c))
			}
			if !variant.deprecateEOF {
				parts = append(parts, pk("eof", myEOF()))
			}
			return catArts("prepare-response-cols", parts...)
		}
		exec1 := func() art {
			seq = 0
			return pk("stmt_execute", myStmtExecute(1, []myParam{
				{typ: 3, val: lei(7, 4)}, {typ: 252, val: []byte("to-encrypt"), isStr: true}, {typ: 253, val: []byte("needle"), isStr: true},
				{typ: 253, val: []byte("tokenize me"), isStr: true}, {typ: 3, val: lei(42, 4)}, {typ: 253, val: []byte("a@b.io"), isStr: true}}, 1))
		}
		exec2 := func() art {
			seq = 0
			return pk("stmt_execute", myStmtExecute(2, []myParam{{typ: 8, val: lei(5, 8)}}, 1))
		}
		out = append(out,
			script{name: "q-" + variant.name, segs: []segArt{
				{'D', "handshake", hs}, {'C', "hsresp", hr}, {'D', "auth-ok", authOK},
				{'C', "query-select", q(sel)}, {'D', "text-result", textRes()},
				{'C', "query-insert", q("insert into t (id, plain_ab, tok_i32) values (1, 'abc', 77)")}, {'D', "ok", func() art { seq = 1; return pk("ok", myOK()) }()},
				{'C', "query-bad", q("select * from")}, {'D', "err", func() art { seq = 1; return pk("err", myErr()) }()},
			}},
			script{name: "ps-" + variant.name, segs: []segArt{
				{'D', "handshake", hs}, {'C', "hsresp", hr}, {'D', "auth-ok", authOK},
				{'C', "prepare-insert", prep(ins)}, {'D', "prepare-insert-resp", prepInsResp()},
				{'C', "execute-insert", exec1()}, {'D', "ok", func() art { seq = 1; return pk("ok", myOK()) }()},
				{'C', "prepare-select", prep("select id, plain_as, plain_ab, search_ab, mask_ab_r, tok_i32, tok_str, typed_i32 from t where id = ?")}, {'D', "prepare-select-resp", prepSelResp()},
				{'C', "execute-select", exec2()}, {'D', "bin-result", binRes()},
				{'C', "stmt-reset", func() art { seq = 0; return pk("stmt_reset", myCom(0x1a, lei(2, 4))) }()}, {'D', "ok", func() art { seq = 1; return pk("ok", myOK()) }()},
				{'C', "stmt-close-quit", func() art {
					seq = 0
					a := pk("stmt_close", myCom(0x19, lei(2, 4)))
					seq = 0
					return catArts("close+quit", a, pk("quit", myCom(0x01, nil)))
				}()},
			}},
		)
	}
	return out
}

const proxyCensorYAML = `
version: 0.85.0
ignore_parse_error: true
handlers:
  - handler: query_ignore
    queries:
      - ROLLBACK
  - handler: deny
    queries:
      - INSERT INTO SalesStaff1 VALUES (1, 'Stephen', 'Jiang')
    tables:
      - forbidden_table
    patterns:
      - SELECT * FROM secrets %%WHERE%%
      - "%%UPDATE%%"
`

type myProxyRig struct {
	factory base.ProxyFactory
	w       *world
}

func newMyProxyRig() (*myProxyRig, error) {
	w, err := mustWorld()
	if err != nil {
		return nil, err
	}
	setting, err := proxySettings(w, true, proxyCensorYAML)
	if err != nil {
		return nil, err
	}
	tokStore, err := storage.NewMemoryTokenStorage()
	if err != nil {
		return nil, err
	}
	tokenizer, err := pseudonymization.NewPseudoanonymizer(tokStore)
	if err != nil {
		return nil, err
	}
	f, err := mysql.NewProxyFactory(setting, w.ks, tokenizer)
	if err != nil {
		return nil, err
	}
	return &myProxyRig{f, w}, nil
}

func (rig *myProxyRig) run(in []byte) error {
	segs := parseSession(in)
	s := newProxySession()
	proxy, err := rig.factory.New(rig.w.ids[0], s)
	if err != nil {
		return fmt.Errorf("harness: proxy factory: %w", err)
	}
	return runProxySession(proxy, s, segs, rig.w.ids[0])
}

func lenencSeeds(g *gen.Rand) []art {
	var out []art
	for _, n := range []int{0, 1, 250, 251, 300, 70000} {
		out = append(out, nb("lestr").lestr("len", gen.Bytes(g, n)).art())
	}
	out = append(out, nb("lenull").u8("null", 0xfb).art(), nb("leint").lenenc("v", 1<<40).art(), nb("le3").lestr("a", []byte("x")).lestr("b", []byte("yy")).art())
	return out
}

func init() {
	reg(&target{name: "mysql.lenenc-int", group: "mysql", seeds: lenencSeeds, run: func(in []byte) error {
		_, _, _, err := mybase.LengthEncodedInt(in)
		return err
	}})
	reg(&target{name: "mysql.lenenc-string", group: "mysql", seeds: lenencSeeds, run: func(in []byte) error {
		_, _, err := mybase.LengthEncodedString(in)
		return err
	}})
	reg(&target{name: "mysql.skip-lenenc-string", group: "mysql", seeds: lenencSeeds, run: func(in []byte) error {
		_, err := mybase.SkipLengthEncodedString(in)
		return err
	}})
	reg(&target{name: "mysql.read-packet", group: "mysql",
		seeds: func(g *gen.Rand) []art {
			return []art{
				myPkt("pkt", 0, myOK()), myPkt("pkt", 1, myEOF()), myPkt("pkt", 2, myErr()),
				catArts("2pkts", myPkt("pkt", 0, myCom(3, []byte("select 1"))), myPkt("pkt", 1, myOK())),
				myPkt("pkt", 0, art{b: gen.Bytes(g, 300)}),
			}
		},
		run: func(in []byte) error {
			conn := newMemConn(in)
			var first error
			for i := 0; i < 64; i++ {
				p, err := mysql.ReadPacket(conn)
				if err != nil {
					if i == 0 {
						first = err
					}
					break
				}
				_ = p.IsOK()
				_ = p.IsEOF()
				_ = p.IsErr()
				_ = p.GetSequenceNumber()
				_ = p.Dump()
			}
			return first
		}})
	reg(&target{name: "mysql.parse-result-field", group: "mysql",
		seeds: func(g *gen.Rand) []art {
			return []art{
				myPkt("coldef-pkt", 1, myColDef("db", "t", "plain_ab", 252, 0x90, 63, 65535, false, false)),
				myPkt("coldef-pkt", 2, myColDef("schema", "table", "name", 3, 0, 33, 11, false, true)),
				myPkt("coldef-ext-pkt", 3, myColDef("db", "t", "c", 253, 0, 33, 255, true, false)),
				myPkt("coldef-ext-pkt", 4, myColDef("", "", "", 254, 0, 33, 0, true, true)),
			}
		},
		run: func(in []byte) error {
			p, err := mysql.ReadPacket(newMemConn(in))
			if err != nil {
				return err
			}
			var firstErr error
			for _, ext := range []bool{false, true} {
				f, err := mysql.ParseResultField(p, ext)
				if err != nil {
					if firstErr == nil {
						firstErr = err
					}
					continue
				}
				_ = f.Dump()
			}
			return firstErr
		}})
	reg(&target{name: "mysql.prepare-response", group: "mysql",
		seeds: func(g *gen.Rand) []art { return []art{myPrepareOK(1, 2, 3), myPrepareOK(0xffffffff, 0xffff, 0xffff)} },
		run: func(in []byte) error {
			_, err := mysql.ParsePrepareStatementResponse(in)
			return err
		}})
	reg(&target{name: "mysql.bind-parameters", group: "mysql",
		seeds: func(g *gen.Rand) []art {
			mk := func(n int, a art) art { return nb("nparams+" + a.kind).u8("nparams", uint64(n)).embed(a).art() }
			return []art{
				mk(2, myPkt("exec-pkt", 0, myStmtExecute(1, []myParam{{typ: 3, val: lei(7, 4)}, {typ: 253, val: []byte("str"), isStr: true}}, 1))),
				mk(3, myPkt("exec-pkt", 0, myStmtExecute(1, []myParam{{typ: 8, val: lei(7, 8)}, {typ: 253}, {typ: 5, val: lei(7, 8)}}, 1))),
				mk(1, myPkt("exec-pkt", 0, myStmtExecute(1, []myParam{{typ: 1, val: []byte{1}}}, 0))),
				mk(9, myPkt("exec-pkt", 0, myStmtExecute(9, []myParam{{typ: 1, val: []byte{1}}, {typ: 2, val: lei(2, 2)}, {typ: 13, val: lei(2, 2)}, {typ: 9, val: lei(2, 4)}, {typ: 4, val: lei(2, 4)}, {typ: 6}, {typ: 252, val: []byte("blob"), isStr: true}, {typ: 246, val: []byte("1.5"), isStr: true}, {typ: 12, val: []byte{4, 1, 2, 3, 4}, isStr: false}}, 1))),
			}
		},
		run: func(in []byte) error {
			if len(in) < 1 {
				return errors.New("short")
			}
			// the parameter count comes from the PREPARE response / statement text, not from this packet
			n := int(in[0])
			p, err := mysql.ReadPacket(newMemConn(in[1:]))
			if err != nil {
				return err
			}
			vals, err := p.GetBindParameters(n)
			if err != nil {
				return err
			}
			for _, v := range vals {
				if v == nil {
					continue
				}
				_, _ = v.GetData(nil)
				_, _ = v.Encode()
				_ = v.Copy()
			}
			ok := true
			for _, v := range vals {
				if v == nil {
					ok = false
				}
			}
			if ok && len(vals) > 0 {
				return p.SetParameters(vals)
			}
			return nil
		}})
	reg(&target{name: "mysql.bound-value", group: "mysql",
		seeds: func(g *gen.Rand) []art {
			mk := func(t byte, v []byte) art { return nb("type+value").u8("type", uint64(t)).bytes(v).art() }
			return []art{mk(3, lei(5, 4)), mk(8, lei(5, 8)), mk(1, []byte{5}), mk(2, lei(5, 2)), mk(4, lei(5, 4)), mk(5, lei(5, 8)), mk(6, nil),
				nb("type+lestr").u8("type", 253).lestr("len", []byte("hello")).art(), nb("type+lestr").u8("type", 252).lestr("len", gen.Bytes(g, 300)).art()}
		},
		run: func(in []byte) error {
			if len(in) < 1 {
				return errors.New("short")
			}
			v, _, err := mysql.NewMysqlBoundValue(in[1:], base.BinaryFormat, mybase.Type(in[0]))
			if err != nil {
				return err
			}
			_, _ = v.GetData(nil)
			_, err = v.Encode()
			return err
		}})

	// type-aware column decoders / encoders (subscribers the proxy registers), driven with a hostile column value
	type colCase struct {
		column string
		binary bool
		typ    byte
	}
	colCases := []colCase{{"typed_i32", false, 252}, {"typed_i32", true, 252}, {"typed_str", false, 252}, {"typed_str", true, 253}, {"tok_i32", false, 3}, {"tok_i32", true, 3}, {"tok_i64", true, 8}, {"tok_i64", false, 8}, {"tok_str", true, 253}, {"tok_bytes", false, 252}, {"tok_email", true, 253}, {"plain_ab", true, 252}, {"", false, 252}}
	var myDec *mysql.DataDecoderProcessor
	var myEnc *mysql.DataEncoderProcessor
	var mySchema *config.MapTableSchemaStore
	var myTokProc *pseudonymization.TokenProcessor
	reg(&target{name: "mysql.type-codecs", group: "codec",
		seeds: func(g *gen.Rand) []art {
			mk := func(c int, v []byte) art { return nb("case+value").u8("case", uint64(c)).bytes(v).art() }
			var out []art
			for c := range colCases {
				out = append(out, mk(c, []byte("123")), mk(c, lei(123, 4)), mk(c, lei(123, 8)), mk(c, []byte("text value")), mk(c, []byte("-2147483649")), mk(c, nil), mk(c, gen.Bytes(g, 9)))
			}
			return out
		},
		setup: func() error {
			var err error
			if _, err = mustWorld(); err != nil {
				return err
			}
			myDec, myEnc = mysql.NewDataDecoderProcessor(), mysql.NewDataEncoderProcessor()
			mySchema, err = schemaStore(true)
			if err != nil {
				return err
			}
			tokStore, _ := storage.NewMemoryTokenStorage()
			an, err := pseudonymization.NewPseudoanonymizer(tokStore)
			if err != nil {
				return err
			}
			dt, err := pseudonymization.NewDataTokenizer(an)
			if err != nil {
				return err
			}
			myTokProc, err = pseudonymization.NewTokenProcessor(dt)
			return err
		},
		run: func(in []byte) error {
			if len(in) < 1 {
				return errors.New("short")
			}
			cc := colCases[int(in[0])%len(colCases)]
			val := in[1:]
			w := getWorld()
			ac := base.NewAccessContext(base.WithClientID(w.ids[0]))
			ac.SetColumnInfo(base.NewColumnInfo(0, "", cc.binary, len(val), cc.typ, cc.typ))
			ctx := base.SetAccessContextToContext(context.Background(), ac)
			if cc.column != "" {
				ctx = encbase.NewContextWithEncryptionSetting(ctx, mySchema.GetTableSchema("t").GetColumnEncryptionSettings(cc.column))
			}
			ctx1, out, err := myDec.OnColumn(ctx, dup(val))
			if err != nil {
				return err
			}
			ctx2, out, err := myTokProc.OnColumn(ctx1, out)
			if err != nil {
				// detokenization failures are encoded by the encoder stage like in the proxy
				ctx2 = ctx1
			}
			_, _, err = myEnc.OnColumn(ctx2, out)
			// also the "decryption failed" path of the encoder
			_, _, _ = myEnc.OnColumn(ctx1, dup(val))
			return err
		}})

	var rigC, rigD *myProxyRig
	cs, cg := sessionGen(mysqlScripts, 'C')
	reg(&target{name: "mysql.proxy.client-stream", group: "mysql", weight: 0.5, prepare: cs, gen: cg,
		setup: func() error {
			var err error
			if rigC, err = newMyProxyRig(); err != nil {
				return err
			}
			return selfTestSessions(mysqlScripts(gen.New(1, "selftest")), rigC.run)
		},
		run:   func(in []byte) error { return rigC.run(in) }})
	ds, dg := sessionGen(mysqlScripts, 'D')
	reg(&target{name: "mysql.proxy.db-stream", group: "mysql", weight: 0.5, prepare: ds, gen: dg,
		setup: func() error {
			var err error
			if rigD, err = newMyProxyRig(); err != nil {
				return err
			}
			return selfTestSessions(mysqlScripts(gen.New(1, "selftest")), rigD.run)
		},
		run:   func(in []byte) error { return rigD.run(in) }})
	_ = tokenCommon.TokenType_Int32
}
