package c14

import (
	"bufio"
	"encoding/base64"
	"encoding/binary"
	"encoding/hex"
	"encoding/json"
	"fmt"
	"io"
	"os"
	"regexp"
	"runtime"
	"runtime/metrics"
	"runtime/pprof"
	"strconv"
	"strings"
	"sync/atomic"
	"syscall"
	"time"

	"github.com/sirupsen/logrus"
)

const acraPrefix = "github.com/cossacklabs/acra/"
const shimPrefix = "github.com/cossacklabs/themis/gothemis"

// input is one generated case.
type input struct {
	class, detail string
	data          []byte
}

func writeBatch(path string, ins []input) error {
	f, err := os.Create(path)
	if err != nil {
		return err
	}
	w := bufio.NewWriterSize(f, 1<<20)
	var b4 [4]byte
	put := func(p []byte) {
		binary.LittleEndian.PutUint32(b4[:], uint32(len(p)))
		w.Write(b4[:])
		w.Write(p)
	}
	binary.LittleEndian.PutUint32(b4[:], uint32(len(ins)))
	w.Write(b4[:])
	for _, in := range ins {
		put([]byte(in.class))
		put([]byte(in.detail))
		put(in.data)
	}
	if err := w.Flush(); err != nil {
		f.Close()
		return err
	}
	return f.Close()
}

func readBatch(path string) ([]input, error) {
	b, err := os.ReadFile(path)
	if err != nil {
		return nil, err
	}
	if len(b) < 4 {
		return nil, fmt.Errorf("short batch file")
	}
	n := int(binary.LittleEndian.Uint32(b))
	b = b[4:]
	get := func() ([]byte, error) {
		if len(b) < 4 {
			return nil, io.ErrUnexpectedEOF
		}
		l := int(binary.LittleEndian.Uint32(b))
		if len(b) < 4+l {
			return nil, io.ErrUnexpectedEOF
		}
		// capacity = length: a decoder slicing beyond the input must panic as it would on an exactly sized network buffer
		p := b[4 : 4+l : 4+l]
		b = b[4+l:]
		return p, nil
	}
	out := make([]input, 0, n)
	for i := 0; i < n; i++ {
		c, err := get()
		if err != nil {
			return nil, err
		}
		d, err := get()
		if err != nil {
			return nil, err
		}
		data, err := get()
		if err != nil {
			return nil, err
		}
		out = append(out, input{class: string(c), detail: string(d), data: data})
	}
	return out, nil
}

// panicInfo describes a recovered panic.
type panicInfo struct {
	Fn     string   `json:"fn"`    // innermost github.com/cossacklabs/acra frame, function name only
	Class  string   `json:"class"` // normalised panic class
	Msg    string   `json:"msg"`
	Shim   bool     `json:"shim"` // a stand-in (gothemis) frame lies between the panic and the first Acra frame
	Frames []string `json:"frames"`
}

var reDigits = regexp.MustCompile(`0x[0-9a-fA-F]+|[0-9]+`)

// panicClass maps a panic value to a small stable class.
func panicClass(msg string) string {
	switch {
	case strings.Contains(msg, "slice bounds out of range"):
		return "slice bounds out of range"
	case strings.Contains(msg, "index out of range"):
		return "index out of range"
	case strings.Contains(msg, "nil pointer dereference"):
		return "nil pointer"
	case strings.Contains(msg, "makeslice: len out of range"):
		return "makeslice: len out of range"
	case strings.Contains(msg, "makeslice: cap out of range"):
		return "makeslice: cap out of range"
	case strings.Contains(msg, "integer divide by zero"):
		return "divide by zero"
	case strings.Contains(msg, "interface conversion"):
		return "interface conversion"
	case strings.Contains(msg, "nil map"):
		return "assignment to nil map"
	case strings.Contains(msg, "negative count"), strings.Contains(msg, "negative"):
		m := reDigits.ReplaceAllString(msg, "#")
		if len(m) > 48 {
			m = m[:48]
		}
		return m
	}
	m := reDigits.ReplaceAllString(msg, "#")
	if i := strings.IndexAny(m, "'\"`\n"); i >= 0 {
		m = m[:i]
	}
	if len(m) > 48 {
		m = m[:48]
	}
	return strings.TrimSpace(m)
}

func trimFn(fn string) string { return strings.TrimPrefix(fn, acraPrefix) }

func describePanic(p interface{}) *panicInfo {
	pcs := make([]uintptr, 96)
	n := runtime.Callers(2, pcs)
	frames := runtime.CallersFrames(pcs[:n])
	var names []string
	for {
		fr, more := frames.Next()
		names = append(names, fr.Function)
		if !more {
			break
		}
	}
	// everything after the last runtime.gopanic is the panicking call chain, innermost first
	start := 0
	for i, nme := range names {
		if nme == "runtime.gopanic" {
			start = i + 1
		}
	}
	info := &panicInfo{Msg: fmt.Sprint(p)}
	if e, ok := p.(error); ok {
		info.Msg = e.Error()
	}
	if len(info.Msg) > 300 {
		info.Msg = info.Msg[:300]
	}
	info.Class = panicClass(info.Msg)
	for _, nme := range names[start:] {
		if strings.HasPrefix(nme, "runtime.") {
			continue
		}
		if strings.HasPrefix(nme, "verif/harness/") {
			break
		}
		if len(info.Frames) < 8 {
			info.Frames = append(info.Frames, nme)
		}
		if strings.HasPrefix(nme, shimPrefix) && info.Fn == "" {
			info.Shim = true
		}
		if strings.HasPrefix(nme, acraPrefix) && info.Fn == "" {
			info.Fn = trimFn(nme)
		}
	}
	return info
}

var errClassCut = regexp.MustCompile(`['"\x60:(\[{]`)

// errClass reduces an error to a low-cardinality class (messages often echo the input).
func errClass(err error) string {
	m := err.Error()
	if loc := errClassCut.FindStringIndex(m); loc != nil && loc[0] > 8 {
		m = m[:loc[0]]
	}
	m = reDigits.ReplaceAllString(m, "#")
	m = strings.Map(func(r rune) rune {
		if r < 0x20 || r > 0x7e {
			return '?'
		}
		if r == ' ' {
			return '_'
		}
		return r
	}, m)
	if len(m) > 40 {
		m = m[:40]
	}
	return m
}

var allocSample = []metrics.Sample{{Name: "/gc/heap/allocs:bytes"}}

func heapAllocs() uint64 {
	metrics.Read(allocSample)
	return allocSample[0].Value.Uint64()
}

func cpuMicros() int64 {
	var ru syscall.Rusage
	if err := syscall.Getrusage(syscall.RUSAGE_SELF, &ru); err != nil {
		return 0
	}
	return (int64(ru.Utime.Sec)+int64(ru.Stime.Sec))*1e6 + int64(ru.Utime.Usec) + int64(ru.Stime.Usec)
}

// cpuLimitMicros is the CPU bound of one call (10 s for inputs up to 64 KiB, scaled linearly above).
func cpuLimitMicros(inLen int) int64 {
	base := int64(10e6)
	if s := os.Getenv("VERIF_C14_CPU_LIMIT_MS"); s != "" {
		if v, err := strconv.ParseInt(s, 10, 64); err == nil {
			base = v * 1000
		}
	}
	if inLen > 64<<10 {
		return base * int64(inLen) / (64 << 10)
	}
	return base
}

// cpuLimit is the CPU bound of one run of a target: calls x (10 s for inputs up to 64 KiB, scaled linearly above).
func (t *target) cpuLimit(inLen int) int64 {
	if t.calls > 1 {
		return int64(t.calls) * cpuLimitMicros(inLen)
	}
	return cpuLimitMicros(inLen)
}

// allocLimit is the allocation bound of one run of a target: calls x (64 MiB + perByte x len(input)).
// calls = number of decoder invocations the target's run function makes per input (default 1),
// perByte = 2000 unless the target documents a larger linear cost (SQL grammar targets: 8000, see notes).
func (t *target) allocLimit(inLen int) uint64 {
	calls, per := uint64(1), uint64(2000)
	if t.calls > 0 {
		calls = uint64(t.calls)
	}
	if t.allocPerByte > 0 {
		per = uint64(t.allocPerByte)
	}
	return calls * (64<<20 + per*uint64(inLen))
}

// allocLimitOf / cpuLimitOf are the bounds of one run on one input: the target's own bound functions when it has them
// (targets whose input is a DESCRIPTION of a large stream, not the stream), else the defaults by input length.
func (t *target) allocLimitOf(in []byte) uint64 {
	if t.allocBound != nil {
		return t.allocBound(in)
	}
	return t.allocLimit(len(in))
}

func (t *target) cpuLimitOf(in []byte) int64 {
	if t.cpuBound != nil {
		return t.cpuBound(in)
	}
	return t.cpuLimit(len(in))
}

// oracleErr is returned by a target's run function when the target itself observed resource behaviour the property
// forbids that the allocation / CPU accounting of the child cannot see (a read that does not end where its message
// ends). It becomes a "V" outcome in the journal and a violation `<Kind> target=<t> class=<Class>` in the parent.
type oracleErr struct {
	Kind   string `json:"kind"`  // "blow-up"
	Class  string `json:"class"` // stable: construction class + what was observed
	Detail string `json:"detail"`
}

func (e *oracleErr) Error() string { return e.Kind + ": " + e.Class + ": " + e.Detail }

func isOracleErr(err error) *oracleErr {
	if oe, ok := err.(*oracleErr); ok {
		return oe
	}
	return nil
}

type callResult struct {
	err   error
	pan   *panicInfo
	alloc uint64
	cpu   int64
	wall  int64 // microseconds; diagnostics of the harness only, never an oracle input
}

func runOne(t *target, in []byte) (res callResult) {
	a0 := heapAllocs()
	c0 := cpuMicros()
	w0 := time.Now()
	func() {
		defer func() {
			if p := recover(); p != nil {
				res.pan = describePanic(p)
			}
		}()
		res.err = t.run(in)
	}()
	if pe, ok := res.err.(*panicErr); ok {
		res.pan = pe.info
		res.err = nil
	}
	res.cpu = cpuMicros() - c0
	res.alloc = heapAllocs() - a0
	res.wall = time.Since(w0).Microseconds()
	return
}

var (
	curStartCPU int64 // CPU micros at the start of the running call, 0 when idle
	curStartAlloc uint64
	curIdx      int64
	curLimit    int64
)

// Child executes a batch: mon C14 child <target> <batchfile> <journal> <from> [confirm]
func Child(args []string) int {
	if len(args) < 4 {
		fmt.Fprintln(os.Stderr, "usage: child <target> <batchfile> <journal> <from> [confirm]")
		return 2
	}
	logrus.SetOutput(io.Discard)
	t := targetByName(args[0])
	if t == nil {
		fmt.Fprintf(os.Stderr, "unknown target %s\n", args[0])
		return 2
	}
	from, _ := strconv.Atoi(args[3])
	var ins []input
	var err error
	if strings.HasPrefix(args[1], "hex:") {
		// development aid: mon C14 child <target> hex:<input> /dev/stdout 0
		var b []byte
		b, err = hex.DecodeString(args[1][4:])
		ins = []input{{class: "manual", data: b[:len(b):len(b)]}}
	} else {
		ins, err = readBatch(args[1])
	}
	if err != nil {
		fmt.Fprintf(os.Stderr, "batch: %v\n", err)
		return 2
	}
	jf, err := os.OpenFile(args[2], os.O_CREATE|os.O_WRONLY|os.O_APPEND, 0o644)
	if err != nil {
		fmt.Fprintf(os.Stderr, "journal: %v\n", err)
		return 2
	}
	if t.setup != nil {
		if err := t.setup(); err != nil {
			fmt.Fprintf(os.Stderr, "setup of %s failed: %v\n", t.name, err)
			return 2
		}
	}
	// warm-up: a restarted child first repeats the chunk's valid artefact (not recorded) so that lazy
	// initialisation is never charged to a hostile input
	if from > 0 && len(ins) > 0 {
		runOne(t, ins[0].data)
	}
	if !raceEnabled {
		// address-space limit = what the process maps now + head-room: allocations far beyond the allocation
		// bound fail at once (fatal "out of memory", diagnosed by the parent) instead of being touched page by page
		head := uint64(384 << 20)
		if s := os.Getenv("VERIF_C14_AS_HEADROOM_MB"); s != "" {
			if v, err := strconv.ParseUint(s, 10, 64); err == nil {
				head = v << 20
			}
		}
		if cur := vmSize(); cur > 0 {
			lim := cur + head
			syscall.Setrlimit(syscall.RLIMIT_AS, &syscall.Rlimit{Cur: lim, Max: lim})
		}
	}
	// CPU watchdog: decides on CPU time of the process, never on wall-clock time
	go func() {
		for {
			time.Sleep(200 * time.Millisecond)
			st := atomic.LoadInt64(&curStartCPU)
			if st == 0 {
				continue
			}
			used := cpuMicros() - st
			if used > atomic.LoadInt64(&curLimit) {
				idx := atomic.LoadInt64(&curIdx)
				// the call may have ended in between
				if atomic.LoadInt64(&curStartCPU) != st {
					continue
				}
				buf := make([]byte, 1<<16)
				n := runtime.Stack(buf, true)
				fmt.Fprintf(os.Stderr, "C14-CPU-LIMIT idx=%d used_us=%d\n%s\n", idx, used, buf[:n])
				fmt.Fprintf(jf, "T %d %d %d\n", idx, used, heapAllocs()-atomic.LoadUint64(&curStartAlloc))
				os.Exit(3)
			}
		}
	}()
	if pf := os.Getenv("VERIF_C14_PPROF"); pf != "" {
		if f, err := os.Create(pf); err == nil {
			pprof.StartCPUProfile(f)
			defer pprof.StopCPUProfile()
		}
	}
	line := make([]byte, 0, 256)
	for i := from; i < len(ins); i++ {
		line = append(line[:0], 'S', ' ')
		line = strconv.AppendInt(line, int64(i), 10)
		line = append(line, '\n')
		jf.Write(line)
		atomic.StoreInt64(&curIdx, int64(i))
		atomic.StoreInt64(&curLimit, t.cpuLimitOf(ins[i].data))
		st := cpuMicros()
		if st == 0 {
			st = 1
		}
		atomic.StoreUint64(&curStartAlloc, heapAllocs())
		atomic.StoreInt64(&curStartCPU, st)
		res := runOne(t, ins[i].data)
		atomic.StoreInt64(&curStartCPU, 0)
		line = append(line[:0], 'R', ' ')
		line = strconv.AppendInt(line, int64(i), 10)
		switch {
		case res.pan != nil:
			j, _ := json.Marshal(res.pan)
			line = append(line, " p "...)
			line = strconv.AppendUint(line, res.alloc, 10)
			line = append(line, ' ')
			line = strconv.AppendInt(line, res.cpu, 10)
			line = append(line, ' ')
			line = strconv.AppendInt(line, res.wall, 10)
			line = append(line, ' ')
			line = append(line, base64.StdEncoding.EncodeToString(j)...)
		case isOracleErr(res.err) != nil:
			j, _ := json.Marshal(isOracleErr(res.err))
			line = append(line, " v "...)
			line = strconv.AppendUint(line, res.alloc, 10)
			line = append(line, ' ')
			line = strconv.AppendInt(line, res.cpu, 10)
			line = append(line, ' ')
			line = strconv.AppendInt(line, res.wall, 10)
			line = append(line, ' ')
			line = append(line, base64.StdEncoding.EncodeToString(j)...)
		case res.err != nil:
			line = append(line, " e "...)
			line = strconv.AppendUint(line, res.alloc, 10)
			line = append(line, ' ')
			line = strconv.AppendInt(line, res.cpu, 10)
			line = append(line, ' ')
			line = strconv.AppendInt(line, res.wall, 10)
			line = append(line, ' ')
			line = append(line, errClass(res.err)...)
		default:
			line = append(line, " o "...)
			line = strconv.AppendUint(line, res.alloc, 10)
			line = append(line, ' ')
			line = strconv.AppendInt(line, res.cpu, 10)
			line = append(line, ' ')
			line = strconv.AppendInt(line, res.wall, 10)
			line = append(line, " -"...)
		}
		line = append(line, '\n')
		jf.Write(line)
		if res.alloc > t.allocLimitOf(ins[i].data) && res.pan == nil {
			// repeat the call once between two memory-profile snapshots: confirms the measurement and names the site
			alloc2, site := attributeAlloc(t, ins[i].data)
			fmt.Fprintf(jf, "A %d %d %s\n", i, alloc2, site)
		}
	}
	jf.Write([]byte("E\n"))
	jf.Close()
	return 0
}

func vmSize() uint64 {
	b, err := os.ReadFile("/proc/self/status")
	if err != nil {
		return 0
	}
	for _, l := range strings.Split(string(b), "\n") {
		if strings.HasPrefix(l, "VmSize:") {
			f := strings.Fields(l)
			if len(f) >= 2 {
				v, _ := strconv.ParseUint(f[1], 10, 64)
				return v << 10
			}
		}
	}
	return 0
}

type stackKey [32]uintptr

func memSnapshot() map[stackKey]int64 {
	runtime.GC()
	runtime.GC()
	n, _ := runtime.MemProfile(nil, true)
	recs := make([]runtime.MemProfileRecord, n+128)
	n, ok := runtime.MemProfile(recs, true)
	out := map[stackKey]int64{}
	if !ok {
		return out
	}
	for i := 0; i < n; i++ {
		out[stackKey(recs[i].Stack0)] += recs[i].AllocBytes
	}
	return out
}

// attributeAlloc re-runs one input between two memory-profile snapshots and returns the measured allocation
// and the innermost Acra frame of the heaviest allocating stack.
func attributeAlloc(t *target, in []byte) (uint64, string) {
	old := runtime.MemProfileRate
	runtime.MemProfileRate = 4096
	before := memSnapshot()
	res := runOne(t, in)
	after := memSnapshot()
	runtime.MemProfileRate = old
	var best stackKey
	var bestBytes int64 = -1
	for k, v := range after {
		if d := v - before[k]; d > bestBytes {
			best, bestBytes = k, d
		}
	}
	site := "?"
	if bestBytes > 0 {
		n := 0
		for n < len(best) && best[n] != 0 {
			n++
		}
		frames := runtime.CallersFrames(best[:n])
		for {
			fr, more := frames.Next()
			if strings.HasPrefix(fr.Function, acraPrefix) {
				site = trimFn(fr.Function)
				break
			}
			if !more {
				break
			}
		}
	}
	return res.alloc, site
}
