package c14

import (
	"encoding/hex"

	"github.com/cossacklabs/acra/utils"

	"verif/harness/internal/gen"
)

func byteaSeeds(g *gen.Rand) []art {
	var out []art
	for _, n := range []int{0, 1, 2, 7, 64, 300} {
		raw := gen.Bytes(g, n)
		out = append(out,
			art{kind: "octal", b: utils.EncodeToOctal(raw)},
			art{kind: "pghex", b: utils.PgEncodeToHex(raw)},
			art{kind: "hex", b: []byte(hex.EncodeToString(raw))},
		)
	}
	out = append(out, art{kind: "octal-esc", b: []byte(`abc\\def\000\377\134xyz`)}, art{kind: "utf8", b: []byte("äßé€漢字😀 \\101")})
	return out
}

func init() {
	reg(&target{name: "codec.decode-escaped", group: "codec", seeds: byteaSeeds, run: func(in []byte) error {
		out, err := utils.DecodeEscaped(in)
		if err == nil {
			_ = utils.EncodeToOctal(out)
			_ = utils.PgEncodeToHex(out)
		}
		return err
	}})
	reg(&target{name: "codec.decode-octal", group: "codec", seeds: byteaSeeds, run: func(in []byte) error {
		_, err := utils.DecodeOctal(in)
		_ = utils.IsPrintablePostgresqlString(in)
		_ = utils.QuoteValue(string(in))
		return err
	}})
	reg(&target{name: "codec.encoders", group: "codec", seeds: byteaSeeds, run: func(in []byte) error {
		_ = (&utils.MysqlEncoder{}).EncodeToString(in)
		_ = (&utils.EscapeEncoder{}).EncodeToString(in)
		_ = (&utils.HexEncoder{}).EncodeToString(in)
		_ = (&utils.PqEncoder{}).EncodeToString(in)
		_, err := utils.ParseVersion(string(in))
		if len(in) < 32 {
			// version strings are short configuration values
			return nil
		}
		_ = err
		return nil
	}})
}
