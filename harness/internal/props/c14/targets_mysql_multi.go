package c14

import (
	"errors"
	"fmt"
	"io"
	"net"
	"time"

	"github.com/cossacklabs/acra/decryptor/mysql"

	"verif/harness/internal/gen"
)

// mysql.read-packet.multi-packet: payloads of 2^24-1 bytes and more, which travel as a SEQUENCE of packets (every packet
// but the last carries exactly 2^24-1 bytes, the last one is shorter, possibly empty). The other MySQL targets never
// feed 16 MiB, so the continuation loop of Packet.readPacket was only ever entered with mutated length fields and
// nothing behind them.
//
// The input of this target is a DESCRIPTION of the stream ("k=1 r=5 next=5 seq=0 fill=7"); the child synthesises the
// bytes while ReadPacket reads them (no 32 MiB batch files, and nothing but the decoder allocates). The stream is the
// payload of k*(2^24-1)+r bytes as k full packets plus the terminating packet of r bytes, followed by ONE further small
// packet (the next message), then nothing: the peer waits for the answer.
//
// Checked by the target itself (decided by position in the stream, no timer):
//   - ReadPacket must not ask the connection for input after everything that was sent has been consumed: on a live
//     connection that read blocks for ever (both proxy goroutines of a session use ReadPacket);
//   - when it returns it must have consumed exactly the bytes of the payload's packet sequence: a reader that goes on
//     into the following packets accumulates whatever the peer sends next in the same buffer;
//   - the returned payload must not be longer than what was sent.
// The allocation and CPU accounting of the child apply with bounds relative to the payload length (below).
// Not a C14 verdict (wrong-but-quiet answers are C03/C19 matter), reported as an `error` outcome and thereby failing
// the target's "every input is accepted" guard: payload shorter than / different from what was sent, the following
// packet not returned intact by the next ReadPacket.

const myMaxPayload = 1<<24 - 1

type multiDesc struct {
	k, r, next, seq, fill int
}

func (d multiDesc) String() string {
	return fmt.Sprintf("k=%d r=%d next=%d seq=%d fill=%d", d.k, d.r, d.next, d.seq, d.fill)
}
func (d multiDesc) total() int { return d.k*myMaxPayload + d.r }
func (d multiDesc) class() string {
	return fmt.Sprintf("multi-packet:full-packets=%d:last-packet=%s", d.k, map[bool]string{true: "empty", false: "short-nonempty"}[d.r == 0])
}

func parseMultiDesc(in []byte) (d multiDesc, err error) {
	_, err = fmt.Sscanf(string(in), "k=%d r=%d next=%d seq=%d fill=%d", &d.k, &d.r, &d.next, &d.seq, &d.fill)
	if err == nil && (d.k < 0 || d.k > 3 || d.r < 0 || d.r >= myMaxPayload || d.next < 1 || d.next > 1<<16) {
		err = errors.New("harness: stream description out of range")
	}
	return
}

// multiDescs is the fixed list of streams: the first 8 are the quick tier (k in {1,2} x r in {0,1,5,1000}).
func multiDescs() []multiDesc {
	out := []multiDesc{}
	for _, r := range []int{0, 1, 5, 1000} { // cheapest first: input 0 doubles as warm-up of restarted children
		for _, k := range []int{1, 2} {
			out = append(out, multiDesc{k: k, r: r, next: 5, seq: 0, fill: 1 + len(out)})
		}
	}
	// thorough: other lengths of the terminating packet and of the following message, sequence ids that wrap, and
	// two payloads just below the threshold (one packet, the loop is never entered)
	for _, x := range []multiDesc{
		{k: 1, r: 2, next: 1, seq: 0}, {k: 1, r: 3, next: 300, seq: 254}, {k: 1, r: 4, next: 4, seq: 255}, {k: 1, r: 255, next: 7, seq: 1},
		{k: 1, r: 256, next: 1, seq: 0}, {k: 1, r: 65535, next: 9, seq: 0}, {k: 1, r: 65536, next: 5, seq: 3}, {k: 1, r: myMaxPayload - 1, next: 5, seq: 0},
		{k: 2, r: 2, next: 300, seq: 255}, {k: 2, r: 65536, next: 1, seq: 0}, {k: 2, r: 255, next: 5, seq: 254}, {k: 2, r: 7, next: 2, seq: 0},
		{k: 3, r: 0, next: 5, seq: 0}, {k: 3, r: 1, next: 5, seq: 0},
		{k: 0, r: myMaxPayload - 1, next: 5, seq: 0}, {k: 0, r: myMaxPayload - 2, next: 1, seq: 7},
	} {
		x.fill = 1 + len(out)
		out = append(out, x)
	}
	return out
}

// streamConn synthesises the byte stream of a multiDesc while it is read.
type streamConn struct {
	d      multiDesc
	pieces []streamPiece
	cur    int // current piece
	off    int // offset inside the current piece
	pos    int // bytes handed out so far
	// askedWhenDry counts Read calls made after everything had been handed out
	askedWhenDry int
	payloadEnd   int // stream offset where the payload's packet sequence ends
}

type streamPiece struct {
	hdr   []byte // a packet header, or nil
	start int    // payload bytes: offset in the logical payload (which: 0 payload, 1 following message)
	n     int
	which int
}

func payloadByte(fill, which, i int) byte {
	return byte(i*131 + (i>>8)*17 + (i>>16)*7 + (i>>24)*3 + fill*29 + which*101)
}

func newStreamConn(d multiDesc) *streamConn {
	c := &streamConn{d: d}
	hdr := func(n, seq int) []byte { return []byte{byte(n), byte(n >> 8), byte(n >> 16), byte(seq)} }
	off, seq := 0, d.seq
	for j := 0; j < d.k; j++ {
		c.pieces = append(c.pieces, streamPiece{hdr: hdr(myMaxPayload, seq)}, streamPiece{start: off, n: myMaxPayload})
		off += myMaxPayload
		seq++
		c.payloadEnd += 4 + myMaxPayload
	}
	// the terminating packet (empty when the payload is a multiple of 2^24-1); a payload below 2^24-1 is one packet
	c.pieces = append(c.pieces, streamPiece{hdr: hdr(d.r, seq)})
	if d.r > 0 {
		c.pieces = append(c.pieces, streamPiece{start: off, n: d.r})
	}
	c.payloadEnd += 4 + d.r
	c.pieces = append(c.pieces, streamPiece{hdr: hdr(d.next, 0)}, streamPiece{start: 0, n: d.next, which: 1})
	return c
}

var errPeerWaits = errors.New("harness: no more input: the peer waits for the answer")

func (c *streamConn) Read(p []byte) (int, error) {
	if len(p) == 0 {
		return 0, nil
	}
	for c.cur < len(c.pieces) {
		pc := c.pieces[c.cur]
		size := pc.n
		if pc.hdr != nil {
			size = len(pc.hdr)
		}
		if c.off >= size {
			c.cur, c.off = c.cur+1, 0
			continue
		}
		n := size - c.off
		if n > len(p) {
			n = len(p)
		}
		if pc.hdr != nil {
			copy(p, pc.hdr[c.off:c.off+n])
		} else {
			base := pc.start + c.off
			for i := 0; i < n; i++ {
				p[i] = payloadByte(c.d.fill, pc.which, base+i)
			}
		}
		c.off += n
		c.pos += n
		return n, nil
	}
	// a live connection would block here: reported by position, the error only ends the call
	c.askedWhenDry++
	return 0, errPeerWaits
}
func (c *streamConn) Write(p []byte) (int, error)        { return len(p), nil }
func (c *streamConn) Close() error                       { return nil }
func (c *streamConn) LocalAddr() net.Addr                { return &net.TCPAddr{IP: net.IPv4(127, 0, 0, 1), Port: 1} }
func (c *streamConn) RemoteAddr() net.Addr               { return &net.TCPAddr{IP: net.IPv4(127, 0, 0, 1), Port: 2} }
func (c *streamConn) SetDeadline(t time.Time) error      { return nil }
func (c *streamConn) SetReadDeadline(t time.Time) error  { return nil }
func (c *streamConn) SetWriteDeadline(t time.Time) error { return nil }

var _ io.Reader = (*streamConn)(nil)

func runMultiPacket(in []byte) error {
	d, err := parseMultiDesc(in)
	if err != nil {
		return err
	}
	conn := newStreamConn(d)
	p, err := mysql.ReadPacket(conn)
	observed := func(what string) string {
		got := -1
		if p != nil {
			got = len(p.GetData())
		}
		return fmt.Sprintf("%s; stream: %s = payload of %d bytes in %d packets ending at stream offset %d, then one packet of %d bytes (stream length %d); ReadPacket consumed %d bytes, returned error %v, payload length %d",
			what, d, d.total(), d.k+1, conn.payloadEnd, d.next, conn.payloadEnd+4+d.next, conn.pos, err, got)
	}
	switch {
	case conn.askedWhenDry > 0:
		return &oracleErr{Kind: "blow-up", Class: d.class() + ":waits-for-more-input-after-the-whole-stream-was-consumed",
			Detail: observed("ReadPacket asked the connection for input after the terminating packet AND the following message had been consumed: on a live connection it blocks for ever while appending what the peer sends")}
	case err != nil:
		return err
	case conn.pos > conn.payloadEnd:
		return &oracleErr{Kind: "blow-up", Class: d.class() + ":reads-on-after-the-terminating-packet",
			Detail: observed("ReadPacket consumed bytes of the message that follows the payload")}
	case len(p.GetData()) > d.total():
		return &oracleErr{Kind: "blow-up", Class: d.class() + ":payload-longer-than-sent", Detail: observed("returned payload is longer than what was sent")}
	case conn.pos < conn.payloadEnd || len(p.GetData()) < d.total():
		return errors.New("payload cut short")
	}
	data := p.GetData()
	for i := range data {
		if data[i] != payloadByte(d.fill, 0, i) {
			return errors.New("payload differs from what was sent")
		}
	}
	_ = p.GetSequenceNumber()
	_ = p.Dump() // what the proxy forwards: the payload re-split into packets
	p = nil
	// the following message is the next ReadPacket's
	p2, err := mysql.ReadPacket(conn)
	if err != nil {
		return err
	}
	if len(p2.GetData()) != d.next {
		return errors.New("following message has another length")
	}
	for i, b := range p2.GetData() {
		if b != payloadByte(d.fill, 1, i) {
			return errors.New("following message differs from what was sent")
		}
	}
	return nil
}

func init() {
	reg(&target{name: "mysql.read-packet.multi-packet", group: "mysql",
		fixedN: [2]int{8, 24},
		gen: func(g *gen.Rand, st interface{}, i int) ([]byte, string, string) {
			ds := multiDescs()
			d := ds[i%len(ds)]
			return []byte(d.String()), "valid:" + d.class(), d.String()
		},
		run: runMultiPacket,
		// one ReadPacket of the payload (the payload itself, the growth of the buffer per continuation packet) plus one Dump:
		// measured 2.1 - 2.9 x payload on the unchanged tree (quick tier); the bound is 64 MiB + 4 x payload
		allocBound: func(in []byte) uint64 {
			d, err := parseMultiDesc(in)
			if err != nil {
				return 64 << 20
			}
			return 64<<20 + 4*uint64(d.total())
		},
		// CPU: the default bound for an input of the stream's length, at most 120 s
		cpuBound: func(in []byte) int64 {
			d, err := parseMultiDesc(in)
			if err != nil {
				return cpuLimitMicros(0)
			}
			if l := cpuLimitMicros(d.total()); l < 120e6 {
				return l
			}
			return 120e6
		},
	})
}
