package c14

import (
	"bufio"
	"bytes"
	"context"
	"encoding/hex"
	"errors"
	"fmt"
	"io"

	"github.com/cossacklabs/acra/decryptor/base"
	"github.com/cossacklabs/acra/decryptor/postgresql"
	encbase "github.com/cossacklabs/acra/encryptor/base"
	"github.com/cossacklabs/acra/encryptor/base/config"
	"github.com/cossacklabs/acra/pseudonymization"
	"github.com/cossacklabs/acra/pseudonymization/storage"
	"github.com/sirupsen/logrus"

	"verif/harness/internal/gen"
)

// ---- PostgreSQL wire artefacts ----

func pgMsg(tag byte, body art) art {
	b := nb(body.kind)
	b.u8("tag", uint64(tag)).be32("msglen", uint64(len(body.b)+4)).embed(body)
	return b.art()
}

func pgStartup(params ...string) art {
	body := nb("startup").be32("protocol", 196608)
	for _, p := range params {
		body.cstr(p)
	}
	body.raw(0)
	b := nb("startup")
	b.be32("msglen", uint64(len(body.a.b)+4)).embed(body.art())
	return b.art()
}

func pgSpecialStartup(code uint32, extra []byte) art {
	b := nb("startup-special")
	b.be32("msglen", uint64(8+len(extra))).be32("code", uint64(code)).bytes(extra)
	return b.art()
}

func pgQuery(q string) art { return pgMsg('Q', nb("query").cstr(q).art()) }

func pgParse(name, q string, oids ...uint32) art {
	b := nb("parse").cstr(name).cstr(q).be16("nparams", uint64(len(oids)))
	for i, o := range oids {
		b.be32(fmt.Sprintf("oid%d", i), uint64(o))
	}
	return pgMsg('P', b.art())
}

type pgParam struct {
	v    []byte
	null bool
}

func pgBindBody(portal, stmt string, pfmts []uint16, params []pgParam, rfmts []uint16) art {
	b := nb("bind").cstr(portal).cstr(stmt).be16("nparamformats", uint64(len(pfmts)))
	for i, f := range pfmts {
		b.be16(fmt.Sprintf("pfmt%d", i), uint64(f))
	}
	b.be16("nparams", uint64(len(params)))
	for i, p := range params {
		if p.null {
			b.be32(fmt.Sprintf("plen%d", i), 0xffffffff)
			continue
		}
		b.be32(fmt.Sprintf("plen%d", i), uint64(len(p.v))).bytes(p.v)
	}
	b.be16("nresultformats", uint64(len(rfmts)))
	for i, f := range rfmts {
		b.be16(fmt.Sprintf("rfmt%d", i), uint64(f))
	}
	return b.art()
}

func pgBind(portal, stmt string, pfmts []uint16, params []pgParam, rfmts []uint16) art {
	return pgMsg('B', pgBindBody(portal, stmt, pfmts, params, rfmts))
}
func pgExecute(portal string, max uint32) art {
	return pgMsg('E', nb("execute").cstr(portal).be32("maxrows", uint64(max)).art())
}
func pgDescribe(kind byte, name string) art {
	return pgMsg('D', nb("describe").u8("kind", uint64(kind)).cstr(name).art())
}
func pgClose(kind byte, name string) art {
	return pgMsg('C', nb("close").u8("kind", uint64(kind)).cstr(name).art())
}
func pgEmpty(tag byte, kind string) art { return pgMsg(tag, nb(kind).art()) }

type pgCol struct {
	name   string
	oid    uint32
	format uint16
}

func pgRowDescription(cols []pgCol) art {
	b := nb("rowdesc").be16("nfields", uint64(len(cols)))
	for i, c := range cols {
		b.cstr(c.name).be32(fmt.Sprintf("tableoid%d", i), 16384).be16(fmt.Sprintf("colno%d", i), uint64(i+1)).be32(fmt.Sprintf("typeoid%d", i), uint64(c.oid)).
			be16(fmt.Sprintf("typelen%d", i), 0xffff).be32(fmt.Sprintf("typmod%d", i), 0xffffffff).be16(fmt.Sprintf("format%d", i), uint64(c.format))
	}
	return pgMsg('T', b.art())
}

func pgDataRow(vals []pgParam) art {
	b := nb("datarow").be16("ncols", uint64(len(vals)))
	for i, v := range vals {
		if v.null {
			b.be32(fmt.Sprintf("collen%d", i), 0xffffffff)
			continue
		}
		b.be32(fmt.Sprintf("collen%d", i), uint64(len(v.v))).bytes(v.v)
	}
	return pgMsg('D', b.art())
}

func pgParamDescription(oids ...uint32) art {
	b := nb("paramdesc").be16("nparams", uint64(len(oids)))
	for i, o := range oids {
		b.be32(fmt.Sprintf("oid%d", i), uint64(o))
	}
	return pgMsg('t', b.art())
}

func pgCommandComplete(tag string) art { return pgMsg('C', nb("cmdcomplete").cstr(tag).art()) }
func pgReady(st byte) art             { return pgMsg('Z', nb("ready").u8("txstatus", uint64(st)).art()) }
func pgAuthOK() art                   { return pgMsg('R', nb("authok").be32("authcode", 0).art()) }
func pgParamStatus(k, v string) art   { return pgMsg('S', nb("paramstatus").cstr(k).cstr(v).art()) }
func pgErrorResponse() art {
	return pgMsg('E', nb("error").u8("f1", 'S').cstr("ERROR").u8("f2", 'C').cstr("42601").u8("f3", 'M').cstr("syntax error").raw(0).art())
}

func pgHex(b []byte) []byte { return []byte("\\x" + hex.EncodeToString(b)) }

func pgScripts(g *gen.Rand) []script {
	w := getWorld()
	ab := w.protect("plain_ab", []byte("secret-ab"))
	as := w.protect("plain_as", []byte("secret-as"))
	sab := w.protect("search_ab", []byte("needle"))
	mab := w.protect("mask_ab_r", []byte("4111111111111111"))
	ti := w.protect("typed_i32", []byte("123"))
	names := []string{"id", "plain_as", "plain_ab", "search_ab", "mask_ab_r", "tok_i32", "tok_str", "typed_i32"}
	colsFmt := func(f uint16) []pgCol {
		oids := []uint32{23, 17, 17, 17, 17, 23, 25, 17}
		var out []pgCol
		for i, n := range names {
			out = append(out, pgCol{n, oids[i], f})
		}
		return out
	}
	selectList := "id, plain_as, plain_ab, search_ab, mask_ab_r, tok_i32, tok_str, typed_i32"
	textRows := catArts("datarows-text",
		pgDataRow([]pgParam{{v: []byte("1")}, {v: pgHex(as)}, {v: pgHex(ab)}, {v: pgHex(sab)}, {v: pgHex(mab)}, {v: []byte("123")}, {v: []byte("tok")}, {v: pgHex(ti)}}),
		pgDataRow([]pgParam{{v: []byte("2")}, {null: true}, {v: []byte("plain")}, {null: true}, {v: []byte(`\001\002abc`)}, {v: []byte("-5")}, {null: true}, {v: []byte("zz")}}))
	binRows := catArts("datarows-binary",
		pgDataRow([]pgParam{{v: encInt(1, 4, true)}, {v: as}, {v: ab}, {v: sab}, {v: mab}, {v: encInt(123, 4, true)}, {v: []byte("tok")}, {v: ti}}),
		pgDataRow([]pgParam{{v: encInt(2, 4, true)}, {null: true}, {v: []byte("plain")}, {null: true}, {v: []byte("x")}, {v: encInt(0xfffffffb, 4, true)}, {null: true}, {v: []byte("zz")}}))
	authSeq := catArts("auth-sequence", pgAuthOK(), pgParamStatus("server_version", "14.1"), pgParamStatus("client_encoding", "UTF8"),
		pgMsg('K', nb("backendkey").be32("pid", 4242).be32("key", 99).art()), pgReady('I'))
	startup := pgStartup("user", "test", "database", "db", "application_name", "verif")
	simple := script{name: "simple", segs: []segArt{
		{'C', "startup", startup}, {'D', "auth", authSeq},
		{'C', "query-select", pgQuery("select " + selectList + " from t where search_ab = 'needle' and id = 5")},
		{'D', "select-response", catArts("select-response", pgRowDescription(colsFmt(0)), textRows, pgCommandComplete("SELECT 2"), pgReady('I'))},
		{'C', "query-insert", pgQuery("insert into t (id, plain_ab, tok_i32, tok_email) values (1, 'abc', 77, 'a@b.io') returning plain_ab")},
		{'D', "insert-response", catArts("insert-response", pgRowDescription([]pgCol{{"plain_ab", 17, 0}}), pgDataRow([]pgParam{{v: pgHex(ab)}}), pgCommandComplete("INSERT 0 1"), pgReady('I'))},
		{'C', "query-bad", pgQuery("select * from")}, {'D', "error-response", catArts("error-response", pgErrorResponse(), pgReady('I'))},
		{'C', "query-censored", pgQuery("select * from forbidden_table")},
		{'C', "terminate", pgEmpty('X', "terminate")},
	}}
	extSel := "select " + selectList + " from t where id = $1 and search_ab = $2"
	extIns := "insert into t (id, plain_ab, search_ab, tok_str, tok_i32, tok_email) values ($1, $2, $3, $4, $5, $6)"
	extended := func(name string, rfmt uint16, rows art) script {
		return script{name: name, segs: []segArt{
			{'C', "startup", startup}, {'D', "auth", authSeq},
			{'C', "parse-describe-sync", catArts("parse-describe-sync", pgParse("s1", extSel, 23, 17), pgDescribe('S', "s1"), pgEmpty('S', "sync"))},
			{'D', "parse-response", catArts("parse-response", pgEmpty('1', "parsecomplete"), pgParamDescription(23, 17), pgRowDescription(colsFmt(0)), pgReady('I'))},
			{'C', "bind-execute-sync", catArts("bind-execute-sync",
				pgBind("p1", "s1", []uint16{1, 0}, []pgParam{{v: encInt(5, 4, true)}, {v: []byte("needle")}}, []uint16{rfmt}), pgDescribe('P', "p1"), pgExecute("p1", 0), pgEmpty('S', "sync"))},
			{'D', "bind-response", catArts("bind-response", pgEmpty('2', "bindcomplete"), pgRowDescription(colsFmt(rfmt)), rows, pgCommandComplete("SELECT 2"), pgReady('I'))},
			{'C', "parse-bind-insert", catArts("parse-bind-insert", pgParse("", extIns, 23, 17, 17, 25, 23, 25),
				pgBind("", "", []uint16{0}, []pgParam{{v: []byte("7")}, {v: []byte("to-encrypt")}, {v: []byte("needle")}, {v: []byte("tokenize me")}, {v: []byte("42")}, {v: []byte("a@b.io")}}, nil),
				pgExecute("", 0), pgEmpty('S', "sync"))},
			{'D', "insert-response", catArts("insert-response", pgEmpty('1', "parsecomplete"), pgEmpty('2', "bindcomplete"), pgCommandComplete("INSERT 0 1"), pgReady('I'))},
			{'C', "bind-binary-params", catArts("bind-binary-params",
				pgBind("", "", []uint16{1, 1, 1, 0, 1, 0}, []pgParam{{v: encInt(7, 4, true)}, {v: []byte("raw")}, {null: true}, {v: []byte("t")}, {v: encInt(42, 4, true)}, {v: []byte("x@y.de")}}, []uint16{1, 0}),
				pgExecute("", 1), pgClose('S', "s1"), pgEmpty('H', "flush"), pgEmpty('S', "sync"))},
			{'D', "suspended", catArts("suspended", pgEmpty('2', "bindcomplete"), pgEmpty('s', "portalsuspended"), pgEmpty('3', "closecomplete"), pgEmpty('n', "nodata"), pgReady('T'))},
			{'C', "terminate", pgEmpty('X', "terminate")},
		}}
	}
	special := script{name: "special-startup", rare: true, segs: []segArt{
		{'C', "sslrequest", pgSpecialStartup(80877103, nil)}, {'D', "ssl-deny", art{kind: "ssl-deny", b: []byte{'N'}, f: []fld{{name: "answer", off: 0, w: 1}}}},
		{'C', "startup", startup}, {'D', "auth", authSeq},
		{'C', "query", pgQuery("select 1")}, {'D', "resp", catArts("resp", pgCommandComplete("SELECT 1"), pgReady('I'))},
	}}
	cancel := script{name: "cancel", segs: []segArt{{'C', "cancelrequest", pgSpecialStartup(80877102, encInt(0x0000106200000063, 8, true))}, {'D', "nothing", art{kind: "empty"}}}}
	return []script{simple, extended("extended-text", 0, textRows), extended("extended-binary", 1, binRows), special, cancel}
}

type pgProxyRig struct {
	factory base.ProxyFactory
	w       *world
}

func newPgProxyRig() (*pgProxyRig, error) {
	w, err := mustWorld()
	if err != nil {
		return nil, err
	}
	setting, err := proxySettings(w, false, proxyCensorYAML)
	if err != nil {
		return nil, err
	}
	tokStore, err := storage.NewMemoryTokenStorage()
	if err != nil {
		return nil, err
	}
	tokenizer, err := pseudonymization.NewPseudoanonymizer(tokStore)
	if err != nil {
		return nil, err
	}
	f, err := postgresql.NewProxyFactory(setting, w.ks, tokenizer)
	if err != nil {
		return nil, err
	}
	return &pgProxyRig{f, w}, nil
}

func (rig *pgProxyRig) run(in []byte) error {
	segs := parseSession(in)
	s := newProxySession()
	proxy, err := rig.factory.New(rig.w.ids[0], s)
	if err != nil {
		return fmt.Errorf("harness: proxy factory: %w", err)
	}
	return runProxySession(proxy, s, segs, rig.w.ids[0])
}

func init() {
	logger := logrus.NewEntry(logrus.StandardLogger())
	clientMsgs := func(g *gen.Rand) []art {
		return []art{
			catArts("client-stream", pgStartup("user", "u", "database", "d"), pgQuery("select 1"), pgParse("s", "select $1", 23), pgBind("", "s", []uint16{0}, []pgParam{{v: []byte("1")}}, []uint16{0}),
				pgDescribe('P', ""), pgExecute("", 0), pgEmpty('S', "sync"), pgEmpty('X', "terminate")),
			catArts("client-stream-ssl", pgSpecialStartup(80877103, nil)),
			catArts("client-stream-cancel", pgSpecialStartup(80877102, encInt(1, 8, true))),
			catArts("client-stream-gss", pgSpecialStartup(80877104, nil)),
			catArts("client-stream-copy", pgStartup("user", "u"), pgMsg('d', nb("copydata").bytes(gen.Bytes(g, 40)).art()), pgEmpty('c', "copydone"), pgMsg('f', nb("copyfail").cstr("oops").art()),
				pgMsg('p', nb("password").cstr("md5abc").art()), pgMsg('F', nb("funcall").be32("oid", 1).be16("nfmt", 0).be16("nargs", 0).be16("rfmt", 0).art()), pgEmpty('H', "flush")),
		}
	}
	reg(&target{name: "pg.read-client-packets", group: "pg", seeds: clientMsgs, run: func(in []byte) error {
		ph, err := postgresql.NewClientSidePacketHandler(bytes.NewReader(in), bufio.NewWriter(io.Discard), logger)
		if err != nil {
			return err
		}
		var first error
		for i := 0; i < 64; i++ {
			ph.Reset()
			if err := ph.ReadClientPacket(); err != nil {
				if i == 0 {
					first = err
				}
				break
			}
			// the same accessors handleClientPacket uses, under the same guards
			switch {
			case ph.IsSimpleQuery():
				_, _ = ph.GetSimpleQuery()
			case ph.IsParse():
				if p, err := ph.GetParseData(); err == nil && p != nil {
					_ = p.QueryString()
					_ = p.Name()
					ph.ReplaceQuery("select 2")
				}
			case ph.IsBind():
				if b, err := ph.GetBindData(); err == nil {
					_, _ = b.GetParameters()
					_, _ = b.GetResultFormats()
					_ = ph.ReplaceBind(b)
				}
			case ph.IsExecute():
				_, _ = ph.GetExecuteData()
			}
			_, _ = ph.Marshal()
		}
		return first
	}})
	dbMsgs := func(g *gen.Rand) []art {
		return []art{
			catArts("db-stream", pgAuthOK(), pgParamStatus("a", "b"), pgReady('I'), pgRowDescription([]pgCol{{"a", 23, 0}, {"b", 17, 1}}), pgDataRow([]pgParam{{v: []byte("1")}, {v: []byte("xyz")}}),
				pgDataRow([]pgParam{{null: true}, {v: gen.Bytes(g, 200)}}), pgCommandComplete("SELECT 2"), pgParamDescription(23, 25), pgEmpty('n', "nodata"), pgErrorResponse(), pgReady('I')),
		}
	}
	reg(&target{name: "pg.read-db-packets", group: "pg", seeds: dbMsgs, run: func(in []byte) error {
		ph, err := postgresql.NewDbSidePacketHandler(bytes.NewReader(in), bufio.NewWriter(io.Discard), logger)
		if err != nil {
			return err
		}
		var first error
		for i := 0; i < 64; i++ {
			ph.Reset()
			if err := ph.ReadPacket(); err != nil {
				if i == 0 {
					first = err
				}
				break
			}
			switch {
			case ph.IsRowDescription():
				_, _ = ph.GetRowDescriptionData()
			case ph.IsParameterDescription():
				_, _ = ph.GetParameterDescriptionData()
			}
			_ = ph.IsDataRow() || ph.IsReadyForQuery() || ph.IsCommandComplete() || ph.IsErrorResponse() || ph.IsBindComplete() || ph.IsParseComplete() || ph.IsNoData() || ph.IsPortalSuspended() || ph.IsEmptyQueryResponse()
			_, _ = ph.Marshal()
		}
		return first
	}})
	reg(&target{name: "pg.parse-packet", group: "pg",
		seeds: func(g *gen.Rand) []art {
			mk := func(name, q string, oids ...uint32) art {
				b := nb("parse-body").cstr(name).cstr(q).be16("nparams", uint64(len(oids)))
				for i, o := range oids {
					b.be32(fmt.Sprintf("oid%d", i), uint64(o))
				}
				return b.art()
			}
			return []art{mk("s1", "select $1, $2", 23, 17), mk("", "select 1"), mk("x", "", 0, 0, 0), mk("stmt", "insert into t values ($1)", 25)}
		},
		run: func(in []byte) error {
			_, _ = postgresql.FetchQueryFromParse(in)
			p, err := postgresql.NewParsePacket(in)
			if err != nil {
				return err
			}
			_ = p.Name()
			_ = p.QueryString()
			_ = p.Length()
			_ = p.Marshal()
			p.ReplaceQuery("select 42")
			_ = p.Marshal()
			p.Zeroize()
			return nil
		}})
	reg(&target{name: "pg.bind-packet", group: "pg",
		seeds: func(g *gen.Rand) []art {
			return []art{
				pgBindBody("p", "s", []uint16{0, 1}, []pgParam{{v: []byte("1")}, {v: gen.Bytes(g, 20)}}, []uint16{1}),
				pgBindBody("", "", nil, nil, nil),
				pgBindBody("", "s", []uint16{1}, []pgParam{{null: true}, {v: []byte("abc")}, {v: []byte{}}}, []uint16{0, 1, 0}),
			}
		},
		run: func(in []byte) error {
			b, err := postgresql.NewBindPacket(in)
			if err != nil {
				return err
			}
			_ = b.PortalName()
			_ = b.StatementName()
			params, err := b.GetParameters()
			_, _ = b.GetResultFormats()
			if err == nil {
				for _, p := range params {
					_, _ = p.GetData(nil)
					_ = p.Copy()
				}
				b.SetParameters(params)
			}
			var buf bytes.Buffer
			_, _ = b.MarshalInto(&buf)
			b.Zeroize()
			return err
		}})
	reg(&target{name: "pg.execute-packet", group: "pg",
		seeds: func(g *gen.Rand) []art {
			return []art{nb("execute-body").cstr("portal").be32("maxrows", 0).art(), nb("execute-body").cstr("").be32("maxrows", 0xffffffff).art()}
		},
		run: func(in []byte) error {
			e, err := postgresql.NewExecutePacket(in)
			if err != nil {
				return err
			}
			_ = e.PortalName()
			return nil
		}})

	// type-aware column decoders / encoders of the PostgreSQL proxy
	type colCase struct {
		column string
		binary bool
	}
	colCases := []colCase{{"typed_i32", false}, {"typed_i32", true}, {"typed_str", false}, {"typed_str", true}, {"tok_i32", false}, {"tok_i32", true}, {"tok_i64", true}, {"tok_i64", false}, {"tok_str", true}, {"tok_bytes", false}, {"tok_bytes", true}, {"tok_email", false}, {"plain_ab", true}, {"plain_ab", false}, {"", false}, {"", true}}
	var pgDec *postgresql.PgSQLDataDecoderProcessor
	var pgEnc *postgresql.PgSQLDataEncoderProcessor
	var pgSchema *config.MapTableSchemaStore
	var pgTok *pseudonymization.TokenProcessor
	reg(&target{name: "pg.type-codecs", group: "codec",
		seeds: func(g *gen.Rand) []art {
			mk := func(c int, v []byte) art { return nb("case+value").u8("case", uint64(c)).bytes(v).art() }
			var out []art
			for c := range colCases {
				out = append(out, mk(c, []byte("123")), mk(c, encInt(123, 4, true)), mk(c, encInt(123, 8, true)), mk(c, []byte("text value")), mk(c, []byte("-2147483649")), mk(c, nil),
					mk(c, pgHex(gen.Bytes(g, 9))), mk(c, []byte(`\001\002\\abc`)), mk(c, gen.Bytes(g, 9)))
			}
			return out
		},
		setup: func() error {
			var err error
			if _, err = mustWorld(); err != nil {
				return err
			}
			pgDec, _ = postgresql.NewPgSQLDataDecoderProcessor()
			pgEnc, _ = postgresql.NewPgSQLDataEncoderProcessor()
			pgSchema, err = schemaStore(false)
			if err != nil {
				return err
			}
			tokStore, _ := storage.NewMemoryTokenStorage()
			an, err := pseudonymization.NewPseudoanonymizer(tokStore)
			if err != nil {
				return err
			}
			dt, err := pseudonymization.NewDataTokenizer(an)
			if err != nil {
				return err
			}
			pgTok, err = pseudonymization.NewTokenProcessor(dt)
			return err
		},
		run: func(in []byte) error {
			if len(in) < 1 {
				return errors.New("short")
			}
			cc := colCases[int(in[0])%len(colCases)]
			val := in[1:]
			w := getWorld()
			ac := base.NewAccessContext(base.WithClientID(w.ids[0]))
			ac.SetColumnInfo(base.NewColumnInfo(0, "", cc.binary, len(val), 0, 0))
			ctx := base.SetAccessContextToContext(context.Background(), ac)
			if cc.column != "" {
				ctx = encbase.NewContextWithEncryptionSetting(ctx, pgSchema.GetTableSchema("t").GetColumnEncryptionSettings(cc.column))
			}
			ctx1, out, err := pgDec.OnColumn(ctx, dup(val))
			if err != nil {
				return err
			}
			ctx2, out2, err := pgTok.OnColumn(ctx1, out)
			if err != nil {
				ctx2, out2 = ctx1, out
			}
			_, _, err = pgEnc.OnColumn(ctx2, out2)
			_, _, _ = pgEnc.OnColumn(ctx1, dup(val))
			return err
		}})

	var rigC, rigD *pgProxyRig
	cs, cg := sessionGen(pgScripts, 'C')
	reg(&target{name: "pg.proxy.client-stream", group: "pg", weight: 0.5, prepare: cs, gen: cg,
		setup: func() error {
			var err error
			if rigC, err = newPgProxyRig(); err != nil {
				return err
			}
			return selfTestSessions(pgScripts(gen.New(1, "selftest")), rigC.run)
		},
		run:   func(in []byte) error { return rigC.run(in) }})
	ds, dg := sessionGen(pgScripts, 'D')
	reg(&target{name: "pg.proxy.db-stream", group: "pg", weight: 0.5, prepare: ds, gen: dg,
		setup: func() error {
			var err error
			if rigD, err = newPgProxyRig(); err != nil {
				return err
			}
			return selfTestSessions(pgScripts(gen.New(1, "selftest")), rigD.run)
		},
		run:   func(in []byte) error { return rigD.run(in) }})
}
