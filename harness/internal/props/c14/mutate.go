package c14

import (
	"encoding/binary"
	"fmt"
	"math"
	"strings"

	"verif/harness/internal/gen"
)

// fld is one length / count / type / tag field inside a valid artefact.
type fld struct {
	name   string
	off, w int
	be     bool
	lenenc bool // MySQL length-encoded integer occupying w bytes at off
}

// art is a valid artefact (built with the real constructors or laid out by the documented wire format)
// together with the positions of its length/count/type fields.
type art struct {
	kind string
	b    []byte
	f    []fld
}

// bld builds an artefact and records the fields while doing so.
type bld struct{ a art }

func nb(kind string) *bld { return &bld{a: art{kind: kind}} }

func (b *bld) raw(p ...byte) *bld    { b.a.b = append(b.a.b, p...); return b }
func (b *bld) bytes(p []byte) *bld   { b.a.b = append(b.a.b, p...); return b }
func (b *bld) str(s string) *bld     { b.a.b = append(b.a.b, s...); return b }
func (b *bld) cstr(s string) *bld    { b.a.b = append(append(b.a.b, s...), 0); return b }
func (b *bld) len() int              { return len(b.a.b) }
func (b *bld) art() art              { return b.a }
func (b *bld) mark(f fld) *bld       { b.a.f = append(b.a.f, f); return b }
func (b *bld) u8(n string, v uint64) *bld {
	b.a.f = append(b.a.f, fld{name: n, off: len(b.a.b), w: 1})
	b.a.b = append(b.a.b, byte(v))
	return b
}
func (b *bld) num(n string, v uint64, w int, be bool) *bld {
	b.a.f = append(b.a.f, fld{name: n, off: len(b.a.b), w: w, be: be})
	b.a.b = append(b.a.b, encInt(v, w, be)...)
	return b
}
func (b *bld) be16(n string, v uint64) *bld { return b.num(n, v, 2, true) }
func (b *bld) be32(n string, v uint64) *bld { return b.num(n, v, 4, true) }
func (b *bld) le16(n string, v uint64) *bld { return b.num(n, v, 2, false) }
func (b *bld) le24(n string, v uint64) *bld { return b.num(n, v, 3, false) }
func (b *bld) le32(n string, v uint64) *bld { return b.num(n, v, 4, false) }
func (b *bld) le64(n string, v uint64) *bld { return b.num(n, v, 8, false) }

// lenenc appends a MySQL length-encoded integer and records it as a field.
func (b *bld) lenenc(n string, v uint64) *bld {
	e := putLenenc(v)
	b.a.f = append(b.a.f, fld{name: n, off: len(b.a.b), w: len(e), lenenc: true})
	b.a.b = append(b.a.b, e...)
	return b
}

// lestr appends a MySQL length-encoded string.
func (b *bld) lestr(n string, s []byte) *bld { b.lenenc(n, uint64(len(s))); return b.bytes(s) }

// embed appends another artefact, shifting its fields.
func (b *bld) embed(in art) *bld {
	base := len(b.a.b)
	for _, f := range in.f {
		f.off += base
		b.a.f = append(b.a.f, f)
	}
	b.a.b = append(b.a.b, in.b...)
	return b
}

func putLenenc(n uint64) []byte {
	switch {
	case n <= 250:
		return []byte{byte(n)}
	case n <= 0xffff:
		return []byte{0xfc, byte(n), byte(n >> 8)}
	case n <= 0xffffff:
		return []byte{0xfd, byte(n), byte(n >> 8), byte(n >> 16)}
	}
	return []byte{0xfe, byte(n), byte(n >> 8), byte(n >> 16), byte(n >> 24), byte(n >> 32), byte(n >> 40), byte(n >> 48), byte(n >> 56)}
}

func encInt(v uint64, w int, be bool) []byte {
	o := make([]byte, w)
	for i := 0; i < w; i++ {
		if be {
			o[w-1-i] = byte(v >> (8 * uint(i)))
		} else {
			o[i] = byte(v >> (8 * uint(i)))
		}
	}
	return o
}

func decInt(b []byte, be bool) uint64 {
	var v uint64
	w := len(b)
	for i := 0; i < w; i++ {
		if be {
			v |= uint64(b[w-1-i]) << (8 * uint(i))
		} else {
			v |= uint64(b[i]) << (8 * uint(i))
		}
	}
	return v
}

type bval struct {
	v uint64
	n string
}

// boundaryValues is the directed value set for a length/count/type field.
func boundaryValues(g *gen.Rand, cur uint64, rem int) []bval {
	return []bval{
		{0, "0"}, {1, "1"}, {2, "2"}, {3, "3"}, {4, "4"}, {5, "5"}, {8, "8"}, {cur - 1, "cur-1"}, {cur + 1, "cur+1"}, {0x7f, "0x7f"}, {0x80, "0x80"}, {0xff, "0xff"},
		{0xfb, "0xfb"}, {0xfc, "0xfc"}, {0xfd, "0xfd"}, {0xfe, "0xfe"}, {0x7fff, "0x7fff"}, {0x8000, "0x8000"}, {0xffff, "0xffff"},
		{0xffffff, "2^24-1"}, {math.MaxInt32, "2^31-1"}, {1 << 31, "2^31"}, {math.MaxUint32, "2^32-1"}, {math.MaxInt64, "2^63-1"}, {1 << 63, "2^63"}, {math.MaxUint64, "2^64-1"},
		{math.MaxUint64 - 3, "2^64-4"}, {uint64(rem), "rem"}, {uint64(rem + 1), "rem+1"}, {uint64(rem - 1), "rem-1"}, {uint64(rem + 4), "rem+4"}, {uint64(g.Intn(256)), "rnd8"}, {uint64(g.Intn(1 << 20)), "rnd20"},
	}
}

// setField overwrites (or, for lenenc, re-encodes) one field with a boundary value; returns the description.
func setField(g *gen.Rand, b []byte, f fld) ([]byte, string) {
	if f.off+f.w > len(b) {
		return b, "oob"
	}
	rem := len(b) - (f.off + f.w)
	if f.lenenc {
		cur, _ := lenencVal(b[f.off : f.off+f.w])
		vals := boundaryValues(g, cur, rem)
		pick := vals[g.Intn(len(vals))]
		var enc []byte
		form := g.Intn(8)
		switch form {
		case 0:
			enc = []byte{0xfb}
			pick.n = "NULL"
		case 1:
			enc = []byte{0xff}
			pick.n = "0xff-marker"
		case 2:
			enc = append([]byte{0xfc}, encInt(pick.v, 2, false)...)
			pick.n = "fc:" + pick.n
		case 3:
			enc = append([]byte{0xfd}, encInt(pick.v, 3, false)...)
			pick.n = "fd:" + pick.n
		case 4, 5:
			enc = append([]byte{0xfe}, encInt(pick.v, 8, false)...)
			pick.n = "fe:" + pick.n
		case 6:
			enc = []byte{byte(pick.v % 251)}
			pick.n = "1b:" + pick.n
		default:
			// truncated multi-byte form
			enc = [][]byte{{0xfc}, {0xfc, 1}, {0xfd, 1}, {0xfd, 1, 2}, {0xfe}, {0xfe, 1, 2, 3, 4, 5, 6, 7}}[g.Intn(6)]
			pick.n = "short-form"
			if g.Intn(2) == 0 {
				return append(append([]byte{}, b[:f.off]...), enc...), pick.n + "+cut"
			}
		}
		out := append(append(append([]byte{}, b[:f.off]...), enc...), b[f.off+f.w:]...)
		return out, pick.n
	}
	cur := decInt(b[f.off:f.off+f.w], f.be)
	vals := boundaryValues(g, cur, rem)
	bits := uint(8 * f.w)
	var cand []bval
	for _, v := range vals {
		if bits == 64 || v.v < (uint64(1)<<bits) {
			if v.v != cur {
				cand = append(cand, v)
			}
		}
	}
	// signed views: -1, -2 in this width
	if bits < 64 {
		cand = append(cand, bval{(uint64(1) << bits) - 1, "-1"}, bval{(uint64(1) << bits) - 2, "-2"}, bval{uint64(1) << (bits - 1), "min-signed"}, bval{(uint64(1) << (bits - 1)) - 1, "max-signed"})
	}
	pick := cand[g.Intn(len(cand))]
	out := append([]byte{}, b...)
	copy(out[f.off:], encInt(pick.v, f.w, f.be))
	return out, pick.n
}

func lenencVal(b []byte) (uint64, bool) {
	if len(b) == 0 {
		return 0, false
	}
	switch b[0] {
	case 0xfb:
		return 0, true
	case 0xfc:
		if len(b) >= 3 {
			return decInt(b[1:3], false), true
		}
	case 0xfd:
		if len(b) >= 4 {
			return decInt(b[1:4], false), true
		}
	case 0xfe:
		if len(b) >= 9 {
			return decInt(b[1:9], false), true
		}
	default:
		return uint64(b[0]), true
	}
	return 0, false
}

var randLens = []int{0, 1, 2, 3, 4, 5, 7, 8, 9, 11, 12, 13, 16, 17, 18, 19, 31, 32, 33, 44, 45, 46, 64, 100, 137, 144, 145, 146, 255, 256, 257, 1000, 4096}

// mutate derives one input from a valid artefact. class is the construction class (stable, low cardinality),
// detail says which boundary value / position was used.
func mutate(g *gen.Rand, a art) (out []byte, class, detail string) {
	p := g.Intn(100)
	nf := len(a.f)
	if nf == 0 && p >= 6 && p < 56 {
		p = 56 + g.Intn(44)
	}
	switch {
	case p < 6:
		return append([]byte{}, a.b...), "valid:" + a.kind, ""
	case p < 44:
		f := a.f[g.Intn(nf)]
		o, d := setField(g, a.b, f)
		return o, "field:" + a.kind + "." + f.name, d
	case p < 56:
		f1, f2 := a.f[g.Intn(nf)], a.f[g.Intn(nf)]
		if f1.off > f2.off {
			f1, f2 = f2, f1
		}
		// later field first so that a lenenc re-encoding of the earlier field does not shift it
		o, d2 := setField(g, a.b, f2)
		o, d1 := setField(g, o, f1)
		return o, "field2:" + a.kind, f1.name + "=" + d1 + "," + f2.name + "=" + d2
	case p < 66:
		// truncation, preferably right at / around a field
		cut := 0
		if len(a.b) > 0 {
			cut = g.Intn(len(a.b))
		}
		if nf > 0 && g.Intn(3) > 0 {
			f := a.f[g.Intn(nf)]
			cut = f.off + []int{0, 1, f.w - 1, f.w, f.w + 1}[g.Intn(5)]
		}
		if cut < 0 {
			cut = 0
		}
		if cut > len(a.b) {
			cut = len(a.b)
		}
		return append([]byte{}, a.b[:cut]...), "trunc:" + a.kind, fmt.Sprintf("cut=%d/%d", cut, len(a.b))
	case p < 74:
		o := append([]byte{}, a.b...)
		n := 1 + g.Intn(3)
		if len(o) == 0 {
			return o, "valid:" + a.kind, ""
		}
		var pos []string
		for i := 0; i < n; i++ {
			k := g.Intn(len(o) * 8)
			o[k/8] ^= 1 << uint(k%8)
			pos = append(pos, fmt.Sprint(k))
		}
		return o, "bitflip:" + a.kind, strings.Join(pos, ",")
	case p < 80:
		n := randLens[g.Intn(len(randLens))]
		o := gen.Bytes(g, n)
		// keep the artefact's first bytes half of the time so that tag checks are passed
		if g.Intn(2) == 0 {
			k := g.Intn(13)
			if k > len(a.b) {
				k = len(a.b)
			}
			copy(o, a.b[:k])
			return o, "random-with-head:" + a.kind, fmt.Sprintf("len=%d head=%d", n, k)
		}
		return o, "random", fmt.Sprintf("len=%d", n)
	case p < 86:
		extra := gen.Bytes(g, 1+g.Intn(40))
		if g.Intn(2) == 0 {
			return gen.Cat(a.b, extra), "extend:" + a.kind, fmt.Sprintf("+%d", len(extra))
		}
		return gen.Cat(a.b, a.b), "concat2:" + a.kind, ""
	case p < 94:
		// structure-blind length attack: write a boundary integer at a random offset
		o := append([]byte{}, a.b...)
		w := []int{1, 2, 3, 4, 8}[g.Intn(5)]
		if len(o) < w {
			return o, "valid:" + a.kind, ""
		}
		off := g.Intn(len(o) - w + 1)
		be := g.Intn(2) == 0
		o2, d := setField(g, o, fld{off: off, w: w, be: be})
		return o2, "blindint:" + a.kind, fmt.Sprintf("off=%d w=%d be=%v val=%s", off, w, be, d)
	case p < 97:
		o := append([]byte{}, a.b...)
		if len(o) == 0 {
			return o, "valid:" + a.kind, ""
		}
		s := g.Intn(len(o))
		e := s + 1 + g.Intn(len(o)-s)
		fill := []byte{0, 0xff, '"', '%', 0x7f}[g.Intn(5)]
		for i := s; i < e; i++ {
			o[i] = fill
		}
		return o, "fill:" + a.kind, fmt.Sprintf("[%d,%d)=%#x", s, e, fill)
	default:
		// remove or duplicate an inner segment
		o := append([]byte{}, a.b...)
		if len(o) < 2 {
			return o, "valid:" + a.kind, ""
		}
		s := g.Intn(len(o))
		e := s + 1 + g.Intn(len(o)-s)
		if g.Intn(2) == 0 {
			return gen.Cat(o[:s], o[e:]), "cutout:" + a.kind, fmt.Sprintf("[%d,%d)", s, e)
		}
		return gen.Cat(o[:e], o[s:e], o[e:]), "dupseg:" + a.kind, fmt.Sprintf("[%d,%d)", s, e)
	}
}

// le helpers for annotating artefacts produced by real constructors
func u64le(v uint64) []byte { x := make([]byte, 8); binary.LittleEndian.PutUint64(x, v); return x }
