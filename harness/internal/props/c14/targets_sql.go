package c14

import (
	"context"
	"errors"
	"strings"

	acracensor "github.com/cossacklabs/acra/acra-censor"
	censorCommon "github.com/cossacklabs/acra/acra-censor/common"
	"github.com/cossacklabs/acra/encryptor/base/config"
	encMysql "github.com/cossacklabs/acra/encryptor/mysql"
	encPg "github.com/cossacklabs/acra/encryptor/postgresql"
	"github.com/cossacklabs/acra/sqlparser"
	"github.com/cossacklabs/acra/sqlparser/dependency/querypb"
	"github.com/cossacklabs/acra/sqlparser/dialect"
	mysqlDialect "github.com/cossacklabs/acra/sqlparser/dialect/mysql"
	pgDialect "github.com/cossacklabs/acra/sqlparser/dialect/postgresql"

	"verif/harness/internal/gen"
)

var sqlCorpus = []string{
	"select 1",
	"select * from t",
	"select id, plain_ab, tok_i32 from t where id = 5 and search_ab = 'needle'",
	"SELECT a.id, b.name AS n FROM accounts a JOIN users b ON a.uid = b.id LEFT JOIN x USING (id) WHERE a.balance > 100.50 ORDER BY a.id DESC LIMIT 10 OFFSET 5",
	"select count(*), max(x), group_concat(distinct y order by z separator ',') from t group by a having count(*) > 1",
	"select * from t where a in (1,2,3) and b not in (select id from u where u.x = t.x) or c between 1 and 10",
	"select case when a = 1 then 'one' when a = 2 then 'two' else 'many' end from t",
	"select * from t1 union select * from t2 union all select * from t3 order by 1",
	"select * from (select id from t where x like '%abc%' escape '\\\\') as sub where exists (select 1 from dual)",
	"select /* comment */ a, -- line comment\n b from t # hash comment\n where c = 1",
	"select /*!50000 SQL_NO_CACHE */ * from t",
	"/* leading comment */ /* second */ select a from t /* trailing comment */",
	"select 0x414243, x'4142', b'0101', 1e10, .5, -3, +4, ~5, !a, 'str''quoted', \"dq\", `bq` from `db`.`t`",
	"select * from t where a = ? and b = :name and c = :v1 and d in ::list",
	"select $1, $2::text, E'esc\\n', 'x' || 'y' from t where id = $3",
	"select \"col\", \"t\".\"c2\" from \"schema\".\"t\" where \"c\" = 'v'",
	"insert into t (id, plain_ab, tok_i32) values (1, 'abc', 77), (2, X'deadbeef', NULL) on duplicate key update plain_ab = values(plain_ab)",
	"insert into t values (1, 'a', 2) returning id, plain_ab",
	"insert into t (a, b) select x, y from u where z is not null",
	"insert ignore into t set a = 1, b = 'two'",
	"replace into t (a) values (default)",
	"update t set plain_ab = 'new', tok_i32 = tok_i32 + 1 where id = 7 order by id limit 1",
	"update t as a join u as b on a.id = b.id set a.x = b.y where b.z = 1",
	"delete from t where id in (1, 2, 3) and search_ab = 'needle' limit 5",
	"delete a from t a, u b where a.id = b.id",
	"prepare stmt1 from 'select * from t where id = ?'",
	"set @a = 1, @b = 'str'",
	"execute stmt1 using @a, @b",
	"deallocate prepare stmt1",
	"set names utf8mb4",
	"set session transaction isolation level read committed",
	"begin", "commit", "rollback", "start transaction",
	"show tables", "show create table t", "describe t", "explain select * from t", "use db",
	"create table t (id int primary key auto_increment, name varchar(255) not null default 'x', data blob, key idx (name)) engine=innodb",
	"alter table t add column c int", "drop table if exists t", "truncate table t", "create index i on t (a, b)",
	"select a from t where match(a, b) against ('text' in boolean mode)",
	"select convert(a using utf8), convert(b, char(10)), cast(c as signed), substr(d, 1, 3), substring(e from 2 for 3) from t",
	"select interval 1 day + now(), date_add(d, interval 3 month) from t",
	"select a collate utf8_bin, b is true, c is not null, d <=> e, f regexp 'x', g div 2, h % 3, i << 2, j -> '$.k', l ->> '$.m' from t",
	"select * from t force index (idx) straight_join u on t.a = u.a natural join v",
	"select * from t partition (p0) for update",
	"select next value from seq",
	"select * from t where (a, b) = (1, 2) and (c, d) in ((1, 2), (3, 4))",
	"select `sel``ect`, 'multi\nline', _utf8'abc', _binary 'x' from t",
	"",
	";",
}

var sqlVocab = []string{"select", "from", "where", "insert", "into", "values", "update", "set", "delete", "join", "on", "and", "or", "not", "in", "(", ")", ",", "*", "=", "<", ">", "<=>", "!=", "union", "all",
	"order", "by", "group", "having", "limit", "offset", "as", "null", "is", "like", "between", "case", "when", "then", "else", "end", "exists", "'", "\"", "`", "--", "/*", "*/", "#", ";", "?", ":a", "::b", "$1", "@v", "@@g",
	"0x", "x'", "b'", "E'", "1e999", "18446744073709551616", "-9223372036854775809", ".", "..", "t", "id", "plain_ab", "interval", "prepare", "execute", "using", "returning", "default", "on duplicate key update",
	"%%VALUE%%", "%%COLUMN%%", "%%WHERE%%", "%%LIST_OF_VALUES%%", "%%SUBQUERY%%", "%%SELECT%%", "%%INSERT%%", "%%UPDATE%%", "%%DELETE%%", "%%UNION%%", "%%BEGIN%%", "%%COMMIT%%", "%%ROLLBACK%%",
	"/*!", "/*!99999", "straight_join", "natural", "force index", "collate", "cast", "convert", "using", "match", "against", "||", "&&", "->", "->>", "<<", ">>", "~", "!", "^", "|", "&", "div", "mod", "%"}

var sqlBombs = []func(g *gen.Rand, n int) string{
	func(g *gen.Rand, n int) string { return "select " + strings.Repeat("(", n) + "1" + strings.Repeat(")", n) },
	func(g *gen.Rand, n int) string { return "select " + strings.Repeat("(", n) + "1" },
	func(g *gen.Rand, n int) string {
		return "select * from t where a = 1" + strings.Repeat(" and a = 1", n)
	},
	func(g *gen.Rand, n int) string {
		return "select * from t where a in (" + strings.Repeat("1,", n) + "1)"
	},
	func(g *gen.Rand, n int) string {
		s := "select 1"
		for i := 0; i < n && i < 2000; i++ {
			s = "select * from (" + s + ") as s"
		}
		return s
	},
	func(g *gen.Rand, n int) string { return "select 1" + strings.Repeat(" union select 1", n) },
	func(g *gen.Rand, n int) string { return "select " + strings.Repeat("not ", n) + "1" },
	func(g *gen.Rand, n int) string { return "select " + strings.Repeat("-", n) + "1" },
	func(g *gen.Rand, n int) string { return "select " + strings.Repeat("case when 1 then ", n) + "1" + strings.Repeat(" end", n) },
	func(g *gen.Rand, n int) string { return "insert into t values " + strings.Repeat("(1,'a'),", n) + "(1,'a')" },
	func(g *gen.Rand, n int) string { return "select '" + strings.Repeat("\\'", n) },
	func(g *gen.Rand, n int) string { return "select /*" + strings.Repeat("/*", n) },
	func(g *gen.Rand, n int) string { return "select 1" + strings.Repeat(";", n) },
	func(g *gen.Rand, n int) string { return strings.Repeat("/*!", n) + " select 1" },
	func(g *gen.Rand, n int) string { return "select a" + strings.Repeat(".a", n) + " from t" },
	func(g *gen.Rand, n int) string { return "select * from t" + strings.Repeat(" join t", n) },
	func(g *gen.Rand, n int) string { return "select f(" + strings.Repeat("f(", n) + "1" + strings.Repeat(")", n) + ")" },
}

var sqlMut = &textMutator{corpus: sqlCorpus, vocab: sqlVocab, bombs: sqlBombs}

func sqlGen(g *gen.Rand, _ interface{}, i int) ([]byte, string, string) {
	if i == 0 {
		return []byte(sqlCorpus[2]), "valid", ""
	}
	s, c, d := sqlMut.gen(g)
	return []byte(s), c, d
}

const censorYAML = `
version: 0.85.0
ignore_parse_error: false
handlers:
  - handler: query_ignore
    queries:
      - ROLLBACK
      - COMMIT
  - handler: deny
    queries:
      - INSERT INTO SalesStaff1 VALUES (1, 'Stephen', 'Jiang')
      - SELECT AVG(Price) FROM Products
    tables:
      - forbidden_table
      - EmployeeTab
    patterns:
      - SELECT * FROM secrets %%WHERE%%
      - "%%UPDATE%%"
      - SELECT %%COLUMN%%, %%COLUMN%% FROM company %%WHERE%%
      - SELECT a FROM t WHERE ID = %%VALUE%% AND b IN (%%LIST_OF_VALUES%%)
      - SELECT * FROM t WHERE x IN (%%SUBQUERY%%)
      - DELETE FROM logs WHERE id = %%VALUE%%
      - INSERT INTO audit (a, b) VALUES (%%VALUE%%, %%VALUE%%)
      - "%%UNION%%"
  - handler: allow
    queries:
      - select 1
    tables:
      - t
      - u
    patterns:
      - "%%SELECT%%"
      - "%%INSERT%%"
      - "%%DELETE%%"
  - handler: denyall
`

var yamlVocab = []string{"version:", "handlers:", "- handler:", "allow", "deny", "denyall", "allowall", "query_ignore", "queries:", "tables:", "patterns:", "- ", ":", "  ", "\n", "|", ">", "&a", "*a", "<<:", "!!binary", "!!map", "!!str",
	"[", "]", "{", "}", "\"", "'", "#", "---", "...", "? ", "~", "null", "true", "0.85.0", "0.84.0", "99.99.99", "1.2", "ignore_parse_error:", "schemas:", "- table:", "columns:", "encrypted:", "- column:", "crypto_envelope:", "acrablock", "acrastruct",
	"token_type:", "int32", "str", "email", "masking:", "plaintext_length:", "plaintext_side:", "left", "right", "searchable:", "data_type:", "data_type_db_identifier:", "default_data_value:", "response_on_fail:", "default_value", "ciphertext", "error",
	"defaults:", "reencrypting_to_acrablocks:", "client_id:", "consistent_tokenization:", "tokenized:", "-1", "4294967296", "9223372036854775808", "1e400", "0x7fffffff", "database_settings:", "mysql:", "postgresql:", "case_sensitive_table_identifiers:"}

var yamlBombs = []func(g *gen.Rand, n int) string{
	func(g *gen.Rand, n int) string { return "version: 0.85.0\nhandlers: " + strings.Repeat("[", n) + strings.Repeat("]", n) },
	func(g *gen.Rand, n int) string { return "schemas: " + strings.Repeat("{a: ", n) + "1" + strings.Repeat("}", n) },
	func(g *gen.Rand, n int) string {
		// alias expansion
		var sb strings.Builder
		sb.WriteString("a0: &a0 [x,x,x,x,x,x,x,x,x]\n")
		k := n
		if k > 12 {
			k = 12
		}
		for i := 1; i <= k; i++ {
			sb.WriteString("a" + string(rune('0'+i%10)) + "x" + string(rune('a'+i)) + ": &b" + string(rune('a'+i)) + " [")
			prev := "*a0"
			if i > 1 {
				prev = "*b" + string(rune('a'+i-1))
			}
			sb.WriteString(strings.Repeat(prev+",", 8) + prev + "]\n")
		}
		sb.WriteString("version: 0.85.0\nhandlers: []\n")
		return sb.String()
	},
	func(g *gen.Rand, n int) string {
		return "version: 0.85.0\nhandlers:\n  - handler: deny\n    queries:\n" + strings.Repeat("      - select 1\n", n)
	},
	func(g *gen.Rand, n int) string {
		return "schemas:\n  - table: t\n    columns: [a]\n    encrypted:\n" + strings.Repeat("      - column: a\n", n)
	},
	func(g *gen.Rand, n int) string { return "version: " + strings.Repeat("9", n) + "." + strings.Repeat("1", n) + ".0" },
}

var logBombs = []func(g *gen.Rand, n int) string{
	func(g *gen.Rand, n int) string { return strings.Repeat("integrity=", n) },
	func(g *gen.Rand, n int) string { return `{"a":` + strings.Repeat("[", n) + strings.Repeat("]", n) + `}` },
	func(g *gen.Rand, n int) string { return "CEF:0" + strings.Repeat("|", n) },
	func(g *gen.Rand, n int) string { return "time=\"x\" " + strings.Repeat("k=v ", n) + "integrity=00" },
}

func init() {
	myD := mysqlDialect.NewMySQLDialect()
	myANSI := mysqlDialect.NewMySQLDialect(mysqlDialect.SetANSIMode(true))
	pgD := pgDialect.NewPostgreSQLDialect()
	tokenize := func(d dialect.Dialect) func(in []byte) error {
		return func(in []byte) error {
			tkn := sqlparser.NewStringTokenizerWithDialect(d, string(in))
			for i := 0; i < len(in)+8; i++ {
				typ, _ := tkn.Scan()
				if typ == 0 {
					break
				}
			}
			if tkn.LastError != nil {
				return tkn.LastError
			}
			return nil
		}
	}
	reg(&target{name: "sql.tokenizer.mysql", group: "sql", gen: sqlGen, run: tokenize(myD), allocPerByte: 8000})
	reg(&target{name: "sql.tokenizer.postgresql", group: "sql", gen: sqlGen, run: tokenize(pgD), allocPerByte: 8000})
	parse := func(d dialect.Dialect) func(in []byte) error {
		return func(in []byte) error {
			stmt, err := sqlparser.ParseWithDialect(d, string(in))
			if err != nil {
				return err
			}
			_ = sqlparser.String(stmt)
			_ = sqlparser.StringWithDialect(d, stmt)
			_ = sqlparser.GetBindvars(stmt)
			bv := map[string]*querypb.BindVariable{}
			sqlparser.Normalize(stmt, bv, "bv")
			_ = sqlparser.StringWithDialect(d, stmt)
			return nil
		}
	}
	reg(&target{name: "sql.parse.mysql", group: "sql", gen: sqlGen, allocPerByte: 8000, calls: 2, run: parse(myD)})
	reg(&target{name: "sql.parse.mysql-ansi", group: "sql", gen: sqlGen, allocPerByte: 8000, calls: 2, run: parse(myANSI)})
	reg(&target{name: "sql.parse.postgresql", group: "sql", gen: sqlGen, allocPerByte: 8000, calls: 2, run: parse(pgD)})
	handleRaw := func(d dialect.Dialect) (func() error, func(in []byte) error) {
		strict := sqlparser.New(sqlparser.ModeStrict)
		lax := sqlparser.New(sqlparser.ModeDefault)
		return func() error { sqlparser.SetDefaultDialect(d); return nil }, func(in []byte) error {
			_, _, _, err := strict.HandleRawSQLQuery(string(in))
			_, _, _, _ = lax.HandleRawSQLQuery(string(in))
			_, _ = sqlparser.RedactSQLQuery(string(in))
			return err
		}
	}
	s1, r1 := handleRaw(myD)
	reg(&target{name: "sql.handle-raw-query.mysql", group: "sql", gen: sqlGen, allocPerByte: 8000, calls: 3, setup: s1, run: r1})
	s2, r2 := handleRaw(pgD)
	reg(&target{name: "sql.handle-raw-query.postgresql", group: "sql", gen: sqlGen, allocPerByte: 8000, calls: 3, setup: s2, run: r2})
	reg(&target{name: "sql.misc", group: "sql", gen: sqlGen, allocPerByte: 8000, calls: 4, run: func(in []byte) error {
		s := string(in)
		_, _ = sqlparser.SplitStatementToPieces(s)
		_, _, _ = sqlparser.SplitStatement(s)
		_ = sqlparser.Preview(s)
		_ = sqlparser.IsDML(s)
		_, _, _ = sqlparser.ExtractSetValues(s)
		_ = sqlparser.StripLeadingComments(s)
		_, _ = sqlparser.SplitMarginComments(s)
		tkn := sqlparser.NewStringTokenizer(s)
		var err error
		for i := 0; i < 32; i++ {
			if _, err = sqlparser.ParseNext(tkn); err != nil {
				break
			}
		}
		_, err = sqlparser.ParseStrictDDL(s)
		return err
	}})

	// firewall
	var censor *acracensor.AcraCensor
	reg(&target{name: "censor.handle-query", group: "sql", gen: sqlGen, allocPerByte: 8000,
		setup: func() error {
			censor = acracensor.NewAcraCensor()
			return censor.LoadConfiguration([]byte(censorYAML))
		},
		run: func(in []byte) error { return censor.HandleQuery(string(in)) }})
	var fixedQueries []sqlparser.Statement
	strictParser := sqlparser.New(sqlparser.ModeStrict)
	reg(&target{name: "censor.patterns", group: "sql", allocPerByte: 8000, calls: 2,
		gen: func(g *gen.Rand, _ interface{}, i int) ([]byte, string, string) {
			if i == 0 {
				return []byte("SELECT a FROM t WHERE ID = %%VALUE%% AND b IN (%%LIST_OF_VALUES%%)"), "valid", ""
			}
			s, c, d := sqlMut.gen(g)
			if g.Intn(2) == 0 {
				// sprinkle placeholders over the text
				toks := splitTokens(s)
				ph := []string{"%%VALUE%%", "%%COLUMN%%", "%%WHERE%%", "%%LIST_OF_VALUES%%", "%%SUBQUERY%%", "%%SELECT%%", "%%UNION%%", "%%INSERT%%", "%%UPDATE%%", "%%DELETE%%"}
				for k := 0; k < 1+g.Intn(3) && len(toks) > 0; k++ {
					toks[g.Intn(len(toks))] = ph[g.Intn(len(ph))]
				}
				return []byte(strings.Join(toks, "")), c + "+placeholders", d
			}
			return []byte(s), c, d
		},
		setup: func() error {
			for _, q := range sqlCorpus {
				if st, err := strictParser.Parse(q); err == nil {
					fixedQueries = append(fixedQueries, st)
				}
			}
			return nil
		},
		run: func(in []byte) error {
			pats, err := censorCommon.ParsePatterns([]string{string(in)}, strictParser)
			if err != nil {
				return err
			}
			for _, q := range fixedQueries {
				_ = censorCommon.CheckPatternsMatching(pats, q)
			}
			// and the input as a query against itself as a pattern
			if st, err := strictParser.Parse(string(in)); err == nil {
				_ = censorCommon.CheckPatternsMatching(pats, st)
				_, _ = censorCommon.CheckTableNamesMatch(st, map[string]bool{"t": true})
			}
			return nil
		}})
	censorCfgMut := &textMutator{corpus: []string{censorYAML, proxyCensorYAML, "version: 0.85.0\nhandlers:\n  - handler: allowall\n", "version: 0.85.0\nignore_parse_error: true\nhandlers:\n  - handler: deny\n    tables: [a, b]\n    patterns:\n      - \"%%SELECT%%\"\n"},
		vocab: yamlVocab, bombs: yamlBombs}
	reg(&target{name: "censor.load-configuration", group: "config", allocPerByte: 8000,
		gen: func(g *gen.Rand, _ interface{}, i int) ([]byte, string, string) {
			if i == 0 {
				return []byte(censorYAML), "valid", ""
			}
			s, c, d := censorCfgMut.gen(g)
			// configurations naming log files would create files and background writers; not part of the decoder
			s = strings.ReplaceAll(strings.ReplaceAll(s, "parse_errors_log", "parse_errors_lg"), "query_capture", "query_captur")
			return []byte(s), c, d
		},
		run: func(in []byte) error {
			c := acracensor.NewAcraCensor()
			err := c.LoadConfiguration(in)
			if err == nil {
				_ = c.HandleQuery("select * from t where a = 1")
				_ = c.HandleQuery("update t set a = 1")
			}
			c.ReleaseAll()
			return err
		}})
	encCfgMut := &textMutator{corpus: []string{SchemaYAML,
		"defaults:\n  crypto_envelope: acrablock\n  reencrypting_to_acrablocks: true\ndatabase_settings:\n  mysql:\n    case_sensitive_table_identifiers: true\nschemas:\n  - table: Tab\n    columns: [a, b]\n    encrypted:\n      - column: a\n        client_id: client_two\n      - column: b\n        data_type_db_identifier: 23\n        response_on_fail: error\n",
		"schemas:\n  - table: x\n    columns:\n      - c1\n    encrypted:\n      - column: c1\n        token_type: email\n        consistent_tokenization: true\n        data_type: str\n",
		"schemas: []\n"}, vocab: yamlVocab, bombs: yamlBombs}
	reg(&target{name: "encryptor.config", group: "config",
		gen: func(g *gen.Rand, _ interface{}, i int) ([]byte, string, string) {
			if i == 0 {
				return []byte(SchemaYAML), "valid", ""
			}
			s, c, d := encCfgMut.gen(g)
			return []byte(s), c, d
		},
		run: func(in []byte) error {
			st, err := config.MapTableSchemaStoreFromConfig(in, false)
			st2, err2 := config.MapTableSchemaStoreFromConfig(in, true)
			for _, s := range []*config.MapTableSchemaStore{st, st2} {
				if s == nil {
					continue
				}
				_ = s.GetGlobalSettingsMask()
				_ = s.GetDatabaseSettings()
				if ts := s.GetTableSchema("t"); ts != nil {
					for _, c := range ts.Columns() {
						if cs := ts.GetColumnEncryptionSettings(c); cs != nil {
							_ = cs.GetDBDataTypeID()
							_ = cs.GetMaskingPattern()
							_ = cs.ClientID()
						}
					}
				}
			}
			if err != nil {
				return err
			}
			return err2
		}})

	// query rewriting observers of both proxies on hostile SQL text
	var myQE *encMysql.QueryDataEncryptor
	var pgQE *encPg.QueryDataEncryptor
	reg(&target{name: "sql.query-encryptor.mysql", group: "sql", gen: sqlGen, allocPerByte: 8000,
		setup: func() error {
			w, err := mustWorld()
			if err != nil {
				return err
			}
			schema, err := schemaStore(true)
			if err != nil {
				return err
			}
			myQE, err = encMysql.NewQueryEncryptor(schema, sqlparser.New(sqlparser.ModeDefault), w.env.WriteChain())
			return err
		},
		run: func(in []byte) error {
			w := getWorld()
			q := encMysql.NewOnQueryObjectFromQuery(string(in), sqlparser.New(sqlparser.ModeDefault))
			_, _, err := myQE.OnQuery(w.sessionCtx(w.ids[0]), q)
			return err
		}})
	reg(&target{name: "sql.query-encryptor.postgresql", group: "sql", gen: sqlGen, allocPerByte: 8000,
		setup: func() error {
			w, err := mustWorld()
			if err != nil {
				return err
			}
			schema, err := schemaStore(false)
			if err != nil {
				return err
			}
			pgQE, err = encPg.NewQueryEncryptor(schema, w.env.WriteChain())
			return err
		},
		run: func(in []byte) error {
			w := getWorld()
			q := encPg.NewOnQueryObjectFromQuery(string(in))
			if q == nil {
				return errors.New("nil query object")
			}
			_, _, err := pgQE.OnQuery(w.sessionCtx(w.ids[0]), q)
			return err
		}})
	_ = context.Background
}
