package c14

import (
	"context"
	"errors"

	"github.com/cossacklabs/acra/acrablock"
	"github.com/cossacklabs/acra/acrastruct"
	"github.com/cossacklabs/acra/crypto"
	"github.com/cossacklabs/acra/hmac"
	"github.com/cossacklabs/acra/poison"
	"github.com/cossacklabs/themis/gothemis/keys"

	"verif/harness/internal/gen"
	"verif/harness/internal/rig/envrig"
)

// annotate lays the documented field positions over envelopes produced by the real constructors.

func abFields(prefix string, off int) []fld {
	return []fld{
		{name: prefix + "tag", off: off, w: 4}, {name: prefix + "rest_len", off: off + 4, w: 8}, {name: prefix + "kek_type", off: off + 12, w: 1},
		{name: prefix + "kek_id", off: off + 13, w: 2}, {name: prefix + "data_enc_type", off: off + 15, w: 1}, {name: prefix + "key_len", off: off + 16, w: 2},
		// inside the encrypted key (Secure Cell header: alg, iv_len, tag_len, msg_len)
		{name: prefix + "key_cell_ivlen", off: off + 22, w: 4}, {name: prefix + "key_cell_taglen", off: off + 26, w: 4}, {name: prefix + "key_cell_msglen", off: off + 30, w: 4},
	}
}

func asFields(prefix string, off int) []fld {
	return []fld{
		{name: prefix + "tag", off: off, w: 8}, {name: prefix + "pubkey_tag", off: off + 8, w: 4, be: true}, {name: prefix + "pubkey_size", off: off + 12, w: 4, be: true}, {name: prefix + "pubkey_crc", off: off + 16, w: 4, be: true},
		{name: prefix + "wrapped_hdr0", off: off + 53, w: 4}, {name: prefix + "wrapped_hdr1", off: off + 57, w: 4}, {name: prefix + "data_len", off: off + 137, w: 8},
		{name: prefix + "cell_ivlen", off: off + 149, w: 4}, {name: prefix + "cell_taglen", off: off + 153, w: 4}, {name: prefix + "cell_msglen", off: off + 157, w: 4},
	}
}

func containerFields(off int) []fld {
	return []fld{{name: "c.tag", off: off, w: 3}, {name: "c.total_len", off: off + 3, w: 8}, {name: "c.envelope_id", off: off + 11, w: 1}}
}

func clip(a art) art {
	var f []fld
	for _, x := range a.f {
		if x.off >= 0 && x.off+x.w <= len(a.b) {
			f = append(f, x)
		}
	}
	a.f = f
	return a
}

func rawAB(w *world, id []byte, pt []byte) []byte {
	key, err := w.ks.GetClientIDSymmetricKey(id)
	if err != nil {
		panic(err)
	}
	b, err := acrablock.CreateAcraBlock(pt, key, nil)
	if err != nil {
		panic(err)
	}
	return b
}

func rawAS(w *world, id []byte, pt []byte) []byte {
	pub, err := w.ks.GetClientIDEncryptionPublicKey(id)
	if err != nil {
		panic(err)
	}
	b, err := acrastruct.CreateAcrastruct(pt, pub, nil)
	if err != nil {
		panic(err)
	}
	return b
}

func wrapC(inner []byte, id byte, innerFields func(string, int) []fld) art {
	c, err := crypto.SerializeEncryptedData(inner, id)
	if err != nil {
		panic(err)
	}
	return clip(art{kind: "container", b: c, f: append(containerFields(0), innerFields("c.", 12)...)})
}

// envelopeSeeds: raw AcraBlock / AcraStruct, serialized containers of both, hash-prefixed ones, poison records,
// several envelopes in one value, envelopes of another client.
func envelopeSeeds(g *gen.Rand) []art {
	w := getWorld()
	var out []art
	for _, n := range []int{0, 1, 16, 300} {
		pt := gen.Bytes(g, n)
		if n == 0 {
			pt = []byte("x")
		}
		ab := rawAB(w, w.ids[0], pt)
		as := rawAS(w, w.ids[0], pt)
		out = append(out,
			clip(art{kind: "acrablock", b: ab, f: abFields("ab.", 0)}),
			clip(art{kind: "acrastruct", b: as, f: asFields("as.", 0)}),
			func() art { a := wrapC(ab, crypto.AcraBlockEnvelopeID, abFields); a.kind = "container-ab"; return a }(),
			func() art { a := wrapC(as, crypto.AcraStructEnvelopeID, asFields); a.kind = "container-as"; return a }(),
		)
	}
	ab2 := rawAB(w, w.ids[1], []byte("other client"))
	out = append(out, clip(art{kind: "acrablock-other-client", b: ab2, f: abFields("ab.", 0)}))
	// search hash + envelope
	h := hmac.GenerateHMAC([]byte("0123456789abcdef0123456789abcdef"), []byte("needle"))
	sab := w.protect("search_ab", []byte("needle"))
	out = append(out, clip(art{kind: "hash+container", b: sab, f: append([]fld{{name: "hash.func", off: 0, w: 1}}, append(containerFields(len(h)), abFields("c.", len(h)+12)...)...)}))
	sas := w.protect("search_as", []byte("needle"))
	out = append(out, clip(art{kind: "hash+container-as", b: sas, f: append([]fld{{name: "hash.func", off: 0, w: 1}}, append(containerFields(len(h)), asFields("c.", len(h)+12)...)...)}))
	// poison records
	if p, err := poison.CreatePoisonRecord(w.ks, 60); err == nil {
		out = append(out, clip(art{kind: "poison-as", b: p, f: append(containerFields(0), asFields("c.", 12)...)}))
	}
	if p, err := poison.CreateSymmetricPoisonRecord(w.ks, 60); err == nil {
		out = append(out, clip(art{kind: "poison-ab", b: p, f: append(containerFields(0), abFields("c.", 12)...)}))
	}
	// two envelopes with text around
	two := gen.Cat([]byte("prefix "), out[2].b, []byte(" middle "), out[3].b, []byte(" suffix"))
	out = append(out, clip(art{kind: "two-containers", b: two, f: append(containerFields(7), containerFields(7+len(out[2].b)+8)...)}))
	two2 := gen.Cat([]byte(`""""`), out[0].b, out[1].b, []byte(`"""""""`))
	out = append(out, clip(art{kind: "two-raw-envelopes", b: two2, f: append(abFields("ab.", 4), asFields("as.", 4+len(out[0].b))...)}))
	// masked values
	out = append(out, art{kind: "masked-ab", b: w.protect("mask_ab_r", []byte("4111111111111111"))}, art{kind: "masked-as", b: w.protect("mask_as_l", []byte("4111111111111111"))})
	// look-alikes from the shared generator
	for _, c := range []string{"ab-header-consistent", "ab-header-inconsistent", "c-header-consistent", "c-header-inconsistent", "as-header-consistent", "quotes", "percents"} {
		out = append(out, art{kind: "lookalike-" + c, b: gen.Content(g, c, 200)})
	}
	return out
}

type abProc struct{ w *world }

func (p abProc) OnAcraBlock(ctx context.Context, b acrablock.AcraBlock) ([]byte, error) {
	ks, err := p.w.ks.GetClientIDSymmetricKeys(p.w.ids[0])
	if err != nil {
		return nil, err
	}
	out, err := b.Decrypt(ks, nil)
	if err != nil {
		return b, nil
	}
	return out, nil
}

type asProc struct{ w *world }

func (p asProc) OnAcraStruct(ctx context.Context, s []byte) ([]byte, error) {
	ks, err := p.w.ks.GetServerDecryptionPrivateKeys(p.w.ids[0])
	if err != nil {
		return nil, err
	}
	out, err := acrastruct.DecryptRotatedAcrastruct(s, ks, nil)
	if err != nil {
		return s, nil
	}
	return out, nil
}

var pipelineColumns = []string{"", "plain_as", "plain_ab", "search_as", "search_ab", "mask_as_l", "mask_ab_r"}

func colValueSeeds(g *gen.Rand) []art {
	var out []art
	for _, e := range envelopeSeeds(g) {
		for c := range pipelineColumns {
			if g.Intn(3) != 0 && c != 0 {
				continue
			}
			out = append(out, nb(e.kind).u8("column", uint64(c)).embed(e).art())
		}
	}
	return out
}

func init() {
	worldSetup := func() error { _, err := mustWorld(); return err }
	reg(&target{name: "env.acrablock.extract-decrypt", group: "envelope", seeds: envelopeSeeds, setup: worldSetup, run: func(in []byte) error {
		w := getWorld()
		ks, _ := w.ks.GetClientIDSymmetricKeys(w.ids[0])
		n, blk, err := acrablock.ExtractAcraBlockFromData(in)
		if err == nil {
			_ = n
			_, _ = blk.Decrypt(ks, nil)
			_ = blk.EncryptedDataEncryptionKeyLength()
		}
		if b2, err2 := acrablock.NewAcraBlockFromData(in); err2 == nil {
			_, _ = b2.Decrypt(ks, []byte("ctx"))
		}
		return err
	}})
	reg(&target{name: "env.acrablock.process", group: "envelope", seeds: envelopeSeeds, setup: worldSetup, run: func(in []byte) error {
		_, err := acrablock.ProcessAcraBlocks(context.Background(), in, make([]byte, len(in)), abProc{getWorld()})
		return err
	}})
	reg(&target{name: "env.acrastruct.validate-extract", group: "envelope", seeds: envelopeSeeds, run: func(in []byte) error {
		err := acrastruct.ValidateAcraStructLength(in)
		_, _, _ = acrastruct.ExtractAcraStruct(in)
		return err
	}})
	reg(&target{name: "env.acrastruct.decrypt", group: "envelope", seeds: envelopeSeeds, setup: worldSetup, run: func(in []byte) error {
		w := getWorld()
		ks, _ := w.ks.GetServerDecryptionPrivateKeys(w.ids[0])
		var k *keys.PrivateKey
		if len(ks) > 0 {
			k = ks[0]
		}
		_, err := acrastruct.DecryptAcrastruct(in, k, nil)
		_, _ = acrastruct.DecryptRotatedAcrastruct(in, ks, []byte("ctx"))
		return err
	}})
	reg(&target{name: "env.acrastruct.process", group: "envelope", seeds: envelopeSeeds, setup: worldSetup, run: func(in []byte) error {
		_, err := acrastruct.ProcessAcraStructs(context.Background(), in, make([]byte, len(in)), asProc{getWorld()})
		return err
	}})
	reg(&target{name: "env.container.deserialize", group: "envelope", seeds: envelopeSeeds, setup: worldSetup, run: func(in []byte) error {
		w := getWorld()
		_, _, err := crypto.DeserializeEncryptedData(in)
		_, _, _ = crypto.ExtractSerializedContainer(in)
		_ = w.env.Registry.MatchDataSignature(in)
		_ = crypto.NewEnvelopeMatcher().Match(in)
		return err
	}})
	reg(&target{name: "env.registry.process", group: "envelope", seeds: envelopeSeeds, setup: worldSetup, run: func(in []byte) error {
		w := getWorld()
		_, err := w.env.Registry.Process(dup(in), w.env.ProcCtx(w.ids[0]))
		for _, name := range []string{"acrastruct", "acrablock"} {
			if h, e := crypto.GetHandlerByName(name); e == nil {
				_, _ = w.env.Registry.DecryptWithHandler(h, dup(in), w.env.ProcCtx(w.ids[0]))
				_ = h.MatchDataSignature(in)
			}
		}
		return err
	}})
	var pipes [2]*envrig.ReadPipeline
	reg(&target{name: "env.pipeline.on-column", group: "envelope", seeds: colValueSeeds,
		setup: func() error {
			w, err := mustWorld()
			if err != nil {
				return err
			}
			// the subscriber chain of the proxies: hmac -> OldContainerDetectorWrapper(EnvelopeDetector[poison, decrypt/masking]) -> hmac
			pipes[0] = w.env.NewReadPipeline(false)
			pipes[1] = w.env.NewReadPipeline(true)
			return nil
		},
		run: func(in []byte) error {
			if len(in) < 1 {
				return errors.New("short")
			}
			w := getWorld()
			col := pipelineColumns[int(in[0])%len(pipelineColumns)]
			p := pipes[0]
			if col == "mask_as_l" || col == "mask_ab_r" || in[0]&0x80 != 0 {
				p = pipes[1]
			}
			var err error
			if col == "" {
				_, _, err = p.OnColumn(w.ids[0], nil, in[1:])
			} else {
				_, _, err = p.OnColumn(w.ids[0], w.env.Setting(col), in[1:])
			}
			return err
		}})
	var det *crypto.EnvelopeDetector
	var oldDet *crypto.OldContainerDetectorWrapper
	reg(&target{name: "env.detector.on-column", group: "envelope", seeds: envelopeSeeds,
		setup: func() error {
			w, err := mustWorld()
			if err != nil {
				return err
			}
			mk := func() *crypto.EnvelopeDetector {
				d := crypto.NewEnvelopeDetector()
				pd := crypto.NewPoisonRecordsRecognizer(w.ks, w.env.Registry)
				pd.SetPoisonRecordCallbacks(w.env.Poison)
				d.AddCallback(pd)
				d.AddCallback(crypto.NewDecryptHandler(w.ks, w.env.Registry))
				return d
			}
			det = mk()
			oldDet = crypto.NewOldContainerDetectorWrapper(mk())
			return nil
		},
		run: func(in []byte) error {
			w := getWorld()
			_, _, err := det.OnColumn(w.ctxFor(w.ids[0]), dup(in))
			_, _, err2 := oldDet.OnColumn(w.ctxFor(w.ids[0]), dup(in))
			_, _ = det.OnCryptoEnvelope(w.ctxFor(w.ids[0]), dup(in))
			if err != nil {
				return err
			}
			return err2
		}})
	reg(&target{name: "env.hmac.extract", group: "envelope", seeds: envelopeSeeds, setup: worldSetup, run: func(in []byte) error {
		w := getWorld()
		h := hmac.ExtractHash(in)
		if h != nil {
			_ = h.IsEqual(in, w.ids[0], w.ks)
			_ = h.Length()
		}
		h2, rest := hmac.ExtractHashAndData(in)
		if h2 != nil {
			_ = h2.IsEqual(rest, w.ids[0], w.ks)
			return nil
		}
		return errors.New("no hash")
	}})
	var pd crypto.PoisonRecordDetector
	reg(&target{name: "env.poison.on-envelope", group: "envelope", seeds: envelopeSeeds,
		setup: func() error {
			w, err := mustWorld()
			if err != nil {
				return err
			}
			pd = crypto.NewPoisonRecordsRecognizer(w.ks, w.env.Registry)
			pd.SetPoisonRecordCallbacks(w.env.Poison)
			return nil
		},
		run: func(in []byte) error {
			w := getWorld()
			_, err := pd.OnCryptoEnvelope(w.ctxFor(w.ids[0]), in)
			return err
		}})
	// write path: hostile plaintexts (including envelope look-alikes) through the encryptor chain of every column kind
	reg(&target{name: "env.write-chain", group: "envelope", seeds: colValueSeeds, setup: worldSetup, weight: 0.5, run: func(in []byte) error {
		if len(in) < 1 {
			return errors.New("short")
		}
		w := getWorld()
		col := pipelineColumns[int(in[0])%len(pipelineColumns)]
		if col == "" {
			col = "plain_ab"
		}
		_, err := w.env.WriteChain().EncryptWithClientID(w.ids[0], dup(in[1:]), w.env.Setting(col))
		return err
	}})
}
