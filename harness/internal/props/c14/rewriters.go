package c14

// Query rewriters (added after C13 observed panics there that no C14 target reached).
//
// The real rewriters of both proxies - hmac/decryptor/{mysql,postgresql}.HashQuery and
// encryptor/{mysql,postgresql}.QueryDataEncryptor, registered in the order of the proxy factories, over a column
// configuration with searchable / encrypted / plain columns - are driven by the statement workload of the C13 monitor
// (props/c13.RunRewriters: harvested parser-test statements, grammar-generated statements over the configured tables,
// search templates). C13 judges what is forwarded; a panic forwards nothing and is recovered there without a verdict.
// Here every such panic is a verdict: in AcraServer it unwinds into recoverConnection, which drops the client's
// connection ("can crash a connection handler"). The workload runs in-process on a throw-away ev run (never finished):
// its C13 verdicts are not C14's business, only the panics (c13.PanicObserver) and the execution counters are used.

import (
	"fmt"
	"os"
	"sort"
	"strings"
	"sync"

	"verif/harness/internal/ev"
	"verif/harness/internal/props/c13"
)

// rewriterKinds: job kinds of the C13 workload that go through the real OnQuery path of a proxy.
var rewriterKinds = map[string]string{"subst": "mysql", "pgsubst": "postgresql"}

type rewriterPanic struct {
	kind, site, text, stmt string
}

// rewriterLayer runs the rewriter workload and reports `panic target=sql.rewriter.<dialect> fn=<innermost Acra function> class=<panic class>`.
func rewriterLayer(r *ev.Run, sel string) {
	if sel != "" {
		ok := false
		for _, p := range strings.Split(sel, ",") {
			if p != "" && (strings.HasPrefix("sql.rewriter.mysql", p) || strings.HasPrefix("sql.rewriter.postgresql", p)) {
				ok = true
			}
		}
		if !ok {
			return
		}
	}
	nMySQL := intEnv("VERIF_C14_REWRITER_N", r.Pick(3500, 30000))
	nPG := intEnv("VERIF_C14_REWRITER_N", r.Pick(4000, 30000))

	var mu sync.Mutex
	var seen []rewriterPanic
	c13.PanicObserver = func(kind, site, panicText, statement string) {
		mu.Lock()
		seen = append(seen, rewriterPanic{kind, site, panicText, statement})
		mu.Unlock()
	}
	defer func() { c13.PanicObserver = nil }()

	scan := ev.New("C13scan", "exploration") // throw-away: never finished, nothing of it is written
	scan.Seed, scan.Tier = r.Seed, r.Tier
	if err := c13.RunRewriters(scan, nMySQL, nPG); err != nil {
		r.Violation("infrastructure: rewriter workload could not be built", err.Error())
		return
	}
	c13.PanicObserver = nil

	// deterministic report order whatever the worker interleaving was
	mu.Lock()
	sort.SliceStable(seen, func(i, j int) bool {
		a, b := seen[i], seen[j]
		if a.kind != b.kind {
			return a.kind < b.kind
		}
		if a.site != b.site {
			return a.site < b.site
		}
		if len(a.stmt) != len(b.stmt) {
			return len(a.stmt) < len(b.stmt) // shortest witness first: it becomes the replay detail
		}
		return a.stmt < b.stmt
	})
	mu.Unlock()
	var panics int64
	for _, p := range seen {
		dialect, ok := rewriterKinds[p.kind]
		if !ok {
			continue // RunRewriters creates no other kinds
		}
		panics++
		tname := "sql.rewriter." + dialect
		class := panicClass(p.text)
		r.Distinct(tname + "|panic:" + p.site + ":" + class)
		det := map[string]interface{}{"target": tname, "seed": r.Seed, "tier": r.Tier, "panic": p.text, "statement": p.stmt, "statement_hex": ev.FullHex(capBytes([]byte(p.stmt), 1<<16)),
			"driven": "OnQuery of HashQuery + QueryDataEncryptor (" + dialect + ") registered on an ArrayQueryObservableManager as the proxy factory does; column configuration of props/c13 (users.email, orders.token, t.a searchable)",
			"replay": "VERIF_SEED=" + fmt.Sprint(r.Seed) + " VERIF_C14_TARGETS=sql.rewriter ./check C14 " + r.Tier}
		if p.site == "unknown" || strings.HasPrefix(p.site, "unknown") {
			r.Violation("infrastructure: panic without an Acra frame target="+tname+" class="+class, det)
			continue
		}
		r.Violation(fmt.Sprintf("panic target=%s fn=%s class=%s", tname, p.site, class), det)
		r.SampleN("s:sql:rewriter-panic:"+p.site, 1, map[string]interface{}{"target": tname, "outcome": "panic:" + p.site + ":" + class, "statement": p.stmt})
	}

	// counters: statements for which the rewriter chain was entered and came back (with or without a rewrite), per dialect
	for dialect, pfx := range map[string]string{"mysql": "mysql", "postgresql": "pg"} {
		back := scan.Counter(pfx+"_onquery_error_statement_not_rewritten") + scan.Counter(pfx+"_onquery_left_statement_unchanged") + scan.Counter(pfx+"_rewrite_judged")
		tname := "sql.rewriter." + dialect
		r.Count("rewriter_onquery_returned:"+dialect, back)
		r.Count("rewriter_statements_rewritten:"+dialect, scan.Counter(pfx+"_rewrite_judged"))
		r.Count("rewriter_search_rewrites:"+dialect, scan.Counter(pfx+"_search_rewrites"))
		r.Count("rewriter_onquery_error:"+dialect, scan.Counter(pfx+"_onquery_error_statement_not_rewritten"))
		r.Count("ok", back-scan.Counter(pfx+"_onquery_error_statement_not_rewritten"))
		r.Count("error", scan.Counter(pfx+"_onquery_error_statement_not_rewritten"))
		r.Count("inputs:sql", back)
		r.Cases(int(back))
		r.SetAdd("targets", tname)
		r.Distinct(tname + "|ok|rewritten")
		r.Distinct(tname + "|ok|unchanged")
		if scan.Counter(pfx+"_onquery_error_statement_not_rewritten") > 0 {
			r.Distinct(tname + "|err|onquery-error")
		}
	}
	r.Count("panic", panics)
	r.Count("rewriter_panics", panics)
	r.Cases(int(panics))
	// non-vacuity: the chain must have been run over thousands of statements and must actually have rewritten many of them
	r.RequireAtLeast("rewriter_onquery_returned:mysql", int64(nMySQL)*6/10)
	r.RequireAtLeast("rewriter_onquery_returned:postgresql", int64(nPG)*6/10)
	r.RequireAtLeast("rewriter_statements_rewritten:mysql", int64(nMySQL)/8)
	r.RequireAtLeast("rewriter_statements_rewritten:postgresql", int64(nPG)/8)
	r.RequireAtLeast("rewriter_search_rewrites:mysql", int64(nMySQL)/20)
	r.RequireAtLeast("rewriter_search_rewrites:postgresql", int64(nPG)/80)
	if os.Getenv("VERIF_C14_VERBOSE") != "" {
		fmt.Fprintf(os.Stderr, "c14: sql.rewriter mysql back=%d pg back=%d panics=%d\n", r.Counter("rewriter_onquery_returned:mysql"), r.Counter("rewriter_onquery_returned:postgresql"), panics)
	}
}
