package c14

// Query rewriters (added after C13 observed panics there that no C14 target reached).
//
// The real rewriters of both proxies - hmac/decryptor/{mysql,postgresql}.HashQuery and
// encryptor/{mysql,postgresql}.QueryDataEncryptor, registered in the order of the proxy factories, over a column
// configuration with searchable / encrypted / plain columns - are driven by the statement workload of the C13 monitor
// (props/c13.RunRewriters: harvested parser-test statements, grammar-generated statements over the configured tables,
// search templates) plus statements DERIVED here from that workload by structural and token edits (deriveStatements).
// C13 judges what is forwarded; a panic forwards nothing and is recovered there without a verdict.
// Here every such panic is a verdict: in AcraServer it unwinds into recoverConnection, which drops the client's
// connection ("can crash a connection handler"). The workload runs in-process on a throw-away ev run (never finished):
// its C13 verdicts are not C14's business, only the panics (c13.PanicObserver) and the execution counters are used.
// No crash isolation and no allocation / CPU accounting here (the child-process targets sql.query-encryptor.* and
// sql.parse.* have those); nesting bombs are therefore not part of the derived statements.

import (
	"fmt"
	"os"
	"sort"
	"strings"
	"sync"
	"time"

	"verif/harness/internal/ev"
	"verif/harness/internal/gen"
	"verif/harness/internal/props/c13"
)

// rewriterKinds: job kinds of the C13 workload that go through the real OnQuery path of a proxy.
var rewriterKinds = map[string]string{"subst": "mysql", "pgsubst": "postgresql"}

type rewriterPanic struct {
	kind, site, text, stmt string
}

// rewriterVocab: words spliced in by token edits, on top of the tokens of the workload's own statements.
var rewriterVocab = []string{"(", ")", ",", "*", "=", "<>", "!=", "<=>", "and", "or", "not", "in", "is", "null", "like", "as", "on", "using", "join", "from", "where", "select", "returning",
	"default", "values", "set", "union", "exists", "any", "all", ".", "?", "$1", "''", "0", "substr", "substring", "convert", "users", "orders", "t", "logs", "email", "token", "a", "id", "s", "u"}

// deriveOne edits one statement. Classes (stable names, part of the evidence, never of a signature):
// empty-group (content of one parenthesised group removed: f(), IN (), VALUES (), ( ) sub-select), drop-element (one element
// of a comma separated list removed), group-swap (one parenthesised group replaced by another group of the same or of
// another statement), token-edit (1-3 token deletions / duplications / replacements / insertions / swaps), trunc (cut at a token
// boundary), concat (two statements joined by ; or UNION).
func deriveOne(g *gen.Rand, corpus []string) (string, string) {
	base := corpus[g.Intn(len(corpus))]
	toks := splitTokens(base)
	if len(toks) == 0 {
		return base, "valid"
	}
	// parenthesised groups at token level (quotes are not interpreted: a parenthesis inside a literal yields a
	// statement that merely parses differently or not at all)
	type grp struct{ open, close int }
	groups := func(tk []string) []grp {
		var out []grp
		var stack []int
		for i, t := range tk {
			switch t {
			case "(":
				stack = append(stack, i)
			case ")":
				if len(stack) > 0 {
					out = append(out, grp{stack[len(stack)-1], i})
					stack = stack[:len(stack)-1]
				}
			}
		}
		return out
	}
	join := func(parts ...[]string) string {
		var sb strings.Builder
		for _, p := range parts {
			for _, t := range p {
				sb.WriteString(t)
			}
		}
		return sb.String()
	}
	tokenEdit := func() (string, string) {
		n := 1 + g.Intn(3)
		word := func() string {
			if g.Intn(3) == 0 {
				o := splitTokens(corpus[g.Intn(len(corpus))])
				if len(o) > 0 {
					return o[g.Intn(len(o))]
				}
			}
			return rewriterVocab[g.Intn(len(rewriterVocab))]
		}
		for k := 0; k < n && len(toks) > 0; k++ {
			i := g.Intn(len(toks))
			switch g.Intn(5) {
			case 0:
				toks = append(toks[:i:i], toks[i+1:]...)
			case 1:
				toks = append(toks[:i+1:i+1], append([]string{" ", toks[i]}, toks[i+1:]...)...)
			case 2:
				toks[i] = word()
			case 3:
				toks = append(toks[:i:i], append([]string{" " + word() + " "}, toks[i:]...)...)
			default:
				j := g.Intn(len(toks))
				toks[i], toks[j] = toks[j], toks[i]
			}
		}
		return join(toks), "token-edit"
	}
	p := g.Intn(100)
	switch {
	case p < 28:
		gs := groups(toks)
		if len(gs) == 0 {
			break
		}
		x := gs[g.Intn(len(gs))]
		return join(toks[:x.open+1], toks[x.close:]), "empty-group"
	case p < 42:
		// remove one element of a comma separated list: from a comma to the next comma / closing parenthesis of the same depth
		var commas []int
		for i, t := range toks {
			if t == "," {
				commas = append(commas, i)
			}
		}
		if len(commas) == 0 {
			break
		}
		i := commas[g.Intn(len(commas))]
		depth, j := 0, i+1
		for ; j < len(toks); j++ {
			if toks[j] == "(" {
				depth++
			}
			if toks[j] == ")" {
				if depth == 0 {
					break
				}
				depth--
			}
			if toks[j] == "," && depth == 0 {
				break
			}
		}
		if g.Intn(2) == 0 {
			return join(toks[:i], toks[j:]), "drop-element" // the element after the comma goes
		}
		return join(toks[:i+1], toks[j:]), "drop-element-keep-comma"
	case p < 54:
		gs := groups(toks)
		if len(gs) == 0 {
			break
		}
		otoks := toks
		if g.Intn(2) == 0 {
			otoks = splitTokens(corpus[g.Intn(len(corpus))])
		}
		ogs := groups(otoks)
		if len(ogs) == 0 {
			break
		}
		x, y := gs[g.Intn(len(gs))], ogs[g.Intn(len(ogs))]
		return join(toks[:x.open], otoks[y.open:y.close+1], toks[x.close+1:]), "group-swap"
	case p < 90:
		return tokenEdit()
	case p < 95:
		return join(toks[:g.Intn(len(toks))]), "trunc"
	default:
		sep := []string{"; ", " union ", " union all "}[g.Intn(3)]
		return base + sep + corpus[g.Intn(len(corpus))], "concat"
	}
	return tokenEdit() // the structural edit drawn does not apply to this statement (no group / no list)
}

// rewriterLayer runs the rewriter workload and reports `panic target=sql.rewriter.<dialect> fn=<innermost Acra function> class=<panic class>`.
func rewriterLayer(r *ev.Run, sel string) {
	if sel != "" {
		ok := false
		for _, p := range strings.Split(sel, ",") {
			if p != "" && (strings.HasPrefix("sql.rewriter.mysql", p) || strings.HasPrefix("sql.rewriter.postgresql", p)) {
				ok = true
			}
		}
		if !ok {
			return
		}
	}
	nGen := map[string]int{"mysql": intEnv("VERIF_C14_REWRITER_N", r.Pick(3500, 60000)), "postgresql": intEnv("VERIF_C14_REWRITER_N", r.Pick(4000, 60000))}

	var mu sync.Mutex
	var seen []rewriterPanic
	c13.PanicObserver = func(kind, site, panicText, statement string) {
		mu.Lock()
		seen = append(seen, rewriterPanic{kind, site, panicText, statement})
		mu.Unlock()
	}
	defer func() { c13.PanicObserver = nil }()

	// derived statements: as many as generated ones, a pure function of (seed, tier, dialect) and the generated corpus
	derivedClass := map[string]string{} // dialect + "\x00" + statement -> construction class (evidence only)
	derive := func(dialect string, corpus []string) []string {
		var short []string
		for _, s := range corpus {
			if len(s) <= 1500 {
				short = append(short, s)
			}
		}
		if len(short) == 0 {
			return nil
		}
		g := gen.New(r.Seed, fmt.Sprintf("c14/%s/sql.rewriter.%s/derive", r.Tier, dialect))
		out := make([]string, 0, nGen[dialect])
		for i := 0; i < nGen[dialect]; i++ {
			s, class := deriveOne(g, short)
			derivedClass[dialect+"\x00"+s] = class
			r.Count("rewriter_derived_statements:"+class, 1)
			out = append(out, s)
		}
		return out
	}

	t0 := time.Now()
	defer func() { r.Extra("rewriter_layer_wall_s", time.Since(t0).Seconds()) }() // information only
	scan := ev.New("C13scan", "exploration")                                      // throw-away: never finished, nothing of it is written
	scan.Seed, scan.Tier = r.Seed, r.Tier
	if err := c13.RunRewriters(scan, nGen["mysql"], nGen["postgresql"], derive); err != nil {
		r.Violation("infrastructure: rewriter workload could not be built", err.Error())
		return
	}
	c13.PanicObserver = nil

	// deterministic report order whatever the worker interleaving was
	mu.Lock()
	sort.SliceStable(seen, func(i, j int) bool {
		a, b := seen[i], seen[j]
		if a.kind != b.kind {
			return a.kind < b.kind
		}
		if a.site != b.site {
			return a.site < b.site
		}
		if len(a.stmt) != len(b.stmt) {
			return len(a.stmt) < len(b.stmt) // shortest witness first: it becomes the replay detail
		}
		return a.stmt < b.stmt
	})
	mu.Unlock()
	var panics int64
	for _, p := range seen {
		dialect, ok := rewriterKinds[p.kind]
		if !ok {
			continue // RunRewriters creates no other kinds
		}
		panics++
		tname := "sql.rewriter." + dialect
		class := panicClass(p.text)
		construction := "workload-of-C13"
		if c, ok := derivedClass[dialect+"\x00"+p.stmt]; ok {
			construction = "derived:" + c
		}
		r.Distinct(tname + "|panic:" + p.site + ":" + class + "|" + construction)
		det := map[string]interface{}{"target": tname, "seed": r.Seed, "tier": r.Tier, "panic": p.text, "statement": p.stmt, "statement_hex": ev.FullHex(capBytes([]byte(p.stmt), 1<<16)),
			"construction_class": construction,
			"driven":             "OnQuery of HashQuery + QueryDataEncryptor (" + dialect + ") registered on an ArrayQueryObservableManager as the proxy factory does; column configuration of props/c13 (users.email, orders.token, t.a searchable)",
			"replay":             "VERIF_SEED=" + fmt.Sprint(r.Seed) + " VERIF_C14_TARGETS=sql.rewriter ./check C14 " + r.Tier}
		if strings.HasPrefix(p.site, "unknown") {
			r.Violation("infrastructure: panic without an Acra frame target="+tname+" class="+class, det)
			continue
		}
		r.Violation(fmt.Sprintf("panic target=%s fn=%s class=%s", tname, p.site, class), det)
		r.SampleN("s:sql:rewriter-panic:"+p.site, 1, map[string]interface{}{"target": tname, "outcome": "panic:" + p.site + ":" + class, "construction_class": construction, "statement": p.stmt})
	}

	// counters: statements for which the rewriter chain was entered and came back (with or without a rewrite), per dialect
	for _, dialect := range []string{"mysql", "postgresql"} {
		pfx := map[string]string{"mysql": "mysql", "postgresql": "pg"}[dialect]
		errs := scan.Counter(pfx + "_onquery_error_statement_not_rewritten")
		back := errs + scan.Counter(pfx+"_onquery_left_statement_unchanged") + scan.Counter(pfx+"_rewrite_judged")
		tname := "sql.rewriter." + dialect
		r.Count("rewriter_onquery_returned:"+dialect, back)
		r.Count("rewriter_statements_rewritten:"+dialect, scan.Counter(pfx+"_rewrite_judged"))
		r.Count("rewriter_search_rewrites:"+dialect, scan.Counter(pfx+"_search_rewrites"))
		r.Count("rewriter_onquery_error:"+dialect, errs)
		r.Count("ok", back-errs)
		r.Count("error", errs)
		r.Count("inputs:sql", back)
		r.Cases(int(back))
		r.SetAdd("targets", tname)
		r.Distinct(tname + "|ok|rewritten")
		r.Distinct(tname + "|ok|unchanged")
		if errs > 0 {
			r.Distinct(tname + "|err|onquery-error")
		}
	}
	r.Count("rewriter_statements_rejected_by_a_parser", scan.Counter("rejected_by_parser:subst")+scan.Counter("pg_query_rejected_statement"))
	r.Count("panic", panics)
	r.Count("rewriter_panics", panics)
	r.Cases(int(panics))
	// non-vacuity: the chain must have been run over thousands of statements and must actually have rewritten many of them
	r.RequireAtLeast("rewriter_onquery_returned:mysql", int64(nGen["mysql"])*6/10)
	r.RequireAtLeast("rewriter_onquery_returned:postgresql", int64(nGen["postgresql"])*6/10)
	r.RequireAtLeast("rewriter_statements_rewritten:mysql", int64(nGen["mysql"])/8)
	r.RequireAtLeast("rewriter_statements_rewritten:postgresql", int64(nGen["postgresql"])/8)
	r.RequireAtLeast("rewriter_search_rewrites:mysql", int64(nGen["mysql"])/20)
	r.RequireAtLeast("rewriter_search_rewrites:postgresql", int64(nGen["postgresql"])/80)
	if os.Getenv("VERIF_C14_VERBOSE") != "" {
		fmt.Fprintf(os.Stderr, "c14: sql.rewriter mysql back=%d pg back=%d panics=%d\n", r.Counter("rewriter_onquery_returned:mysql"), r.Counter("rewriter_onquery_returned:postgresql"), panics)
	}
}
