//go:build race

package c14

const raceEnabled = true
