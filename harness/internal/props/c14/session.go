package c14

import (
	"context"
	"errors"
	"io"
	"net"
	"os"
	"sync"
	"time"

	acracensor "github.com/cossacklabs/acra/acra-censor"
	"github.com/cossacklabs/acra/decryptor/base"
	"github.com/cossacklabs/acra/logging"
	"github.com/cossacklabs/acra/sqlparser"
	"github.com/sirupsen/logrus"
)

// scriptConn is a net.Conn whose inbound bytes are fed segment by segment by a controller; writes are discarded.
// The reader signals when it is about to block with nothing buffered, which makes a two-goroutine proxy session
// run as a deterministic sequence.
type scriptConn struct {
	mu       sync.Mutex
	cond     *sync.Cond
	buf      []byte
	eof      bool
	deadline time.Time
	waiting  bool
	idle     chan struct{}
	respawn  int // number of times a past read deadline was set (the proxy restarts its client loop then)
	wrote    int64
}

func newScriptConn() *scriptConn {
	c := &scriptConn{idle: make(chan struct{}, 1)}
	c.cond = sync.NewCond(&c.mu)
	return c
}

type timeoutErr struct{}

func (timeoutErr) Error() string   { return "i/o timeout" }
func (timeoutErr) Timeout() bool   { return true }
func (timeoutErr) Temporary() bool { return true }
func (timeoutErr) Unwrap() error   { return os.ErrDeadlineExceeded }

func (c *scriptConn) Read(p []byte) (int, error) {
	c.mu.Lock()
	defer c.mu.Unlock()
	for {
		if !c.deadline.IsZero() && !c.deadline.After(time.Now()) {
			return 0, timeoutErr{}
		}
		if len(c.buf) > 0 {
			n := copy(p, c.buf)
			c.buf = c.buf[n:]
			return n, nil
		}
		if c.eof {
			return 0, io.EOF
		}
		c.waiting = true
		select {
		case c.idle <- struct{}{}:
		default:
		}
		c.cond.Wait()
		c.waiting = false
	}
}

func (c *scriptConn) feed(b []byte) {
	c.mu.Lock()
	// drop a stale idle token so that the next one means "consumed this segment"
	select {
	case <-c.idle:
	default:
	}
	c.buf = append(c.buf, b...)
	c.cond.Broadcast()
	c.mu.Unlock()
}

func (c *scriptConn) finish() {
	c.mu.Lock()
	c.eof = true
	c.cond.Broadcast()
	c.mu.Unlock()
}

func (c *scriptConn) Write(p []byte) (int, error) {
	c.mu.Lock()
	defer c.mu.Unlock()
	if c.eof {
		return 0, io.ErrClosedPipe
	}
	c.wrote += int64(len(p))
	return len(p), nil
}
func (c *scriptConn) Close() error { c.finish(); return nil }
func (c *scriptConn) LocalAddr() net.Addr  { return &net.TCPAddr{IP: net.IPv4(127, 0, 0, 1), Port: 1} }
func (c *scriptConn) RemoteAddr() net.Addr { return &net.TCPAddr{IP: net.IPv4(127, 0, 0, 1), Port: 2} }
func (c *scriptConn) SetDeadline(t time.Time) error {
	return c.SetReadDeadline(t)
}
func (c *scriptConn) SetReadDeadline(t time.Time) error {
	c.mu.Lock()
	c.deadline = t
	if !t.IsZero() && !t.After(time.Now()) {
		c.respawn++
	}
	c.cond.Broadcast()
	c.mu.Unlock()
	return nil
}
func (c *scriptConn) SetWriteDeadline(t time.Time) error { return nil }
func (c *scriptConn) respawns() int {
	c.mu.Lock()
	defer c.mu.Unlock()
	return c.respawn
}

// hasWaiter reports whether some goroutine is blocked in Read right now.
func (c *scriptConn) hasWaiter() bool {
	c.mu.Lock()
	defer c.mu.Unlock()
	return c.waiting
}

// proxySession implements base.ClientSession over two script connections.
type proxySession struct {
	ctx    context.Context
	client *scriptConn
	db     *scriptConn
	state  interface{}
	mu     sync.Mutex
	data   map[string]interface{}
}

func newProxySession() *proxySession {
	s := &proxySession{client: newScriptConn(), db: newScriptConn(), data: map[string]interface{}{}}
	logger := logrus.NewEntry(logrus.StandardLogger())
	ctx := logging.SetLoggerToContext(context.Background(), logger)
	ctx = base.SetClientSessionToContext(ctx, s)
	s.ctx = ctx
	return s
}

func (s *proxySession) Context() context.Context        { return s.ctx }
func (s *proxySession) ClientConnection() net.Conn       { return s.client }
func (s *proxySession) DatabaseConnection() net.Conn     { return s.db }
func (s *proxySession) ProtocolState() interface{}       { return s.state }
func (s *proxySession) SetProtocolState(st interface{})  { s.state = st }
func (s *proxySession) GetData(k string) (interface{}, bool) {
	s.mu.Lock()
	defer s.mu.Unlock()
	v, ok := s.data[k]
	return v, ok
}
func (s *proxySession) SetData(k string, v interface{}) { s.mu.Lock(); s.data[k] = v; s.mu.Unlock() }
func (s *proxySession) DeleteData(k string)             { s.mu.Lock(); delete(s.data, k); s.mu.Unlock() }
func (s *proxySession) HasData(k string) bool {
	s.mu.Lock()
	defer s.mu.Unlock()
	_, ok := s.data[k]
	return ok
}

// seg is one scripted chunk: side 'C' = bytes the client sends to the proxy, 'D' = bytes the database sends.
type seg struct {
	side byte
	data []byte
}

// panicErr carries a panic recovered in a proxy goroutine to the measuring goroutine.
type panicErr struct{ info *panicInfo }

func (p *panicErr) Error() string { return "panic: " + p.info.Msg }

var errSessionStuck = errors.New("harness: proxy session did not settle")

// runProxySession drives proxy.ProxyClientConnection and ProxyDatabaseConnection, each exactly once in its own
// goroutine (as handleClientSession does), feeding the scripted segments strictly one after another.
func runProxySession(proxy base.Proxy, s *proxySession, segs []seg, clientID []byte) error {
	ac := base.NewAccessContext(base.WithClientID(clientID))
	proxy.AddClientIDObserver(ac)
	ctx := base.SetAccessContextToContext(s.ctx, ac)
	errCh := make(chan base.ProxyError, 64)
	type exit struct {
		side byte
		pan  *panicInfo
	}
	done := make(chan exit, 4)
	launch := func(side byte, f func(context.Context, chan<- base.ProxyError)) {
		go func() {
			var pi *panicInfo
			defer func() { done <- exit{side, pi} }()
			defer func() {
				if p := recover(); p != nil {
					pi = describePanic(p)
				}
			}()
			f(ctx, errCh)
		}()
	}
	launch('C', proxy.ProxyClientConnection)
	launch('D', proxy.ProxyDatabaseConnection)
	alive := map[byte]bool{'C': true, 'D': true}
	var firstPanic *panicInfo
	var errs []base.ProxyError
	respawnDead := false
	conn := map[byte]*scriptConn{'C': s.client, 'D': s.db}
	stuck := false
	const clientSide = "Client-AcraServer"
	// readerGone: nobody will read side x any more. The PostgreSQL proxy restarts its client loop itself after an
	// SSL-deny answer; such a reader is recognised by being blocked in Read after the original loop has ended.
	readerGone := func(x byte) bool {
		if alive[x] {
			return false
		}
		if x == 'C' && s.client.hasWaiter() && !respawnDead {
			return false
		}
		return true
	}
	note := func(e exit) {
		alive[e.side] = false
		if e.pan != nil && firstPanic == nil {
			firstPanic = e.pan
		}
	}
	noteErr := func(e base.ProxyError) {
		errs = append(errs, e)
		if e.InterruptSide() == clientSide && !alive['C'] {
			respawnDead = true
		}
	}
	// waitSettled waits until the reader of side x has consumed everything (or no reader is left)
	waitSettled := func(x byte) {
		c := conn[x]
		t := time.NewTimer(20 * time.Second)
		defer t.Stop()
		for !readerGone(x) && firstPanic == nil {
			select {
			case <-c.idle:
				c.mu.Lock()
				empty := len(c.buf) == 0
				c.mu.Unlock()
				if empty {
					return
				}
			case e := <-done:
				note(e)
			case e := <-errCh:
				noteErr(e)
			case <-t.C:
				stuck = true
				return
			}
		}
	}
	waitSettled('C')
	waitSettled('D')
	for _, sg := range segs {
		if firstPanic != nil || stuck {
			break
		}
		if readerGone(sg.side) {
			continue
		}
		conn[sg.side].feed(sg.data)
		waitSettled(sg.side)
		if sg.side == 'D' && !alive['C'] && s.client.respawns() > 0 && !respawnDead {
			// give a client loop restarted by the database side a moment to reach its first Read
			for i := 0; i < 20 && !s.client.hasWaiter(); i++ {
				time.Sleep(2 * time.Millisecond)
			}
		}
	}
	s.client.finish()
	s.db.finish()
	t := time.NewTimer(10 * time.Second)
	defer t.Stop()
	for (alive['C'] || alive['D']) && !stuck {
		select {
		case e := <-done:
			note(e)
		case e := <-errCh:
			noteErr(e)
		case <-t.C:
			stuck = true
		}
	}
	if s.client.respawns() > 0 && !respawnDead && !stuck {
		// a restarted client loop reports its end (EOF) on errCh only
		select {
		case e := <-errCh:
			noteErr(e)
		case <-time.After(200 * time.Millisecond):
		}
	}
	if firstPanic != nil {
		return &panicErr{firstPanic}
	}
	if stuck {
		return errSessionStuck
	}
	for {
		select {
		case e := <-errCh:
			errs = append(errs, e)
			continue
		default:
		}
		break
	}
	// the first non-EOF error reported by the proxy loops is the outcome
	for _, e := range errs {
		if err := errors.Unwrap(e); err != nil && err != io.EOF {
			return err
		}
	}
	return nil
}

// proxySettings builds the ProxySetting both proxy factories take: real parser, schema, keystore, censor, poison callbacks.
func proxySettings(w *world, mysqlMode bool, censorYAML string) (base.ProxySetting, error) {
	parser := sqlparser.New(sqlparser.ModeDefault)
	censor := acracensor.NewAcraCensor()
	if censorYAML != "" {
		if err := censor.LoadConfiguration([]byte(censorYAML)); err != nil {
			return nil, err
		}
	}
	schema, err := schemaStore(mysqlMode)
	if err != nil {
		return nil, err
	}
	return base.NewProxySetting(parser, schema, w.ks, nil, censor, w.env.Poison), nil
}
