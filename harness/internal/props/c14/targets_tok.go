package c14

import (
	"errors"
	"time"

	"github.com/cossacklabs/acra/pseudonymization"
	tokenCommon "github.com/cossacklabs/acra/pseudonymization/common"
	"github.com/cossacklabs/acra/pseudonymization/storage"
	"google.golang.org/protobuf/proto"

	"verif/harness/internal/gen"
)

// hostileStorage is a TokenStorage whose Get returns whatever the input says (a storage an attacker wrote to).
type hostileStorage struct{ content []byte }

func (h *hostileStorage) Save(id []byte, context tokenCommon.TokenContext, data []byte) error { return nil }
func (h *hostileStorage) Get(id []byte, context tokenCommon.TokenContext) ([]byte, error) {
	return dup(h.content), nil
}
func (h *hostileStorage) Stat(id []byte, context tokenCommon.TokenContext) (tokenCommon.TokenMetadata, error) {
	return tokenCommon.TokenMetadata{}, nil
}
func (h *hostileStorage) VisitMetadata(cb func(int, tokenCommon.TokenMetadata) (tokenCommon.TokenAction, error)) error {
	return nil
}
func (h *hostileStorage) SetAccessTimeGranularity(time.Duration) error { return nil }

// protobuf-level artefacts: field tags and length prefixes are the length/type fields
func tokenValueArt(v []byte, typ int) art {
	b := nb("tokenvalue")
	b.u8("tag_value", 0x0a).u8("value_len", uint64(len(v))).bytes(v).u8("tag_type", 0x10).u8("type", uint64(typ))
	return b.art()
}

func metadataArt(data []byte) art {
	b := nb("metadata")
	b.u8("tag_data", 0x0a).u8("data_len", uint64(len(data))).bytes(data).u8("tag_created", 0x10).bytes([]byte{0x80, 0x80, 0x80, 0x80, 0x06}).
		u8("tag_accessed", 0x18).bytes([]byte{0xff, 0xff, 0xff, 0xff, 0xff, 0xff, 0xff, 0xff, 0x7f}).u8("tag_disabled", 0x20).u8("disabled", 1)
	return b.art()
}

var tokenTypes = []tokenCommon.TokenType{tokenCommon.TokenType_Int32, tokenCommon.TokenType_Int64, tokenCommon.TokenType_String, tokenCommon.TokenType_Bytes, tokenCommon.TokenType_Email,
	tokenCommon.TokenType_Int32Str, tokenCommon.TokenType_Int64Str, tokenCommon.TokenType_Unknown}

func tokenOf(t tokenCommon.TokenType) interface{} {
	switch t {
	case tokenCommon.TokenType_Int32:
		return int32(7)
	case tokenCommon.TokenType_Int64:
		return int64(7)
	case tokenCommon.TokenType_String:
		return "tok"
	case tokenCommon.TokenType_Bytes:
		return []byte("tok")
	case tokenCommon.TokenType_Email:
		return tokenCommon.Email("a@b.io")
	}
	return "tok"
}

func init() {
	tvSeeds := func(g *gen.Rand) []art {
		var out []art
		for typ := 0; typ <= 7; typ++ {
			for _, v := range [][]byte{nil, {1}, {1, 2}, {1, 2, 3}, {1, 2, 3, 4}, {1, 2, 3, 4, 5, 6, 7}, {1, 2, 3, 4, 5, 6, 7, 8}, []byte("a@b.io"), gen.Bytes(g, 40)} {
				out = append(out, tokenValueArt(v, typ))
			}
		}
		// real encoder output too
		if b, err := tokenCommon.EncodeTokenValue(&tokenCommon.TokenValue{Value: []byte("real"), Type: tokenCommon.TokenType_String}); err == nil {
			out = append([]art{{kind: "tokenvalue-real", b: b}}, out...)
		}
		return out
	}
	reg(&target{name: "tok.token-value", group: "token", seeds: tvSeeds, run: func(in []byte) error {
		v, err := tokenCommon.TokenValueFromData(in)
		if err != nil {
			return err
		}
		_, _ = tokenCommon.EncodeTokenValue(v)
		_ = tokenCommon.ValidateTokenType(v.Type)
		_, _ = v.Type.ToConfigString()
		return nil
	}})
	reg(&target{name: "tok.metadata", group: "token",
		seeds: func(g *gen.Rand) []art {
			real := tokenCommon.EmbedMetadata([]byte("payload"), tokenCommon.NewTokenMetadata())
			return []art{{kind: "metadata-real", b: real}, metadataArt([]byte("x")), metadataArt(nil), metadataArt(gen.Bytes(g, 100))}
		},
		run: func(in []byte) error {
			d, m, err := tokenCommon.ExtractMetadata(in)
			if err != nil {
				return err
			}
			_ = tokenCommon.EmbedMetadata(d, m)
			_ = m.AccessedBefore(time.Unix(0, 0), time.Hour)
			return nil
		}})
	// Deanonymize over a store holding hostile bytes: reaches TokenValueFromData + bytesToGolangValue (decodeInt32/64)
	reg(&target{name: "tok.deanonymize-hostile-store", group: "token", seeds: tvSeeds, run: func(in []byte) error {
		hs := &hostileStorage{content: in}
		p, err := pseudonymization.NewPseudoanonymizer(hs)
		if err != nil {
			return err
		}
		ctx := tokenCommon.TokenContext{ClientID: []byte("client_one")}
		var first error
		okN := 0
		for _, t := range tokenTypes {
			if _, err := p.Deanonymize(tokenOf(t), ctx, t); err != nil {
				if first == nil {
					first = err
				}
			} else {
				okN++
			}
			// consistent tokenization looks the source value up first and decodes what the store returns
			if _, err := p.AnonymizeConsistently(tokenOf(t), ctx, t); err != nil && first == nil {
				first = err
			}
		}
		if okN > 0 {
			// the stored record decoded for at least one requested type
			return nil
		}
		return first
	}})
	// tiny and odd source values through every generator
	var anon tokenCommon.Pseudoanonymizer
	reg(&target{name: "tok.anonymize-values", group: "token",
		seeds: func(g *gen.Rand) []art {
			var out []art
			for typ := 1; typ <= 5; typ++ {
				for _, v := range [][]byte{[]byte("value"), nil, []byte("a"), []byte("ab"), []byte("abc"), []byte("a@b.cd"), []byte("12345678"), gen.Bytes(g, 3), gen.Bytes(g, 300)} {
					out = append(out, nb("type+value").u8("type", uint64(typ)).bytes(v).art())
				}
			}
			return out
		},
		setup: func() error {
			st, err := storage.NewMemoryTokenStorage()
			if err != nil {
				return err
			}
			anon, err = pseudonymization.NewPseudoanonymizer(st)
			return err
		},
		run: func(in []byte) error {
			if len(in) < 1 {
				return errors.New("short")
			}
			t := tokenCommon.TokenType(in[0] % 8)
			v := in[1:]
			ctx := tokenCommon.TokenContext{ClientID: []byte("client_one")}
			var val interface{}
			switch t {
			case tokenCommon.TokenType_Int32:
				var x int32
				for i := 0; i < len(v) && i < 4; i++ {
					x |= int32(v[i]) << (8 * uint(i))
				}
				val = x
			case tokenCommon.TokenType_Int64:
				var x int64
				for i := 0; i < len(v) && i < 8; i++ {
					x |= int64(v[i]) << (8 * uint(i))
				}
				val = x
			case tokenCommon.TokenType_String:
				val = string(v)
			case tokenCommon.TokenType_Bytes:
				val = dup(v)
			case tokenCommon.TokenType_Email:
				val = tokenCommon.Email(v)
			default:
				val = string(v)
			}
			tok, err := anon.Anonymize(val, ctx, t)
			if err == nil {
				_, _ = anon.Deanonymize(tok, ctx, t)
			}
			tok2, err2 := anon.AnonymizeConsistently(val, ctx, t)
			if err2 == nil {
				_, _ = anon.Deanonymize(tok2, ctx, t)
			}
			if err != nil {
				return err
			}
			return err2
		}})
	// column-level tokenizer: text in, text out, per configured token type
	var dt *pseudonymization.DataTokenizer
	tokCols := []string{"tok_i32", "tok_i64", "tok_str", "tok_bytes", "tok_email"}
	reg(&target{name: "tok.data-tokenizer", group: "token",
		seeds: func(g *gen.Rand) []art {
			var out []art
			for c := range tokCols {
				for _, v := range []string{"123", "-5", "2147483648", "-2147483649", "9223372036854775807", "9223372036854775808", "", "a", "ab", "a@b.io", "not a number", "0x10", " 1", "1e3", string(gen.Bytes(g, 20))} {
					out = append(out, nb("col+text").u8("column", uint64(c)).str(v).art())
				}
			}
			return out
		},
		setup: func() error {
			if _, err := mustWorld(); err != nil {
				return err
			}
			st, err := storage.NewMemoryTokenStorage()
			if err != nil {
				return err
			}
			an, err := pseudonymization.NewPseudoanonymizer(st)
			if err != nil {
				return err
			}
			dt, err = pseudonymization.NewDataTokenizer(an)
			return err
		},
		run: func(in []byte) error {
			if len(in) < 1 {
				return errors.New("short")
			}
			w := getWorld()
			setting := w.env.Setting(tokCols[int(in[0])%len(tokCols)])
			ctx := tokenCommon.TokenContext{ClientID: w.ids[0]}
			tok, err := dt.Tokenize(dup(in[1:]), ctx, setting)
			if err == nil {
				_, _ = dt.Detokenize(tok, ctx, setting)
			}
			_, _ = dt.Detokenize(dup(in[1:]), ctx, setting)
			return err
		}})
	_ = proto.Marshal
}
