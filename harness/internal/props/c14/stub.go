// Package c14 will hold the monitor of property C14 (not built yet; nothing is registered).
package c14
