package c14

import (
	"bytes"
	"context"
	"fmt"
	"io"
	"net"
	"os"
	"sync"
	"sync/atomic"
	"time"

	"github.com/cossacklabs/acra/decryptor/base"
	// the server binaries link the type encoders of both databases (registered in init)
	_ "github.com/cossacklabs/acra/decryptor/mysql/types"
	_ "github.com/cossacklabs/acra/decryptor/postgresql/types"
	"github.com/cossacklabs/acra/keystore"
	"github.com/cossacklabs/acra/keystore/filesystem"
	"github.com/cossacklabs/acra/poison"

	"verif/harness/internal/rig/envrig"
	"verif/harness/internal/rig/ksrig"
)

// world is the state shared by parent (which builds valid artefacts) and children (which decode them):
// one v1 filesystem keystore in a scratch directory with a fixed master key.
type world struct {
	dir     string
	ks      *filesystem.KeyStore
	env     *envrig.Env
	ids     [][]byte
	err     error
	poisons int64
	// v1 export bundle of the fresh keystore (taken at creation: reading poison keys later may rewrite their files
	// under another key context, after which the pinned tree cannot export them any more - a C18 matter)
	bundle *keystore.KeysBackup
}

var (
	theWorld  *world
	worldOnce sync.Once
	masterKey = bytes.Repeat([]byte{0x5a}, 32)
)

// countingCallback records poison detections instead of stopping the process.
type countingCallback struct{ n *int64 }

func (c countingCallback) Call() error { atomic.AddInt64(c.n, 1); return nil }

// SchemaYAML is the column configuration of the child-side pipelines and proxies (all feature kinds).
const SchemaYAML = `
schemas:
  - table: t
    columns: [id, plain_as, plain_ab, search_as, search_ab, mask_as_l, mask_ab_r, tok_i32, tok_i64, tok_str, tok_bytes, tok_email, typed_i32, typed_str]
    encrypted:
      - column: plain_as
        crypto_envelope: acrastruct
      - column: plain_ab
        crypto_envelope: acrablock
      - column: search_as
        searchable: true
        crypto_envelope: acrastruct
      - column: search_ab
        searchable: true
        crypto_envelope: acrablock
      - column: mask_as_l
        crypto_envelope: acrastruct
        masking: "xxxx"
        plaintext_length: 3
        plaintext_side: left
      - column: mask_ab_r
        crypto_envelope: acrablock
        masking: "**"
        plaintext_length: 2
        plaintext_side: right
      - column: tok_i32
        token_type: int32
        tokenized: true
      - column: tok_i64
        token_type: int64
        tokenized: true
        consistent_tokenization: true
      - column: tok_str
        token_type: str
        tokenized: true
      - column: tok_bytes
        token_type: bytes
        tokenized: true
      - column: tok_email
        token_type: email
        tokenized: true
        consistent_tokenization: true
      - column: typed_i32
        data_type: int32
        response_on_fail: default_value
        default_data_value: "7"
      - column: typed_str
        data_type: str
        response_on_fail: ciphertext
`

func getWorld() *world {
	worldOnce.Do(func() {
		w := &world{ids: [][]byte{[]byte("client_one"), []byte("client_two")}}
		theWorld = w
		create := false
		w.dir = os.Getenv("VERIF_C14_KSDIR")
		if w.dir == "" {
			w.dir = ksrig.ScratchDir("c14-world")
			os.Setenv("VERIF_C14_KSDIR", w.dir)
			create = true
		}
		ks, err := ksrig.V1(w.dir, append([]byte{}, masterKey...), keystore.InfiniteCacheSize)
		if err != nil {
			w.err = err
			return
		}
		w.ks = ks
		if create {
			for _, id := range w.ids {
				if err := ksrig.GenClient(ks, id); err != nil {
					w.err = err
					return
				}
			}
			// export bundle of the client keys (before the poison keys exist: the pinned tree cannot always export those)
			enc, _ := keystore.NewSCellKeyEncryptor(append([]byte{}, masterKey...))
			if bk, err := filesystem.NewKeyBackuper(w.dir, w.dir, &filesystem.DummyStorage{}, enc, ks); err == nil {
				if b, err := bk.Export(nil, keystore.ExportAllKeys); err == nil {
					w.bundle = b
				} else {
					w.err = fmt.Errorf("export of the fresh keystore: %w", err)
					return
				}
			}
			if err := ks.GeneratePoisonKeyPair(); err != nil {
				w.err = err
				return
			}
			if err := ks.GeneratePoisonSymmetricKey(); err != nil {
				w.err = err
				return
			}
		}
		cb := poison.NewCallbackStorage()
		cb.AddCallback(countingCallback{&w.poisons})
		env, err := envrig.New("c14-v1", ks, cb, SchemaYAML)
		if err != nil {
			w.err = fmt.Errorf("envrig: %w", err)
			return
		}
		w.env = env
	})
	return theWorld
}

func mustWorld() (*world, error) {
	w := getWorld()
	return w, w.err
}

func (w *world) ctxFor(id []byte) context.Context {
	ac := base.NewAccessContext(base.WithClientID(id))
	return base.SetAccessContextToContext(context.Background(), ac)
}

// sessionCtx is ctxFor plus a client session (the query observers keep per-session placeholder settings).
func (w *world) sessionCtx(id []byte) context.Context {
	s := newProxySession()
	ac := base.NewAccessContext(base.WithClientID(id))
	return base.SetAccessContextToContext(s.ctx, ac)
}

// memConn is an in-memory net.Conn: reads come from a fixed byte string, writes are discarded.
type memConn struct {
	r      *bytes.Reader
	closed bool
	wrote  int64
}

func newMemConn(b []byte) *memConn { return &memConn{r: bytes.NewReader(b)} }

func (c *memConn) Read(p []byte) (int, error) {
	if c.closed {
		return 0, io.EOF
	}
	return c.r.Read(p)
}
func (c *memConn) Write(p []byte) (int, error) {
	if c.closed {
		return 0, io.ErrClosedPipe
	}
	c.wrote += int64(len(p))
	return len(p), nil
}
func (c *memConn) Close() error                       { c.closed = true; return nil }
func (c *memConn) LocalAddr() net.Addr                { return &net.TCPAddr{IP: net.IPv4(127, 0, 0, 1), Port: 1} }
func (c *memConn) RemoteAddr() net.Addr               { return &net.TCPAddr{IP: net.IPv4(127, 0, 0, 1), Port: 2} }
func (c *memConn) SetDeadline(t time.Time) error      { return nil }
func (c *memConn) SetReadDeadline(t time.Time) error  { return nil }
func (c *memConn) SetWriteDeadline(t time.Time) error { return nil }

// dup copies b into a slice whose capacity equals its length.
func dup(b []byte) []byte {
	o := make([]byte, len(b))
	copy(o, b)
	return o
}
