// Package c14 monitors "no input can crash a handler or make it consume unbounded resources".
//
// A parent process generates, per decoder target, a deterministic list of inputs (valid artefacts built with the
// real constructors, then boundary-directed mutation of every length/count/type field, truncations, bit flips,
// random bytes), writes them to batch files and runs crash-isolated child processes that call the real decoder
// under recover() while measuring allocation and CPU time. A child that dies is diagnosed from its journal.
package c14

import (
	"bufio"
	"context"
	"encoding/base64"
	"encoding/json"
	"fmt"
	"os"
	"os/exec"
	"path/filepath"
	"regexp"
	"sort"
	"strconv"
	"strings"
	"sync"
	"time"

	"verif/harness/internal/ev"
	"verif/harness/internal/gen"
	"verif/harness/internal/props"
	"verif/harness/internal/rig/ksrig"
)

func init() {
	props.Register("C14", props.Monitor{Level: "exploration", Run: Run, Child: Child})
}

// HandlerLayer, when set (by the proxy rig), is run at the end of Run: hostile packets against a live
// AcraServer / TranslatorService. It reports through the same ev.Run.
var HandlerLayer func(r *ev.Run)

// target is one input-facing decoder entry point.
type target struct {
	name  string
	group string
	// seeds builds valid artefacts (parent side, once per chunk).
	seeds func(g *gen.Rand) []art
	// gen, if set, replaces the default "pick a seed, mutate it" generator; prepare builds its per-chunk state.
	// Input 0 of a chunk must be a valid artefact (it doubles as the warm-up call of isolated re-runs).
	prepare func(g *gen.Rand) interface{}
	gen     func(g *gen.Rand, st interface{}, i int) (in []byte, class, detail string)
	// setup prepares child-side state; run feeds one input to the decoder.
	setup func() error
	run   func(in []byte) error
	// weight scales the number of inputs (slow targets < 1).
	weight float64
	// calls = decoder invocations per run (scales the allocation bound); allocPerByte overrides the 2000 bytes/byte allowance.
	calls        int
	allocPerByte int
	// allocBound / cpuBound replace the default bounds (by input length) for targets whose input only describes a stream.
	allocBound func(in []byte) uint64
	cpuBound   func(in []byte) int64
	// fixedN = exact number of inputs in the quick / thorough tier (instead of tier count x weight); one chunk.
	fixedN [2]int
	// noOK marks targets whose decoder has no success outcome to demand (none today).
	noOK bool
}

var targets []*target

func reg(t *target) {
	if t.weight == 0 {
		t.weight = 1
	}
	targets = append(targets, t)
}

func targetByName(n string) *target {
	for _, t := range targets {
		if t.name == n {
			return t
		}
	}
	return nil
}

func (t *target) generate(g *gen.Rand, n int) []input {
	var seeds []art
	var st interface{}
	if t.seeds != nil {
		seeds = t.seeds(g)
	}
	if t.prepare != nil {
		st = t.prepare(g)
	}
	out := make([]input, 0, n)
	for i := 0; i < n; i++ {
		if i == 0 && len(seeds) > 0 && t.gen == nil {
			out = append(out, input{class: "valid:" + seeds[0].kind, data: append([]byte{}, seeds[0].b...)})
			continue
		}
		var in []byte
		var c, d string
		if t.gen != nil {
			in, c, d = t.gen(g, st, i)
		} else {
			in, c, d = mutate(g, seeds[g.Intn(len(seeds))])
		}
		out = append(out, input{class: c, detail: d, data: in})
	}
	return out
}

type tstats struct {
	Inputs   int64  `json:"inputs"`
	OK       int64  `json:"ok"`
	Errors   int64  `json:"error"`
	Panics   int64  `json:"panic"`
	Oracle   int64  `json:"target_oracle_violation"`
	Fatal    int64  `json:"fatal_exit"`
	CPUStop  int64  `json:"cpu_limit_stops"`
	MaxAlloc uint64 `json:"max_alloc_bytes"`
	MaxCPU   int64  `json:"max_cpu_us"`
	WallMs   int64  `json:"child_wall_ms"`
	CPUMs    int64  `json:"calls_cpu_ms"`
	cpuUs    int64
	errCls   map[string]struct{}
}

type suspect struct {
	kind   string // "alloc" | "cpu"
	t      *target
	in     input
	warm   input
	chunk  int
	idx    int
	seen   uint64
	note   string
}

type monitor struct {
	r        *ev.Run
	mu       sync.Mutex
	stats    map[string]*tstats
	suspects []suspect
	susKeys  map[string]int
	scratch  string
	bin      string
	wallMax  time.Duration
}

func (m *monitor) st(t *target) *tstats {
	s := m.stats[t.name]
	if s == nil {
		s = &tstats{errCls: map[string]struct{}{}}
		m.stats[t.name] = s
	}
	return s
}

func intEnv(name string, def int) int {
	if s := os.Getenv(name); s != "" {
		if v, err := strconv.Atoi(s); err == nil {
			return v
		}
	}
	return def
}

// Run is the parent.
func Run(r *ev.Run) {
	r.Rule = "per decoder target a fixed number of inputs (quick 3000 x weight, thorough 30000 x weight), pure function of (VERIF_SEED, tier, target, chunk) up to the randomness of Acra's own key generation/encryption used to build the valid artefacts; " +
		"input = valid artefact built with the real constructors, then one construction class: valid | field:<artefact>.<field> set to a boundary value {0,1,2,cur-1,cur+1,0x7f,0x80,0xff,0xfb-0xfe,0x7fff,0x8000,0xffff,2^24-1,2^31-1,2^31,2^32-1,2^63-1,2^63,2^64-1,remaining,remaining+-1} | field2 | trunc | bitflip | random | extend | blindint | fill | cutout/dupseg (text targets: token edits, nesting bombs, nasty bytes, long tokens); " +
		"target mysql.read-packet.multi-packet: a fixed list of 8 (thorough 24) valid MySQL multi-packet streams (payload of k*(2^24-1)+r bytes followed by one further small packet) synthesised in the child while ReadPacket reads them; the target itself checks, by position in the stream, that the read ends where the payload ends; " +
		"each input is one evaluation: the decoder is called in a child process under recover(), allocation (runtime /gc/heap/allocs:bytes delta) and CPU time (getrusage) measured; " +
		"distinct_nontrivial = distinct (target, outcome class in {ok, err:<error class>, panic:<site>:<class>, fatal}, input-construction class) tuples actually observed"
	r.Assumptions = []string{
		"the crypto library is replaced by a stand-in offering the documented contract of Themis Secure Cell (Seal) / Secure Message / EC key generation; properties are decided for Acra's code on top of that contract",
		"decided at the decoder layer (exported entry points called in-process, proxies driven over in-memory connections); live AcraServer/TranslatorService handler targets are added by HandlerLayer when the proxy rig sets it",
		"allocation bound per call: 64 MiB + 2000 x len(input); CPU bound per call: 10 s for inputs <= 64 KiB (scaled linearly above), confirmed by two isolated re-runs (multi-packet MySQL streams: 64 MiB + 4 x payload, 120 s); Redis-backed storages are not driven",
		"panics recovered by AcraServer's per-connection recoverConnection are still reported: the property demands an error or untouched pass-through, and AcraTranslator has no such recovery",
	}
	m := &monitor{r: r, stats: map[string]*tstats{}, susKeys: map[string]int{}}
	m.bin = os.Getenv("VERIF_MON_BIN")
	if m.bin == "" {
		if exe, err := os.Executable(); err == nil {
			m.bin = exe
		}
	}
	m.scratch = ksrig.ScratchDir("c14")
	defer os.RemoveAll(m.scratch)
	m.wallMax = time.Duration(r.Pick(300, 1500)) * time.Second

	// the shared world (keystore directory) is created by the parent and opened by the children
	w := getWorld()
	if w.err != nil {
		r.Violation("infrastructure: world setup failed", w.err.Error())
		return
	}
	defer os.RemoveAll(w.dir)

	per := intEnv("VERIF_C14_N", r.Pick(3000, 30000))
	chunk := intEnv("VERIF_C14_CHUNK", r.Pick(1000, 5000))
	workers := intEnv("VERIF_C14_WORKERS", 12)
	sel := os.Getenv("VERIF_C14_TARGETS")

	type job struct {
		t     *target
		chunk int
		n     int
	}
	var jobs []job
	var selected []*target
	for _, t := range targets {
		if sel != "" {
			okSel := false
			for _, p := range strings.Split(sel, ",") {
				if p != "" && strings.HasPrefix(t.name, p) {
					okSel = true
				}
			}
			if !okSel {
				continue
			}
		}
		selected = append(selected, t)
		n := int(float64(per) * t.weight)
		if n < 50 {
			n = 50
		}
		if t.fixedN[0] > 0 {
			n = r.Pick(t.fixedN[0], t.fixedN[1])
			jobs = append(jobs, job{t, 0, n})
			continue
		}
		for c := 0; n > 0; c++ {
			k := chunk
			if k > n {
				k = n
			}
			jobs = append(jobs, job{t, c, k})
			n -= k
		}
	}
	// heavy targets first (better packing), deterministic order
	sort.SliceStable(jobs, func(i, j int) bool { return jobs[i].chunk < jobs[j].chunk })
	ch := make(chan job)
	var wg sync.WaitGroup
	for i := 0; i < workers; i++ {
		wg.Add(1)
		go func() {
			defer wg.Done()
			for j := range ch {
				t0 := time.Now()
				m.runChunk(j.t, j.chunk, j.n)
				if os.Getenv("VERIF_C14_VERBOSE") != "" {
					fmt.Fprintf(os.Stderr, "c14: %-45s chunk %d n=%d %.1fs\n", j.t.name, j.chunk, j.n, time.Since(t0).Seconds())
				}
			}
		}()
	}
	for _, j := range jobs {
		ch <- j
	}
	close(ch)
	wg.Wait()

	m.confirmSuspects()

	// evidence
	per_target := map[string]*tstats{}
	var total int64
	for _, t := range selected {
		s := m.st(t)
		per_target[t.name] = s
		total += s.Inputs
		r.Count("inputs:"+t.group, s.Inputs)
		r.Count("ok", s.OK)
		r.Count("error", s.Errors)
		r.Count("panic", s.Panics)
		r.Count("fatal_exit", s.Fatal)
		r.SetAdd("targets", t.name)
		if !t.noOK {
			r.Count("ok:"+t.name, s.OK)
			// non-vacuity: the valid artefact of every target must be accepted by its decoder at least once,
			// otherwise the generator does not reach past the first check
			r.RequireAtLeast("ok:"+t.name, 1)
		}
	}
	r.Extra("per_target", per_target)
	r.Extra("targets_run", len(selected))
	r.Count("inputs_total", total)
	var want int64
	for _, j := range jobs {
		want += int64(j.n)
	}
	want -= r.Counter("inputs_abandoned_after_repeated_stops")
	r.RequireAtLeast("inputs_total", want*9/10)

	rewriterLayer(r, sel) // rewriters.go: query rewriters of both proxies over the C13 statement workload

	if HandlerLayer != nil && sel == "" {
		HandlerLayer(r)
	}
}

var reGoroutine = regexp.MustCompile(`(?m)^goroutine \d+ [^\n]*\[running`)
var reFrameLine = regexp.MustCompile(`(?m)^([A-Za-z0-9_./\-]+(?:\(\*?[A-Za-z0-9_\[\].]+\))?[A-Za-z0-9_.\-\[\]]*)\(`)

// classifyFatal extracts (class, innermost Acra function) from the stderr of a dead child.
func classifyFatal(stderr string) (class, fn string, shim bool) {
	class = "killed without message"
	switch {
	case strings.Contains(stderr, "stack overflow"), strings.Contains(stderr, "goroutine stack exceeds"):
		class = "stack overflow"
	case strings.Contains(stderr, "concurrent map"):
		class = "concurrent map access"
	case strings.Contains(stderr, "checkptr"):
		class = "checkptr"
	case strings.Contains(stderr, "out of memory"), strings.Contains(stderr, "cannot allocate memory"):
		class = "out of memory"
	case strings.Contains(stderr, "fatal error: "):
		i := strings.Index(stderr, "fatal error: ")
		l := stderr[i+13:]
		if j := strings.IndexByte(l, '\n'); j >= 0 {
			l = l[:j]
		}
		class = "fatal: " + panicClass(l)
	case strings.Contains(stderr, "panic: "):
		i := strings.Index(stderr, "panic: ")
		l := stderr[i+7:]
		if j := strings.IndexByte(l, '\n'); j >= 0 {
			l = l[:j]
		}
		class = "unrecovered panic: " + panicClass(l)
	}
	// first goroutine block after the message
	loc := reGoroutine.FindStringIndex(stderr)
	if loc == nil {
		return
	}
	blk := stderr[loc[0]:]
	if j := strings.Index(blk, "\n\n"); j >= 0 {
		blk = blk[:j]
	}
	for _, mm := range reFrameLine.FindAllStringSubmatch(blk, -1) {
		f := mm[1]
		if strings.HasPrefix(f, "runtime.") || strings.HasPrefix(f, "panic") {
			continue
		}
		if strings.HasPrefix(f, "verif/harness/") {
			break
		}
		if strings.HasPrefix(f, shimPrefix) && fn == "" {
			shim = true
		}
		if strings.HasPrefix(f, acraPrefix) {
			fn = trimFn(f)
			break
		}
	}
	return
}

func (m *monitor) detail(t *target, chunk, idx int, in input, extra map[string]interface{}) map[string]interface{} {
	d := map[string]interface{}{"target": t.name, "seed": m.r.Seed, "tier": m.r.Tier, "chunk": chunk, "index": idx,
		"construction_class": in.class, "construction_detail": in.detail, "input_len": len(in.data), "input_hex": ev.FullHex(capBytes(in.data, 1<<16))}
	for k, v := range extra {
		d[k] = v
	}
	return d
}

func capBytes(b []byte, n int) []byte {
	if len(b) > n {
		return b[:n]
	}
	return b
}

// runChunk generates one chunk, executes it in child processes (restarting after a killing input) and feeds the oracle.
func (m *monitor) runChunk(t *target, chunk, n int) {
	r := m.r
	g := gen.New(r.Seed, fmt.Sprintf("c14/%s/%s/%d", r.Tier, t.name, chunk))
	var ins []input
	func() {
		defer func() {
			if p := recover(); p != nil {
				// building the valid artefacts runs Acra's own protect path on well-formed data: a panic inside Acra
				// there is a crash of real code as well
				if pi := describePanic(p); pi.Fn != "" && !pi.Shim {
					r.Violation(fmt.Sprintf("panic target=%s fn=%s class=%s", t.name, pi.Fn, pi.Class),
						map[string]interface{}{"where": "while building the valid artefacts of this target (generator side)", "panic": pi.Msg, "frames": pi.Frames, "seed": r.Seed, "chunk": chunk})
					return
				}
				r.Violation("infrastructure: generator panic target="+t.name, fmt.Sprint(p))
			}
		}()
		ins = t.generate(g, n)
	}()
	if len(ins) == 0 {
		return
	}
	base := filepath.Join(m.scratch, fmt.Sprintf("%s-%d", strings.ReplaceAll(t.name, "/", "_"), chunk))
	batch := base + ".batch"
	if err := writeBatch(batch, ins); err != nil {
		r.Violation("infrastructure: cannot write batch", err.Error())
		return
	}
	defer os.Remove(batch)
	from := 0
	cpuStops, fatals := 0, 0
	for attempt := 0; from < len(ins); attempt++ {
		// circuit breaker: a decoder that keeps hanging or dying has been reported already; the rest of the chunk would
		// only cost 10 s of CPU (or a process start) per input
		if cpuStops >= 4 || fatals >= 12 {
			left := len(ins) - from
			r.Count("inputs_abandoned_after_repeated_stops", int64(left))
			r.Inconclusive(fmt.Sprintf("target %s chunk %d: %d inputs not run after %d CPU-limit stops and %d fatal exits in this chunk", t.name, chunk, left, cpuStops, fatals))
			break
		}
		journal := fmt.Sprintf("%s.j%d", base, attempt)
		errPath := fmt.Sprintf("%s.e%d", base, attempt)
		t0 := time.Now()
		recs, ended, wallKilled := m.runChild(t, batch, journal, errPath, from, "")
		m.mu.Lock()
		m.st(t).WallMs += time.Since(t0).Milliseconds()
		m.mu.Unlock()
		last := m.consume(t, chunk, ins, recs)
		stderrB, _ := os.ReadFile(errPath)
		os.Remove(journal)
		os.Remove(errPath)
		if ended {
			break
		}
		if last.started < from {
			// the child did not even start the first input: infrastructure problem, not a verdict
			r.Violation("infrastructure: child could not run target="+t.name, map[string]interface{}{"stderr": tail(string(stderrB), 4000), "from": from})
			return
		}
		k := last.started
		switch {
		case last.cpuStop && last.cpuAlloc > t.allocLimitOf(ins[k].data):
			cpuStops++
			// the CPU went into touching an allocation beyond the bound: an allocation finding, not a CPU one
			_, fn, _ := classifyFatal("goroutine 1 [running]:\n" + afterGoroutine1(string(stderrB)))
			if fn == "" {
				fn = "?"
			}
			m.mu.Lock()
			m.st(t).CPUStop++
			m.mu.Unlock()
			r.Violation(fmt.Sprintf("alloc target=%s site=%s", t.name, fn), m.detail(t, chunk, k, ins[k], map[string]interface{}{
				"allocated_bytes_when_stopped": last.cpuAlloc, "cpu_us_when_stopped": last.cpuUsed, "bound_bytes": t.allocLimitOf(ins[k].data), "stacks": tail(string(stderrB), 4000)}))
			r.SetAdd("alloc_sites", fn)
		case last.cpuStop:
			cpuStops++
			m.mu.Lock()
			m.st(t).CPUStop++
			m.mu.Unlock()
			m.addSuspect(suspect{kind: "cpu", t: t, in: ins[k], warm: ins[0], chunk: chunk, idx: k, seen: uint64(last.cpuUsed), note: tail(string(stderrB), 5000)})
		case wallKilled:
			r.Inconclusive(fmt.Sprintf("wall-clock watchdog (%s) killed the child of target %s at chunk %d index %d (class %s)", m.wallMax, t.name, chunk, k, ins[k].class))
		default:
			fatals++
			class, fn, shim := classifyFatal(string(stderrB))
			m.mu.Lock()
			s := m.st(t)
			s.Fatal++
			s.Inputs++
			m.mu.Unlock()
			r.Case()
			r.Distinct(t.name + "|fatal:" + class + "|" + ins[k].class)
			if class == "out of memory" && !shim {
				// the children run under a tight address-space limit (an accelerator, not an oracle): decide the input
				// again under a loose limit, at most twice per site
				if verdict := m.recheckOOM(t, chunk, k, ins, fn); verdict != "" {
					r.Count("oom_under_tight_limit:"+verdict, 1)
					from = k + 1
					continue
				}
			}
			if shim {
				r.Inconclusive("fatal exit inside the gothemis stand-in, target " + t.name)
			} else {
				if fn == "" {
					fn = "?"
				}
				r.Violation(fmt.Sprintf("fatal target=%s fn=%s class=%s", t.name, fn, class),
					m.detail(t, chunk, k, ins[k], map[string]interface{}{"stderr_tail": tail(string(stderrB), 6000)}))
			}
		}
		from = k + 1
		if attempt > 200 {
			r.Inconclusive("too many child restarts for target " + t.name)
			break
		}
	}
}

// recheckOOM re-runs an input that died with "out of memory" under the tight address-space limit in a fresh child with
// a loose limit. It returns "" when the fatal exit stands as observed (re-check budget for this site used up: the site
// was already confirmed twice), otherwise the verdict it reported itself.
func (m *monitor) recheckOOM(t *target, chunk, k int, ins []input, fn string) string {
	r := m.r
	key := "oom|" + t.name + "|" + fn
	m.mu.Lock()
	n := m.susKeys[key]
	confirmed := m.susKeys[key+"|confirmed"]
	if n >= 2 && confirmed == n {
		m.mu.Unlock()
		return ""
	}
	if n >= 6 {
		m.mu.Unlock()
		r.Inconclusive("out-of-memory exit under the tight address-space limit not re-checked (budget used): target " + t.name + " site " + fn)
		return "not-rechecked"
	}
	m.susKeys[key]++
	seq := m.susKeys["oomseq"]
	m.susKeys["oomseq"]++
	m.mu.Unlock()
	base := filepath.Join(m.scratch, fmt.Sprintf("oom-%d", seq))
	batch := base + ".batch"
	writeBatch(batch, []input{ins[0], ins[k]})
	defer os.Remove(batch)
	j, e := base+".j", base+".e"
	jp, _, wallKilled := m.runChild(t, batch, j, e, 0, "", "VERIF_C14_AS_HEADROOM_MB=1536")
	stderrB, _ := os.ReadFile(e)
	os.Remove(j)
	os.Remove(e)
	bound := t.allocLimitOf(ins[k].data)
	for _, rec := range jp.recs {
		if rec.idx != 1 {
			continue
		}
		if rec.alloc <= bound && rec.kind != 'p' {
			// completed within the allocation bound: the tight limit was the cause, not the decoder
			return "passed-with-loose-limit"
		}
		site := fn
		if a, ok := jp.allocAt[1]; ok {
			if p := strings.SplitN(a, " ", 2); len(p) == 2 && p[1] != "?" {
				site = p[1]
			}
		}
		m.mu.Lock()
		m.susKeys[key+"|confirmed"]++
		m.mu.Unlock()
		r.Violation(fmt.Sprintf("alloc target=%s site=%s", t.name, site), m.detail(t, chunk, k, ins[k], map[string]interface{}{
			"allocated_bytes": rec.alloc, "bound_bytes": bound, "note": "died with out of memory under the tight address-space limit, re-run under a loose one"}))
		r.SetAdd("alloc_sites", site)
		return "alloc-violation"
	}
	if wallKilled {
		r.Inconclusive("wall-clock watchdog during the loose-limit re-run of an out-of-memory exit, target " + t.name)
		return "inconclusive"
	}
	// died again (or was stopped by the CPU watchdog while touching the allocation)
	m.mu.Lock()
	m.susKeys[key+"|confirmed"]++
	m.mu.Unlock()
	if jp.last.cpuStop && jp.last.cpuAlloc > bound {
		r.Violation(fmt.Sprintf("alloc target=%s site=%s", t.name, fn), m.detail(t, chunk, k, ins[k], map[string]interface{}{
			"allocated_bytes_when_stopped": jp.last.cpuAlloc, "bound_bytes": bound, "note": "re-run under a loose address-space limit"}))
		r.SetAdd("alloc_sites", fn)
		return "alloc-violation"
	}
	class, fn2, _ := classifyFatal(string(stderrB))
	if fn2 == "" {
		fn2 = fn
	}
	r.Violation(fmt.Sprintf("fatal target=%s fn=%s class=%s", t.name, fn2, class), m.detail(t, chunk, k, ins[k], map[string]interface{}{
		"stderr_tail": tail(string(stderrB), 6000), "note": "second run, under a loose address-space limit (1.5 GiB head-room)"}))
	return "fatal-confirmed"
}

// afterGoroutine1 returns the stack of goroutine 1 from an all-goroutines dump.
func afterGoroutine1(dump string) string {
	i := strings.Index(dump, "goroutine 1 [")
	if i < 0 {
		return ""
	}
	blk := dump[i:]
	if j := strings.Index(blk, "\n"); j >= 0 {
		blk = blk[j+1:]
	}
	if j := strings.Index(blk, "\n\n"); j >= 0 {
		blk = blk[:j]
	}
	return blk
}

func tail(s string, n int) string {
	if len(s) > n {
		return s[:n/2] + "\n...\n" + s[len(s)-n/2:]
	}
	return s
}

type jrec struct {
	kind    byte // 'o','e','p'
	idx     int
	alloc   uint64
	cpu     int64
	wall    int64
	payload string
}

type jlast struct {
	started int // last index with an S line and no R line; -1 if none
	cpuStop  bool
	cpuUsed  int64
	cpuAlloc uint64
}

type jparsed struct {
	recs    []jrec
	last    jlast
	allocAt map[int]string // confirm mode: idx -> "bytes site"
}

// runChild executes one child and parses its journal.
func (m *monitor) runChild(t *target, batch, journal, errPath string, from int, mode string, extraEnv ...string) (jp jparsed, ended bool, wallKilled bool) {
	ctx, cancel := context.WithTimeout(context.Background(), m.wallMax)
	defer cancel()
	args := []string{"C14", "child", t.name, batch, journal, strconv.Itoa(from)}
	if mode != "" {
		args = append(args, mode)
	}
	cmd := exec.CommandContext(ctx, m.bin, args...)
	cmd.Env = append(os.Environ(), "GOMAXPROCS=2", "GORACE=halt_on_error=0 log_path="+errPath+".race")
	cmd.Env = append(cmd.Env, extraEnv...)
	ef, err := os.Create(errPath)
	if err == nil {
		cmd.Stderr = ef
		defer ef.Close()
	}
	cmd.Dir = m.scratch
	runErr := cmd.Run()
	if ctx.Err() != nil {
		wallKilled = true
	}
	_ = runErr
	jp = parseJournal(journal)
	jp.last.started = -1
	// determine the started-but-unfinished index
	f, err := os.Open(journal)
	if err == nil {
		defer f.Close()
		sc := bufio.NewScanner(f)
		sc.Buffer(make([]byte, 1<<20), 1<<24)
		open := -1
		for sc.Scan() {
			l := sc.Text()
			switch {
			case strings.HasPrefix(l, "S "):
				open, _ = strconv.Atoi(l[2:])
			case strings.HasPrefix(l, "R "):
				open = -1
			case strings.HasPrefix(l, "T "):
				p := strings.Fields(l)
				if len(p) >= 3 {
					jp.last.cpuStop = true
					jp.last.cpuUsed, _ = strconv.ParseInt(p[2], 10, 64)
					if len(p) >= 4 {
						jp.last.cpuAlloc, _ = strconv.ParseUint(p[3], 10, 64)
					}
					// the call may have ended while the watchdog was writing: the index of the T record decides
					if ti, err := strconv.Atoi(p[1]); err == nil {
						open = ti
					}
				}
			case l == "E":
				ended = true
			}
		}
		jp.last.started = open
	}
	if rf, _ := filepath.Glob(errPath + ".race*"); len(rf) > 0 {
		for _, p := range rf {
			os.Remove(p)
		}
	}
	return
}

func parseJournal(path string) (jp jparsed) {
	jp.allocAt = map[int]string{}
	f, err := os.Open(path)
	if err != nil {
		return
	}
	defer f.Close()
	sc := bufio.NewScanner(f)
	sc.Buffer(make([]byte, 1<<20), 1<<24)
	for sc.Scan() {
		l := sc.Text()
		if strings.HasPrefix(l, "A ") {
			p := strings.SplitN(l, " ", 4)
			if len(p) == 4 {
				i, _ := strconv.Atoi(p[1])
				jp.allocAt[i] = p[2] + " " + p[3]
			}
			continue
		}
		if !strings.HasPrefix(l, "R ") {
			continue
		}
		p := strings.SplitN(l, " ", 7)
		if len(p) < 7 {
			continue
		}
		var rec jrec
		rec.idx, _ = strconv.Atoi(p[1])
		rec.kind = p[2][0]
		rec.alloc, _ = strconv.ParseUint(p[3], 10, 64)
		rec.cpu, _ = strconv.ParseInt(p[4], 10, 64)
		rec.wall, _ = strconv.ParseInt(p[5], 10, 64)
		rec.payload = p[6]
		jp.recs = append(jp.recs, rec)
	}
	return
}

// consume applies the oracle to the finished calls of one child run.
func (m *monitor) consume(t *target, chunk int, ins []input, jp jparsed) jlast {
	r := m.r
	for _, rec := range jp.recs {
		if rec.idx < 0 || rec.idx >= len(ins) {
			continue
		}
		in := ins[rec.idx]
		r.Case()
		outcome := "ok"
		m.mu.Lock()
		s := m.st(t)
		s.Inputs++
		if rec.alloc > s.MaxAlloc {
			s.MaxAlloc = rec.alloc
		}
		if rec.cpu > s.MaxCPU {
			s.MaxCPU = rec.cpu
		}
		s.cpuUs += rec.cpu
		s.CPUMs = s.cpuUs / 1000
		if slow := intEnv("VERIF_C14_SLOW_MS", 0); slow > 0 && (rec.cpu > int64(slow)*1000 || rec.wall > int64(slow)*1000) {
			fmt.Fprintf(os.Stderr, "c14-slow: %s idx=%d wall=%dms cpu=%dms alloc=%d class=%s detail=%s len=%d\n", t.name, rec.idx, rec.wall/1000, rec.cpu/1000, rec.alloc, in.class, in.detail, len(in.data))
		}
		switch rec.kind {
		case 'o':
			s.OK++
		case 'e':
			s.Errors++
			c := rec.payload
			if _, ok := s.errCls[c]; !ok && len(s.errCls) >= 16 {
				c = "other"
			} else {
				s.errCls[c] = struct{}{}
			}
			outcome = "err:" + c
		case 'p':
			s.Panics++
		case 'v':
			s.Oracle++
		}
		m.mu.Unlock()
		if rec.kind == 'v' {
			var oe oracleErr
			if b, err := base64.StdEncoding.DecodeString(rec.payload); err == nil {
				json.Unmarshal(b, &oe)
			}
			outcome = "oracle:" + oe.Class
			r.Violation(fmt.Sprintf("%s target=%s class=%s", oe.Kind, t.name, oe.Class), m.detail(t, chunk, rec.idx, in, map[string]interface{}{"observed": oe.Detail}))
		}
		if rec.kind == 'p' {
			var pi panicInfo
			if b, err := base64.StdEncoding.DecodeString(rec.payload); err == nil {
				json.Unmarshal(b, &pi)
			}
			outcome = "panic:" + pi.Fn + ":" + pi.Class
			det := m.detail(t, chunk, rec.idx, in, map[string]interface{}{"panic": pi.Msg, "frames": pi.Frames})
			switch {
			case pi.Shim:
				r.Inconclusive("panic inside the gothemis stand-in (trusted base), target " + t.name + ": " + pi.Msg)
			case pi.Fn == "":
				r.Violation("infrastructure: harness panic target="+t.name+" class="+pi.Class, det)
			default:
				r.Violation(fmt.Sprintf("panic target=%s fn=%s class=%s", t.name, pi.Fn, pi.Class), det)
				r.SetAdd("panic_sites", pi.Fn+" "+pi.Class)
			}
		}
		outcomeAlloc := false
		_ = outcomeAlloc
		r.Distinct(t.name + "|" + outcome + "|" + in.class)
		if rec.alloc > t.allocLimitOf(in.data) && rec.kind != 'p' {
			// the child repeated the call between two memory-profile snapshots ("A" record)
			if a, ok := jp.allocAt[rec.idx]; ok {
				p := strings.SplitN(a, " ", 2)
				alloc2, _ := strconv.ParseUint(p[0], 10, 64)
				site := "?"
				if len(p) == 2 {
					site = p[1]
				}
				if alloc2 > t.allocLimitOf(in.data) {
					r.Violation(fmt.Sprintf("alloc target=%s site=%s", t.name, site), m.detail(t, chunk, rec.idx, in, map[string]interface{}{
						"allocated_bytes": rec.alloc, "allocated_bytes_on_repeat": alloc2, "bound_bytes": t.allocLimitOf(in.data)}))
					r.SetAdd("alloc_sites", site)
					outcomeAlloc = true
				} else {
					r.Count("alloc_over_bound_not_reproduced_on_repeat", 1)
				}
			} else {
				r.Count("alloc_over_bound_without_repeat_record", 1)
			}
		}
		if rec.cpu > t.cpuLimitOf(in.data) && rec.alloc <= t.allocLimitOf(in.data) {
			m.addSuspect(suspect{kind: "cpu", t: t, in: in, warm: ins[0], chunk: chunk, idx: rec.idx, seen: uint64(rec.cpu)})
		}
		kind := map[byte]string{'o': "ok", 'e': "error", 'p': "panic", 'v': "oracle"}[rec.kind]
		r.SampleN("s:"+t.group+":"+kind, 1, map[string]interface{}{"target": t.name, "outcome": outcome, "construction_class": in.class, "construction_detail": in.detail,
			"input": ev.Hex(in.data), "alloc_bytes": rec.alloc, "cpu_us": rec.cpu})
	}
	return jp.last
}

func (m *monitor) addSuspect(s suspect) {
	m.mu.Lock()
	defer m.mu.Unlock()
	key := s.kind + "|" + s.t.name
	if m.susKeys[key] >= 2 {
		m.r.Count("suspects_not_reconfirmed_same_class", 1)
		return
	}
	m.susKeys[key]++
	m.suspects = append(m.suspects, s)
}

// confirmSuspects re-runs allocation and CPU suspects alone in fresh children (after one warm-up call with a valid
// artefact so that lazy initialisation is not charged to the input).
func (m *monitor) confirmSuspects() {
	r := m.r
	sort.SliceStable(m.suspects, func(i, j int) bool {
		a, b := m.suspects[i], m.suspects[j]
		if a.t.name != b.t.name {
			return a.t.name < b.t.name
		}
		if a.chunk != b.chunk {
			return a.chunk < b.chunk
		}
		return a.idx < b.idx
	})
	var wg sync.WaitGroup
	sem := make(chan struct{}, 6)
	for i := range m.suspects {
		s := m.suspects[i]
		wg.Add(1)
		sem <- struct{}{}
		go func(i int) {
			defer wg.Done()
			defer func() { <-sem }()
			base := filepath.Join(m.scratch, fmt.Sprintf("confirm-%d", i))
			batch := base + ".batch"
			writeBatch(batch, []input{s.warm, s.in})
			defer os.Remove(batch)
			runs := 1
			if s.kind == "cpu" {
				runs = 2
			}
			confirmed := 0
			site := "?"
			var measured []uint64
			for k := 0; k < runs; k++ {
				j := fmt.Sprintf("%s.j%d", base, k)
				e := fmt.Sprintf("%s.e%d", base, k)
				mode := ""
				if s.kind == "alloc" {
					mode = "confirm"
				}
				jp, _, _ := m.runChild(s.t, batch, j, e, 0, mode)
				os.Remove(j)
				os.Remove(e)
				hit := false
				for _, rec := range jp.recs {
					if rec.idx != 1 {
						continue
					}
					if s.kind == "alloc" && rec.alloc > s.t.allocLimitOf(s.in.data) {
						hit = true
						measured = append(measured, rec.alloc)
						if a, ok := jp.allocAt[1]; ok {
							if p := strings.SplitN(a, " ", 2); len(p) == 2 {
								site = p[1]
							}
						}
					}
					if s.kind == "cpu" && rec.cpu > s.t.cpuLimitOf(s.in.data) {
						hit = true
						measured = append(measured, uint64(rec.cpu))
					}
				}
				if s.kind == "cpu" && jp.last.cpuStop && jp.last.started == 1 {
					hit = true
					measured = append(measured, uint64(jp.last.cpuUsed))
				}
				if hit {
					confirmed++
				}
			}
			det := m.detail(s.t, s.chunk, s.idx, s.in, map[string]interface{}{"first_measurement": s.seen, "stacks_at_cpu_limit": s.note, "isolated_measurements": measured, "bound": map[string]interface{}{
				"alloc_bytes": s.t.allocLimitOf(s.in.data), "cpu_us": s.t.cpuLimitOf(s.in.data)}})
			switch {
			case s.kind == "alloc" && confirmed == 1:
				r.Violation(fmt.Sprintf("alloc target=%s site=%s", s.t.name, site), det)
				r.SetAdd("alloc_sites", site)
			case s.kind == "alloc":
				r.Count("alloc_suspect_not_reproduced_in_isolation", 1)
			case confirmed == 2:
				r.Violation(fmt.Sprintf("blow-up target=%s class=%s", s.t.name, s.in.class), det)
			default:
				r.Inconclusive(fmt.Sprintf("CPU bound exceeded once but not confirmed by two isolated re-runs: target %s class %s (%d of 2)", s.t.name, s.in.class, confirmed))
			}
		}(i)
	}
	wg.Wait()
}
