package c03

// Extension / insertion workload and the searchable-column clause of the oracle.
//
// The catalogue of c03.go extends values only at their end and never combines an extension with a swapped search hash;
// nothing is inserted INSIDE a value (the property's "extension" is any growth of the stored bytes: "every appended suffix",
// "parts of two values spliced together"). This file adds, for every stored form (raw / serialized, AcraStruct / AcraBlock,
// with and without search hash) and at every reveal entry point that admits the form:
//
//   insert:*@<field>       bytes inserted in front of every field of the value (1 byte at every field boundary; at the
//                          boundaries hash|envelope and container header|envelope also 8 bytes, tag bytes, a search hash
//                          and a whole second envelope)
//   prepend:*              bytes in front of the whole value (1 byte, 8 bytes, the search hash of another value)
//   swaphash(..)+<ext>     a swapped search hash COMBINED with an extension: suffix of 1 / 8 bytes, second value appended,
//                          1 byte / 8 bytes / the value's own (right) hash inserted between the swapped hash and the envelope
//   column-session:*       the column pipeline as ONE connection uses it: the same subscriber objects have already processed
//                          an intact value of the column when the modified value arrives (hmac.Processor keeps the hash, the
//                          raw value and the matcher between columns)
//
// Oracle clause added (column path, searchable column): a value that still begins with a well-formed search hash is a
// searchable value of that column; "revealing it either fails or yields exactly the original plaintext" and "a damaged value
// is handed to the client unchanged" leave two outcomes: the stored bytes unchanged, or exactly the plaintext. The rule
// "correctly revealed with framing intact" (an envelope revealed in place between untouched bytes) stays available where the
// leading bytes are NOT a search hash (plain columns; a damaged hash-function byte): there the bytes around an envelope are
// framing (C01's subject) and are not covered by any hash.

import (
	"bytes"
	"fmt"
	"strings"

	"verif/harness/internal/ev"
	"verif/harness/internal/gen"
	"verif/harness/internal/rig/envrig"
)

// hashFnSHA256 is the documented function byte of a search hash (hmac/hash.go: numbers from 127 upwards; one function).
const hashFnSHA256 = 0x7f

// carriesHash: by the documented layout the value begins with a search hash (function byte + 32 bytes).
func carriesHash(m []byte) bool { return len(m) >= 33 && m[0] == hashFnSHA256 }

// searchColumn: the entry point is the column pipeline under a setting with `searchable: true`.
func searchColumn(ep entry) bool { return ep.column && strings.Contains(ep.name, ":search_") }

// sessionEntries are the column entry points in which the subscribers have already served an intact value of the artefact.
func sessionEntries(a *artefact) []entry {
	mk := func(col string) entry {
		intact := append([]byte{}, a.y...)
		return entry{"column-session:" + col, true, func(e *envrig.Env, id, m []byte) ([]byte, error) {
			p := e.NewReadPipeline(false)
			if _, _, err := p.OnColumn(id, e.Setting(col), intact); err != nil {
				return nil, fmt.Errorf("intact value before the modified one: %w", err)
			}
			out, _, err := p.OnColumn(id, e.Setting(col), m)
			return out, err
		}}
	}
	return []entry{mk("search_" + a.fam), mk("plain_" + a.fam)}
}

func insertAt(y []byte, off int, ins []byte) []byte {
	return gen.Cat(y[:off], ins, y[off:])
}

// generateExtensions emits the insertion / prepend / swapped-hash-plus-extension classes of a.
func generateExtensions(r *ev.Run, a *artefact, d donors, rng *gen.Rand, emit func(mutation)) {
	y := a.y
	rs := a.regions()
	orig := [][]byte{a.x}
	both := [][]byte{a.x, d.same.x}
	otherHash := d.same.y[:33] // only meaningful for searchable donors; for plain artefacts a hash is computed below
	if !a.search {
		otherHash = searchHash(a.env, a.owner, d.same.x)
	}

	ownHash := searchHash(a.env, a.owner, a.x)
	// junk never begins with the hash-function byte: eight random bytes would otherwise read as the start of a search hash
	// (a framing prefix that parses as a hash is C01's known finding, not a modification of this value)
	junk := func(n int) []byte {
		b := gen.Bytes(rng, n)
		if b[0] == hashFnSHA256 {
			b[0] = 0x7e
		}
		return b
	}

	// 1. one byte in front of every field (offset 0 is "prepend", handled below)
	for _, rg := range rs {
		if rg.off == 0 {
			continue
		}
		b := byte(0)
		if rng.Intn(2) == 1 {
			b = y[rg.off] // doubles the first byte of the field (a tag byte, a length byte)
		}
		emit(mutation{class: "insert:1byte@" + rg.name, desc: fmt.Sprintf("byte %#02x inserted at %d", b, rg.off), m: insertAt(y, rg.off, []byte{b}), allow: orig})
	}
	// 2. the boundaries in front of the (serialized / raw) envelope: richer payloads
	type boundary struct {
		name string
		off  int
	}
	var bs []boundary
	if a.search {
		bs = append(bs, boundary{"hash|envelope", 33})
	}
	if a.container {
		bs = append(bs, boundary{"container-header|envelope", a.envOff()})
	}
	for _, b := range bs {
		emit(mutation{class: "insert:8bytes@" + b.name, desc: "8 random bytes", m: insertAt(y, b.off, junk(8)), allow: orig})
		emit(mutation{class: "insert:tagbytes@" + b.name, desc: "envelope tag bytes", m: insertAt(y, b.off, []byte(`%%%""""""""`)), allow: orig})
		emit(mutation{class: "insert:hash@" + b.name, desc: "search hash of another value of the client", m: insertAt(y, b.off, otherHash), allow: orig})
		emit(mutation{class: "insert:own-hash@" + b.name, desc: "the value's own search hash once more", m: insertAt(y, b.off, ownHash), allow: orig})
		emit(mutation{class: "insert:second-envelope(same-client)@" + b.name, desc: "raw envelope of the same client", m: insertAt(y, b.off, d.same.raw()), allow: both})
		emit(mutation{class: "insert:second-envelope(other-client)@" + b.name, desc: "raw envelope of another client", m: insertAt(y, b.off, d.other.raw()), allow: orig})
	}
	// 3. bytes in front of the whole value
	emit(mutation{class: "prepend:1byte", desc: "prefix 00", m: gen.Cat([]byte{0}, y), allow: orig})
	emit(mutation{class: "prepend:8bytes", desc: "8 random bytes", m: gen.Cat(junk(8), y), allow: orig})
	if bytes.Equal(otherHash, ownHash) {
		r.Count("noop_modifications_skipped", 1) // one-byte plaintexts: the donor has the same plaintext, its hash is the right one
	} else {
		emit(mutation{class: "prepend:hash", desc: "search hash of another value in front of the whole value", m: gen.Cat(otherHash, y), allow: orig, hashSwapped: true})
	}

	// 4. a swapped search hash combined with an extension
	if a.search {
		own := y[:33]
		for _, dn := range []struct {
			tag string
			b   *artefact
		}{{"same-client", d.same}, {"other-client", d.other}, {"same-client,other-len", d.diff}} {
			h := dn.b.y[:33]
			rest := y[33:]
			if bytes.Equal(h, own) {
				r.Count("noop_modifications_skipped", 7) // same plaintext (one-byte plaintexts): not a swapped hash
				continue
			}
			for _, v := range []struct {
				ext string
				m   []byte
			}{
				{"append:1byte", gen.Cat(h, rest, []byte{0})},
				{"append:8bytes", gen.Cat(h, rest, junk(8))},
				{"append:second-envelope", gen.Cat(h, rest, dn.b.y)},
				{"append:second-raw-envelope", gen.Cat(h, rest, dn.b.raw())},
				{"insert:1byte@hash|envelope", gen.Cat(h, []byte{0}, rest)},
				{"insert:8bytes@hash|envelope", gen.Cat(h, junk(8), rest)},
				{"insert:own-hash@hash|envelope", gen.Cat(h, own, rest)},
			} {
				emit(mutation{class: "swaphash(" + dn.tag + ")+" + v.ext, desc: "hash of another value in front of this envelope, and " + v.ext, m: v.m, allow: nil, hashSwapped: true})
			}
		}
	}
}

// extensionClass: the modification grows the stored value (used for the coverage matrix of this workload).
func extensionClass(class string) bool {
	return strings.HasPrefix(class, "append:") || strings.HasPrefix(class, "insert:") || strings.HasPrefix(class, "prepend:") || strings.Contains(class, ")+")
}

// classFamily shortens a class to the family recorded in the coverage matrix.
func classFamily(class string) string {
	switch {
	case strings.Contains(class, ")+append"):
		return "swaphash+append"
	case strings.Contains(class, ")+insert"):
		return "swaphash+insert"
	case strings.HasPrefix(class, "swaphash"):
		return "swaphash"
	case strings.HasPrefix(class, "insert:") && strings.HasSuffix(class, "@hash|envelope"):
		return "insert@hash|envelope"
	}
	return class[:strings.IndexAny(class+":", ":@=(")]
}
