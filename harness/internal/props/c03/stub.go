// Package c03 will hold the monitor of property C03 (not built yet; nothing is registered).
package c03
