// Package c03 monitors "any modification of a protected value is detected, never mis-decrypted".
//
// Level fault_enumeration: for a fixed set of valid protected values (artefacts) a finite space of modifications is
// enumerated (thorough) or sampled by fixed quotas (quick); every modified value is handed to every reveal entry
// point that admits the artefact's format, real code, under recover; the oracle is the property's disjunction
// "fails | exactly the original plaintext | (column path) handed back unchanged".
package c03

import (
	"bytes"
	"context"
	"fmt"
	"runtime/debug"
	"sort"
	"strings"
	"sync"
	"time"

	"github.com/cossacklabs/acra/acrablock"
	"github.com/cossacklabs/acra/acrastruct"
	"github.com/cossacklabs/acra/crypto"
	"github.com/cossacklabs/acra/hmac"
	"github.com/cossacklabs/acra/keystore"

	"verif/harness/internal/ev"
	"verif/harness/internal/gen"
	"verif/harness/internal/props"
	"verif/harness/internal/rig/envrig"
	"verif/harness/internal/rig/ksrig"
)

func init() { props.Register("C03", props.Monitor{Level: "fault_enumeration", Run: Run}) }

var bg = context.Background()

// ---------------------------------------------------------------------------------------------
// artefacts

type artefact struct {
	env       *envrig.Env
	owner     []byte
	fam       string // as | ab
	kind      string // raw-as | c-as | h+raw-as | h+c-as | raw-ab | ...
	search    bool
	container bool
	L         int
	x, y      []byte
}

func (a *artefact) hashLen() int {
	if a.search {
		return 33
	}
	return 0
}

// envOff is the offset of the raw envelope inside y.
func (a *artefact) envOff() int {
	o := a.hashLen()
	if a.container {
		o += 12
	}
	return o
}

func kindName(fam string, container, search bool) string {
	k := "raw-" + fam
	if container {
		k = "c-" + fam
	}
	if search {
		k = "h+" + k
	}
	return k
}

func envelopeID(fam string) byte {
	if fam == "as" {
		return crypto.AcraStructEnvelopeID
	}
	return crypto.AcraBlockEnvelopeID
}

func rawEnvelope(e *envrig.Env, owner []byte, fam string, x []byte) []byte {
	if fam == "as" {
		pub, err := e.KS.GetClientIDEncryptionPublicKey(owner)
		if err != nil {
			panic(err)
		}
		y, err := acrastruct.CreateAcrastruct(x, pub, nil)
		if err != nil {
			panic(err)
		}
		return y
	}
	k, err := e.KS.GetClientIDSymmetricKey(owner)
	if err != nil {
		panic(err)
	}
	y, err := acrablock.CreateAcraBlock(x, k, nil)
	if err != nil {
		panic(err)
	}
	return y
}

func searchHash(e *envrig.Env, owner, x []byte) []byte {
	k, err := e.KS.GetHMACSecretKey(owner)
	if err != nil {
		panic(err)
	}
	return hmac.GenerateHMAC(k, x)
}

// assemble wraps a raw envelope as the artefact kind demands.
func assemble(e *envrig.Env, owner []byte, fam string, container, search bool, x, raw []byte) []byte {
	y := raw
	if container {
		var err error
		y, err = crypto.SerializeEncryptedData(raw, envelopeID(fam))
		if err != nil {
			panic(err)
		}
	}
	if search {
		y = gen.Cat(searchHash(e, owner, x), y)
	}
	return y
}

func newArtefact(e *envrig.Env, owner []byte, fam string, container, search bool, x []byte) *artefact {
	raw := rawEnvelope(e, owner, fam, x)
	return &artefact{env: e, owner: owner, fam: fam, kind: kindName(fam, container, search), search: search, container: container,
		L: len(x), x: x, y: assemble(e, owner, fam, container, search, x, raw)}
}

func (a *artefact) raw() []byte { return a.y[a.envOff():] }

// ---------------------------------------------------------------------------------------------
// reveal entry points

type entry struct {
	name   string
	column bool
	f      func(e *envrig.Env, id, m []byte) ([]byte, error)
}

func column(name string) entry {
	return entry{"column:" + name, true, func(e *envrig.Env, id, m []byte) ([]byte, error) {
		out, _, err := e.NewReadPipeline(false).OnColumn(id, e.Setting(name), m)
		return out, err
	}}
}

func handler(fam string) crypto.ContainerHandler {
	h, err := crypto.GetHandlerByEnvelopeID(envelopeID(fam))
	if err != nil {
		panic(err)
	}
	return h
}

func splitHash(m []byte) (hash, data []byte) {
	hl := hmac.GetDefaultHashSize()
	if len(m) < hl {
		hl = len(m)
	}
	return append([]byte{}, m[:hl]...), append([]byte{}, m[hl:]...)
}

// entries returns every reveal entry point that admits an artefact of the family (plain or searchable form).
func entries(fam string, search bool) []entry {
	var eps []entry
	reg := entry{"registry.Process", false, func(e *envrig.Env, id, m []byte) ([]byte, error) { return e.Registry.Process(m, e.ProcCtx(id)) }}
	regH := entry{"registry.DecryptWithHandler", false, func(e *envrig.Env, id, m []byte) ([]byte, error) {
		return e.Registry.DecryptWithHandler(handler(fam), m, e.ProcCtx(id))
	}}
	hashProc := entry{"hmac.NewHashProcessor(registry)", false, func(e *envrig.Env, id, m []byte) ([]byte, error) {
		return hmac.NewHashProcessor(e.Registry, e.KS).Process(m, e.ProcCtx(id))
	}}
	var lib, tr, libSearch, trSearchJoined, trSearchSplit entry
	if fam == "as" {
		lib = entry{"acrastruct.DecryptRotatedAcrastruct", false, func(e *envrig.Env, id, m []byte) ([]byte, error) {
			privs, err := e.KS.GetServerDecryptionPrivateKeys(id)
			if err != nil {
				return nil, err
			}
			return acrastruct.DecryptRotatedAcrastruct(m, privs, nil)
		}}
		tr = entry{"translator.Decrypt", false, func(e *envrig.Env, id, m []byte) ([]byte, error) { return e.Translator.Decrypt(bg, m, id, nil) }}
		libSearch = entry{"hmac.DecryptRotatedSearchableAcraStruct", false, func(e *envrig.Env, id, m []byte) ([]byte, error) {
			privs, err := e.KS.GetServerDecryptionPrivateKeys(id)
			if err != nil {
				return nil, err
			}
			hk, err := e.KS.GetHMACSecretKey(id)
			if err != nil {
				return nil, err
			}
			return hmac.DecryptRotatedSearchableAcraStruct(m, hk, privs, nil)
		}}
		trSearchJoined = entry{"translator.DecryptSearchable(hash‖data)", false, func(e *envrig.Env, id, m []byte) ([]byte, error) {
			return e.Translator.DecryptSearchable(bg, m, nil, id, nil)
		}}
		trSearchSplit = entry{"translator.DecryptSearchable(data,hash)", false, func(e *envrig.Env, id, m []byte) ([]byte, error) {
			h, d := splitHash(m)
			return e.Translator.DecryptSearchable(bg, d, h, id, nil)
		}}
	} else {
		lib = entry{"acrablock.Decrypt", false, func(e *envrig.Env, id, m []byte) ([]byte, error) {
			ks, err := e.KS.GetClientIDSymmetricKeys(id)
			if err != nil {
				return nil, err
			}
			blk, err := acrablock.NewAcraBlockFromData(m)
			if err != nil {
				return nil, err
			}
			return blk.Decrypt(ks, nil)
		}}
		tr = entry{"translator.DecryptSym", false, func(e *envrig.Env, id, m []byte) ([]byte, error) { return e.Translator.DecryptSym(bg, m, id, nil) }}
		libSearch = entry{"hmac.DecryptRotatedSearchableAcraBlock", false, func(e *envrig.Env, id, m []byte) ([]byte, error) {
			ks, err := e.KS.GetClientIDSymmetricKeys(id)
			if err != nil {
				return nil, err
			}
			hk, err := e.KS.GetHMACSecretKey(id)
			if err != nil {
				return nil, err
			}
			return hmac.DecryptRotatedSearchableAcraBlock(m, hk, ks, nil)
		}}
		trSearchJoined = entry{"translator.DecryptSymSearchable(hash‖data)", false, func(e *envrig.Env, id, m []byte) ([]byte, error) {
			return e.Translator.DecryptSymSearchable(bg, m, nil, id, nil)
		}}
		trSearchSplit = entry{"translator.DecryptSymSearchable(data,hash)", false, func(e *envrig.Env, id, m []byte) ([]byte, error) {
			h, d := splitHash(m)
			return e.Translator.DecryptSymSearchable(bg, d, h, id, nil)
		}}
	}
	if !search {
		eps = []entry{lib, tr, reg, regH, hashProc, libSearch, column("plain_" + fam), column("search_" + fam)}
	} else {
		eps = []entry{trSearchJoined, trSearchSplit, hashProc, libSearch, column("search_" + fam), column("plain_" + fam)}
	}
	return eps
}

// ---------------------------------------------------------------------------------------------
// mutations

type mutation struct {
	class string   // stable descriptor class (goes into signatures / distinct keys)
	desc  string   // full descriptor (detail)
	m     []byte   // the modified value
	allow [][]byte // plaintexts a successful reveal may return (original; for a splice: either donor)
	// hashSwapped: the value carries ANOTHER value's search hash: search-aware entry points must not return plaintext at all
	hashSwapped bool
}

type donors struct {
	same  *artefact // same client, same length, different plaintext
	other *artefact // other client, same length
	diff  *artefact // same client, different length
}

func flipBit(y []byte, bit int) []byte {
	m := append([]byte{}, y...)
	m[bit/8] ^= 1 << uint(bit%8)
	return m
}

// generate emits all modifications of a (thorough) or the quota-sampled subset (quick).
func generate(r *ev.Run, a *artefact, d donors, rng *gen.Rand, fullFieldEdits bool, emit func(mutation)) {
	y := a.y
	rs := a.regions()
	orig := [][]byte{a.x}
	thorough := r.Thorough()

	// 1. single bit flips
	if thorough {
		for bit := 0; bit < len(y)*8; bit++ {
			rg := regionAt(rs, bit/8)
			emit(mutation{class: "bitflip@" + rg.name, desc: fmt.Sprintf("bit %d (byte %d)", bit, bit/8), m: flipBit(y, bit), allow: orig})
		}
	} else {
		// one seeded bit of every structural byte region (non-opaque) plus a fixed quota of other positions
		seen := map[int]bool{}
		for _, rg := range rs {
			if rg.class == "opaque" {
				continue
			}
			for k := 0; k < 2; k++ {
				seen[(rg.off+rng.Intn(rg.n))*8+rng.Intn(8)] = true
			}
		}
		for _, rg := range rs { // one bit in every region, so that every field is hit at least once
			seen[(rg.off+rng.Intn(rg.n))*8+rng.Intn(8)] = true
		}
		for len(seen) < 56 {
			seen[rng.Intn(len(y)*8)] = true
		}
		bits := make([]int, 0, len(seen))
		for b := range seen {
			bits = append(bits, b)
		}
		sort.Ints(bits)
		for _, bit := range bits {
			rg := regionAt(rs, bit/8)
			emit(mutation{class: "bitflip@" + rg.name, desc: fmt.Sprintf("bit %d (byte %d)", bit, bit/8), m: flipBit(y, bit), allow: orig})
		}
	}

	// 2. truncations (every length 0..len-1; quick: every region boundary -1/0/+1 and a quota of others)
	truncClass := func(n int) string {
		if n == 0 {
			return "truncate@empty"
		}
		return "truncate@" + regionAt(rs, n-1).name // last byte kept
	}
	if thorough {
		for n := 0; n < len(y); n++ {
			emit(mutation{class: truncClass(n), desc: fmt.Sprintf("keep %d of %d bytes", n, len(y)), m: append([]byte{}, y[:n]...), allow: orig})
		}
	} else {
		seen := map[int]bool{0: true, 1: true, len(y) - 1: true}
		for _, rg := range rs {
			// one byte short of a region boundary, the boundary, one past it (a parser that needs "size + 1" bytes and asks for "size")
			for _, n := range []int{rg.off - 1, rg.off, rg.off + 1} {
				if n >= 0 && n < len(y) {
					seen[n] = true
				}
			}
		}
		for i := 0; i < 6; i++ {
			seen[rng.Intn(len(y))] = true
		}
		ns := make([]int, 0, len(seen))
		for n := range seen {
			ns = append(ns, n)
		}
		sort.Ints(ns)
		for _, n := range ns {
			emit(mutation{class: truncClass(n), desc: fmt.Sprintf("keep %d of %d bytes", n, len(y)), m: append([]byte{}, y[:n]...), allow: orig})
		}
	}

	// 3. appended suffixes
	emit(mutation{class: "append:1byte", desc: "suffix 00", m: gen.Cat(y, []byte{0}), allow: orig})
	emit(mutation{class: "append:1byte", desc: "suffix 22", m: gen.Cat(y, []byte{'"'}), allow: orig})
	emit(mutation{class: "append:8bytes", desc: "8 random bytes", m: gen.Cat(y, gen.Bytes(rng, 8)), allow: orig})
	emit(mutation{class: "append:8bytes", desc: "8 tag bytes", m: gen.Cat(y, []byte(`""""""""`)), allow: orig})
	emit(mutation{class: "append:second-envelope(same-client)", desc: "whole second value appended", m: gen.Cat(y, d.same.y), allow: [][]byte{a.x, d.same.x}})
	emit(mutation{class: "append:second-envelope(other-client)", desc: "whole value of another client appended", m: gen.Cat(y, d.other.y), allow: [][]byte{a.x}})
	emit(mutation{class: "append:second-raw-envelope(same-client)", desc: "raw envelope appended", m: gen.Cat(y, d.same.raw()), allow: [][]byte{a.x, d.same.x}})

	// 4. field edits: every length field to the boundary values
	if fullFieldEdits || thorough {
		for _, rg := range rs {
			if rg.class != "len64" && rg.class != "len32" && rg.class != "len16" {
				continue
			}
			rel := getField(y, rg)
			for _, v := range lengthValues(rel, rg.n) {
				m := append([]byte{}, y...)
				putField(m, rg, v)
				emit(mutation{class: fmt.Sprintf("field:%s=%s", rg.name, lengthValueName(v, rel)), desc: fmt.Sprintf("%s at [%d:%d] %#x -> %#x", rg.name, rg.off, rg.off+rg.n, rel, v), m: m, allow: orig})
			}
		}
	}
	// type / backend / hash-function bytes and the container envelope id to all 256 values (quick: 24 values incl. the neighbours)
	for _, rg := range rs {
		if rg.class != "type" && rg.class != "envid" && rg.class != "hashfn" {
			continue
		}
		vals := map[int]bool{}
		if thorough {
			for v := 0; v < 256; v++ {
				vals[v] = true
			}
		} else {
			for _, v := range []int{0, 1, 2, 0x7e, 0x7f, 0x80, 0xEF, 0xF0, 0xF1, 0xF2, 0xFE, 0xFF, int(y[rg.off]) ^ 1, int(y[rg.off]) ^ 0x80} {
				vals[v] = true
			}
			for len(vals) < 24 {
				vals[rng.Intn(256)] = true
			}
		}
		vs := make([]int, 0, len(vals))
		for v := range vals {
			vs = append(vs, v)
		}
		sort.Ints(vs)
		for _, v := range vs {
			if byte(v) == y[rg.off] {
				continue
			}
			m := append([]byte{}, y...)
			m[rg.off] = byte(v)
			allow := orig
			cls := fmt.Sprintf("byte:%s=*", rg.name)
			if rg.class == "envid" && (byte(v) == crypto.AcraStructEnvelopeID || byte(v) == crypto.AcraBlockEnvelopeID) {
				cls = fmt.Sprintf("byte:%s=other-envelope-id", rg.name)
			}
			emit(mutation{class: cls, desc: fmt.Sprintf("%s at %d: %#x -> %#x", rg.name, rg.off, y[rg.off], v), m: m, allow: allow})
		}
	}

	// 5. splices between two valid values (same client / other client; same length / other length)
	for _, dn := range []struct {
		tag string
		b   *artefact
	}{{"same-client,same-len", d.same}, {"other-client,same-len", d.other}, {"same-client,other-len", d.diff}} {
		allow := [][]byte{a.x}
		if bytes.Equal(dn.b.owner, a.owner) {
			allow = append(allow, dn.b.x)
		} else {
			// evaluated under a's owner: the other client's plaintext must not come out either
		}
		for _, sp := range splices(a, dn.b) {
			emit(mutation{class: "splice:" + sp.name + "(" + dn.tag + ")", desc: sp.name, m: sp.m, allow: allow})
		}
	}

	// 6. swapped search hashes
	if a.search {
		for _, dn := range []struct {
			tag string
			b   *artefact
		}{{"same-client", d.same}, {"other-client", d.other}, {"same-client,other-len", d.diff}} {
			m := gen.Cat(dn.b.y[:33], a.y[33:])
			emit(mutation{class: "swaphash(" + dn.tag + ")", desc: "hash of another value in front of this envelope", m: m, allow: nil, hashSwapped: true})
		}
	}
}

type spliced struct {
	name string
	m    []byte
}

// splices builds the part exchanges of two artefacts of the same kind: header / key block / payload.
func splices(a, b *artefact) []spliced {
	ra, rb := a.raw(), b.raw()
	var parts func(raw []byte) [3][]byte
	if a.fam == "as" {
		// tag+public key | wrapped key | length+payload
		parts = func(raw []byte) [3][]byte { return [3][]byte{raw[:53], raw[53:137], raw[137:]} }
	} else {
		// header (tag, rest length, types, key id, key length) | sealed key | payload
		parts = func(raw []byte) [3][]byte { return [3][]byte{raw[:18], raw[18:94], raw[94:]} }
	}
	pa, pb := parts(ra), parts(rb)
	names := [3]string{"header", "keyblock", "payload"}
	var out []spliced
	for mask := 1; mask < 7; mask++ { // which parts come from b
		var raw []byte
		var nm []string
		for i := 0; i < 3; i++ {
			if mask&(1<<uint(i)) != 0 {
				raw = append(raw, pb[i]...)
				nm = append(nm, names[i]+"=B")
			} else {
				raw = append(raw, pa[i]...)
				nm = append(nm, names[i]+"=A")
			}
		}
		name := strings.Join(nm, ",")
		variants := [][]byte{raw}
		if a.fam == "ab" && len(ra) != len(rb) {
			// also with the rest-length field made consistent with the new total length
			fixed := append([]byte{}, raw...)
			putField(fixed, region{off: 4, n: 8}, uint64(len(fixed)-4))
			variants = append(variants, fixed)
		}
		for vi, v := range variants {
			nme := name
			if vi == 1 {
				nme += ",restlen-fixed"
			}
			m := v
			if a.container {
				c, err := crypto.SerializeEncryptedData(v, envelopeID(a.fam))
				if err != nil {
					continue
				}
				m = c
			}
			if a.search {
				m = gen.Cat(a.y[:33], m)
			}
			out = append(out, spliced{nme, m})
		}
	}
	if a.container {
		// container header of b around the envelope of a (and the reverse is covered when roles swap)
		o := a.hashLen()
		m := gen.Cat(a.y[:o], b.y[b.hashLen():b.hashLen()+12], ra)
		out = append(out, spliced{"container-header=B,envelope=A", m})
	}
	return out
}

// keyIDSweep emits the AcraBlock key-id field set to all 65 536 values (thorough) or 512 sampled values (quick).
func keyIDSweep(r *ev.Run, a *artefact, rng *gen.Rand, emit func(mutation)) {
	off := a.envOff() + 13
	cur := int(a.y[off]) | int(a.y[off+1])<<8
	put := func(v int) {
		if v == cur {
			return
		}
		m := append([]byte{}, a.y...)
		m[off] = byte(v)
		m[off+1] = byte(v >> 8)
		emit(mutation{class: "keyid=*", desc: fmt.Sprintf("key id %#04x -> %#04x", cur, v), m: m, allow: [][]byte{a.x}})
	}
	if r.Thorough() {
		for v := 0; v < 65536; v++ {
			put(v)
		}
		return
	}
	seen := map[int]bool{0: true, 1: true, 0xffff: true, cur ^ 1: true, cur ^ 0x8000: true, (cur + 1) & 0xffff: true}
	for len(seen) < 512 {
		seen[rng.Intn(65536)] = true
	}
	vs := make([]int, 0, len(seen))
	for v := range seen {
		vs = append(vs, v)
	}
	sort.Ints(vs)
	for _, v := range vs {
		put(v)
	}
}

// ---------------------------------------------------------------------------------------------
// oracle

func commonPrefix(a, b []byte) int {
	n := 0
	for n < len(a) && n < len(b) && a[n] == b[n] {
		n++
	}
	return n
}

// minReplaced is the smallest number of input bytes a revealed plaintext may stand for (smallest envelope is 139 bytes).
const minReplaced = 100

func commonSuffix(a, b []byte) int {
	n := 0
	for n < len(a) && n < len(b) && a[len(a)-1-n] == b[len(b)-1-n] {
		n++
	}
	return n
}

// derivable reports whether out is m with one or two disjoint regions (each >= minReplaced input bytes) replaced by
// allowed plaintexts and every other byte intact: "the correctly revealed value with framing intact".
// out = m[:i1] ‖ p1 ‖ m[j1:]                                  (one region)
// out = m[:i1] ‖ p1 ‖ m[j1:j1+s] ‖ p2 ‖ m[j2:]                (two regions)
func derivable(out, m []byte, allow [][]byte, k int) bool {
	if bytes.Equal(out, m) {
		return true
	}
	lcp, lcs := commonPrefix(out, m), commonSuffix(out, m)
	for _, p1 := range allow {
		for i1 := 0; i1 <= lcp && i1+len(p1) <= len(out); i1++ {
			if !bytes.Equal(out[i1:i1+len(p1)], p1) {
				continue
			}
			// one region: the tail of out after p1 is a suffix of m
			t := len(out) - i1 - len(p1)
			if j1 := len(m) - t; t <= lcs && j1 >= i1+minReplaced {
				return true
			}
			if k < 2 {
				continue
			}
			for _, p2 := range allow {
				for i2 := i1 + len(p1); i2+len(p2) <= len(out); i2++ {
					if !bytes.Equal(out[i2:i2+len(p2)], p2) {
						continue
					}
					t2 := len(out) - i2 - len(p2)
					if t2 > lcs {
						continue
					}
					j2 := len(m) - t2
					mid := out[i1+len(p1) : i2]
					lo, hi := i1+minReplaced, j2-minReplaced // the middle segment lies in m[lo:hi]
					if lo > hi || hi > len(m) || hi-lo < len(mid) {
						continue
					}
					if bytes.Contains(m[lo:hi], mid) {
						return true
					}
				}
			}
		}
	}
	return false
}

// Derivable is the framing rule for other layers of this property: out is m itself or m with one region replaced by plain.
func Derivable(out, m, plain []byte) bool { return derivable(out, m, [][]byte{plain}, 1) }

// panicSite extracts the innermost Acra function below the panic from a stack dump.
func panicSite(stack string) string {
	lines := strings.Split(stack, "\n")
	after := false
	first := ""
	for _, l := range lines {
		if strings.HasPrefix(l, "panic(") {
			after = true
			continue
		}
		if !after || strings.HasPrefix(l, "\t") || strings.HasPrefix(l, " ") {
			continue
		}
		if i := strings.LastIndex(l, "("); i > 0 {
			l = l[:i]
		}
		if first == "" {
			first = l
		}
		if strings.Contains(l, "github.com/cossacklabs/acra/") {
			return strings.TrimPrefix(l, "github.com/cossacklabs/acra/")
		}
	}
	return first
}

func panicKind(p interface{}) string {
	s := fmt.Sprint(p)
	switch {
	case strings.Contains(s, "slice bounds out of range"):
		return "slice-bounds"
	case strings.Contains(s, "index out of range"):
		return "index-out-of-range"
	case strings.Contains(s, "nil pointer"):
		return "nil-deref"
	case strings.Contains(s, "makeslice") || strings.Contains(s, "len out of range"):
		return "makeslice"
	}
	if len(s) > 40 {
		s = s[:40]
	}
	return s
}

func callDirect(ep entry, e *envrig.Env, id, m []byte) (out []byte, err error, pan, site string) {
	defer func() {
		if p := recover(); p != nil {
			st := string(debug.Stack())
			pan = fmt.Sprintf("%v\n%s", p, st)
			site = panicKind(p) + "@" + panicSite(st)
		}
	}()
	out, err = ep.f(e, id, append([]byte{}, m...))
	return
}

// watchdog is a generous outer limit for ONE reveal call (which normally takes microseconds). Its firing never decides
// the property: the case is recorded as inconclusive (the stuck goroutine is abandoned and ends with the process).
const watchdog = 30 * time.Second

type callResult struct {
	out       []byte
	err       error
	pan, site string
}

func call(ep entry, e *envrig.Env, id, m []byte) (out []byte, err error, pan, site string, timedOut bool) {
	done := make(chan callResult, 1)
	go func() {
		var c callResult
		c.out, c.err, c.pan, c.site = callDirect(ep, e, id, m)
		done <- c
	}()
	t := time.NewTimer(watchdog)
	defer t.Stop()
	select {
	case c := <-done:
		return c.out, c.err, c.pan, c.site, false
	case <-t.C:
		return nil, nil, "", "", true
	}
}

var (
	stuckMu  sync.Mutex
	stuck    = map[string]bool{}
	benignMu sync.Mutex
	benign   = map[string]int{}
)

// noteBenign records a modification class that left the revealed plaintext intact (not a violation; written to evidence).
func noteBenign(r *ev.Run, class, ep string) {
	r.SetAdd("mutations_not_affecting_the_revealed_plaintext", class+"|"+ep)
	benignMu.Lock()
	benign[class+" @ "+ep]++
	benignMu.Unlock()
}

func in(set [][]byte, v []byte) bool {
	for _, s := range set {
		if bytes.Equal(s, v) {
			return true
		}
	}
	return false
}

func evaluate(r *ev.Run, a *artefact, mu mutation, eps []entry) {
	for _, ep := range eps {
		r.Case()
		stuckKey := ep.name + "|" + mu.class
		stuckMu.Lock()
		skip := stuck[stuckKey]
		stuckMu.Unlock()
		if skip {
			r.Inconclusive("skipped after an earlier watchdog expiry of the same class: " + stuckKey)
			continue
		}
		out, err, pan, site, timedOut := call(ep, a.env, a.owner, mu.m)
		if timedOut {
			stuckMu.Lock()
			stuck[stuckKey] = true
			stuckMu.Unlock()
		}
		detail := func(extra map[string]interface{}) map[string]interface{} {
			d := map[string]interface{}{"keystore": a.env.Name, "artefact": a.kind, "plaintext_len": a.L, "plaintext": ev.FullHex(a.x), "original": ev.FullHex(a.y),
				"mutation": mu.class, "mutation_detail": mu.desc, "mutated": ev.FullHex(mu.m), "entry_point": ep.name, "client": string(a.owner), "seed": r.Seed}
			for k, v := range extra {
				d[k] = v
			}
			return d
		}
		sigBase := fmt.Sprintf("ep=%s artefact=%s mutation=%s", ep.name, a.kind, mu.class)
		ext := extensionClass(mu.class)
		if ext && !ep.column && !timedOut && pan == "" {
			r.SetAdd("extension_matrix", a.kind+"|"+classFamily(mu.class)+"|"+ep.name)
			if a.search {
				r.Count("searchable_extension_judged_at_call_entry_points", 1)
				if err != nil {
					r.Count("searchable_extension_rejected", 1)
				}
			}
		}
		switch {
		case timedOut:
			r.Inconclusive(fmt.Sprintf("reveal call did not return within %s: %s mutated=%s", watchdog, sigBase, ev.Hex(mu.m)))
			continue
		case pan != "":
			r.Violation("panic: "+sigBase+" site="+site, detail(map[string]interface{}{"panic": pan}))
			r.Count("outcome:panic", 1)
			continue
		case err != nil && !ep.column:
			r.Count("outcome:rejected", 1)
			r.Distinct(fmt.Sprintf("%s|%s|%s|rejected", a.kind, mu.class, ep.name))
			r.SampleN("rejected:"+mu.class[:strings.IndexAny(mu.class+":", ":@=(")], 1, map[string]interface{}{"artefact": a.kind, "len": a.L, "mutation": mu.class, "detail": mu.desc, "entry_point": ep.name, "outcome": "error: " + err.Error(), "mutated": ev.Hex(mu.m)})
			continue
		case err != nil && ep.column:
			// the column pipeline has no failure channel towards the client other than an error of the whole row:
			// the property wants the damaged value handed over unchanged.
			r.Violation("column path returned an error instead of the value: "+sigBase, detail(map[string]interface{}{"err": err.Error()}))
			r.Count("outcome:column-error", 1)
			continue
		}
		if !ep.column {
			if mu.hashSwapped {
				r.Violation("value with a swapped search hash returned as valid plaintext: "+sigBase, detail(map[string]interface{}{"got": ev.FullHex(out)}))
				continue
			}
			if in(mu.allow, out) {
				r.Count("outcome:revealed-original", 1)
				noteBenign(r, mu.class, ep.name)
				r.Distinct(fmt.Sprintf("%s|%s|%s|same-plaintext", a.kind, mu.class, ep.name))
				continue
			}
			r.Violation("mis-decrypted: "+sigBase, detail(map[string]interface{}{"got": ev.FullHex(out)}))
			continue
		}
		// column path
		if ext {
			r.SetAdd("extension_matrix", a.kind+"|"+classFamily(mu.class)+"|"+ep.name)
		}
		if ext && searchColumn(ep) && a.search {
			r.Count("searchable_extension_judged_in_search_column", 1)
		}
		if bytes.Equal(out, mu.m) {
			if ext && searchColumn(ep) && a.search {
				r.Count("searchable_extension_column_unchanged", 1)
			}
			r.Count("outcome:column-unchanged", 1)
			r.Distinct(fmt.Sprintf("%s|%s|%s|unchanged", a.kind, mu.class, ep.name))
			r.SampleN("column-unchanged:"+a.kind, 1, map[string]interface{}{"artefact": a.kind, "len": a.L, "mutation": mu.class, "detail": mu.desc, "entry_point": ep.name, "outcome": "handed back unchanged", "mutated": ev.Hex(mu.m)})
			continue
		}
		if mu.hashSwapped {
			r.Violation("value with a swapped search hash not handed back unchanged: "+sigBase, detail(map[string]interface{}{"got": ev.FullHex(out)}))
			continue
		}
		if searchColumn(ep) && a.search && carriesHash(mu.m) {
			// searchable column, searchable stored form, the value still begins with a well-formed search hash: unchanged (handled above) or
			// exactly the plaintext; an envelope revealed in place next to the hash / other bytes was never checked against the hash
			if in(mu.allow, out) {
				r.Count("outcome:column-search-revealed-exactly", 1)
				noteBenign(r, mu.class, ep.name)
				r.Distinct(fmt.Sprintf("%s|%s|%s|revealed-exactly", a.kind, mu.class, ep.name))
				continue
			}
			what := "something else"
			if derivable(out, mu.m, mu.allow, 2) {
				what = "an envelope revealed in place, the hash and the other bytes kept"
			}
			r.Violation("searchable column: modified value that carries a search hash neither handed back unchanged nor revealed to exactly the plaintext ("+what+"): "+sigBase, detail(map[string]interface{}{"got": ev.FullHex(out)}))
			continue
		}
		if derivable(out, mu.m, mu.allow, 2) {
			r.Count("outcome:column-revealed-correctly", 1)
			noteBenign(r, mu.class, ep.name)
			r.Distinct(fmt.Sprintf("%s|%s|%s|revealed-framing-intact", a.kind, mu.class, ep.name))
			continue
		}
		r.Violation("column output neither unchanged nor correctly revealed: "+sigBase, detail(map[string]interface{}{"got": ev.FullHex(out)}))
	}
}

// ---------------------------------------------------------------------------------------------

// Lengths are the plaintext lengths of the artefacts.
var Lengths = []int{1, 5, 33, 200}

func plaintext(rng *gen.Rand, n int) []byte {
	b := make([]byte, n)
	const al = "abcdefghijklmnopqrstuvwxyz0123456789"
	for i := range b {
		b[i] = al[rng.Intn(len(al))]
	}
	if n >= 18 {
		copy(b, fmt.Sprintf("MK%016x", rng.Uint64()))
	}
	return b
}

type job struct {
	a   *artefact
	mu  mutation
	eps []entry
}

// Run is the C03 monitor.
// ProxyLayer, when set (props/c03/proxy), runs the wire-level layer of this property over the PostgreSQL proxy rig.
var ProxyLayer func(r *ev.Run)

func Run(r *ev.Run) {
	r.Rule = "artefacts = {raw AcraStruct, raw AcraBlock, container(AcraStruct), container(AcraBlock), search-hash‖each} × plaintext lengths {1,5,33,200} (v1 keystore for lengths 1,33; v2 for 5,200; owner has one rotated key); " +
		"modifications = single bit flips, truncations, appended suffixes (1 byte, 8 bytes, second envelope), every length field (AcraStruct data length, AcraBlock rest/key length, container total length, Secure Message length, Secure Cell iv/tag/msg lengths) forced to {0,1,2,len-1,len+1,0x7fff,0xffff,2^31-1,2^31,2^32-1,2^63-1,2^63,2^64-1}, type/backend/hash-function/envelope-id bytes to other values, AcraBlock key id sweep, part splices (header/key block/payload) between two values of the same and of another client, swapped search hashes, one byte inserted in front of every field, junk / envelope tag bytes / a search hash / a second envelope inserted between hash and envelope and between container header and envelope, bytes and a search hash prepended, a swapped search hash combined with each suffix / insertion (both tiers in full); " +
		"thorough = the complete enumeration (all bits, all truncation lengths, all 256 byte values, all 65 536 key ids); quick = fixed per-artefact quotas drawn from VERIF_SEED (all length-field edits for two of the four lengths, ~60 bits, ~40 truncation lengths, 24 byte values, 512 key ids); " +
		"column entry points: a fresh subscriber chain per value, and the chain of one connection that has already served the intact value (column-session); wire layer: the extended searchable values placed in a database and read through the PostgreSQL and the MySQL proxy; " +
		"one evaluation = one modified value at one reveal entry point; distinct = (artefact kind, modification class incl. the field hit, entry point, outcome class) tuples"
	r.Assumptions = []string{
		"crypto library replaced by the pure-Go gothemis stand-in (AES-256-GCM Secure Cell with strict header parsing, ECDH P-256 Secure Message); authentication strength is delegated to it, as the property delegates it to Themis",
		"entry points driven in-process: acrastruct/acrablock/hmac library calls, crypto.RegistryHandler, TranslatorService Decrypt*/DecryptSearchable*, hmac.NewHashProcessor, and the column read pipeline assembled like proxyFactory.New (hmac.Processor → (old-)container detector with DecryptHandler → hmac.Processor); wire-level framing is C04/C12's",
		"no poison-record callbacks configured; masking and tokenization columns are not part of this enumeration",
		"evaluations run under recover in the monitor process; a fatal runtime error (not met so far) would end the run with an abnormal exit, which ./check reports as a violation",
	}
	r.SetExhaustive(r.Thorough())
	rng := gen.New(r.Seed, "c03")

	master := ksrig.RandBytes(32)
	v1, err := ksrig.V1(ksrig.ScratchDir("c03-v1"), master, keystore.InfiniteCacheSize)
	if err != nil {
		panic(err)
	}
	v2, err := ksrig.V2Mem(ksrig.NewV2Keys())
	if err != nil {
		panic(err)
	}
	var envs []*envrig.Env
	for _, p := range []struct {
		n  string
		ks ksrig.FullKeyStore
	}{{"v1", v1}, {"v2mem", v2}} {
		e, err := envrig.New(p.n, p.ks, nil, "")
		if err != nil {
			panic(err)
		}
		envs = append(envs, e)
	}
	owner, other := []byte("c03_owner_client"), []byte("c03-other-client")
	for _, e := range envs {
		for _, id := range [][]byte{owner, other} {
			if err := ksrig.GenClient(e.KS, id); err != nil {
				panic(err)
			}
		}
		// the owner has a rotated storage key pair / symmetric key, so that key selection (key id, trial decryption) is exercised
		if err := e.KS.GenerateDataEncryptionKeys(owner); err != nil {
			panic(err)
		}
		if err := e.KS.GenerateClientIDSymmetricKey(owner); err != nil {
			panic(err)
		}
		e.KS.Reset()
	}

	type slot struct {
		a *artefact
		d donors
	}
	var slots []slot
	type key struct {
		fam               string
		container, search bool
		li                int
	}
	prim := map[key]*artefact{}
	same := map[key]*artefact{}
	oth := map[key]*artefact{}
	var keys []key
	for _, fam := range []string{"as", "ab"} {
		for _, container := range []bool{false, true} {
			for _, search := range []bool{false, true} {
				for li, L := range Lengths {
					e := envs[li%2]
					k := key{fam, container, search, li}
					keys = append(keys, k)
					prim[k] = newArtefact(e, owner, fam, container, search, plaintext(rng, L))
					same[k] = newArtefact(e, owner, fam, container, search, plaintext(rng, L))
					oth[k] = newArtefact(e, other, fam, container, search, plaintext(rng, L))
				}
			}
		}
	}
	for _, k := range keys {
		// a donor of another length in the SAME keystore: li±2
		dk := k
		dk.li = (k.li + 2) % len(Lengths)
		slots = append(slots, slot{prim[k], donors{same: same[k], other: oth[k], diff: same[dk]}})
	}

	// controls: every unmodified artefact must reveal at every admitting entry point (otherwise "rejected" means nothing)
	for _, s := range slots {
		for _, ep := range append(entries(s.a.fam, s.a.search), sessionEntries(s.a)...) {
			out, err, pan, _, _ := call(ep, s.a.env, s.a.owner, s.a.y)
			want := s.a.x
			ok := pan == "" && err == nil && bytes.Equal(out, want)
			if ep.column && pan == "" && err == nil && !ok {
				ok = false
			}
			if ok {
				r.Count("control_revealed:"+ep.name, 1)
				r.Count("controls_revealed", 1)
			} else {
				r.Count("control_not_admitted:"+ep.name, 1)
				r.SetAdd("entry_points_not_admitting", s.a.kind+"@"+ep.name)
			}
		}
	}

	workers := r.Pick(8, 12)
	ch := make(chan job, 256)
	var wg sync.WaitGroup
	for w := 0; w < workers; w++ {
		wg.Add(1)
		go func() {
			defer wg.Done()
			for j := range ch {
				evaluate(r, j.a, j.mu, j.eps)
			}
		}()
	}
	for si, s := range slots {
		a := s.a
		eps := append(entries(a.fam, a.search), sessionEntries(a)...)
		mrng := gen.New(r.Seed, fmt.Sprintf("c03-mut-%d", si))
		li := 0
		for i, L := range Lengths {
			if L == a.L {
				li = i
			}
		}
		// quick tier: all length-field edits for two lengths per kind (rotating, so that every length is covered by some kind)
		full := (li+si/len(Lengths))%2 == 0
		n := 0
		generate(r, a, s.d, mrng, full, func(mu mutation) {
			if bytes.Equal(mu.m, a.y) {
				r.Count("noop_modifications_skipped", 1) // e.g. the header of another AcraBlock of the same client and length is identical
				return
			}
			n++
			r.Count("modifications:"+mu.class[:strings.IndexAny(mu.class+":", ":@=(")], 1)
			if a.search {
				r.Count("modifications_of_searchable_values:"+classFamily(mu.class), 1)
			}
			ch <- job{a, mu, eps}
		})
		generateExtensions(r, a, s.d, mrng, func(mu mutation) {
			if bytes.Equal(mu.m, a.y) {
				r.Count("noop_modifications_skipped", 1)
				return
			}
			fam := classFamily(mu.class)
			r.Count("modifications:"+fam, 1)
			if a.search {
				r.Count("modifications_of_searchable_values:"+fam, 1)
			}
			ch <- job{a, mu, eps}
		})
		if a.fam == "ab" && a.L == 5 {
			keyIDSweep(r, a, mrng, func(mu mutation) {
				r.Count("modifications:keyid", 1)
				ch <- job{a, mu, eps}
			})
		}
		r.Count("artefacts", 1)
	}
	close(ch)
	wg.Wait()

	benignMu.Lock()
	r.Extra("modifications_that_left_the_revealed_plaintext_intact", benign)
	benignMu.Unlock()
	// samples of what was enumerated
	for _, s := range slots[:4] {
		r.Sample(map[string]interface{}{"artefact": s.a.kind, "keystore": s.a.env.Name, "plaintext": string(s.a.x), "protected": ev.Hex(s.a.y)})
	}
	// non-vacuity
	r.RequireAtLeast("controls_revealed", 150)
	r.RequireAtLeast("outcome:rejected", int64(r.Pick(5000, 200000)))
	r.RequireAtLeast("outcome:column-unchanged", int64(r.Pick(1000, 50000)))
	r.RequireAtLeast("modifications:bitflip", int64(r.Pick(1000, 50000)))
	r.RequireAtLeast("modifications:field", 500)
	r.RequireAtLeast("modifications:splice", 100)
	r.RequireAtLeast("modifications:swaphash", 40)
	r.RequireAtLeast("modifications:keyid", int64(r.Pick(500, 65000)))
	// extension / insertion workload (extension.go)
	r.RequireAtLeast("modifications:insert", 500)
	r.RequireAtLeast("modifications:insert@hash|envelope", 16*6)
	r.RequireAtLeast("modifications:prepend", 80)
	r.RequireAtLeast("modifications:swaphash+append", 150) // 192 unless one-byte plaintexts collide (skipped as no-ops)
	r.RequireAtLeast("modifications:swaphash+insert", 110) // 144 unless one-byte plaintexts collide
	r.RequireAtLeast("modifications_of_searchable_values:append", 16*7)
	r.RequireAtLeast("searchable_extension_judged_in_search_column", 1500)
	r.RequireAtLeast("searchable_extension_judged_at_call_entry_points", 3000)
	r.RequireAtLeast("control_revealed:column-session:search_as", 16)
	r.RequireAtLeast("control_revealed:column-session:search_ab", 16)
	r.RequireSetAtLeast("extension_matrix", 280)
	if ProxyLayer != nil {
		ProxyLayer(r)
	}
}
