package c03

import (
	"encoding/binary"
	"fmt"
)

// region is one field of a protected value, located by the monitor's own knowledge of the documented layouts
// (AcraStruct: tag 8, public key 45, wrapped key 84, data length 8, sealed payload; AcraBlock: tag 4, rest length 8,
// key-encryption type 1, key id 2, data-encryption type 1, key length 2, sealed key, sealed payload; container:
// "%%%" + total length 8 + envelope id 1; search hash: function byte + 32 bytes; Secure Cell Seal: alg 4, iv_len 4,
// tag_len 4, msg_len 4, iv 12, tag 16, ciphertext; Secure Message: type 4, length 4).
type region struct {
	name  string
	off   int
	n     int
	class string // tag | len64 | len32 | len16 | type | keyid | envid | hashfn | opaque
}

func cellRegions(prefix string, off int, total int) []region {
	return []region{
		{prefix + ".cell.alg", off, 4, "opaque"},
		{prefix + ".cell.iv_len", off + 4, 4, "len32"},
		{prefix + ".cell.tag_len", off + 8, 4, "len32"},
		{prefix + ".cell.msg_len", off + 12, 4, "len32"},
		{prefix + ".cell.iv", off + 16, 12, "opaque"},
		{prefix + ".cell.tag", off + 28, 16, "opaque"},
		{prefix + ".cell.ciphertext", off + 44, total - 44, "opaque"},
	}
}

// envelopeRegions describes a raw envelope of family fam ("as"|"ab") that starts at off and is n bytes long.
func envelopeRegions(fam string, off, n int) []region {
	if fam == "as" {
		rs := []region{
			{"as.tag", off, 8, "tag"},
			{"as.pubkey", off + 8, 45, "opaque"},
			{"as.wrapped.msgtype", off + 53, 4, "opaque"},
			{"as.wrapped.msglen", off + 57, 4, "len32"},
		}
		rs = append(rs, cellRegions("as.wrapped", off+61, 76)...)
		rs = append(rs, region{"as.datalen", off + 137, 8, "len64"})
		rs = append(rs, cellRegions("as.payload", off+145, n-145)...)
		return rs
	}
	rs := []region{
		{"ab.tag", off, 4, "tag"},
		{"ab.restlen", off + 4, 8, "len64"},
		{"ab.kektype", off + 12, 1, "type"},
		{"ab.keyid", off + 13, 2, "keyid"},
		{"ab.dektype", off + 15, 1, "type"},
		{"ab.keylen", off + 16, 2, "len16"},
	}
	rs = append(rs, cellRegions("ab.key", off+18, 76)...)
	rs = append(rs, cellRegions("ab.payload", off+94, n-94)...)
	return rs
}

// regions of a whole artefact.
func (a *artefact) regions() []region {
	var rs []region
	off := 0
	if a.search {
		rs = append(rs, region{"hash.fn", 0, 1, "hashfn"}, region{"hash.body", 1, 32, "opaque"})
		off = 33
	}
	if a.container {
		rs = append(rs, region{"c.tag", off, 3, "tag"}, region{"c.totallen", off + 3, 8, "len64"}, region{"c.envid", off + 11, 1, "envid"})
		off += 12
	}
	rs = append(rs, envelopeRegions(a.fam, off, len(a.y)-off)...)
	return rs
}

func regionAt(rs []region, pos int) region {
	for _, r := range rs {
		if pos >= r.off && pos < r.off+r.n {
			return r
		}
	}
	return region{name: "?", off: pos, n: 1, class: "opaque"}
}

// lengthValues are the values every length field is forced to (truncated to the field width), rel = the true value.
func lengthValues(rel uint64, width int) []uint64 {
	raw := []uint64{0, 1, 2, rel - 1, rel + 1, 0x7fff, 0xffff, 1<<31 - 1, 1 << 31, 1<<32 - 1, 1<<63 - 1, 1 << 63, ^uint64(0)}
	seen := map[uint64]bool{}
	var out []uint64
	for _, v := range raw {
		switch width {
		case 2:
			v &= 0xffff
		case 4:
			v &= 0xffffffff
		}
		if v == rel || seen[v] {
			continue
		}
		seen[v] = true
		out = append(out, v)
	}
	return out
}

func lengthValueName(v, rel uint64) string {
	switch v {
	case rel - 1:
		return "len-1"
	case rel + 1:
		return "len+1"
	}
	return fmt.Sprintf("%#x", v)
}

func getField(b []byte, r region) uint64 {
	switch r.n {
	case 2:
		return uint64(binary.LittleEndian.Uint16(b[r.off:]))
	case 4:
		return uint64(binary.LittleEndian.Uint32(b[r.off:]))
	default:
		return binary.LittleEndian.Uint64(b[r.off:])
	}
}

func putField(b []byte, r region, v uint64) {
	switch r.n {
	case 2:
		binary.LittleEndian.PutUint16(b[r.off:], uint16(v))
	case 4:
		binary.LittleEndian.PutUint32(b[r.off:], uint32(v))
	default:
		binary.LittleEndian.PutUint64(b[r.off:], v)
	}
}
