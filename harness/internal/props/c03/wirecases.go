package c03

// Cases for the wire layer (props/c03/proxy): the extension catalogue applied to searchable stored values, to be placed in a
// database behind a live AcraServer.

import (
	"strings"

	"verif/harness/internal/ev"
	"verif/harness/internal/gen"
	"verif/harness/internal/rig/envrig"
	"verif/harness/internal/rig/ksrig"
)

// WireCase is one stored value of a searchable column.
type WireCase struct {
	Fam         string // as | ab (the column's configured envelope)
	Kind        string // h+c-as | h+raw-as | h+c-ab | h+raw-ab
	Class       string // "" = intact
	Desc        string
	Stored      []byte
	Plain       []byte
	Allow       [][]byte
	HashSwapped bool
}

// CarriesHash reports whether a stored value begins with a well-formed search hash (documented layout).
func CarriesHash(m []byte) bool { return carriesHash(m) }

// ClassFamily is the family of a modification class (evidence matrix).
func ClassFamily(class string) string { return classFamily(class) }

// SearchableExtensionCases builds, over ks (keys of owner and other must exist), for every searchable stored form the
// modified values of every growing class of the catalogue (append:*, insert:*, prepend:*, swaphash, swaphash+*), and the
// intact values (controls).
func SearchableExtensionCases(r *ev.Run, ks ksrig.FullKeyStore, owner, other []byte, rng *gen.Rand) (cases, intact []WireCase) {
	e := &envrig.Env{Name: "wire", KS: ks}
	for _, fam := range []string{"as", "ab"} {
		for _, container := range []bool{true, false} {
			a := newArtefact(e, owner, fam, container, true, plaintext(rng, 24))
			d := donors{
				same:  newArtefact(e, owner, fam, container, true, plaintext(rng, 24)),
				other: newArtefact(e, other, fam, container, true, plaintext(rng, 24)),
				diff:  newArtefact(e, owner, fam, container, true, plaintext(rng, 40)),
			}
			intact = append(intact, WireCase{Fam: fam, Kind: a.kind, Stored: a.y, Plain: a.x, Allow: [][]byte{a.x}})
			emit := func(mu mutation) {
				if !(extensionClass(mu.class) || strings.HasPrefix(mu.class, "swaphash")) {
					return
				}
				// inside the envelope one inserted byte per envelope is enough at the wire (the call layer does every field)
				if strings.HasPrefix(mu.class, "insert:1byte@") && !strings.HasSuffix(mu.class, ".tag") && !strings.Contains(mu.class, "@c.") && !strings.HasSuffix(mu.class, ".ciphertext") {
					return
				}
				cases = append(cases, WireCase{Fam: fam, Kind: a.kind, Class: mu.class, Desc: mu.desc, Stored: mu.m, Plain: a.x, Allow: mu.allow, HashSwapped: mu.hashSwapped})
			}
			generate(r, a, d, rng, false, emit)
			generateExtensions(r, a, d, rng, emit)
		}
	}
	return cases, intact
}
