package proxy

// Wire layer for extended searchable values: the column pipelines that the two proxy factories build themselves
// (decryptor/postgresql proxyFactory.New, decryptor/mysql proxyFactory.New: search-hash processor -> (old-)container
// detector with the decryption handler -> search-hash processor, between the protocol's decoder and encoder).
//
// A database table with two searchable columns (AcraStruct / AcraBlock) is filled DIRECTLY (not through Acra) with stored
// values the monitor built itself from the owner's keys: search hash ‖ serialized container and search hash ‖ raw envelope,
// intact (controls) and modified by every growing class of the C03 catalogue (suffixes, insertions between hash and
// envelope / inside the container, prefixes, a swapped hash alone and combined with each extension). The owner reads the
// table through a live AcraServer: PostgreSQL simple/text and extended/binary, MySQL text protocol and prepared statement.
//
// Oracle per cell (statement: "revealing it either fails or yields exactly the original plaintext ... In transparent column
// processing a damaged value is handed to the client unchanged"; "a swapped search hash"):
//   - value with a swapped hash: exactly the stored bytes;
//   - value that still begins with a well-formed search hash: exactly the stored bytes, or exactly the plaintext;
//   - value whose first bytes are not a search hash (prefix classes): stored bytes, plaintext, or C03's framing rule;
//   - intact value: counted when revealed (non-vacuity; that it IS revealed next to damaged ones is C01's clause).

import (
	"bytes"
	"fmt"
	"os"
	"time"

	"github.com/cossacklabs/acra/keystore"

	"verif/harness/internal/ev"
	"verif/harness/internal/gen"
	"verif/harness/internal/props/c03"
	"verif/harness/internal/rig/fakepg"
	"verif/harness/internal/rig/ksrig"
	"verif/harness/internal/rig/proxyrig"
)

const (
	wireOwner = "c03_wire_owner"
	wireOther = "c03_wire_other"
)

type wireRow struct {
	id    int
	cells [2]*c03.WireCase // s_as, s_ab
}

// WireExtensionLayer runs the layer: PostgreSQL first, then MySQL (Acra's SQL dialect is a process global).
func WireExtensionLayer(r *ev.Run) {
	t0 := time.Now()
	defer func() { r.Extra("wire_extension_layer_wall_s", time.Since(t0).Seconds()) }() // evidence only
	dir := ksrig.ScratchDir("c03-wire")
	defer os.RemoveAll(dir)
	ks, err := ksrig.V1(dir, ksrig.RandBytes(32), keystore.InfiniteCacheSize)
	if err != nil {
		panic(err)
	}
	for _, id := range []string{wireOwner, wireOther} {
		if err := ksrig.GenClient(ks, []byte(id)); err != nil {
			panic(err)
		}
	}
	rng := gen.New(r.Seed, "c03-wire-extension")
	cases, intact := c03.SearchableExtensionCases(r, ks, []byte(wireOwner), []byte(wireOther), rng)
	byFam := map[string][]*c03.WireCase{}
	intactByFam := map[string][]*c03.WireCase{}
	for i := range cases {
		byFam[cases[i].Fam] = append(byFam[cases[i].Fam], &cases[i])
	}
	for i := range intact {
		intactByFam[intact[i].Fam] = append(intactByFam[intact[i].Fam], &intact[i])
	}
	// rows: the k-th modified value of each family side by side; every fifth row holds intact values (first row too)
	n := len(byFam["as"])
	if len(byFam["ab"]) > n {
		n = len(byFam["ab"])
	}
	var rows []wireRow
	id := 0
	addIntact := func(k int) {
		id++
		rows = append(rows, wireRow{id, [2]*c03.WireCase{intactByFam["as"][k%len(intactByFam["as"])], intactByFam["ab"][k%len(intactByFam["ab"])]}})
	}
	addIntact(0)
	for k := 0; k < n; k++ {
		id++
		rows = append(rows, wireRow{id, [2]*c03.WireCase{byFam["as"][k%len(byFam["as"])], byFam["ab"][k%len(byFam["ab"])]}})
		if k%5 == 4 {
			addIntact(k)
		}
	}
	addIntact(1)
	tables := []proxyrig.TableSpec{{Name: "ext", Cols: []proxyrig.ColSpec{
		{Name: "id", AppType: fakepg.Int4, StoreType: fakepg.Int4},
		{Name: "s_as", Kind: "search", Envelope: "acrastruct", AppType: fakepg.Bytea, StoreType: fakepg.Bytea},
		{Name: "s_ab", Kind: "search", Envelope: "acrablock", AppType: fakepg.Bytea, StoreType: fakepg.Bytea},
	}}}
	fill := func(db *fakepg.DB) {
		for _, rw := range rows {
			db.InsertRow("ext", []fakepg.Value{int64(rw.id), append([]byte{}, rw.cells[0].Stored...), append([]byte{}, rw.cells[1].Stored...)})
		}
	}
	r.Count("wire_extension_rows", int64(len(rows)))

	// ---- PostgreSQL
	func() {
		w, err := proxyrig.NewWorld(proxyrig.WorldOpts{Tables: tables, KS: ks, Clients: []string{wireOwner}})
		if err != nil {
			r.Inconclusive("wire extension: PostgreSQL world could not be built: " + err.Error())
			return
		}
		defer w.Close()
		fill(w.Store.DB)
		ac, _, err := proxyrig.DialPG(w.Acras[wireOwner].Port)
		if err != nil {
			r.Inconclusive("wire extension: cannot connect to acra (postgresql): " + err.Error())
			return
		}
		defer ac.Close()
		for _, rd := range []struct {
			label    string
			ext, bin bool
			sql      string
		}{
			{"postgresql simple/text", false, false, "select id, s_as, s_ab from ext order by id"},
			{"postgresql extended/binary", true, true, "select id, s_as, s_ab from ext order by id"},
			{"postgresql extended/text, columns reversed", true, false, "select id, s_ab, s_as from ext order by id"},
		} {
			var msgs []proxyrig.BackendMsg
			var err error
			if rd.ext {
				var rf []int16
				if rd.bin {
					rf = []int16{1}
				}
				msgs, err = ac.Extended("", rd.sql, nil, nil, nil, rf, 0)
			} else {
				msgs, err = ac.Simple(rd.sql)
			}
			if err != nil {
				r.Violation("wire extension: connection broke while reading extended searchable values: "+rd.label, map[string]interface{}{"err": err.Error(), "sql": rd.sql})
				return
			}
			if e := proxyrig.ErrorOf(msgs); e != nil {
				r.Violation("wire extension: error instead of rows (no failure policy is configured): "+rd.label, map[string]interface{}{"error": e.Message, "sql": rd.sql})
				return
			}
			got := proxyrig.Rows(msgs)
			if len(got) != len(rows) {
				r.Violation("wire extension: row count differs: "+rd.label, map[string]interface{}{"rows": len(got), "want": len(rows)})
				return
			}
			reversed := rd.sql != "select id, s_as, s_ab from ext order by id"
			for ri, row := range got {
				for k := 0; k < 2; k++ {
					v := row[1+k]
					if !rd.bin && v != nil {
						if dec, derr := fakepg.DecodeByteaText(string(v)); derr == nil {
							v = dec
						}
					}
					ci := k
					if reversed {
						ci = 1 - k
					}
					judgeWire(r, rd.label, rows[ri], ci, v)
				}
			}
		}
	}()

	// ---- MySQL
	func() {
		proxyrig.SetDialect(true)
		defer proxyrig.SetDialect(false)
		w, err := proxyrig.NewMyWorld(proxyrig.WorldOpts{Tables: tables, KS: ks, Clients: []string{wireOwner}})
		if err != nil {
			r.Inconclusive("wire extension: MySQL world could not be built: " + err.Error())
			return
		}
		defer w.Close()
		fill(w.Store.DB)
		ac, err := proxyrig.DialMy(w.Acras[wireOwner].Port, 1<<26)
		if err != nil {
			r.Inconclusive("wire extension: cannot connect to acra (mysql): " + err.Error())
			return
		}
		defer ac.Close()
		for _, rd := range []struct {
			label    string
			sql      string
			args     []interface{}
			reversed bool
		}{
			{"mysql text protocol", "select id, s_as, s_ab from ext order by id", nil, false},
			{"mysql prepared statement", "select id, s_as, s_ab from ext where id >= ? order by id", []interface{}{0}, false},
			{"mysql text protocol, columns reversed", "select id, s_ab, s_as from ext order by id", nil, true},
		} {
			res := ac.Query(rd.sql, rd.args...)
			if res.Broken || res.Err != nil {
				msg := ""
				if res.Err != nil {
					msg = res.Err.Error()
				}
				if res.Timeout {
					r.Inconclusive("wire extension: read timed out: " + rd.label + ": " + msg)
					return
				}
				r.Violation("wire extension: error / broken connection instead of rows (no failure policy is configured): "+rd.label, map[string]interface{}{"err": msg, "sql": rd.sql})
				return
			}
			if len(res.Rows) != len(rows) {
				r.Violation("wire extension: row count differs: "+rd.label, map[string]interface{}{"rows": len(res.Rows), "want": len(rows)})
				return
			}
			for ri, row := range res.Rows {
				for k := 0; k < 2; k++ {
					ci := k
					if rd.reversed {
						ci = 1 - k
					}
					var v []byte
					if !row[1+k].Null {
						v = row[1+k].B
					}
					judgeWire(r, rd.label, rows[ri], ci, v)
				}
			}
		}
	}()

	r.RequireAtLeast("wire_extension_rows", 100)
	for _, p := range []string{"postgresql", "mysql"} {
		r.RequireAtLeast("wire_extension_cells_judged:"+p, 500)
		r.RequireAtLeast("wire_extension_intact_revealed:"+p, 100)
		r.RequireAtLeast("wire_extension_swapped_hash_cells_judged:"+p, 200)
	}
	r.RequireSetAtLeast("wire_extension_matrix", 50)
}

func judgeWire(r *ev.Run, label string, rw wireRow, ci int, got []byte) {
	c := rw.cells[ci]
	proto := "postgresql"
	if len(label) >= 5 && label[:5] == "mysql" {
		proto = "mysql"
	}
	r.Case()
	if c.Class == "" {
		if bytes.Equal(got, c.Plain) {
			r.Count("wire_extension_intact_revealed:"+proto, 1)
		} else {
			r.Count("wire_extension_intact_not_revealed:"+proto, 1)
		}
		return
	}
	r.Count("wire_extension_cells_judged:"+proto, 1)
	if c.HashSwapped {
		r.Count("wire_extension_swapped_hash_cells_judged:"+proto, 1)
	}
	fam := c03.ClassFamily(c.Class)
	r.SetAdd("wire_extension_matrix", c.Kind+"|"+fam+"|"+proto)
	detail := func() map[string]interface{} {
		return map[string]interface{}{"read": label, "row": rw.id, "column": []string{"s_as", "s_ab"}[ci], "stored_form": c.Kind, "modification": c.Class, "modification_detail": c.Desc,
			"stored": ev.FullHex(c.Stored), "plaintext": ev.FullHex(c.Plain), "got": ev.FullHex(got), "seed": r.Seed}
	}
	sig := fmt.Sprintf("stored=%s modification=%s read=%s", c.Kind, c.Class, label)
	exactly := func() bool {
		for _, p := range c.Allow {
			if bytes.Equal(p, got) {
				return true
			}
		}
		return false
	}
	switch {
	case bytes.Equal(got, c.Stored):
		r.Count("wire_extension_cells_handed_unchanged:"+proto, 1)
		r.Distinct("wire-extension|unchanged|" + c.Kind + "|" + c.Class + "|" + label)
		r.SampleN("wire-extension:"+proto, 2, map[string]interface{}{"layer": "wire extension", "read": label, "stored_form": c.Kind, "modification": c.Class, "outcome": "handed to the client unchanged", "stored": ev.Hex(c.Stored)})
	case c.HashSwapped:
		r.Violation("wire extension: value with a swapped search hash not handed to the client unchanged: "+sig, detail())
	case c03.CarriesHash(c.Stored):
		if exactly() {
			r.Count("wire_extension_cells_revealed_exactly:"+proto, 1)
			r.Distinct("wire-extension|revealed-exactly|" + c.Kind + "|" + c.Class + "|" + label)
			return
		}
		r.Violation("wire extension: modified searchable value neither handed to the client unchanged nor revealed to exactly the plaintext: "+sig, detail())
	default:
		if exactly() || c03.Derivable(got, c.Stored, c.Plain) {
			r.Count("wire_extension_cells_without_hash_revealed_in_place:"+proto, 1)
			return
		}
		r.Violation("wire extension: modified value neither handed to the client unchanged nor correctly revealed: "+sig, detail())
	}
}
