// Package proxy plugs the wire-level damage layer into the C03 monitor.
package proxy

import (
	"verif/harness/internal/props/c03"
	"verif/harness/internal/props/proxylayers"
)

func init() { c03.ProxyLayer = proxylayers.DamageLayer("C03") }
