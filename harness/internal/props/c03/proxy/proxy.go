// Package proxy plugs the wire-level layers into the C03 monitor: the damage layer (proxylayers) and the extension layer
// (extension_wire.go: extended searchable values read through the PostgreSQL and the MySQL proxy).
package proxy

import (
	"verif/harness/internal/ev"
	"verif/harness/internal/props/c03"
	"verif/harness/internal/props/proxylayers"
)

func init() {
	damage := proxylayers.DamageLayer("C03")
	c03.ProxyLayer = func(r *ev.Run) {
		damage(r)
		WireExtensionLayer(r)
	}
}
