// Package props holds the registry of property monitors.
package props

import "verif/harness/internal/ev"

// Monitor is one property's deciding program: it drives workloads against the real code,
// feeds the run's oracle counters and reports violations through r.
type Monitor struct {
	Level string // evidence level
	Run   func(r *ev.Run)
	// Child, if set, handles "mon <Cxx> child ..." re-executions (crash-isolated batches).
	Child func(args []string) int
}

var registry = map[string]Monitor{}

// Register is called from each property package's init.
func Register(id string, m Monitor) { registry[id] = m }

// Get looks a monitor up.
func Get(id string) (Monitor, bool) { m, ok := registry[id]; return m, ok }
