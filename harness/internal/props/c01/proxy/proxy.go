// Package proxy plugs the wire-level damage layer into the C01 monitor.
package proxy

import (
	"verif/harness/internal/props/c01"
	"verif/harness/internal/props/proxylayers"
)

func init() { c01.ProxyLayer = proxylayers.DamageLayer("C01") }
