// Package c01 monitors "protect-then-reveal returns the original bytes for the owning client".
package c01

import (
	"bytes"
	"context"
	"encoding/binary"
	"fmt"
	"runtime/debug"
	"sync"

	"github.com/cossacklabs/acra/acrablock"
	"github.com/cossacklabs/acra/acrastruct"
	"github.com/cossacklabs/acra/crypto"
	"github.com/cossacklabs/acra/hmac"
	"github.com/cossacklabs/acra/keystore"

	"verif/harness/internal/ev"
	"verif/harness/internal/gen"
	"verif/harness/internal/props"
	"verif/harness/internal/rig/envrig"
	"verif/harness/internal/rig/ksrig"
)

func init() { props.Register("C01", props.Monitor{Level: "exploration", Run: Run}) }

// --- the monitor's own structural view of the three layouts (independent of Acra's parsers) ---

// LooksProtected reports whether b has the documented outer structure of a protected value.
func LooksProtected(b []byte) string {
	if len(b) >= 145 && bytes.Equal(b[:8], bytes.Repeat([]byte{'"'}, 8)) && binary.LittleEndian.Uint64(b[137:145]) == uint64(len(b)-145) {
		return "acrastruct"
	}
	if len(b) >= 18 && bytes.Equal(b[:4], []byte(`""""`)) && b[12] == 0 && b[15] == 0 {
		rest := binary.LittleEndian.Uint64(b[4:12])
		if rest <= uint64(len(b)-4) && rest >= 14 {
			return "acrablock"
		}
	}
	if len(b) > 12 && bytes.Equal(b[:3], []byte("%%%")) && (b[11] == 0xF0 || b[11] == 0xF1) {
		return "container"
	}
	return ""
}

type revealFn struct {
	name string
	f    func(e *envrig.Env, id, y []byte, c *caseCtx) ([]byte, error)
}

type entryPoint struct {
	name     string
	kind     string // acrastruct | acrablock
	search   bool
	column   string // non-empty for column-path entry points: setting name
	protect  func(e *envrig.Env, id, x []byte) ([]byte, error)
	reveals  []revealFn
	framable bool // revealed through the column pipeline with arbitrary surrounding bytes
	lib      bool // raw library constructor (no pass-through promise)
}

type caseCtx struct {
	pre, suf []byte
}

var bg = context.Background()

func colReveal(column string) revealFn {
	return revealFn{"column:" + column, func(e *envrig.Env, id, y []byte, c *caseCtx) ([]byte, error) {
		p := e.NewReadPipeline(false)
		var setting = e.Setting(column)
		in := gen.Cat(c.pre, y, c.suf)
		out, _, err := p.OnColumn(id, setting, in)
		if err != nil {
			return nil, err
		}
		// strip framing: the oracle demands pre‖x‖suf
		if !bytes.HasPrefix(out, c.pre) || !bytes.HasSuffix(out[len(c.pre):], c.suf) {
			return out, fmt.Errorf("framing bytes altered: got %s", ev.Hex(out))
		}
		return out[len(c.pre) : len(out)-len(c.suf)], nil
	}}
}

func entryPoints() []entryPoint {
	asHandler := func() crypto.ContainerHandler {
		h, _ := crypto.GetHandlerByEnvelopeID(crypto.AcraStructEnvelopeID)
		return h
	}
	abHandler := func() crypto.ContainerHandler {
		h, _ := crypto.GetHandlerByEnvelopeID(crypto.AcraBlockEnvelopeID)
		return h
	}
	trDecrypt := revealFn{"translator.Decrypt", func(e *envrig.Env, id, y []byte, _ *caseCtx) ([]byte, error) {
		return e.Translator.Decrypt(bg, y, id, nil)
	}}
	trDecryptSym := revealFn{"translator.DecryptSym", func(e *envrig.Env, id, y []byte, _ *caseCtx) ([]byte, error) {
		return e.Translator.DecryptSym(bg, y, id, nil)
	}}
	regProcess := revealFn{"registry.Process", func(e *envrig.Env, id, y []byte, _ *caseCtx) ([]byte, error) {
		return e.Registry.Process(y, e.ProcCtx(id))
	}}
	regDecAS := revealFn{"registry.DecryptWithHandler(as)", func(e *envrig.Env, id, y []byte, _ *caseCtx) ([]byte, error) {
		return e.Registry.DecryptWithHandler(asHandler(), y, e.ProcCtx(id))
	}}
	regDecAB := revealFn{"registry.DecryptWithHandler(ab)", func(e *envrig.Env, id, y []byte, _ *caseCtx) ([]byte, error) {
		return e.Registry.DecryptWithHandler(abHandler(), y, e.ProcCtx(id))
	}}
	libAS := revealFn{"acrastruct.DecryptRotatedAcrastruct", func(e *envrig.Env, id, y []byte, _ *caseCtx) ([]byte, error) {
		privs, err := e.KS.GetServerDecryptionPrivateKeys(id)
		if err != nil {
			return nil, err
		}
		return acrastruct.DecryptRotatedAcrastruct(y, privs, nil)
	}}
	libAB := revealFn{"acrablock.Decrypt", func(e *envrig.Env, id, y []byte, _ *caseCtx) ([]byte, error) {
		ks, err := e.KS.GetClientIDSymmetricKeys(id)
		if err != nil {
			return nil, err
		}
		blk, err := acrablock.NewAcraBlockFromData(y)
		if err != nil {
			return nil, err
		}
		return blk.Decrypt(ks, nil)
	}}
	hashProc := revealFn{"hmac.NewHashProcessor(registry)", func(e *envrig.Env, id, y []byte, _ *caseCtx) ([]byte, error) {
		return hmac.NewHashProcessor(e.Registry, e.KS).Process(y, e.ProcCtx(id))
	}}
	searchable := func(sym bool) []revealFn {
		dec := func(e *envrig.Env, data, hash, id []byte) ([]byte, error) {
			if sym {
				return e.Translator.DecryptSymSearchable(bg, data, hash, id, nil)
			}
			return e.Translator.DecryptSearchable(bg, data, hash, id, nil)
		}
		return []revealFn{
			{"translator.DecryptSearchable(hash‖data)", func(e *envrig.Env, id, y []byte, _ *caseCtx) ([]byte, error) {
				return dec(e, append([]byte{}, y...), nil, id)
			}},
			{"translator.DecryptSearchable(data,hash)", func(e *envrig.Env, id, y []byte, _ *caseCtx) ([]byte, error) {
				hl := hmac.GetDefaultHashSize()
				return dec(e, append([]byte{}, y[hl:]...), append([]byte{}, y[:hl]...), id)
			}},
			hashProc,
		}
	}
	colProtect := func(column string) func(e *envrig.Env, id, x []byte) ([]byte, error) {
		return func(e *envrig.Env, id, x []byte) ([]byte, error) {
			return e.WriteChain().EncryptWithClientID(id, append([]byte{}, x...), e.Setting(column))
		}
	}
	eps := []entryPoint{
		{name: "lib.CreateAcrastruct", kind: "acrastruct", framable: true, lib: true,
			protect: func(e *envrig.Env, id, x []byte) ([]byte, error) {
				pub, err := e.KS.GetClientIDEncryptionPublicKey(id)
				if err != nil {
					return nil, err
				}
				return acrastruct.CreateAcrastruct(x, pub, nil)
			},
			reveals: []revealFn{libAS, trDecrypt, regProcess, regDecAS, colReveal("plain_as")}},
		{name: "lib.CreateAcraBlock", kind: "acrablock", framable: true, lib: true,
			protect: func(e *envrig.Env, id, x []byte) ([]byte, error) {
				k, err := e.KS.GetClientIDSymmetricKey(id)
				if err != nil {
					return nil, err
				}
				return acrablock.CreateAcraBlock(x, k, nil)
			},
			reveals: []revealFn{libAB, trDecryptSym, regProcess, regDecAB, colReveal("plain_ab")}},
		{name: "registry.EncryptWithClientID(as)", kind: "acrastruct", framable: true,
			protect: func(e *envrig.Env, id, x []byte) ([]byte, error) {
				return e.Registry.EncryptWithClientID(id, x, e.Setting("plain_as"))
			},
			reveals: []revealFn{regProcess, regDecAS, trDecrypt, colReveal("plain_as")}},
		{name: "registry.EncryptWithClientID(ab)", kind: "acrablock", framable: true,
			protect: func(e *envrig.Env, id, x []byte) ([]byte, error) {
				return e.Registry.EncryptWithClientID(id, x, e.Setting("plain_ab"))
			},
			reveals: []revealFn{regProcess, regDecAB, trDecryptSym, colReveal("plain_ab")}},
		{name: "registry.EncryptWithHandler(as)", kind: "acrastruct", framable: true,
			protect: func(e *envrig.Env, id, x []byte) ([]byte, error) {
				return e.Registry.EncryptWithHandler(asHandler(), id, x)
			},
			reveals: []revealFn{regProcess, regDecAS, colReveal("plain_as")}},
		{name: "registry.EncryptWithHandler(ab)", kind: "acrablock", framable: true,
			protect: func(e *envrig.Env, id, x []byte) ([]byte, error) {
				return e.Registry.EncryptWithHandler(abHandler(), id, x)
			},
			reveals: []revealFn{regProcess, regDecAB, colReveal("plain_ab")}},
		{name: "translator.Encrypt", kind: "acrastruct", framable: true,
			protect: func(e *envrig.Env, id, x []byte) ([]byte, error) { return e.Translator.Encrypt(bg, x, id, nil) },
			reveals: []revealFn{trDecrypt, regProcess, colReveal("plain_as")}},
		{name: "translator.EncryptSym", kind: "acrablock", framable: true,
			protect: func(e *envrig.Env, id, x []byte) ([]byte, error) { return e.Translator.EncryptSym(bg, x, id, nil) },
			reveals: []revealFn{trDecryptSym, regProcess, colReveal("plain_ab")}},
		{name: "translator.EncryptSearchable", kind: "acrastruct", search: true,
			protect: func(e *envrig.Env, id, x []byte) ([]byte, error) {
				r, err := e.Translator.EncryptSearchable(bg, x, id, nil)
				if err != nil {
					return nil, err
				}
				return gen.Cat(r.Hash, r.EncryptedData), nil
			},
			reveals: append(searchable(false), colReveal("search_as"))},
		{name: "translator.EncryptSymSearchable", kind: "acrablock", search: true,
			protect: func(e *envrig.Env, id, x []byte) ([]byte, error) {
				r, err := e.Translator.EncryptSymSearchable(bg, x, id, nil)
				if err != nil {
					return nil, err
				}
				return gen.Cat(r.Hash, r.EncryptedData), nil
			},
			reveals: append(searchable(true), colReveal("search_ab"))},
		{name: "column.write(plain_as)", kind: "acrastruct", framable: true, column: "plain_as", protect: colProtect("plain_as"),
			reveals: []revealFn{colReveal("plain_as"), trDecrypt}},
		{name: "column.write(plain_ab)", kind: "acrablock", framable: true, column: "plain_ab", protect: colProtect("plain_ab"),
			reveals: []revealFn{colReveal("plain_ab"), trDecryptSym}},
		{name: "column.write(search_as)", kind: "acrastruct", search: true, column: "search_as", protect: colProtect("search_as"),
			reveals: append([]revealFn{colReveal("search_as")}, searchable(false)...)},
		{name: "column.write(search_ab)", kind: "acrablock", search: true, column: "search_ab", protect: colProtect("search_ab"),
			reveals: append([]revealFn{colReveal("search_ab")}, searchable(true)...)},
	}
	return eps
}

type client struct {
	id        []byte
	rotations int
}

func lenClass(n int) string {
	switch {
	case n == 0:
		return "0"
	case n < 8:
		return "1-7"
	case n < 45:
		return "8-44"
	case n < 145:
		return "45-144"
	case n < 4096:
		return "145-4095"
	default:
		return "4k+"
	}
}

func lookalike(class string) bool {
	switch class {
	case "as-header-consistent", "ab-header-consistent", "ab-header-inconsistent", "c-header-consistent", "c-header-inconsistent", "quotes", "astag-random", "abtag-random", "ctag-random", "percents":
		return true
	}
	return false
}

type job struct {
	env       *envrig.Env
	cl        client
	ep        entryPoint
	class     string
	x         []byte
	framing   int
	seedTag   string
	embed     string // "", "own", "other"
	embedKind string // what the embedded envelope is: raw-acrastruct | raw-acrablock | container-as | container-ab
	inner     []byte // plaintext inside the embedded/whole envelope when x is itself an envelope
	whole     bool   // x is exactly an earlier-produced protected value
}

// Run is the C01 monitor.
// ProxyLayer, when set (props/c01/proxy), runs the wire-level layer of this property over the PostgreSQL proxy rig.
var ProxyLayer func(r *ev.Run)

func Run(r *ev.Run) {
	r.Rule = "cases = (keystore format × client with 0-3 rotations × entry point × plaintext length around header sizes × content class × framing kind), seeded sample (quick) or full product over 3 streams (thorough); a case is non-trivial when protect succeeded with a changed value AND at least one reveal returned the original; distinct = (keystore, entry point, reveal point, length class, content class, framing kind) tuples that completed such a round trip; length sweep layer: every plaintext length 0..1100 (thorough 0..3300) plus the lengths at which the second byte of a length field of the produced value equals a tag byte (0x22, 0x25, 0xF0, 0xF1; computed from two calibration lengths per entry point) × every entry point × every reveal point incl. the inline scanners and detectors called directly × {alone, text, partial tags, random bytes} around the value, then the protected value through the pass-through; the byte values each length field took are read from the produced values and guarded (all 256 low-byte values, all tag values of the second byte, per stored form and field); distinct there = (entry point, reveal point, framing, stored form, which length-field bytes equal a tag byte)"
	r.Assumptions = []string{
		"crypto library replaced by the pure-Go gothemis stand-in offering the Secure Cell Seal / Secure Message / EC key contract; AEAD strength is the stand-in's",
		"entry points driven in-process: acrastruct/acrablock library calls, crypto.RegistryHandler, all TranslatorService encrypt/decrypt operations, and the column pipeline built like proxyFactory.New (encryptor chain; hmac → container detector → hmac subscribers); wire-level transport is C04's",
		"plaintext lengths up to 64 KiB; Redis-backed keystores not covered",
	}
	rng := gen.New(r.Seed, "c01")
	master := ksrig.RandBytes(32)
	v1dir := ksrig.ScratchDir("c01-v1")
	v1, err := ksrig.V1(v1dir, master, keystore.InfiniteCacheSize)
	if err != nil {
		panic(err)
	}
	v2, err := ksrig.V2Mem(ksrig.NewV2Keys())
	if err != nil {
		panic(err)
	}
	envs := []*envrig.Env{}
	for _, p := range []struct {
		n  string
		ks ksrig.FullKeyStore
	}{{"v1", v1}, {"v2mem", v2}} {
		e, err := envrig.New(p.n, p.ks, nil, "")
		if err != nil {
			panic(err)
		}
		envs = append(envs, e)
	}
	clients := []client{{[]byte("client_alpha"), 0}, {[]byte("client-bravo-2"), 1}, {[]byte("charlie 3"), 3}}
	// values protected BEFORE rotation must still reveal after it: keep a few per client and entry point.
	type early struct {
		env *envrig.Env
		cl  client
		ep  entryPoint
		x   []byte
		y   []byte
	}
	var earlies []early
	eps := entryPoints()
	for _, e := range envs {
		for _, c := range clients {
			if err := ksrig.GenClient(e.KS, c.id); err != nil {
				panic(fmt.Sprintf("keygen %s: %v", e.Name, err))
			}
		}
	}
	for rot := 0; rot < 3; rot++ {
		for _, e := range envs {
			for _, c := range clients {
				for _, ep := range eps {
					x := gen.Content(rng, "random", 1+rng.Intn(300))
					y, err := ep.protect(e, c.id, x)
					if err == nil {
						earlies = append(earlies, early{e, c, ep, x, y})
					}
				}
			}
		}
		for _, e := range envs {
			for _, c := range clients {
				if c.rotations > rot {
					// rotate the storage keys (pair and symmetric). The search HMAC key is deliberately NOT rotated here:
					// hash verification uses the current HMAC key only (documented: rotating it needs re-hashing), which is not what C01 judges.
					if err := e.KS.GenerateDataEncryptionKeys(c.id); err != nil {
						panic(fmt.Sprintf("rotate %s: %v", e.Name, err))
					}
					if err := e.KS.GenerateClientIDSymmetricKey(c.id); err != nil {
						panic(fmt.Sprintf("rotate %s: %v", e.Name, err))
					}
				}
			}
			e.KS.Reset()
		}
	}

	var jobs []job
	if r.Thorough() {
		for stream := 0; stream < 3; stream++ {
			for _, e := range envs {
				for ci, c := range clients {
					for _, ep := range eps {
						for _, n := range gen.BoundaryLengths {
							for _, class := range gen.ContentClasses {
								fr := 0
								if ep.framable {
									fr = (stream*7 + ci + n + len(class)) % gen.FramingKinds
								}
								jobs = append(jobs, job{env: e, cl: c, ep: ep, class: class, x: gen.Content(rng, class, n), framing: fr})
							}
						}
					}
				}
			}
		}
	} else {
		for i := 0; i < 26000; i++ {
			e := envs[rng.Intn(len(envs))]
			c := clients[rng.Intn(len(clients))]
			ep := eps[i%len(eps)]
			n := gen.BoundaryLengths[rng.Intn(len(gen.BoundaryLengths))]
			if n >= 4095 && rng.Intn(3) != 0 {
				n = rng.Intn(400)
			}
			class := gen.ContentClasses[rng.Intn(len(gen.ContentClasses))]
			fr := 0
			if ep.framable {
				fr = rng.Intn(gen.FramingKinds)
			}
			jobs = append(jobs, job{env: e, cl: c, ep: ep, class: class, x: gen.Content(rng, class, n), framing: fr})
		}
	}
	// embedded whole envelopes (own / other client) at head, middle, tail of a plaintext, and whole envelopes as input
	nEmbed := r.Pick(4000, 12000)
	for i := 0; i < nEmbed; i++ {
		e := envs[rng.Intn(len(envs))]
		c := clients[rng.Intn(len(clients))]
		ep := eps[rng.Intn(len(eps))]
		donorEp := eps[rng.Intn(len(eps))]
		for donorEp.search {
			donorEp = eps[rng.Intn(len(eps))]
		}
		owner := c
		embed := "own"
		if rng.Intn(3) == 0 {
			owner = clients[(rng.Intn(len(clients)-1)+1+indexOf(clients, c))%len(clients)]
			embed = "other"
		}
		inner := gen.Content(rng, "ascii", 1+rng.Intn(60))
		y, err := donorEp.protect(e, owner.id, inner)
		if err != nil {
			continue
		}
		kindOfInput := rng.Intn(4)
		if kindOfInput == 0 && ep.lib {
			kindOfInput = 1 + rng.Intn(3) // raw library constructors wrap whatever they get; pass-through is a service-level promise
		}
		ek := LooksProtected(y)
		switch {
		case ek == "container" && y[11] == 0xF0:
			ek = "container-ab"
		case ek == "container":
			ek = "container-as"
		default:
			ek = "raw-" + ek
		}
		switch kindOfInput {
		case 0: // whole envelope as input
			jobs = append(jobs, job{env: e, cl: c, ep: ep, class: "whole-envelope:" + donorEp.name, x: y, embed: embed, inner: inner, whole: true, embedKind: ek})
		case 1:
			jobs = append(jobs, job{env: e, cl: c, ep: ep, class: "embedded-head", x: gen.Cat(y, gen.Bytes(rng, 1+rng.Intn(40))), embed: embed, inner: inner, embedKind: ek})
		case 2:
			jobs = append(jobs, job{env: e, cl: c, ep: ep, class: "embedded-middle", x: gen.Cat(gen.Bytes(rng, 1+rng.Intn(40)), y, gen.Bytes(rng, 1+rng.Intn(40))), embed: embed, inner: inner, embedKind: ek})
		default:
			jobs = append(jobs, job{env: e, cl: c, ep: ep, class: "embedded-tail", x: gen.Cat(gen.Bytes(rng, 1+rng.Intn(40)), y), embed: embed, inner: inner, embedKind: ek})
		}
	}
	// framing PRNG per job (deterministic)
	for i := range jobs {
		jobs[i].seedTag = fmt.Sprintf("c01-frame-%d", i)
	}

	// pre-rotation values
	for _, ea := range earlies {
		for _, rv := range ea.ep.reveals {
			r.Case()
			c := &caseCtx{}
			got, err := safeReveal(rv, ea.env, ea.cl.id, ea.y, c)
			if err != nil || !bytes.Equal(got, ea.x) {
				r.Violation(fmt.Sprintf("pre-rotation value not revealed: ks=%s ep=%s reveal=%s rotations=%d", ea.env.Name, ea.ep.name, rv.name, ea.cl.rotations),
					map[string]interface{}{"x": ev.FullHex(ea.x), "y": ev.FullHex(ea.y), "err": fmt.Sprint(err), "got": ev.Hex(got)})
			} else {
				r.Count("pre_rotation_values_revealed", 1)
				r.Distinct(fmt.Sprintf("prerot|%s|%s|%s|rot%d", ea.env.Name, ea.ep.name, rv.name, ea.cl.rotations))
			}
		}
	}

	workers := 12
	ch := make(chan job, 64)
	var wg sync.WaitGroup
	for w := 0; w < workers; w++ {
		wg.Add(1)
		go func() {
			defer wg.Done()
			for j := range ch {
				runJob(r, j)
			}
		}()
	}
	for _, j := range jobs {
		ch <- j
	}
	close(ch)
	wg.Wait()

	// non-vacuity: each entry point must have completed round trips
	for _, ep := range eps {
		r.RequireAtLeast("roundtrip:"+ep.name, 20)
	}
	r.RequireAtLeast("passthrough_of_valid_envelope", 20)
	compositeValues(r, gen.New(r.Seed, "c01-composite"), envs, clients, eps)
	for _, e := range envs {
		if e.Name == "v2mem" {
			longHistory(r, gen.New(r.Seed, "c01-long-history"), e, eps)
		}
	}
	r.RequireAtLeast("long_history_values_revealed:older-of-two-keys-with-one-id", 1)
	lengthSweep(r, envs, clients, eps)
	if ProxyLayer != nil {
		ProxyLayer(r)
	}
}

func indexOf(cs []client, c client) int {
	for i := range cs {
		if bytes.Equal(cs[i].id, c.id) {
			return i
		}
	}
	return 0
}

func safeProtect(ep entryPoint, e *envrig.Env, id, x []byte) (y []byte, err error, pan string) {
	defer func() {
		if p := recover(); p != nil {
			pan = fmt.Sprintf("%v\n%s", p, debug.Stack())
		}
	}()
	y, err = ep.protect(e, id, append([]byte{}, x...))
	return
}

func safeReveal(rv revealFn, e *envrig.Env, id, y []byte, c *caseCtx) (out []byte, err error) {
	defer func() {
		if p := recover(); p != nil {
			err = fmt.Errorf("PANIC: %v", p)
		}
	}()
	return rv.f(e, id, append([]byte{}, y...), c)
}

// cause classifies an input by how it was built (never by what Acra returned), so that signatures are stable.
func cause(j job, isCol bool, c *caseCtx) string {
	if isCol && len(c.pre) > 0 && hmac.ExtractHash(gen.Cat(c.pre, []byte("................................"))) != nil && len(c.pre) >= 1 && c.pre[0] == 0x7f {
		return "framing-prefix-looks-like-search-hash"
	}
	if isCol && j.embed != "" && !j.whole && len(j.x) > 33 && j.x[0] == 0x7f && j.class != "embedded-head" {
		// decrypted plaintext = 0x7f + >=32 bytes + ... envelope: the same blind-index heuristic applies to the decrypted value
		return "plaintext-starts-like-search-hash-and-embeds-envelope"
	}
	if j.embed != "" {
		return fmt.Sprintf("plaintext-embeds-envelope(%s,%s,%s)", j.class, j.embedKind, j.embed)
	}
	if lookalike(j.class) {
		return "lookalike:" + j.class
	}
	return "plain:" + j.class
}

func runJob(r *ev.Run, j job) {
	r.Case()
	x := j.x
	detail := func(extra map[string]interface{}) map[string]interface{} {
		m := map[string]interface{}{"keystore": j.env.Name, "client": string(j.cl.id), "rotations": j.cl.rotations, "entry_point": j.ep.name, "class": j.class, "len": len(x), "x": ev.FullHex(x), "framing": j.framing}
		for k, v := range extra {
			m[k] = v
		}
		return m
	}
	y, err, pan := safeProtect(j.ep, j.env, j.cl.id, x)
	if pan != "" {
		r.Violation(fmt.Sprintf("panic in protect: ep=%s cause=%s", j.ep.name, cause(j, false, &caseCtx{})), detail(map[string]interface{}{"panic": pan}))
		return
	}
	if err != nil {
		if len(x) == 0 {
			r.Count("protect_error_empty_input", 1)
			return
		}
		r.Count("protect_error_nonempty", 1)
		// a refusal protects nothing; only count. A systematic refusal is caught by the non-vacuity guard.
		r.SampleN("protect-error", 2, detail(map[string]interface{}{"err": err.Error()}))
		return
	}
	if len(x) == 0 {
		r.Count("empty_input_accepted", 1)
	}
	frng := gen.New(r.Seed, j.seedTag)
	cc := &caseCtx{}
	if j.ep.framable && j.framing != 0 {
		cc.pre, cc.suf = gen.Framing(frng, j.framing)
	}
	hl := hmac.GetDefaultHashSize()
	passed := bytes.Equal(y, x) || (j.ep.search && len(y) == hl+len(x) && bytes.Equal(y[hl:], x))
	if passed {
		// the input was not wrapped: legitimate only when x is (or is built to look like) a protected value
		switch {
		case j.whole:
			r.Count("passthrough_of_valid_envelope", 1)
			r.Distinct(fmt.Sprintf("passthrough|%s|%s|%s", j.env.Name, j.ep.name, j.class))
			if j.embed == "own" {
				if !j.ep.search {
					checkWholeReveal(r, j, cc, detail)
				} else if j.ep.column != "" {
					got, err := safeReveal(colReveal(j.ep.column), j.env, j.cl.id, y, &caseCtx{})
					if err != nil || !bytes.Equal(got, j.inner) {
						r.Violation(fmt.Sprintf("searchable form over an existing envelope does not reveal: ep=%s input=%s", j.ep.name, j.class), detail(map[string]interface{}{"y": ev.Hex(y), "got": ev.Hex(got), "err": fmt.Sprint(err)}))
						return
					}
					r.Count("passthrough_reveals_ok", 1)
				} else {
					r.Count("searchable_over_envelope_reveal_not_judged", 1)
				}
			}
			return
		case len(x) == 0:
			return
		case j.embed != "":
			// envelope followed/preceded by other plaintext bytes: not a protected value; leaving it unwrapped stores those bytes in clear
			r.Violation(fmt.Sprintf("plaintext returned unprotected: ep=%s cause=%s", j.ep.name, cause(j, false, cc)), detail(nil))
			return
		case lookalike(j.class) && (hasEnvelopeTag(x) || LooksProtected(x) != ""):
			r.Count("passthrough_of_lookalike", 1)
			r.SetAdd("lookalike_classes_passed_through", j.class)
			// identity must still hold through the column path
			if j.ep.framable {
				rv := colReveal(map[string]string{"acrastruct": "plain_as", "acrablock": "plain_ab"}[j.ep.kind])
				got, err := safeReveal(rv, j.env, j.cl.id, y, cc)
				if err != nil || !bytes.Equal(got, x) {
					r.Violation(fmt.Sprintf("pass-through value altered on read: ep=%s reveal=%s cause=%s", j.ep.name, rv.name, cause(j, true, cc)), detail(map[string]interface{}{"got": ev.Hex(got), "err": fmt.Sprint(err), "pre": ev.FullHex(cc.pre), "suf": ev.FullHex(cc.suf)}))
				}
			}
			return
		default:
			r.Violation(fmt.Sprintf("plaintext returned unprotected: ep=%s cause=%s", j.ep.name, cause(j, false, cc)), detail(nil))
			return
		}
	}
	if j.whole {
		// a valid protected value was changed by protect: allowed only as re-encryption (reveals to the inner plaintext), never as a second wrapping
		ok := false
		if j.embed == "own" {
			for _, rv := range j.ep.reveals {
				got, err := safeReveal(rv, j.env, j.cl.id, y, &caseCtx{})
				if err == nil && bytes.Equal(got, j.inner) {
					ok = true
					r.Count("reencrypted_valid_envelope", 1)
					break
				}
			}
		}
		if !ok {
			r.Violation(fmt.Sprintf("valid protected value wrapped a second time: ep=%s input=%s owner=%s", j.ep.name, j.class, j.embed), detail(map[string]interface{}{"y": ev.Hex(y)}))
		}
		return
	}
	if len(x) >= 16 && (j.class == "random" || j.class == "ascii" || j.class == "utf8") && bytes.Contains(y, x) {
		r.Violation(fmt.Sprintf("protected form contains the plaintext: ep=%s cause=%s", j.ep.name, cause(j, false, cc)), detail(map[string]interface{}{"y": ev.Hex(y)}))
		return
	}
	okAny := false
	for _, rv := range j.ep.reveals {
		c := &caseCtx{}
		isCol := len(rv.name) > 7 && rv.name[:7] == "column:"
		if isCol && j.ep.framable {
			c = cc
		}
		got, err := safeReveal(rv, j.env, j.cl.id, y, c)
		if err != nil || !bytes.Equal(got, x) {
			r.Violation(fmt.Sprintf("round trip broken: ep=%s reveal=%s cause=%s", j.ep.name, rv.name, cause(j, isCol, c)),
				detail(map[string]interface{}{"y": ev.FullHex(y), "pre": ev.FullHex(c.pre), "suf": ev.FullHex(c.suf), "got": ev.Hex(got), "err": fmt.Sprint(err)}))
			continue
		}
		okAny = true
		fk := 0
		if isCol {
			fk = j.framing
		}
		r.Distinct(fmt.Sprintf("%s|%s|%s|%s|%s|f%d", j.env.Name, j.ep.name, rv.name, lenClass(len(x)), j.class, fk))
		r.Count("reveals_ok", 1)
	}
	if okAny {
		r.Count("roundtrip:"+j.ep.name, 1)
		r.SampleN("rt:"+j.ep.name, 1, map[string]interface{}{"keystore": j.env.Name, "client": string(j.cl.id), "entry_point": j.ep.name, "class": j.class, "len": len(x), "x": ev.Hex(x), "protected": ev.Hex(y), "pre": ev.Hex(cc.pre), "suf": ev.Hex(cc.suf)})
	}
}

func classSig(j job) string {
	if j.embed != "" {
		return j.class + "/" + j.embed
	}
	return j.class
}

func boolInt(b bool) int {
	if b {
		return 1
	}
	return 0
}

func hasEnvelopeTag(x []byte) bool {
	return bytes.HasPrefix(x, []byte(`""""`)) || bytes.HasPrefix(x, []byte("%%%"))
}

// checkWholeReveal: a passed-through valid envelope of the same client must reveal to its inner plaintext.
func checkWholeReveal(r *ev.Run, j job, cc *caseCtx, detail func(map[string]interface{}) map[string]interface{}) {
	// use the generic reveal points that accept any envelope kind
	rv := revealFn{"registry.Process", func(e *envrig.Env, id, y []byte, _ *caseCtx) ([]byte, error) {
		return e.Registry.Process(y, e.ProcCtx(id))
	}}
	y := j.x
	if hmac.ExtractHash(y) != nil && LooksProtected(y) == "" {
		// searchable form hash‖envelope: reveal through the hash processor
		rv = revealFn{"hmac.NewHashProcessor(registry)", func(e *envrig.Env, id, y []byte, _ *caseCtx) ([]byte, error) {
			return hmac.NewHashProcessor(e.Registry, e.KS).Process(y, e.ProcCtx(id))
		}}
	}
	got, err := safeReveal(rv, j.env, j.cl.id, y, &caseCtx{})
	if err != nil || !bytes.Equal(got, j.inner) {
		r.Violation(fmt.Sprintf("passed-through envelope does not reveal: ep=%s input=%s", j.ep.name, j.class), detail(map[string]interface{}{"got": ev.Hex(got), "err": fmt.Sprint(err)}))
		return
	}
	r.Count("passthrough_reveals_ok", 1)
}
