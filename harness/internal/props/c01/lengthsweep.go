package c01

// Length sweep: "whatever its content, LENGTH or the bytes that surround it inside a column value".
//
// Every stored form carries little-endian length fields right behind (or a fixed distance behind) its begin tag:
//   raw AcraBlock   = '"'x4 ‖ u64 rest length ‖ type ‖ key id[2] ‖ type ‖ u16 key length ‖ wrapped key ‖ payload
//   raw AcraStruct  = '"'x8 ‖ public key[45] ‖ wrapped key[84] ‖ u64 data length ‖ payload
//   container       = '%'x3 ‖ u64 total length ‖ envelope id (0xF0 | 0xF1) ‖ one of the two above
//   searchable      = hash ‖ one of the three above
// and every one of these field values is "constant + plaintext length". The scanners (EnvelopeDetector.OnColumn,
// acrastruct.ProcessAcraStructs, acrablock.ProcessAcraBlocks), the signature tests of the pass-through (MatchDataSignature,
// ExtractSerializedContainer, matchOldContainer) and the decryptors all walk over these bytes while they look for tag bytes,
// so a byte of a length field that EQUALS a tag byte ('"' 0x22, '%' 0x25, envelope ids 0xF0/0xF1, ...) is the place where
// a scanner can lose or mis-place an envelope. A sample of lengths meets such a value with probability 1/256 per field.
//
// This layer therefore drives a CONTIGUOUS sweep of plaintext lengths (every length field's low byte runs through all 256
// values several times, the second byte through its first few values) plus TARGETED lengths at which the second byte of a
// length field equals a tag byte (computed from the layouts the monitor measures itself: field value at two calibration
// lengths gives the constant), through every protect entry point and every reveal entry point, alone in the value and
// surrounded by bytes, and through the pass-through of the protected value. What was actually driven is MEASURED: the
// monitor reads the length fields of every produced value with its own parser and records which byte values each byte of
// each field took; the guards demand the full low-byte range and the tag values of the second byte per stored form.
//
// Judged (same oracle as the sampled layer): protect changes the value; every reveal point of the entry point returns the
// plaintext byte for byte; column/scanner/detector reveal points return prefix‖plaintext‖suffix; a protected value given to a
// service-level protect entry point comes back unchanged (or re-encrypted so that it reveals to the same plaintext).

import (
	"bytes"
	"context"
	"encoding/binary"
	"fmt"
	"sort"
	"strings"
	"sync"
	"time"

	"github.com/cossacklabs/acra/acrablock"
	"github.com/cossacklabs/acra/acrastruct"
	"github.com/cossacklabs/acra/crypto"
	"github.com/cossacklabs/acra/decryptor/base"
	"github.com/cossacklabs/acra/hmac"

	"verif/harness/internal/ev"
	"verif/harness/internal/gen"
	"verif/harness/internal/rig/envrig"
)

// tagByteValues are the byte values the scanners and signature tests look for: the AcraStruct/AcraBlock tag symbol,
// the serialized-container tag symbol and the two envelope ids that follow the container's length field.
var tagByteValues = []byte{0x22, 0x25, 0xF0, 0xF1}

func isTagByte(b byte) bool { return bytes.IndexByte(tagByteValues, b) >= 0 }

// lenField is one length/counter field of a protected value as the monitor reads it.
type lenField struct {
	name  string // form-qualified: container-ab.total, container-ab.rest, raw-acrastruct.data, ...
	value uint64
	size  int
}

// lengthFields reads the stored form and every length field of a protected value with the monitor's own view of the layouts.
func lengthFields(y []byte, search bool) (form string, fields []lenField) {
	prefix := ""
	if search {
		hl := hmac.GetDefaultHashSize()
		if len(y) < hl {
			return "", nil
		}
		y = y[hl:]
		prefix = "hash+"
	}
	inner := func(form string, b []byte, kind string) bool {
		switch kind {
		case "acrastruct":
			if len(b) < 145 || !bytes.Equal(b[:8], bytes.Repeat([]byte{'"'}, 8)) {
				return false
			}
			fields = append(fields, lenField{form + ".data", binary.LittleEndian.Uint64(b[137:145]), 8})
		case "acrablock":
			if len(b) < 18 || !bytes.Equal(b[:4], []byte(`""""`)) {
				return false
			}
			fields = append(fields, lenField{form + ".rest", binary.LittleEndian.Uint64(b[4:12]), 8},
				lenField{form + ".keylen", uint64(binary.LittleEndian.Uint16(b[16:18])), 2})
		}
		return true
	}
	switch k := envelopeKind(y); k {
	case "raw-acrastruct", "raw-acrablock":
		form = prefix + k
		if !inner(form, y, strings.TrimPrefix(k, "raw-")) {
			return "", nil
		}
	case "container-as", "container-ab":
		form = prefix + k
		fields = append(fields, lenField{form + ".total", binary.LittleEndian.Uint64(y[3:11]), 8})
		if !inner(form, y[12:], map[string]string{"container-as": "acrastruct", "container-ab": "acrablock"}[k]) {
			return "", nil
		}
	default:
		return "", nil
	}
	return form, fields
}

// tagBytesIn names the (field, byte index) positions that hold a tag-byte value, e.g. "rest.b0=22"; the form prefix is dropped
// because the signature names the form separately. Only bytes the plaintext length can drive (b0, b1) and the key length.
func tagBytesIn(fields []lenField) string {
	var hits []string
	for _, f := range fields {
		short := f.name[strings.LastIndex(f.name, ".")+1:]
		for i := 0; i < 2 && i < f.size; i++ {
			b := byte(f.value >> (8 * uint(i)))
			if isTagByte(b) {
				hits = append(hits, fmt.Sprintf("%s.b%d=%02x", short, i, b))
			}
		}
	}
	if len(hits) == 0 {
		return "none"
	}
	return strings.Join(hits, ",")
}

// --- direct reveal points: the inline scanners and the detectors without the rest of the column pipeline ---

type registryProcessor struct {
	e  *envrig.Env
	id []byte
}

func (p registryProcessor) OnAcraStruct(_ context.Context, as []byte) ([]byte, error) {
	h, _ := crypto.GetHandlerByEnvelopeID(crypto.AcraStructEnvelopeID)
	return p.e.Registry.DecryptWithHandler(h, append([]byte{}, as...), p.e.ProcCtx(p.id))
}

func (p registryProcessor) OnAcraBlock(_ context.Context, ab acrablock.AcraBlock) ([]byte, error) {
	h, _ := crypto.GetHandlerByEnvelopeID(crypto.AcraBlockEnvelopeID)
	return p.e.Registry.DecryptWithHandler(h, append([]byte{}, ab...), p.e.ProcCtx(p.id))
}

func unframe(out []byte, c *caseCtx) ([]byte, error) {
	if !bytes.HasPrefix(out, c.pre) || !bytes.HasSuffix(out[len(c.pre):], c.suf) {
		return out, fmt.Errorf("framing bytes altered: got %s", ev.Hex(out))
	}
	return out[len(c.pre) : len(out)-len(c.suf)], nil
}

func clientCtx(id []byte) context.Context {
	return base.SetAccessContextToContext(context.Background(), base.NewAccessContext(base.WithClientID(id)))
}

// directReveals are the reveal points below the column pipeline that admit the stored form.
func directReveals(form string) []revealFn {
	scanAS := revealFn{"scanner:acrastruct.ProcessAcraStructs", func(e *envrig.Env, id, y []byte, c *caseCtx) ([]byte, error) {
		in := gen.Cat(c.pre, y, c.suf)
		out, err := acrastruct.ProcessAcraStructs(clientCtx(id), in, make([]byte, len(in)), registryProcessor{e, id})
		if err != nil {
			return nil, err
		}
		return unframe(out, c)
	}}
	scanAB := revealFn{"scanner:acrablock.ProcessAcraBlocks", func(e *envrig.Env, id, y []byte, c *caseCtx) ([]byte, error) {
		in := gen.Cat(c.pre, y, c.suf)
		out, err := acrablock.ProcessAcraBlocks(clientCtx(id), in, make([]byte, len(in)), registryProcessor{e, id})
		if err != nil {
			return nil, err
		}
		return unframe(out, c)
	}}
	detector := func(old bool) revealFn {
		name := "detector:EnvelopeDetector"
		if old {
			name = "detector:OldContainerDetectorWrapper"
		}
		return revealFn{name, func(e *envrig.Env, id, y []byte, c *caseCtx) ([]byte, error) {
			d := crypto.NewEnvelopeDetector()
			var sub base.DecryptionSubscriber = d
			if old {
				sub = crypto.NewOldContainerDetectorWrapper(d)
			}
			d.AddCallback(crypto.NewDecryptHandler(e.KS, e.Registry))
			_, out, err := sub.OnColumn(clientCtx(id), gen.Cat(c.pre, y, c.suf))
			if err != nil {
				return nil, err
			}
			return unframe(out, c)
		}}
	}
	switch form {
	case "raw-acrastruct":
		return []revealFn{scanAS, detector(true)}
	case "raw-acrablock":
		return []revealFn{scanAB, detector(true)}
	case "container-as", "container-ab":
		return []revealFn{detector(false), detector(true)}
	}
	return nil
}

// sweepFraming returns the named surroundings; none of them starts like a search hash (0x7f ‖ 32 bytes: the listed finding
// framing-prefix-parsed-as-search-hash is judged by the sampled layer).
func sweepFraming(rng *gen.Rand, kind string, n int) (pre, suf []byte) {
	partial := [][]byte{[]byte("%"), []byte("%%"), []byte(`"`), []byte(`""`), []byte(`"""`), []byte(`""""`), []byte(`"""""`), []byte(`""""""`), []byte(`"""""""`)}
	switch kind {
	case "text":
		return []byte("id=17;payload="), []byte(";end")
	case "partial-tags":
		return append(gen.Content(rng, "ascii", n%5), partial[n%len(partial)]...), append(append([]byte{}, partial[(n/9+n)%len(partial)]...), gen.Content(rng, "ascii", n%3)...)
	case "random":
		pre = gen.Bytes(rng, 1+rng.Intn(40))
		if pre[0] == 0x7f {
			pre[0] = 0x7e
		}
		return pre, gen.Bytes(rng, 1+rng.Intn(40))
	}
	return nil, nil
}

var sweepFramings = []string{"alone", "text", "partial-tags", "random"}

type sweepJob struct {
	n      int
	epIdx  int
	reason string // contiguous | targeted:<field>.b1
}

// oldFormatSearchable adds the searchable stored forms of data written before the serialized container existed:
// hash ‖ raw AcraStruct and hash ‖ raw AcraBlock (the hash is the one the translator computes for the plaintext).
func oldFormatSearchable(eps []entryPoint) []entryPoint {
	var out []entryPoint
	for _, ep := range eps {
		switch ep.name {
		case "translator.EncryptSearchable":
			out = append(out, entryPoint{name: "old-format(hash‖raw AcraStruct)", kind: "acrastruct", search: true, lib: true, reveals: ep.reveals,
				protect: func(e *envrig.Env, id, x []byte) ([]byte, error) {
					r, err := e.Translator.EncryptSearchable(bg, append([]byte{}, x...), id, nil)
					if err != nil {
						return nil, err
					}
					pub, err := e.KS.GetClientIDEncryptionPublicKey(id)
					if err != nil {
						return nil, err
					}
					as, err := acrastruct.CreateAcrastruct(x, pub, nil)
					if err != nil {
						return nil, err
					}
					return gen.Cat(r.Hash, as), nil
				}})
		case "translator.EncryptSymSearchable":
			out = append(out, entryPoint{name: "old-format(hash‖raw AcraBlock)", kind: "acrablock", search: true, lib: true, reveals: ep.reveals,
				protect: func(e *envrig.Env, id, x []byte) ([]byte, error) {
					r, err := e.Translator.EncryptSymSearchable(bg, append([]byte{}, x...), id, nil)
					if err != nil {
						return nil, err
					}
					k, err := e.KS.GetClientIDSymmetricKey(id)
					if err != nil {
						return nil, err
					}
					ab, err := acrablock.CreateAcraBlock(x, k, nil)
					if err != nil {
						return nil, err
					}
					return gen.Cat(r.Hash, ab), nil
				}})
		}
	}
	return out
}

func lengthSweep(r *ev.Run, envs []*envrig.Env, clients []client, eps []entryPoint) {
	started := time.Now()
	defer func() { r.Extra("lensweep_wall_s", time.Since(started).Seconds()) }() // reporting only, decides nothing
	eps = append(append([]entryPoint{}, eps...), oldFormatSearchable(eps)...)
	maxContiguous := r.Pick(1100, 3300)
	lowBytes := []uint64{0x00, 0x22, 0x25, 0xF0, 0xF1, 0xFF}
	if r.Thorough() {
		lowBytes = []uint64{0x00, 0x01, 0x21, 0x22, 0x23, 0x24, 0x25, 0x26, 0x7f, 0xEF, 0xF0, 0xF1, 0xF2, 0xFF}
	}
	var nonLib []int
	for i, ep := range eps {
		if !ep.lib {
			nonLib = append(nonLib, i)
		}
	}
	var jobs []sweepJob
	for n := 0; n <= maxContiguous; n++ {
		for i := range eps {
			jobs = append(jobs, sweepJob{n, i, "contiguous"})
		}
	}
	// targeted lengths: calibrate every entry point's field constants from two lengths, then aim the second byte of every
	// plaintext-driven field at every tag value
	calRng := gen.New(r.Seed, "c01-lensweep-cal")
	for i, ep := range eps {
		e, c := envs[i%len(envs)], clients[i%len(clients)]
		y1, err1 := ep.protect(e, c.id, gen.Content(calRng, "ascii", 64))
		y2, err2 := ep.protect(e, c.id, gen.Content(calRng, "ascii", 65))
		if err1 != nil || err2 != nil {
			r.Count("lensweep_calibration_failed", 1)
			continue
		}
		_, f1 := lengthFields(y1, ep.search)
		_, f2 := lengthFields(y2, ep.search)
		if len(f1) == 0 || len(f1) != len(f2) {
			r.Count("lensweep_calibration_failed", 1)
			continue
		}
		seen := map[int]bool{}
		for k := range f1 {
			if f2[k].value != f1[k].value+1 {
				r.SetAdd("lensweep_fields_not_driven_by_plaintext_length", fmt.Sprintf("%s=%d", f1[k].name, f1[k].value))
				continue
			}
			konst := f1[k].value - 64
			r.SetAdd("lensweep_field_constants", fmt.Sprintf("%s=len+%d", f1[k].name, konst))
			for _, hi := range tagByteValues {
				for _, lo := range lowBytes {
					target := uint64(hi)<<8 | lo
					if target < konst+1 || target-konst > 65536 {
						continue
					}
					n := int(target - konst)
					if n <= maxContiguous || seen[n] {
						continue
					}
					seen[n] = true
					jobs = append(jobs, sweepJob{n, i, "targeted:" + f1[k].name[strings.LastIndex(f1[k].name, ".")+1:] + ".b1"})
				}
			}
		}
	}
	r.Count("lensweep_jobs", int64(len(jobs)))

	var mu sync.Mutex
	formFields := map[string]bool{} // plaintext-driven (form, field) pairs observed
	workers := 12
	ch := make(chan sweepJob, 64)
	var wg sync.WaitGroup
	for w := 0; w < workers; w++ {
		wg.Add(1)
		go func() {
			defer wg.Done()
			for j := range ch {
				for _, name := range runSweepJob(r, j, envs, clients, eps, nonLib) {
					mu.Lock()
					formFields[name] = true
					mu.Unlock()
				}
			}
		}()
	}
	for _, j := range jobs {
		ch <- j
	}
	close(ch)
	wg.Wait()

	// non-vacuity: what the sweep reached is measured on the produced values, not assumed from the length list
	var names []string
	for n := range formFields {
		names = append(names, n)
	}
	sort.Strings(names)
	r.Extra("lensweep_fields_observed", names)
	forms := map[string]bool{}
	for _, n := range names {
		forms[n[:strings.LastIndex(n, ".")]] = true
		if strings.HasSuffix(n, ".keylen") {
			continue
		}
		r.RequireSetAtLeast("lensweep_low_byte_values:"+n, 256)
		r.RequireSetAtLeast("lensweep_second_byte_tag_values:"+n, len(tagByteValues))
	}
	for _, f := range []string{"raw-acrastruct", "raw-acrablock", "container-as", "container-ab"} {
		if !forms[f] {
			r.Inconclusive("length sweep: stored form " + f + " was never produced")
		}
	}
	r.Count("lensweep_stored_forms", int64(len(forms)))
	r.RequireAtLeast("lensweep_stored_forms", 6)
	for _, ep := range eps {
		r.RequireAtLeast("lensweep_roundtrip:"+ep.name, int64(maxContiguous)*9/10)
		r.RequireAtLeast("lensweep_roundtrip_with_tag_byte_in_length_field:"+ep.name, 20)
	}
	for _, fr := range sweepFramings {
		r.RequireAtLeast("lensweep_reveals_ok:framing="+fr, int64(maxContiguous))
	}
	for _, rv := range []string{"scanner:acrastruct.ProcessAcraStructs", "scanner:acrablock.ProcessAcraBlocks", "detector:EnvelopeDetector", "detector:OldContainerDetectorWrapper"} {
		r.RequireAtLeast("lensweep_reveals_ok:"+rv, int64(maxContiguous))
	}
	r.RequireAtLeast("lensweep_passthrough_of_protected_value", int64(maxContiguous))
	r.RequireAtLeast("lensweep_targeted_lengths_revealed", 100)
}

// runSweepJob drives one (length, entry point) pair; returns the plaintext-driven field names seen on the produced value.
func runSweepJob(r *ev.Run, j sweepJob, envs []*envrig.Env, clients []client, eps []entryPoint, nonLib []int) (seenFields []string) {
	r.Case()
	ep := eps[j.epIdx]
	e := envs[(j.n+j.epIdx)%len(envs)]
	cl := clients[(j.n/2+j.epIdx)%len(clients)]
	rng := gen.New(r.Seed, fmt.Sprintf("c01-lensweep-%d-%d", j.n, j.epIdx))
	class := []string{"ascii", "random", "utf8"}[(j.n+j.epIdx)%3]
	x := gen.Content(rng, class, j.n)
	detail := func(extra map[string]interface{}) map[string]interface{} {
		m := map[string]interface{}{"keystore": e.Name, "client": string(cl.id), "entry_point": ep.name, "class": class, "len": len(x), "x": ev.FullHex(x), "why_this_length": j.reason}
		for k, v := range extra {
			m[k] = v
		}
		return m
	}
	y, err, pan := safeProtect(ep, e, cl.id, x)
	if pan != "" {
		r.Violation(fmt.Sprintf("length sweep: panic in protect: ep=%s", ep.name), detail(map[string]interface{}{"panic": pan}))
		return
	}
	if err != nil {
		if len(x) == 0 {
			r.Count("lensweep_protect_error_empty_input", 1)
		} else {
			r.Count("lensweep_protect_error_nonempty", 1)
			r.SampleN("lensweep-protect-error", 2, detail(map[string]interface{}{"err": err.Error()}))
		}
		return
	}
	if len(x) == 0 {
		r.Count("lensweep_empty_input_accepted", 1)
		return
	}
	hl := hmac.GetDefaultHashSize()
	if bytes.Equal(y, x) || (ep.search && len(y) == hl+len(x) && bytes.Equal(y[hl:], x)) {
		r.Violation(fmt.Sprintf("length sweep: plaintext returned unprotected: ep=%s", ep.name), detail(nil))
		return
	}
	form, fields := lengthFields(y, ep.search)
	if form == "" {
		// the monitor's own layout reading does not recognise the value: nothing to aim at, the round trip is still judged
		r.Count("lensweep_form_not_recognised", 1)
		form = "unrecognised"
	}
	for _, f := range fields {
		if !strings.HasSuffix(f.name, ".keylen") {
			r.SetAdd("lensweep_low_byte_values:"+f.name, fmt.Sprintf("%02x", byte(f.value)))
			if b1 := byte(f.value >> 8); isTagByte(b1) {
				r.SetAdd("lensweep_second_byte_tag_values:"+f.name, fmt.Sprintf("%02x", b1))
			}
		}
		seenFields = append(seenFields, f.name)
	}
	tagHits := tagBytesIn(fields)
	sigTail := fmt.Sprintf("form=%s length-field-bytes-equal-to-tag-bytes={%s}", form, tagHits)

	reveals := append([]revealFn{}, ep.reveals...)
	if !ep.search {
		reveals = append(reveals, directReveals(form)...)
	}
	okAll := true
	for _, rv := range reveals {
		framed := ep.framable && (strings.HasPrefix(rv.name, "column:") || strings.HasPrefix(rv.name, "scanner:") || strings.HasPrefix(rv.name, "detector:"))
		framings := sweepFramings[:1]
		if framed {
			framings = sweepFramings
			if !strings.HasPrefix(rv.name, "column:") {
				// direct scanner/detector calls: alone plus one kind of surroundings, rotating with every pass of the
				// low length byte through its 256 values (the column pipeline above them gets all kinds at every length)
				framings = []string{"alone", sweepFramings[1+(j.n/256+j.epIdx)%3]}
			}
		}
		for _, fr := range framings {
			c := &caseCtx{}
			c.pre, c.suf = sweepFraming(rng, fr, j.n)
			got, err := safeReveal(rv, e, cl.id, y, c)
			if err != nil || !bytes.Equal(got, x) {
				okAll = false
				state := "altered"
				if err != nil {
					state = "error"
				} else if bytes.Equal(got, y) {
					state = "left-protected"
				}
				where := "alone"
				if fr != "alone" {
					where = "surrounded"
				}
				r.Violation(fmt.Sprintf("length sweep: round trip broken: ep=%s reveal=%s value=%s result=%s %s", ep.name, rv.name, where, state, sigTail),
					detail(map[string]interface{}{"framing": fr, "y": ev.FullHex(y), "pre": ev.FullHex(c.pre), "suf": ev.FullHex(c.suf), "got": ev.Hex(got), "err": fmt.Sprint(err), "length_fields": fmt.Sprint(fields)}))
				continue
			}
			r.Count("lensweep_reveals_ok", 1)
			r.Count("lensweep_reveals_ok:framing="+fr, 1)
			if strings.HasPrefix(rv.name, "scanner:") || strings.HasPrefix(rv.name, "detector:") {
				r.Count("lensweep_reveals_ok:"+rv.name, 1)
			}
			r.Distinct(fmt.Sprintf("lensweep|%s|%s|%s|%s|%s", ep.name, rv.name, fr, form, tagHits))
		}
	}
	if okAll {
		r.Count("lensweep_roundtrip:"+ep.name, 1)
		if tagHits != "none" {
			r.Count("lensweep_roundtrip_with_tag_byte_in_length_field:"+ep.name, 1)
			r.SampleN("lensweep:"+ep.name, 1, map[string]interface{}{"keystore": e.Name, "client": string(cl.id), "entry_point": ep.name, "len": len(x), "form": form, "length_fields": fmt.Sprint(fields), "tag_bytes_in_length_fields": tagHits, "protected_head": ev.Hex(y[:min(len(y), 64)]), "why_this_length": j.reason})
		}
		if j.reason != "contiguous" {
			r.Count("lensweep_targeted_lengths_revealed", 1)
		}
	}

	// pass-through: the protected value given to service-level protect entry points (the one that wrote it, and one other in rotation)
	if ep.search {
		return
	}
	targets := []int{nonLib[(j.n+j.epIdx)%len(nonLib)]}
	if !ep.lib && targets[0] != j.epIdx {
		targets = append(targets, j.epIdx)
	}
	for _, ti := range targets {
		t := eps[ti]
		y2, err, pan := safeProtect(t, e, cl.id, y)
		if pan != "" {
			r.Violation(fmt.Sprintf("length sweep: panic in protect of a protected value: ep=%s input=%s", t.name, sigTail), detail(map[string]interface{}{"panic": pan, "y": ev.FullHex(y)}))
			continue
		}
		if err != nil {
			r.Count("lensweep_passthrough_protect_error", 1)
			continue
		}
		passed := bytes.Equal(y2, y) || (t.search && len(y2) == hl+len(y) && bytes.Equal(y2[hl:], y))
		if passed {
			r.Count("lensweep_passthrough_of_protected_value", 1)
			r.Distinct(fmt.Sprintf("lensweep-pass|%s|%s|%s", t.name, form, tagHits))
			if t.search && t.column != "" {
				got, err := safeReveal(colReveal(t.column), e, cl.id, y2, &caseCtx{})
				if err != nil || !bytes.Equal(got, x) {
					r.Violation(fmt.Sprintf("length sweep: searchable form over an existing envelope does not reveal: ep=%s input: %s", t.name, sigTail), detail(map[string]interface{}{"y": ev.FullHex(y), "y2": ev.Hex(y2), "got": ev.Hex(got), "err": fmt.Sprint(err)}))
				}
			}
			continue
		}
		ok := false
		for _, rv := range t.reveals {
			got, err := safeReveal(rv, e, cl.id, y2, &caseCtx{})
			if err == nil && bytes.Equal(got, x) {
				ok = true
				r.Count("lensweep_reencrypted_protected_value", 1)
				break
			}
		}
		if !ok {
			r.Violation(fmt.Sprintf("length sweep: valid protected value wrapped a second time: ep=%s input: written-by=%s %s", t.name, ep.name, sigTail), detail(map[string]interface{}{"y": ev.FullHex(y), "y2": ev.Hex(y2), "length_fields": fmt.Sprint(fields)}))
		}
	}
	return
}
