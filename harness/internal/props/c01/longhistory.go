package c01

// Long key histories: "all client identities with keys" includes clients whose symmetric storage key was rotated hundreds of
// times. An AcraBlock names its key by a 2-byte id (sha256(key‖context)[:2]), so with a few hundred generations two keys of
// one client share an id; a value written under the older of the two must still be revealed (the decryptor has to go on to
// the next key when unwrapping with the first matching one fails).

import (
	"bytes"
	"crypto/sha256"
	"fmt"

	"verif/harness/internal/ev"
	"verif/harness/internal/gen"
	"verif/harness/internal/rig/envrig"
)

func longHistory(r *ev.Run, rng *gen.Rand, e *envrig.Env, eps []entryPoint) {
	id := []byte("delta-rotated-many")
	if err := e.KS.GenerateClientIDSymmetricKey(id); err != nil {
		r.Inconclusive("long history: " + err.Error())
		return
	}
	if err := e.KS.GenerateDataEncryptionKeys(id); err != nil {
		r.Inconclusive("long history: " + err.Error())
		return
	}
	var abEps []entryPoint
	for _, ep := range eps {
		if ep.kind == "acrablock" && !ep.search && ep.column == "" {
			abEps = append(abEps, ep)
		}
	}
	type written struct {
		gen  int
		ep   entryPoint
		x, y []byte
	}
	var vals []written
	keyID := func(k []byte) [2]byte {
		h := sha256.Sum256(k)
		return [2]byte{h[0], h[1]}
	}
	firstWithID := map[[2]byte]int{}
	var collisions [][2]int // (older generation, newer generation) sharing a key id
	const maxGen = 4000
	g := 0
	for ; g < maxGen && (len(collisions) < 3 || g < 300); g++ {
		k, err := e.KS.GetClientIDSymmetricKey(id)
		if err != nil {
			r.Inconclusive("long history: " + err.Error())
			return
		}
		kid := keyID(k)
		if old, ok := firstWithID[kid]; ok {
			collisions = append(collisions, [2]int{old, g})
		} else {
			firstWithID[kid] = g
		}
		ep := abEps[g%len(abEps)]
		x := append([]byte(fmt.Sprintf("generation %d ", g)), gen.Content(rng, "random", 8+rng.Intn(40))...)
		y, err := ep.protect(e, id, x)
		if err != nil {
			r.Violation(fmt.Sprintf("long key history: protect failed: ks=%s ep=%s", e.Name, ep.name), map[string]interface{}{"generation": g, "err": err.Error()})
			return
		}
		vals = append(vals, written{g, ep, x, y})
		if err := e.KS.GenerateClientIDSymmetricKey(id); err != nil {
			r.Inconclusive("long history: rotate: " + err.Error())
			return
		}
	}
	e.KS.Reset()
	r.Count("long_history_generations", int64(g))
	r.Count("long_history_key_id_collisions", int64(len(collisions)))
	if len(collisions) == 0 {
		r.Inconclusive(fmt.Sprintf("long history: no two of %d symmetric keys share a 2-byte key id", g))
		return
	}
	// reveal: every value written under a key that shares its id with another generation, plus a sample of the others
	check := map[int]string{}
	for _, c := range collisions {
		check[c[0]] = "older-of-two-keys-with-one-id"
		check[c[1]] = "newer-of-two-keys-with-one-id"
	}
	for i := 0; i < 40; i++ {
		n := rng.Intn(len(vals))
		if _, ok := check[n]; !ok {
			check[n] = "key-with-unique-id"
		}
	}
	for n := 0; n < len(vals); n++ {
		class, ok := check[n]
		if !ok {
			continue
		}
		v := vals[n]
		for _, rv := range v.ep.reveals {
			if len(rv.name) > 7 && rv.name[:7] == "column:" {
				continue // the column path is exercised with the same decryptor by registry.Process
			}
			r.Case()
			got, err := safeReveal(rv, e, id, v.y, &caseCtx{})
			if err != nil || !bytes.Equal(got, v.x) {
				r.Violation(fmt.Sprintf("long key history: value written under an older symmetric key not revealed: ks=%s ep=%s reveal=%s key=%s", e.Name, v.ep.name, rv.name, class),
					map[string]interface{}{"generation": v.gen, "generations": g, "collisions(older,newer)": fmt.Sprint(collisions), "err": fmt.Sprint(err), "got": ev.Hex(got), "x": ev.Hex(v.x)})
			} else {
				r.Count("long_history_values_revealed:"+class, 1)
				r.Distinct(fmt.Sprintf("longhist|%s|%s|%s|%s", e.Name, v.ep.name, rv.name, class))
			}
		}
	}
}
