package c01

// Composite column values: "whatever ... the bytes that surround it inside a column value" includes OTHER protected values.
// One column value is built from 2-6 segments: clear runs and envelopes of every stored form (raw AcraStruct, raw AcraBlock,
// serialized container around either kind) written for the reading client or for another client. The column pipeline, run
// under the reading client, must return the value with every envelope of that client replaced by exactly its plaintext and
// everything else (clear runs, other clients' envelopes) byte-identical, in place.
//
// Acra's backward-compatible detection looks for raw (non-serialized) envelopes only in values that hold no serialized
// container at all ("if incoming data contains any signs of new container ... return data as is" - a documented design
// decision of OldContainerDetectorWrapper); values mixing the two generations are therefore driven and counted, but only
// their serialized containers and clear runs are judged.

import (
	"bytes"
	"fmt"
	"sort"
	"strings"

	"verif/harness/internal/ev"
	"verif/harness/internal/gen"
	"verif/harness/internal/rig/envrig"
)

type segment struct {
	kind  string // clear | raw-acrastruct | raw-acrablock | container-as | container-ab
	owner string // "", own, other
	bytes []byte // as stored
	plain []byte // what the reader must get for it
}

func envelopeKind(y []byte) string {
	ek := LooksProtected(y)
	switch {
	case ek == "container" && y[11] == 0xF0:
		return "container-ab"
	case ek == "container":
		return "container-as"
	case ek == "":
		return ""
	}
	return "raw-" + ek
}

func compositeValues(r *ev.Run, rng *gen.Rand, envs []*envrig.Env, clients []client, eps []entryPoint) {
	var donors []entryPoint
	for _, ep := range eps {
		if !ep.search {
			donors = append(donors, ep)
		}
	}
	columns := []string{"plain_as", "plain_ab", ""}
	n := r.Pick(3000, 24000)
	for i := 0; i < n; i++ {
		e := envs[rng.Intn(len(envs))]
		reader := clients[rng.Intn(len(clients))]
		other := clients[(rng.Intn(len(clients)-1)+1+indexOf(clients, reader))%len(clients)]
		generation := []string{"raw", "serialized", "any"}[rng.Intn(3)]
		nseg := 2 + rng.Intn(5)
		var segs []segment
		nEnv := 0
		for s := 0; s < nseg; s++ {
			if rng.Intn(3) == 0 {
				var b []byte
				switch rng.Intn(4) {
				case 0:
					b = gen.Content(rng, "ascii", 1+rng.Intn(30))
				case 1:
					b = gen.Bytes(rng, 1+rng.Intn(30))
				case 2:
					b = []byte{' '}
				default:
					b = gen.Content(rng, "utf8", 1+rng.Intn(20))
				}
				segs = append(segs, segment{kind: "clear", bytes: b, plain: b})
				continue
			}
			owner, who := "own", reader
			if rng.Intn(4) == 0 {
				owner, who = "other", other
			}
			inner := []byte(fmt.Sprintf("<%s-%d-%d:%s>", owner, i, s, gen.Content(rng, "ascii", rng.Intn(40))))
			var y []byte
			var kind string
			for try := 0; try < 40; try++ {
				d := donors[rng.Intn(len(donors))]
				yy, err := d.protect(e, who.id, inner)
				if err != nil {
					continue
				}
				k := envelopeKind(yy)
				if k == "" || (generation == "raw" && !strings.HasPrefix(k, "raw-")) || (generation == "serialized" && !strings.HasPrefix(k, "container-")) {
					continue
				}
				y, kind = yy, k
				break
			}
			if y == nil {
				continue
			}
			nEnv++
			plain := y
			if owner == "own" {
				plain = inner
			}
			segs = append(segs, segment{kind: kind, owner: owner, bytes: y, plain: plain})
		}
		if nEnv < 2 {
			continue
		}
		if segs[0].kind == "clear" && segs[0].bytes[0] == 0x7f {
			// a value whose first bytes look like a search hash is the listed finding framing-prefix-parsed-as-search-hash,
			// judged by the framing cases; here it would only hide what this layer looks at
			segs[0].bytes = append([]byte{0x7e}, segs[0].bytes[1:]...)
			segs[0].plain = segs[0].bytes
		}
		r.Case()
		var in, want []byte
		hasRaw, hasSer := false, false
		kindSet := map[string]bool{}
		var layout []string
		for _, s := range segs {
			in = append(in, s.bytes...)
			if s.kind != "clear" {
				kindSet[s.kind+"("+s.owner+")"] = true
				if strings.HasPrefix(s.kind, "raw-") {
					hasRaw = true
				} else {
					hasSer = true
				}
				layout = append(layout, s.kind+"("+s.owner+")")
			} else {
				layout = append(layout, "clear")
			}
		}
		mixedGenerations := hasRaw && hasSer
		for _, s := range segs {
			if mixedGenerations && strings.HasPrefix(s.kind, "raw-") {
				want = append(want, s.bytes...) // not judged below; placeholder keeps offsets aligned when Acra leaves it
			} else {
				want = append(want, s.plain...)
			}
		}
		col := columns[rng.Intn(len(columns))]
		var out []byte
		var err error
		func() {
			defer func() {
				if p := recover(); p != nil {
					err = fmt.Errorf("PANIC: %v", p)
				}
			}()
			p := e.NewReadPipeline(false)
			if col == "" {
				out, _, err = p.OnColumn(reader.id, nil, in)
			} else {
				out, _, err = p.OnColumn(reader.id, e.Setting(col), in)
			}
		}()
		var kinds []string
		for k := range kindSet {
			kinds = append(kinds, k)
		}
		sort.Strings(kinds)
		gname := "raw-only"
		if mixedGenerations {
			gname = "raw+serialized"
		} else if hasSer {
			gname = "serialized-only"
		}
		if mixedGenerations {
			// judge only what the design promises for such values: own serialized containers revealed, everything else in place;
			// a raw envelope may come back as stored or revealed.
			if err == nil && compositeMatchesLoose(out, segs) {
				r.Count("composite_values_mixed_generations_ok", 1)
				r.Distinct("composite|" + gname + "|" + strings.Join(kinds, ","))
			} else {
				r.Violation(fmt.Sprintf("composite column value (serialized containers next to raw envelopes): serialized container of the reader or a clear run not returned as expected: envelopes={%s}", strings.Join(kinds, ",")),
					map[string]interface{}{"keystore": e.Name, "reader": string(reader.id), "column": col, "layout": layout, "in": ev.FullHex(in), "got": ev.FullHex(out), "err": fmt.Sprint(err)})
			}
			continue
		}
		if err == nil && bytes.Equal(out, want) {
			r.Count("composite_values_revealed_segment_wise", 1)
			r.Count("composite_values_revealed_segment_wise:"+gname, 1)
			r.Distinct("composite|" + gname + "|" + strings.Join(kinds, ","))
			r.SampleN("composite:"+gname, 2, map[string]interface{}{"keystore": e.Name, "reader": string(reader.id), "column": col, "layout": layout, "in": ev.Hex(in), "out": ev.Hex(out)})
			continue
		}
		// name the first segment that did not come back as demanded
		bad := firstBadSegment(out, segs)
		r.Violation(fmt.Sprintf("composite column value not revealed segment-wise: generation=%s wrong-segment=%s envelopes={%s}", gname, bad, strings.Join(kinds, ",")),
			map[string]interface{}{"keystore": e.Name, "reader": string(reader.id), "column": col, "layout": layout, "in": ev.FullHex(in), "want": ev.FullHex(want), "got": ev.FullHex(out), "err": fmt.Sprint(err)})
	}
	r.RequireAtLeast("composite_values_revealed_segment_wise:raw-only", 100)
	r.RequireAtLeast("composite_values_revealed_segment_wise:serialized-only", 100)
}

// firstBadSegment walks the output along the expected segments and names the first one that differs.
func firstBadSegment(out []byte, segs []segment) string {
	rest := out
	for _, s := range segs {
		if bytes.HasPrefix(rest, s.plain) {
			rest = rest[len(s.plain):]
			continue
		}
		if s.kind == "clear" {
			return "clear-run"
		}
		state := "altered"
		if bytes.HasPrefix(rest, s.bytes) {
			state = "left-encrypted"
		}
		return s.kind + "(" + s.owner + "):" + state
	}
	if len(rest) != 0 {
		return "trailing-bytes"
	}
	return "none"
}

// compositeMatchesLoose: every segment is either its demanded form or, for raw envelopes, also its stored form.
func compositeMatchesLoose(out []byte, segs []segment) bool {
	rest := out
	for _, s := range segs {
		switch {
		case bytes.HasPrefix(rest, s.plain):
			rest = rest[len(s.plain):]
		case strings.HasPrefix(s.kind, "raw-") && bytes.HasPrefix(rest, s.bytes):
			rest = rest[len(s.bytes):]
		default:
			return false
		}
	}
	return len(rest) == 0
}
