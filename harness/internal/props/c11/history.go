package c11

// History layer (library level): masked columns read INSIDE LONGER SESSION HISTORIES and NEXT TO OTHER PROTECTED COLUMNS.
//
// The cases of c11.go give every reader a fresh set of decryption subscribers for one masked value. A real connection keeps ONE
// set (container detector, DecryptHandler, masking.Processor, search-hash processor, token processor - built once by the proxy
// factory) for all columns of all statements. Here one pipeline per reader (owner / client with other keys / client without keys)
// is driven through a history of "statements" over rows that hold, besides masked columns, unconfigured columns (plain text,
// envelopes nobody configured), plainly encrypted columns (both envelopes), searchable columns, tokenized columns and typed
// columns with the three failure policies; values of the neighbours may belong to another client or be damaged, so that a
// reader meets values it cannot reveal BEFORE it reads a masked value. The fields of one row are processed in statement order and
// kept (uncopied, as the proxy keeps the columns of a DataRow) until the row is complete.
//
// Oracle: the per-field demands of c11.go, unchanged, for every masked field whatever the pipeline processed before it:
//   "the owning client receives the complete original value"; a client that cannot decrypt "receives exactly the configured
//   plaintext window ... joined with the masking pattern" - "never any byte of the ciphertext and never a hidden plaintext byte";
//   "values not longer than the window are protected in full".
// Nothing is demanded of the neighbour columns (C01/C03/C09/C10/C19 own them): they are context.

import (
	"bytes"
	"fmt"
	"runtime/debug"
	"sort"
	"strings"
	"sync"
	"time"

	"github.com/cossacklabs/acra/decryptor/base"
	"github.com/cossacklabs/acra/decryptor/postgresql"
	"github.com/cossacklabs/acra/keystore"
	"github.com/cossacklabs/acra/pseudonymization"

	"verif/harness/internal/ev"
	"verif/harness/internal/gen"
	"verif/harness/internal/rig/envrig"
	"verif/harness/internal/rig/fakepg"
	"verif/harness/internal/rig/ksrig"
)

// hcol is one column of the history schema.
type hcol struct {
	Name      string
	Kind      string // plain | raw | enc | search | token | typed | mask
	Envelope  string
	DType     string // typed, mask
	Policy    string // typed: ciphertext | default | error
	TokenType string
	Set       setting // mask
	yaml      string
}

// class is the text used for a neighbour column in signatures and counters.
func (c hcol) class() string {
	switch c.Kind {
	case "plain":
		return "unconfigured-text"
	case "raw":
		return "unconfigured-column-holding-envelopes"
	case "typed":
		return "typed/" + c.DType + "/on-fail-" + c.Policy
	case "token":
		return "token/" + c.TokenType
	case "mask":
		return "masked"
	}
	return c.Kind + "/" + c.Envelope
}

// holdsEnvelopes: values of the column are (or may be) crypto envelopes that are not masked.
func (c hcol) holdsEnvelopes() bool {
	return c.Kind == "raw" || c.Kind == "enc" || c.Kind == "search" || c.Kind == "typed"
}

func histMaskedColumns() []hcol {
	var out []hcol
	add := func(s setting) {
		c := hcol{Name: fmt.Sprintf("m%d", len(out)), Kind: "mask", Envelope: s.Envelope, DType: s.DType, Set: s}
		c.yaml = fmt.Sprintf("      - column: %s\n        crypto_envelope: %s\n        masking: %s\n        plaintext_length: %d\n        plaintext_side: %s\n", c.Name, s.Envelope, yamlQuote(s.Pattern), s.N, s.Side)
		if s.DType != "" {
			c.yaml += "        data_type: " + s.DType + "\n"
		}
		out = append(out, c)
	}
	pn := []struct {
		p int
		n int
	}{{0, 4}, {1, 0}, {2, 7}, {3, 1}, {4, 16}, {0, 2}}
	i := 0
	for _, env := range []string{"acrastruct", "acrablock"} {
		for _, side := range []string{"left", "right"} {
			for k := 0; k < 3; k++ {
				x := pn[i%len(pn)]
				i++
				add(setting{Envelope: env, Side: side, Pattern: patterns[x.p].text, N: x.n})
			}
		}
	}
	// data types go with the AcraBlock envelope only (Acra's configuration validation; probed by Run for the evidence)
	for _, side := range []string{"left", "right"} {
		add(setting{Envelope: "acrablock", Side: side, Pattern: "xxxx", N: 3, DType: "str"})
		add(setting{Envelope: "acrablock", Side: side, Pattern: "##", N: 5, DType: "bytes"})
	}
	return out
}

func histNeighbourColumns(full bool) []hcol {
	enc := func(name, env string) hcol {
		return hcol{Name: name, Kind: "enc", Envelope: env, yaml: fmt.Sprintf("      - column: %s\n        crypto_envelope: %s\n", name, env)}
	}
	typed := func(name, env, dt, policy, def string) hcol {
		c := hcol{Name: name, Kind: "typed", Envelope: env, DType: dt, Policy: policy}
		c.yaml = fmt.Sprintf("      - column: %s\n        crypto_envelope: %s\n        data_type: %s\n", name, env, dt)
		switch policy {
		case "ciphertext":
			c.yaml += "        response_on_fail: ciphertext\n"
		case "default":
			c.yaml += "        response_on_fail: default_value\n        default_data_value: " + yamlQuote(def) + "\n"
		default:
			c.yaml += "        response_on_fail: error\n"
		}
		return c
	}
	out := []hcol{
		{Name: "note", Kind: "plain"},
		{Name: "raw", Kind: "raw"},
		enc("e_as", "acrastruct"),
		enc("e_ab", "acrablock"),
		typed("ty_str_ct", "acrablock", "str", "ciphertext", ""),
		typed("ty_str_def", "acrastruct", "str", "default", "n/a"),
		typed("ty_i32_def", "acrablock", "int32", "default", "42"),
		typed("ty_bytes_err", "acrablock", "bytes", "error", ""),
		typed("ty_i64_ct", "acrastruct", "int64", "ciphertext", ""),
	}
	if full {
		for _, env := range []string{"acrastruct", "acrablock"} {
			n := "s_" + map[string]string{"acrastruct": "as", "acrablock": "ab"}[env]
			out = append(out, hcol{Name: n, Kind: "search", Envelope: env, yaml: fmt.Sprintf("      - column: %s\n        searchable: true\n        crypto_envelope: %s\n", n, env)})
		}
		out = append(out,
			hcol{Name: "t_str", Kind: "token", TokenType: "str", yaml: "      - column: t_str\n        token_type: str\n        consistent_tokenization: true\n"},
			hcol{Name: "t_i32", Kind: "token", TokenType: "int32", yaml: "      - column: t_i32\n        token_type: int32\n        consistent_tokenization: false\n"},
		)
	}
	return out
}

func histSchemaYAML(cols []hcol) string {
	var names []string
	var enc strings.Builder
	for _, c := range cols {
		names = append(names, c.Name)
		enc.WriteString(c.yaml)
	}
	return "schemas:\n  - table: t\n    columns: [id, " + strings.Join(names, ", ") + "]\n    encrypted:\n" + enc.String()
}

// hcell is one stored value of a history.
type hcell struct {
	Plain  []byte
	Stored []byte
	Writer string // reader name of the client the value was protected for ("" = not protected, "third" = a client that never reads)
	Damage string // "" | flip-payload | truncate
	Marker []byte
}

// revealableBy: by construction, can this reader reveal the envelope of the cell?
func (c hcell) revealableBy(reader string) bool { return c.Writer == reader && c.Damage == "" }

type hstatement struct {
	Cols  []int // indices into history.Cols, in statement order
	Bin   bool  // result format (codec pipelines)
	Shape string
}

type history struct {
	ID       int
	KS       string
	Pipeline string // envrig-masking-only | envrig-with-search | pg-session/all-features | pg-session/masking+encryption
	Opening  string
	Cols     []hcol
	Rows     [][]hcell // [row][col]
	Stmts    []hstatement
}

var histPipelines = []string{"pg-session/all-features", "envrig-masking-only", "pg-session/masking+encryption", "envrig-with-search"}
var histOpenings = []string{"neighbours-first", "row:neighbours-then-masked", "masked-first", "row:masked-then-neighbours"}

type histExecutor struct {
	envs   map[string]*envrig.Env // ks|full , ks|lean
	masked []hcol
	cols   map[bool][]hcol // full? -> neighbour columns
}

func newHistExecutor() *histExecutor {
	hx := &histExecutor{envs: map[string]*envrig.Env{}, masked: histMaskedColumns(), cols: map[bool][]hcol{true: histNeighbourColumns(true), false: histNeighbourColumns(false)}}
	v1, err := ksrig.V1(ksrig.ScratchDir("c11h-v1"), ksrig.RandBytes(32), keystore.InfiniteCacheSize)
	if err != nil {
		panic(err)
	}
	v2, err := ksrig.V2Mem(ksrig.NewV2Keys())
	if err != nil {
		panic(err)
	}
	for _, p := range []struct {
		n  string
		ks ksrig.FullKeyStore
	}{{"v1", v1}, {"v2mem", v2}} {
		for _, c := range []string{"owner", "client-with-other-keys", "third"} {
			if err := ksrig.GenClient(p.ks, clientIDs[c]); err != nil {
				panic(err)
			}
		}
		for _, full := range []bool{true, false} {
			e, err := envrig.New(p.n, p.ks, nil, histSchemaYAML(append(append([]hcol{}, hx.cols[full]...), hx.masked...)))
			if err != nil {
				panic(fmt.Sprintf("c11 history rig: schema refused: %v", err))
			}
			hx.envs[fmt.Sprintf("%s|%v", p.n, full)] = e
		}
	}
	return hx
}

func (hx *histExecutor) env(h *history) *envrig.Env {
	full := h.Pipeline == "envrig-with-search" || h.Pipeline == "pg-session/all-features"
	return hx.envs[fmt.Sprintf("%s|%v", h.KS, full)]
}

// histMaskedValue draws a value for a masked column from the classes whose single-value behaviour c11.go finds in order on
// the unchanged tree (no envelope, container header or search-hash shape inside the clear window).
func histMaskedValue(rng *gen.Rand, s setting, idx int) (x, marker []byte) {
	L := []int{1, 2, 3, 5, 8, 9, 13, 16, 17, 24, 33, 40, 64, 100}[rng.Intn(14)]
	switch idx % 7 {
	case 0: // not longer than the window
		L = s.N - rng.Intn(2)
		if L < 1 {
			L = 1
		}
	case 1: // one byte longer than the window
		L = s.N + 1
	}
	class := []string{"ascii", "utf8", "random"}[rng.Intn(3)]
	if s.DType == "str" && class == "random" {
		class = "ascii"
	}
	x = gen.Content(rng, class, L)
	if idx%7 == 2 && L > len(s.Pattern) { // the value contains the column's own pattern
		copy(x[rng.Intn(L-len(s.Pattern)+1):], s.Pattern)
	}
	h := L - s.N
	if class != "utf8" && h >= 14 {
		marker = []byte(fmt.Sprintf("MK%010x", rng.Int63()&0xffffffffff))
		off := rng.Intn(h - len(marker) + 1)
		if s.Side == "left" {
			off += s.N
		}
		copy(x[off:], marker)
	}
	for i := 0; i+3 <= len(x); i++ {
		if x[i] == '%' && x[i+1] == '%' && x[i+2] == '%' {
			x[i+1] = '$'
		}
	}
	if x[0] == 0x7f {
		x[0] = 0x7e
	}
	return x, marker
}

// build makes the columns, stored rows and statements of one history (a pure function of the seed and the index).
func (hx *histExecutor) build(seed int64, id int) (*history, error) {
	rng := gen.New(seed, fmt.Sprintf("c11-history-%d", id))
	h := &history{ID: id, KS: []string{"v1", "v2mem"}[(id/16)%2], Pipeline: histPipelines[id%4], Opening: histOpenings[(id/4)%4]}
	e := hx.env(h)
	codec := strings.HasPrefix(h.Pipeline, "pg-session")
	// columns: 1-3 masked, 2-4 neighbours of which at least one holds envelopes
	var pool []hcol
	for _, c := range hx.cols[h.Pipeline == "envrig-with-search" || h.Pipeline == "pg-session/all-features"] {
		if !codec && (c.Kind == "token" || (c.Kind == "typed" && c.DType != "str" && c.DType != "bytes")) {
			continue // no token processor / no type encoder in the envrig pipelines
		}
		pool = append(pool, c)
	}
	nm := 1 + rng.Intn(3)
	var masked []hcol
	for _, i := range rng.Perm(len(hx.masked))[:nm] {
		masked = append(masked, hx.masked[i])
	}
	nn := 2 + rng.Intn(3)
	var nbs []hcol
	for _, i := range rng.Perm(len(pool)) {
		if len(nbs) == nn {
			break
		}
		if len(nbs) == 0 && !pool[i].holdsEnvelopes() {
			continue
		}
		nbs = append(nbs, pool[i])
	}
	rng.Shuffle(len(nbs), func(i, j int) { nbs[i], nbs[j] = nbs[j], nbs[i] })
	h.Cols = append(append([]hcol{}, nbs...), masked...)
	var M, N []int
	for i, c := range h.Cols {
		if c.Kind == "mask" {
			M = append(M, i)
		} else {
			N = append(N, i)
		}
	}
	// rows
	chain := e.WriteChain()
	tok, err := pseudonymization.NewDataTokenizer(e.Tokenizer)
	if err != nil {
		return nil, err
	}
	tokEnc, err := pseudonymization.NewTokenEncryptor(tok)
	if err != nil {
		return nil, err
	}
	nrows := 3 + rng.Intn(3)
	vi := id * 31
	for ri := 0; ri < nrows; ri++ {
		var row []hcell
		for _, c := range h.Cols {
			var cell hcell
			switch c.Kind {
			case "plain":
				cell.Plain = gen.Content(rng, "ascii", 1+rng.Intn(30))
				cell.Stored = cell.Plain
			case "raw":
				if rng.Intn(4) == 0 {
					cell.Plain = gen.Bytes(rng, 1+rng.Intn(40))
					cell.Stored = cell.Plain
					break
				}
				cell.Writer = []string{"owner", "owner", "client-with-other-keys", "third"}[rng.Intn(4)]
				cell.Plain = gen.Content(rng, "ascii", 1+rng.Intn(40))
				ex := &executor{}
				b, err := ex.resolve(e, []part{{Env: &envPart{Owner: cell.Writer, Kind: []string{"container-as", "container-ab", "raw-as", "raw-ab"}[rng.Intn(4)], Inner: cell.Plain}}})
				if err != nil {
					return nil, err
				}
				cell.Stored = b
			case "token":
				if c.TokenType == "int32" {
					cell.Plain = []byte(fmt.Sprint(rng.Int31()))
				} else {
					cell.Plain = gen.Content(rng, "ascii", 4+rng.Intn(20))
				}
				cell.Writer = "owner"
				st, err := tokEnc.EncryptWithClientID(clientIDs["owner"], append([]byte{}, cell.Plain...), e.Setting(c.Name))
				if err != nil {
					return nil, fmt.Errorf("tokenize %s: %w", c.Name, err)
				}
				cell.Stored = st
			case "enc", "search", "typed":
				switch c.DType {
				case "int32":
					cell.Plain = []byte(fmt.Sprint(int32(rng.Uint32())))
				case "int64":
					cell.Plain = []byte(fmt.Sprint(int64(rng.Uint64())))
				case "str":
					cell.Plain = gen.Content(rng, []string{"ascii", "utf8"}[rng.Intn(2)], 1+rng.Intn(40))
				default:
					cell.Plain = gen.Content(rng, []string{"ascii", "random"}[rng.Intn(2)], 1+rng.Intn(60))
				}
				cell.Writer = []string{"owner", "owner", "owner", "client-with-other-keys"}[rng.Intn(4)]
				st, err := chain.EncryptWithClientID(clientIDs[cell.Writer], append([]byte{}, cell.Plain...), e.Setting(c.Name))
				if err != nil {
					return nil, fmt.Errorf("protect %s: %w", c.Name, err)
				}
				cell.Stored = append([]byte{}, st...)
				switch rng.Intn(6) {
				case 0:
					cell.Damage = "flip-payload"
					cell.Stored[len(cell.Stored)-1-rng.Intn(8)] ^= 1 << uint(rng.Intn(8))
				case 1:
					cell.Damage = "truncate"
					cell.Stored = cell.Stored[:len(cell.Stored)-1-rng.Intn(5)]
				}
			case "mask":
				vi++
				cell.Plain, cell.Marker = histMaskedValue(rng, c.Set, vi)
				cell.Writer = []string{"owner", "owner", "owner", "owner", "owner", "client-with-other-keys"}[rng.Intn(6)]
				st, err := chain.EncryptWithClientID(clientIDs[cell.Writer], append([]byte{}, cell.Plain...), e.Setting(c.Name))
				if err != nil {
					return nil, fmt.Errorf("protect %s: %w", c.Name, err)
				}
				cell.Stored = append([]byte{}, st...)
			}
			row = append(row, cell)
		}
		h.Rows = append(h.Rows, row)
	}
	// statements
	cat := func(a, b []int) []int { return append(append([]int{}, a...), b...) }
	add := func(shape string, cols []int) {
		h.Stmts = append(h.Stmts, hstatement{Cols: append([]int{}, cols...), Bin: (len(h.Stmts)+id)%2 == 0, Shape: shape})
	}
	switch h.Opening {
	case "neighbours-first":
		add("neighbours-only", N)
	case "row:neighbours-then-masked":
		add("row", cat(N, M))
	case "masked-first":
		add("masked-only", M)
	default:
		add("row", cat(M, N))
	}
	all := cat(N, M)
	if len(all) <= 3 {
		permute(all, func(p []int) { add("row", p) })
	} else {
		for k := 0; k < len(all); k++ { // every rotation: every column is once first and once last
			add("row", cat(all[k:], all[:k]))
		}
		rev := append([]int{}, all...)
		for i, j := 0, len(rev)-1; i < j; i, j = i+1, j-1 {
			rev[i], rev[j] = rev[j], rev[i]
		}
		add("row", rev)
		for k := 0; k < 2; k++ {
			sh := append([]int{}, all...)
			rng.Shuffle(len(sh), func(i, j int) { sh[i], sh[j] = sh[j], sh[i] })
			add("row", sh)
		}
	}
	// consecutive one-column statements, masked and other columns interleaved
	for _, i := range rng.Perm(len(all)) {
		add("single-column", []int{all[i]})
	}
	// alternation masked-only / neighbours-only, then the same statement repeated
	add("masked-only", M)
	add("neighbours-only", N)
	add("masked-only", M)
	last := h.Stmts[1+rng.Intn(len(h.Stmts)-1)]
	add("repeated:"+last.Shape, last.Cols)
	add("repeated:"+last.Shape, last.Cols)
	return h, nil
}

func permute(xs []int, f func([]int)) {
	var rec func(k int)
	a := append([]int{}, xs...)
	rec = func(k int) {
		if k == len(a) {
			f(a)
			return
		}
		for i := k; i < len(a); i++ {
			a[k], a[i] = a[i], a[k]
			rec(k + 1)
			a[k], a[i] = a[i], a[k]
		}
	}
	rec(0)
}

// histConn is one reader's connection: one set of subscribers for the whole history.
type histConn struct {
	reader  string
	session *envrig.SessionPipeline
	plain   *envrig.ReadPipeline
	// what the connection has processed so far (by construction of the history, not by Acra's answers)
	sawMasked, sawRevealable, sawUnrevealable bool
}

func (c *histConn) before() string {
	switch {
	case c.sawRevealable && c.sawUnrevealable:
		return "after-revealable-and-unrevealable-non-masked-envelopes"
	case c.sawUnrevealable:
		return "after-unrevealable-non-masked-envelope"
	case c.sawRevealable:
		return "after-revealable-non-masked-envelope"
	case c.sawMasked:
		return "after-masked-values-only"
	}
	return "first-protected-value-of-the-connection"
}

func (c *histConn) note(col hcol, cell hcell) {
	switch {
	case col.Kind == "mask":
		c.sawMasked = true
	case col.holdsEnvelopes() && cell.Writer != "":
		if cell.revealableBy(c.reader) {
			c.sawRevealable = true
		} else {
			c.sawUnrevealable = true
		}
	}
}

func (hx *histExecutor) open(h *history, reader string) (*histConn, error) {
	e := hx.env(h)
	c := &histConn{reader: reader}
	switch h.Pipeline {
	case "envrig-masking-only":
		c.plain = e.NewMaskingOnlyReadPipeline()
	case "envrig-with-search":
		c.plain = e.NewReadPipeline(true)
	default:
		dec, err := postgresql.NewPgSQLDataDecoderProcessor()
		if err != nil {
			return nil, err
		}
		enc, err := postgresql.NewPgSQLDataEncoderProcessor()
		if err != nil {
			return nil, err
		}
		c.session, err = e.NewSessionPipeline(clientIDs[reader], envrig.SessionOpts{First: []base.DecryptionSubscriber{dec}, Last: []base.DecryptionSubscriber{enc}})
		if err != nil {
			return nil, err
		}
	}
	return c, nil
}

// wire spells a stored value the way the database sends it in the given result format (codec pipelines): every protected
// column is a bytea column on the storage side, the unconfigured text column and the token columns are text / integer text.
func histWire(c hcol, stored []byte, bin bool) []byte {
	if bin || c.Kind == "plain" || c.Kind == "token" {
		return append([]byte{}, stored...)
	}
	return []byte(`\x` + ev.FullHex(stored))
}

type histField struct {
	col, row       int
	out            []byte
	before, inRow  string
	afterInRowEnv  bool // a non-masked column holding an envelope was processed earlier in the same row
	beforeInRowEnv bool // ... is processed later in the same row
}

// run drives the three readers through the history and judges every masked field.
func (hx *histExecutor) run(r *ev.Run, h *history) {
	e := hx.env(h)
	codec := strings.HasPrefix(h.Pipeline, "pg-session")
	for _, reader := range readerNames {
		conn, err := hx.open(h, reader)
		if err != nil {
			r.Inconclusive("c11 history rig: pipeline could not be built: " + err.Error())
			return
		}
		r.Count("history_connections", 1)
		if conn.session != nil {
			r.SetAdd("history_session_pipeline_subscribers", h.Pipeline+": "+strings.Join(conn.session.Subscribers, " > "))
		}
		var trail []string
	statements:
		for si, st := range h.Stmts {
			r.Count("history_statements", 1)
			format := "binary"
			if !st.Bin {
				format = "text"
			}
			if !codec {
				format = "bytes"
			}
			var names []string
			for _, ci := range st.Cols {
				names = append(names, h.Cols[ci].Name)
			}
			trail = append(trail, fmt.Sprintf("#%d %s [%s] %s", si, st.Shape, format, strings.Join(names, ", ")))
			for ri := range h.Rows {
				var fields []histField
				inRow := "first-column-of-the-row"
				rowEnv := false
				for pos, ci := range st.Cols {
					col, cell := h.Cols[ci], h.Rows[ri][ci]
					f := histField{col: ci, row: ri, before: conn.before(), inRow: inRow, afterInRowEnv: rowEnv}
					var out []byte
					var oerr error
					var pnc string
					func() {
						defer func() {
							if p := recover(); p != nil {
								pnc = fmt.Sprintf("%v\n%s", p, debug.Stack())
							}
						}()
						if conn.session != nil {
							out, oerr = conn.session.OnColumn(pos, st.Bin, e.Setting(col.Name), histWire(col, cell.Stored, st.Bin))
						} else {
							out, oerr = conn.plain.OnColumnKeep(clientIDs[reader], e.Setting(col.Name), append([]byte{}, cell.Stored...))
						}
					}()
					conn.note(col, cell)
					if pnc != "" || oerr != nil {
						if col.Kind == "mask" {
							r.Case()
							what := "error"
							if pnc != "" {
								what = "panic"
							}
							r.Violation(fmt.Sprintf("history: %s while reading a masked value: %s", what, hx.sigTail(h, col, cell, reader, f, format)),
								hx.detail(r, h, col, cell, reader, trail, map[string]interface{}{"err": fmt.Sprint(oerr), "panic": pnc}))
						} else if col.Kind == "typed" && col.Policy == "error" && pnc == "" {
							r.Count("history_statements_ended_by_a_neighbour_with_policy_error", 1)
						} else {
							r.Count("history_statements_ended_by_an_error_of_a_neighbour_column(not judged)", 1)
							r.SampleN("history-neighbour-error:"+col.class(), 1, map[string]interface{}{"column": col.class(), "reader": reader, "pipeline": h.Pipeline, "err": fmt.Sprint(oerr), "panic": pnc})
						}
						if pnc != "" {
							// the connection of a real client is gone after a panic: this reader's history ends here
							break statements
						}
						continue statements // the statement fails: the row in progress is not delivered
					}
					f.out = out // kept uncopied until the row is complete
					fields = append(fields, f)
					if col.Kind != "mask" && col.holdsEnvelopes() && cell.Writer != "" {
						rowEnv = true
					}
					inRow = "after-" + col.class() + "-in-the-row"
				}
				// the row is complete: it is delivered now
				for k := range fields {
					f := &fields[k]
					for _, g := range fields[k+1:] {
						gc := h.Cols[g.col]
						if gc.Kind != "mask" && gc.holdsEnvelopes() && h.Rows[ri][g.col].Writer != "" {
							f.beforeInRowEnv = true
						}
					}
					if h.Cols[f.col].Kind == "mask" {
						hx.judgeField(r, h, reader, *f, format, trail)
					}
				}
			}
		}
	}
}

func histRole(cell hcell, reader string) string {
	if cell.Writer == reader {
		return "owner-of-the-value"
	}
	if reader == "client-without-keys" {
		return "client-without-keys"
	}
	return "client-with-other-keys"
}

func (hx *histExecutor) sigTail(h *history, col hcol, cell hcell, reader string, f histField, format string) string {
	return fmt.Sprintf("reader=%s side=%s envelope=%s dtype=%s pipeline=%s format=%s connection=%s row=%s", histRole(cell, reader), col.Set.Side, col.Set.Envelope, orDefault(col.Set.DType), h.Pipeline, format, f.before, f.inRow)
}

func (hx *histExecutor) detail(r *ev.Run, h *history, col hcol, cell hcell, reader string, trail []string, extra map[string]interface{}) map[string]interface{} {
	var cols []string
	for _, c := range h.Cols {
		cols = append(cols, c.Name+"="+c.class())
	}
	m := map[string]interface{}{"history": h.ID, "seed": r.Seed, "keystore": h.KS, "pipeline": h.Pipeline, "opening": h.Opening, "columns": cols, "reader": reader, "value_protected_for": cell.Writer,
		"column": col.Name, "setting": col.Set, "value": ev.FullHex(cell.Plain), "stored": ev.FullHex(cell.Stored), "marker_in_hidden_part": string(cell.Marker), "statements_so_far": trail}
	for k, v := range extra {
		m[k] = v
	}
	return m
}

func (hx *histExecutor) judgeField(r *ev.Run, h *history, reader string, f histField, format string, trail []string) {
	r.Case()
	col, cell := h.Cols[f.col], h.Rows[f.row][f.col]
	s := col.Set
	x, n, pat := cell.Plain, s.N, []byte(s.Pattern)
	out := f.out
	if format == "text" && s.DType != "str" {
		// a bytea field in text format: hex (or escape) spelling
		if d, err := fakepg.DecodeByteaText(string(out)); err == nil {
			out = d
		}
	}
	short := len(x) <= n
	var window, hidden, protected []byte
	switch {
	case short:
		hidden, protected = x, cell.Stored
	case s.Side == "left":
		window, hidden, protected = x[:n], x[n:], cell.Stored[n:]
	default:
		window, hidden, protected = x[len(x)-n:], x[:len(x)-n], cell.Stored[:len(cell.Stored)-n]
	}
	var masked []byte
	switch {
	case short:
		masked = pat
	case s.Side == "left":
		masked = gen.Cat(window, pat)
	default:
		masked = gen.Cat(pat, window)
	}
	role := histRole(cell, reader)
	tail := hx.sigTail(h, col, cell, reader, f, format)
	if role == "owner-of-the-value" {
		if !bytes.Equal(out, x) {
			what := "something else"
			switch {
			case bytes.Equal(out, masked):
				what = "window+pattern"
			case bytes.Equal(out, cell.Stored):
				what = "the stored form"
			}
			r.Violation(fmt.Sprintf("history: owner does not receive the original value (gets %s): %s", what, tail), hx.detail(r, h, col, cell, reader, trail, map[string]interface{}{"delivered": ev.FullHex(f.out)}))
			return
		}
	} else if !bytes.Equal(out, masked) {
		leak := "none"
		switch {
		case sharesRun(protected, out, 8) && !sharesRun(protected, masked, 8):
			leak = "ciphertext"
		case len(cell.Marker) > 0 && bytes.Contains(out, cell.Marker), len(hidden) >= 8 && sharesRun(hidden, out, 8) && !sharesRun(hidden, masked, 8),
			len(hidden) > 0 && bytes.Contains(out, hidden) && !bytes.Contains(masked, hidden):
			leak = "hidden-plaintext"
		}
		r.Violation(fmt.Sprintf("history: reader without the owner's keys does not receive exactly window+pattern: leak=%s %s", leak, tail),
			hx.detail(r, h, col, cell, reader, trail, map[string]interface{}{"delivered": ev.FullHex(f.out), "expected": ev.FullHex(masked)}))
		return
	}
	r.Count("history_masked_fields_ok", 1)
	r.Count("history_masked_fields_ok:reader="+role, 1)
	r.Count("history_masked_fields_ok:pipeline="+h.Pipeline, 1)
	r.Count("history_masked_fields_ok:format="+format, 1)
	r.Count("history_masked_fields_ok:connection="+f.before, 1)
	if f.before == "after-unrevealable-non-masked-envelope" || f.before == "after-revealable-and-unrevealable-non-masked-envelopes" {
		r.Count("history_masked_fields_ok_after_unrevealable_non_masked_envelope:reader="+role, 1)
	}
	if f.afterInRowEnv {
		r.Count("history_masked_fields_ok_right_of_a_non_masked_envelope_in_the_row", 1)
	}
	if f.beforeInRowEnv {
		r.Count("history_masked_fields_ok_left_of_a_non_masked_envelope_in_the_row", 1)
	}
	if short {
		r.Count("history_masked_fields_ok:value_not_longer_than_window", 1)
	}
	r.SetAdd("history_row_neighbours_seen", f.inRow)
	r.Distinct(fmt.Sprintf("history|%s|%s|%s|%s|%s|%s|short=%v|%s|%s|%s", h.KS, h.Pipeline, format, role, s.Envelope, s.Side, short, orDefault(s.DType), f.before, f.inRow))
	r.SampleN("history:"+h.Pipeline+":"+role, 1, map[string]interface{}{"layer": "history", "pipeline": h.Pipeline, "reader": role, "connection": f.before, "row": f.inRow, "format": format,
		"setting": s, "value": ev.Hex(x), "delivered": ev.Hex(f.out), "statements_so_far": len(trail)})
}

// historyLayer runs the library-level history layer.
func historyLayer(r *ev.Run) {
	t0 := time.Now()
	r.Rule += " || history layer (library level): ONE set of decryption subscribers per reader (owner / client with other keys / client without keys) - envrig pipelines without and with search-hash subscribers, and the subscriber set of PostgreSQL's proxyFactory.New (decoder, token, search-hash, container detector + DecryptHandler over masking.Processor, search-hash, encoder; text and binary result format) for a configuration with all features and for one with masking + encryption only - driven through a history of 15-25 statements over 3-5 rows holding 1-3 masked columns (16 settings: both envelopes, both sides, 5 patterns, windows 0..16, data_type unset/str/bytes) next to 2-4 of: unconfigured text, unconfigured column holding envelopes (serialized and raw, of three clients), plainly encrypted (both envelopes), searchable, tokenized, typed columns with policies ciphertext / default_value / error; neighbour values protected for the owner or for the other client, one in three damaged; openings {neighbours first, masked first, row neighbours-then-masked, row masked-then-neighbours}, then every rotation / permutation of the row, single-column statements interleaved, masked-only / neighbours-only alternation, repeated statements; every masked field judged by the per-field demands whatever the connection processed before; distinct = (keystore, pipeline, format, reader role, envelope, side, short, data type, what the connection saw before, left neighbour in the row)"
	r.Assumptions = append(r.Assumptions, "history layer: the fields of a row are processed in statement order on one subscriber set and kept uncopied until the row is complete (as PgProxy keeps the columns of a DataRow); a neighbour column's error (policy error, detokenization) ends the statement, the connection goes on; neighbour columns are context only (not judged)")
	hx := newHistExecutor()
	n := r.Pick(48, 1200)
	ch := make(chan int, 16)
	var wg sync.WaitGroup
	var mu sync.Mutex
	var buildErrs []string
	for w := 0; w < 6; w++ {
		wg.Add(1)
		go func() {
			defer wg.Done()
			for id := range ch {
				h, err := hx.build(r.Seed, id)
				if err != nil {
					mu.Lock()
					buildErrs = append(buildErrs, err.Error())
					mu.Unlock()
					continue
				}
				hx.run(r, h)
				r.Count("histories_run", 1)
				r.Count("histories_run:opening="+h.Opening, 1)
			}
		}()
	}
	for id := 0; id < n; id++ {
		ch <- id
	}
	close(ch)
	wg.Wait()
	if len(buildErrs) > 0 {
		sort.Strings(buildErrs)
		r.Inconclusive(fmt.Sprintf("c11 history rig: %d histories could not be built, first: %s", len(buildErrs), buildErrs[0]))
	}
	r.Extra("wall_s_history_layer", time.Since(t0).Seconds())
	r.RequireAtLeast("histories_run", int64(n*9/10))
	r.RequireAtLeast("history_masked_fields_ok", 4000)
	for _, role := range []string{"owner-of-the-value", "client-with-other-keys", "client-without-keys"} {
		r.RequireAtLeast("history_masked_fields_ok:reader="+role, 800)
		r.RequireAtLeast("history_masked_fields_ok_after_unrevealable_non_masked_envelope:reader="+role, 300)
	}
	for _, p := range histPipelines {
		r.RequireAtLeast("history_masked_fields_ok:pipeline="+p, 500)
	}
	for _, f := range []string{"text", "binary", "bytes"} {
		r.RequireAtLeast("history_masked_fields_ok:format="+f, 500)
	}
	r.RequireAtLeast("history_masked_fields_ok:connection=first-protected-value-of-the-connection", 20)
	r.RequireAtLeast("history_masked_fields_ok_right_of_a_non_masked_envelope_in_the_row", 500)
	r.RequireAtLeast("history_masked_fields_ok_left_of_a_non_masked_envelope_in_the_row", 500)
	r.RequireAtLeast("history_masked_fields_ok:value_not_longer_than_window", 150)
	r.RequireSetAtLeast("history_row_neighbours_seen", 10)
}
