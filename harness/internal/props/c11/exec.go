package c11

import (
	"bufio"
	"encoding/json"
	"fmt"
	"io"
	"os"
	"os/exec"
	"runtime"
	"runtime/debug"
	"sort"
	"strings"
	"sync/atomic"
	"time"

	"github.com/cossacklabs/acra/acrablock"
	"github.com/cossacklabs/acra/acrastruct"
	"github.com/cossacklabs/acra/encryptor/base/config"
	"github.com/cossacklabs/acra/keystore"
	"github.com/sirupsen/logrus"

	"verif/harness/internal/gen"
	"verif/harness/internal/rig/envrig"
	"verif/harness/internal/rig/ksrig"
)

// part is a piece of a value: literal bytes, or an envelope the executor makes under its own keystore.
type part struct {
	Lit []byte   `json:"lit,omitempty"`
	Env *envPart `json:"env,omitempty"`
}

type envPart struct {
	Owner string `json:"owner"` // owner | third
	Kind  string `json:"kind"`  // container-as | container-ab | raw-as | raw-ab
	Inner []byte `json:"inner"`
}

// setting identifies one masked column configuration.
type setting struct {
	Envelope string `json:"envelope"` // acrastruct | acrablock
	Side     string `json:"side"`     // left | right
	Pattern  string `json:"pattern"`
	N        int    `json:"n"`
	DType    string `json:"dtype"` // "" | str | bytes
	// Spellings: how the keyword is WRITTEN in the configuration file when it is not the canonical lower-case word
	// (Envelope / Side / DType keep the meaning: the keyword lower-cased and trimmed). Empty = canonical spelling.
	SideText     string `json:"side_text,omitempty"`
	EnvelopeText string `json:"envelope_text,omitempty"`
	DTypeText    string `json:"dtype_text,omitempty"`
}

func (s setting) key() string {
	return fmt.Sprintf("%s|%s|%q|%d|%s|%q|%q|%q", s.Envelope, s.Side, s.Pattern, s.N, s.DType, s.SideText, s.EnvelopeText, s.DTypeText)
}

// spelling describes the non-canonical keyword spellings of a setting ("" when all are canonical); part of signatures.
func (s setting) spelling() string {
	var out []string
	if s.SideText != "" {
		out = append(out, fmt.Sprintf("plaintext_side:%q", s.SideText))
	}
	if s.EnvelopeText != "" {
		out = append(out, fmt.Sprintf("crypto_envelope:%q", s.EnvelopeText))
	}
	if s.DTypeText != "" {
		out = append(out, fmt.Sprintf("data_type:%q", s.DTypeText))
	}
	return strings.Join(out, ",")
}

// spec is one case: a value written into a masked column and read back by three kinds of reader.
type spec struct {
	ID       int     `json:"id"`
	KS       string  `json:"ks"` // v1 | v2mem
	Set      setting `json:"set"`
	Pipeline string  `json:"pipeline"` // masking-only | with-search
	Class    string  `json:"class"`    // value construction class (stable text)
	Cause    string  `json:"cause"`    // what in the construction could matter (stable text, used in signatures)
	Parts    []part  `json:"parts"`
	Marker   []byte  `json:"marker,omitempty"` // unique bytes placed inside the hidden part (may be empty)
	// PassThrough: the part to be hidden is by construction exactly one valid envelope (documented pass-through of already protected data)
	PassThrough bool `json:"pass_through,omitempty"`
	Hostile     bool `json:"hostile,omitempty"` // executed in a crash-isolated child process
}

type readResult struct {
	Out       []byte `json:"out"`
	Err       string `json:"err,omitempty"`
	Panic     string `json:"panic,omitempty"`
	Decrypted bool   `json:"decrypted,omitempty"`
}

type result struct {
	ID           int                   `json:"id"`
	X            []byte                `json:"x"` // the resolved value
	ProtectErr   string                `json:"protect_err,omitempty"`
	ProtectPanic string                `json:"protect_panic,omitempty"`
	Stored       []byte                `json:"stored"`
	Reads        map[string]readResult `json:"reads"`
	Aborted      string                `json:"aborted,omitempty"` // the executing process died / was stopped during this step
}

var readerNames = []string{"owner", "client-without-keys", "client-with-other-keys"}

var clientIDs = map[string][]byte{
	"owner":                  []byte("c11_owner"),
	"client-with-other-keys": []byte("c11_other_keys"),
	"client-without-keys":    []byte("c11_no_keys"),
	"third":                  []byte("c11_third_party"),
}

// executor owns the keystores and environments that run specs.
type executor struct {
	envs    map[string]*envrig.Env
	columns map[string]string // setting key -> column name
}

func yamlQuote(s string) string {
	b, _ := json.Marshal(s) // JSON string syntax is valid YAML double-quoted syntax
	return string(b)
}

func schemaYAML(sets []setting) (string, map[string]string) {
	cols := map[string]string{}
	var names []string
	var enc strings.Builder
	for _, s := range sets {
		if _, ok := cols[s.key()]; ok {
			continue
		}
		name := fmt.Sprintf("m%d", len(cols))
		cols[s.key()] = name
		names = append(names, name)
		envelope, side, dtype := s.Envelope, s.Side, s.DType
		if s.EnvelopeText != "" {
			envelope = yamlQuote(s.EnvelopeText)
		}
		if s.SideText != "" {
			side = yamlQuote(s.SideText)
		}
		if s.DTypeText != "" {
			dtype = yamlQuote(s.DTypeText)
		}
		fmt.Fprintf(&enc, "      - column: %s\n        crypto_envelope: %s\n        masking: %s\n        plaintext_length: %d\n        plaintext_side: %s\n", name, envelope, yamlQuote(s.Pattern), s.N, side)
		if dtype != "" {
			fmt.Fprintf(&enc, "        data_type: %s\n", dtype)
		}
	}
	// one searchable column so that the schema of the "with-search" deployment really has the search flag
	y := "schemas:\n  - table: t\n    columns: [id, srch, " + strings.Join(names, ", ") + "]\n    encrypted:\n      - column: srch\n        searchable: true\n        crypto_envelope: acrablock\n" + enc.String()
	return y, cols
}

// settingAccepted reports whether Acra's configuration validation accepts the masked column setting.
func settingAccepted(s setting) error {
	y, _ := schemaYAML([]setting{s})
	_, err := config.MapTableSchemaStoreFromConfig([]byte(y), false)
	return err
}

func newExecutor(sets []setting) *executor {
	y, cols := schemaYAML(sets)
	ex := &executor{envs: map[string]*envrig.Env{}, columns: cols}
	v1, err := ksrig.V1(ksrig.ScratchDir("c11-v1"), ksrig.RandBytes(32), keystore.InfiniteCacheSize)
	if err != nil {
		panic(err)
	}
	v2, err := ksrig.V2Mem(ksrig.NewV2Keys())
	if err != nil {
		panic(err)
	}
	for _, p := range []struct {
		n  string
		ks ksrig.FullKeyStore
	}{{"v1", v1}, {"v2mem", v2}} {
		for _, c := range []string{"owner", "client-with-other-keys", "third"} {
			if err := ksrig.GenClient(p.ks, clientIDs[c]); err != nil {
				panic(err)
			}
		}
		e, err := envrig.New(p.n, p.ks, nil, y)
		if err != nil {
			panic(fmt.Sprintf("c11 rig: schema refused: %v", err))
		}
		ex.envs[p.n] = e
	}
	return ex
}

func (ex *executor) resolve(e *envrig.Env, parts []part) ([]byte, error) {
	var x []byte
	for _, p := range parts {
		if p.Env == nil {
			x = append(x, p.Lit...)
			continue
		}
		id := clientIDs[p.Env.Owner]
		var b []byte
		switch p.Env.Kind {
		case "container-as", "raw-as":
			pub, err := e.KS.GetClientIDEncryptionPublicKey(id)
			if err != nil {
				return nil, err
			}
			b, err = acrastruct.CreateAcrastruct(p.Env.Inner, pub, nil)
			if err != nil {
				return nil, err
			}
			if p.Env.Kind == "container-as" {
				b = container(b, 0xF1)
			}
		case "container-ab", "raw-ab":
			k, err := e.KS.GetClientIDSymmetricKey(id)
			if err != nil {
				return nil, err
			}
			b, err = acrablock.CreateAcraBlock(p.Env.Inner, k, nil)
			if err != nil {
				return nil, err
			}
			if p.Env.Kind == "container-ab" {
				b = container(b, 0xF0)
			}
		default:
			return nil, fmt.Errorf("unknown envelope kind %q", p.Env.Kind)
		}
		x = append(x, b...)
	}
	return x, nil
}

// container wraps an inner envelope into the serialized container layout: "%%%" + u64 total length + envelope id + inner.
func container(inner []byte, id byte) []byte {
	return gen.Cat([]byte("%%%"), u64(uint64(12+len(inner))), []byte{id}, inner)
}

// run executes one spec in this process. progress (may be nil) is told which step starts.
func (ex *executor) run(s spec, progress func(step string)) (res result) {
	res.ID = s.ID
	res.Reads = map[string]readResult{}
	e := ex.envs[s.KS]
	col, ok := ex.columns[s.Set.key()]
	if !ok {
		res.ProtectErr = "rig: no column for setting"
		return
	}
	cs := e.Setting(col)
	x, err := ex.resolve(e, s.Parts)
	if err != nil {
		res.ProtectErr = "rig: " + err.Error()
		return
	}
	res.X = x
	if progress != nil {
		progress("protect")
	}
	func() {
		defer func() {
			if p := recover(); p != nil {
				res.ProtectPanic = fmt.Sprintf("%v\n%s", p, debug.Stack())
			}
		}()
		stored, err := e.WriteChain().EncryptWithClientID(clientIDs["owner"], append(make([]byte, 0, len(x)), x...), cs)
		if err != nil {
			res.ProtectErr = err.Error()
			return
		}
		res.Stored = append([]byte{}, stored...)
	}()
	if res.ProtectErr != "" || res.ProtectPanic != "" {
		return
	}
	for _, rn := range readerNames {
		if progress != nil {
			progress("read:" + rn)
		}
		var rr readResult
		func() {
			defer func() {
				if p := recover(); p != nil {
					rr.Panic = fmt.Sprintf("%v\n%s", p, debug.Stack())
				}
			}()
			var p *envrig.ReadPipeline
			if s.Pipeline == "with-search" {
				p = e.NewReadPipeline(true)
			} else {
				p = e.NewMaskingOnlyReadPipeline()
			}
			out, dec, err := p.OnColumn(clientIDs[rn], cs, res.Stored)
			rr.Out, rr.Decrypted = append([]byte{}, out...), dec
			if err != nil {
				rr.Err = err.Error()
			}
		}()
		res.Reads[rn] = rr
	}
	return
}

// ---- crash-isolated execution (hostile value classes) ----

const memGuardBytes = 768 << 20

// workGuardEvents bounds the number of log events (all levels enabled) Acra may emit while handling ONE value of
// < 1 KiB in one step. Normal processing emits a few events per value; a scanner that stands still or moves backwards
// emits several per iteration, without end. Passing the bound is positive evidence of unbounded work, decided by an
// event count (deterministic), not by time.
const workGuardEvents = 100000

type nullFormatter struct{}

func (nullFormatter) Format(*logrus.Entry) ([]byte, error) { return nil, nil }

type workGuard struct {
	n    int64
	step atomic.Value
}

func (g *workGuard) Levels() []logrus.Level { return logrus.AllLevels }
func (g *workGuard) Fire(*logrus.Entry) error {
	if atomic.AddInt64(&g.n, 1) > workGuardEvents {
		fmt.Fprintf(os.Stderr, "c11 child: work guard: more than %d log events in one step\n", workGuardEvents)
		os.Exit(78)
	}
	return nil
}

type childMsg struct {
	Start  *int    `json:"start,omitempty"`
	Step   string  `json:"step,omitempty"`
	Result *result `json:"result,omitempty"`
}

// Child is "mon C11 child exec": reads specs (JSON array) from stdin, writes one progress line per step and one
// result line per spec. A guard ends the process with code 77 when the heap passes memGuardBytes: the inputs are
// < 1 KiB, so such growth is positive evidence of unbounded consumption (decided by a resource bound, not by time).
func Child(args []string) int {
	if len(args) < 1 || args[0] != "exec" {
		return 2
	}
	debug.SetGCPercent(50)
	guard := &workGuard{}
	logrus.SetOutput(io.Discard)
	logrus.SetFormatter(nullFormatter{})
	logrus.SetLevel(logrus.TraceLevel)
	logrus.AddHook(guard)
	var specs []spec
	if err := json.NewDecoder(bufio.NewReaderSize(os.Stdin, 1<<20)).Decode(&specs); err != nil {
		fmt.Fprintln(os.Stderr, "c11 child: bad input:", err)
		return 2
	}
	var sets []setting
	for _, s := range specs {
		sets = append(sets, s.Set)
	}
	ex := newExecutor(sets)
	w := bufio.NewWriter(os.Stdout)
	emit := func(m childMsg) {
		b, _ := json.Marshal(m)
		w.Write(b)
		w.WriteByte('\n')
		w.Flush()
	}
	go func() {
		var ms runtime.MemStats
		for {
			time.Sleep(20 * time.Millisecond)
			runtime.ReadMemStats(&ms)
			if ms.HeapAlloc > memGuardBytes {
				fmt.Fprintf(os.Stderr, "c11 child: memory guard: heap %d MiB\n", ms.HeapAlloc>>20)
				os.Exit(77)
			}
		}
	}()
	for _, s := range specs {
		id := s.ID
		res := ex.run(s, func(step string) { atomic.StoreInt64(&guard.n, 0); emit(childMsg{Start: &id, Step: step}) })
		emit(childMsg{Result: &res})
	}
	return 0
}

// childWatchdog is the generous wall-clock bound of one child process; its firing is inconclusive, never a verdict.
const childWatchdog = 120 * time.Second

// runIsolated executes specs in child processes; a spec during which the child dies gets Aborted set.
func runIsolated(specs []spec, inconclusive func(string)) []result {
	var out []result
	sort.SliceStable(specs, func(i, j int) bool { return specs[i].ID < specs[j].ID })
	rest := specs
	for len(rest) > 0 {
		done, culprit, why, resolvedX := runChildOnce(rest, inconclusive)
		out = append(out, done...)
		n := len(done)
		if culprit == "" {
			if n < len(rest) && why != "" {
				inconclusive(why)
				return out
			}
			rest = rest[n:]
			continue
		}
		// the child died while running rest[n] at step `culprit`
		out = append(out, result{ID: rest[n].ID, X: resolvedX, Aborted: culprit + ": " + why, Reads: map[string]readResult{}})
		rest = rest[n+1:]
	}
	return out
}

func runChildOnce(specs []spec, inconclusive func(string)) (done []result, culpritStep, why string, x []byte) {
	bin := os.Getenv("VERIF_MON_BIN")
	if bin == "" {
		bin, _ = os.Executable()
	}
	cmd := exec.Command(bin, "C11", "child", "exec")
	in, _ := json.Marshal(specs)
	cmd.Stdin = strings.NewReader(string(in))
	cmd.Stderr = nil
	stdout, err := cmd.StdoutPipe()
	if err != nil {
		return nil, "", "rig: " + err.Error(), nil
	}
	if err := cmd.Start(); err != nil {
		return nil, "", "rig: cannot start child: " + err.Error(), nil
	}
	timedOut := make(chan struct{})
	timer := time.AfterFunc(childWatchdog, func() { close(timedOut); cmd.Process.Kill() })
	defer timer.Stop()
	sc := bufio.NewScanner(stdout)
	sc.Buffer(make([]byte, 1<<20), 64<<20)
	curStep := ""
	for sc.Scan() {
		var m childMsg
		if json.Unmarshal(sc.Bytes(), &m) != nil {
			continue
		}
		if m.Start != nil {
			curStep = m.Step
		}
		if m.Result != nil {
			done = append(done, *m.Result)
			curStep = ""
		}
	}
	werr := cmd.Wait()
	select {
	case <-timedOut:
		return done, "", fmt.Sprintf("child process exceeded the %v watchdog at step %q of spec %d", childWatchdog, curStep, len(done)), nil
	default:
	}
	if werr == nil && len(done) == len(specs) {
		return done, "", "", nil
	}
	code := -1
	if ee, ok := werr.(*exec.ExitError); ok {
		code = ee.ExitCode()
	}
	if len(done) >= len(specs) || curStep == "" {
		return done, "", fmt.Sprintf("rig: child exited with code %d outside any step", code), nil
	}
	switch code {
	case 78:
		why = fmt.Sprintf("process stopped by the work guard: more than %d log events while handling one value of < 1 KiB (the scanner does not advance: the call does not return)", workGuardEvents)
	case 77:
		why = "process stopped by the memory guard: heap grew beyond 768 MiB on an input of < 1 KiB (the call does not return and allocates without bound)"
	default:
		why = fmt.Sprintf("process died with exit code %d", code)
	}
	return done, curStep, why, nil
}
