package mysql

// History layer (MySQL wire): masked columns read INSIDE LONGER SESSION HISTORIES and NEXT TO OTHER PROTECTED COLUMNS - the sibling of
// proxylayers.MaskingHistory over the MySQL proxy rig (tables, neighbour catalogue, statement shapes and connection-state classes
// are shared with it). For readers of each kind (owner on the connection that wrote, client with other keys, client without keys)
// ONE connection reads a history of statements - COM_QUERY text rows, COM_STMT_PREPARE/EXECUTE binary rows, a prepared statement
// executed twice - over rows that hold masked columns next to unconfigured columns (text; a blob column holding envelopes nobody
// configured), encrypted, searchable, tokenized, typed columns with failure policies and a column of another client id; the
// database holds envelopes of the other client and damaged values in the neighbour columns.
//
// Oracle: C11's per-field clauses for every masked field of every delivered row (the client the value was protected for gets the
// original; every other reader exactly window joined with the pattern; NULL stays NULL). Neighbour columns are context; a statement
// answered with ERR (failure policy error) delivers nothing and is only counted - the connection must go on.

import (
	"bytes"
	"context"
	"fmt"
	"os"
	"strconv"
	"strings"
	"time"

	trcommon "github.com/cossacklabs/acra/cmd/acra-translator/common"

	"verif/harness/internal/ev"
	"verif/harness/internal/gen"
	"verif/harness/internal/props/c04"
	c04my "verif/harness/internal/props/c04/mysql"
	"verif/harness/internal/props/proxylayers"
	"verif/harness/internal/rig/fakepg"
	"verif/harness/internal/rig/proxyrig"
)

// historyLayer runs the MySQL history sessions (called from Layer, dialect already set).
func historyLayer(r *ev.Run) {
	t0 := time.Now()
	defer func() { r.Extra("mysql_history_layer_wall_s", time.Since(t0).Seconds()) }()
	r.Rule += " || MySQL wire history layer: the tables, neighbour columns, statement shapes and connection-state classes of the PostgreSQL history layer over a MySQL-mode AcraServer (integer columns with policy ciphertext left out: known C19 finding about their binary rows); reads as COM_QUERY (text rows) and prepared statements (binary rows), a prepared statement executed twice; session classes mixed / mixed + error-policy column / masking-only (every configured column a masked column without data type, envelopes only in an unconfigured blob column)"
	rng := gen.New(r.Seed, "c11-mysql-history")
	n := r.Pick(6, 100)
	for s := 0; s < n; s++ {
		ts := time.Now()
		historySession(r, gen.New(r.Seed, fmt.Sprintf("c11myh-%d-%d", s, rng.Int63())), s)
		if os.Getenv("VERIF_C11_DEBUG") != "" {
			fmt.Fprintf(os.Stderr, "c11 mysql history: session %d took %.2fs\n", s, time.Since(ts).Seconds())
		}
	}
	r.RequireAtLeast("mysql_history_masked_fields_ok", 300)
	for _, role := range []string{"owner-of-the-value", "client-with-other-keys", "client-without-keys"} {
		r.RequireAtLeast("mysql_history_masked_fields_ok:reader="+role, 80)
		r.RequireAtLeast("mysql_history_masked_fields_ok_after_unrevealable_non_masked_envelope:reader="+role, 40)
	}
	for _, p := range []string{"text", "binary"} {
		r.RequireAtLeast("mysql_history_masked_fields_ok:protocol="+p, 80)
	}
	r.RequireAtLeast("mysql_history_masked_fields_ok:config=masking-only", 40)
	r.RequireAtLeast("mysql_history_masked_fields_ok_right_of_a_non_masked_envelope_in_the_row", 50)
	r.RequireAtLeast("mysql_history_masked_fields_ok_left_of_a_non_masked_envelope_in_the_row", 50)
	r.RequireAtLeast("mysql_history_statements_with_rows", 60)
}

func historySession(r *ev.Run, rng *gen.Rand, sidx int) {
	class := proxylayers.HistConfigClass(sidx)
	t := proxylayers.HistTable(rng, "hist", c04.Other, sidx, func(c proxyrig.ColSpec) bool {
		// binary rows of an integer column whose unrevealable rows fall back to ciphertext do not parse (known C19 finding
		// mysql-binary-integer-ciphertext-fallback-mixed-rows): such a column would end the reads before any masked field is judged
		return !((c.DataType == "int32" || c.DataType == "int64") && c.OnFail == "ciphertext")
	})
	tables := []proxyrig.TableSpec{t}
	if got := configClassOf(tables); (class == "masking-only") != (got == "masking-only") {
		panic("c11 mysql history layer: generated configuration is of class " + got + ", wanted " + class)
	}
	w, ac, rc, closeAll, ok := c04my.OpenWorld(r, tables)
	if !ok {
		return
	}
	defer closeAll()
	g := proxyrig.NewMySessGen(rng, tables)
	var history []string
	for i := 0; i < 4+rng.Intn(3); i++ {
		st := g.Insert()
		history = append(history, fmt.Sprintf("[%s/%s] %.200s", st.Proto, st.Kind, st.SQL))
		if !c04my.RunStep(r, w, ac, rc, st, history, sidx) {
			return
		}
	}
	rrows := w.Ref.DB.Snapshot(t.Name)
	srows := w.Store.DB.Snapshot(t.Name)
	if len(rrows) != len(srows) || len(rrows) == 0 {
		return
	}
	ts, err := trcommon.NewTranslatorService(&trcommon.TranslatorData{Keystorage: w.KS})
	if err != nil {
		panic(err)
	}
	appEnc := func(block bool, id string, plain []byte) []byte {
		var out []byte
		var err error
		if block {
			out, err = ts.EncryptSym(context.Background(), plain, []byte(id), nil)
		} else {
			out, err = ts.Encrypt(context.Background(), plain, []byte(id), nil)
		}
		if err != nil {
			panic(err)
		}
		return out
	}
	// what the database holds in the neighbour columns (see proxylayers.MaskingHistory)
	cells := map[[2]int]*proxylayers.HistCell{}
	for ci, col := range t.Cols {
		if !proxylayers.HistHoldsEnvelopes(col) {
			continue
		}
		repl := map[int][]byte{}
		for ri := range srows {
			sv, isBytes := srows[ri][ci].([]byte)
			cell := &proxylayers.HistCell{}
			cells[[2]int{ri, ci}] = cell
			if col.Name == "raw" {
				if rng.Intn(4) != 0 {
					cell.Writer = []string{c04.Owner, c04.Owner, c04.Other}[rng.Intn(3)]
					repl[ri] = appEnc(rng.Intn(2) == 0, cell.Writer, []byte(fmt.Sprintf("app-side secret %d/%d", sidx, ri)))
				}
				continue
			}
			if !isBytes || len(sv) < 40 {
				continue
			}
			cell.Writer = c04.Owner
			if col.ClientID != "" {
				cell.Writer = col.ClientID
			}
			switch rng.Intn(6) {
			case 0:
				if col.Kind == "enc" {
					cell.Writer = c04.Other
					plain := []byte(fmt.Sprintf("other client's %d/%d", sidx, ri))
					if col.DataType == "int32" || col.DataType == "int64" {
						plain = []byte(fmt.Sprint(1000 + ri))
					}
					repl[ri] = appEnc(col.Envelope == "acrablock", c04.Other, plain)
				}
			case 1:
				cell.Damage = "flip-payload"
				nv := append([]byte{}, sv...)
				nv[len(nv)-1-rng.Intn(8)] ^= 1 << uint(rng.Intn(8))
				repl[ri] = nv
			case 2:
				cell.Damage = "truncate"
				repl[ri] = append([]byte{}, sv[:len(sv)-1-rng.Intn(5)]...)
			}
		}
		w.Store.DB.TamperAll(t.Name, col.Name, func(row int, v fakepg.Value) fakepg.Value {
			if nv, ok := repl[row]; ok {
				return nv
			}
			return v
		})
	}
	byID := map[int64]int{}
	for ri := range rrows {
		if id, ok := rrows[ri][0].(int64); ok {
			byID[id] = ri
		}
	}
	opening := proxylayers.HistOpenings[(sidx/4+sidx)%4]
	if os.Getenv("VERIF_C11_DEBUG") != "" {
		fmt.Fprintf(os.Stderr, "c11 mysql history: session %d writes done\n", sidx)
		defer func(t time.Time) {
			fmt.Fprintf(os.Stderr, "c11 mysql history: session %d reads took %.2fs\n", sidx, time.Since(t).Seconds())
		}(time.Now())
	}
	for _, reader := range []string{c04.Owner, c04.Other, c04.NoKeys} {
		c := ac
		if reader != c04.Owner {
			var err error
			c, err = proxyrig.DialMy(w.Acras[reader].Port, 1<<26)
			if err != nil {
				r.Inconclusive("cannot connect as " + reader + " (mysql)")
				return
			}
		}
		stmts := proxylayers.HistStatements(gen.New(r.Seed, fmt.Sprintf("c11myh-stmts-%d", sidx)), t, opening)
		ok := historyRead(r, w, c, t, reader, class, opening, stmts, rrows, byID, cells, history, sidx)
		if reader != c04.Owner {
			c.Close()
		}
		if !ok {
			return
		}
	}
}

func historyRole(col proxyrig.ColSpec, reader string) string {
	owner := c04.Owner
	if col.ClientID != "" {
		owner = col.ClientID
	}
	switch {
	case reader == owner:
		return "owner-of-the-value"
	case reader == c04.NoKeys:
		return "client-without-keys"
	}
	return "client-with-other-keys"
}

func historyRead(r *ev.Run, w *c04my.World, c *proxyrig.MyClient, t proxyrig.TableSpec, reader, class, opening string, stmts []proxylayers.HistStatement, rrows [][]fakepg.Value, byID map[int64]int, cells map[[2]int]*proxylayers.HistCell,
	history []string, sidx int) bool {
	var state proxylayers.HistConnState
	var trail []string
	readerClass := map[string]string{c04.Owner: "owner", c04.Other: "other-keys", c04.NoKeys: "no-keys"}[reader]
	for si, st := range stmts {
		var names []string
		for _, ci := range st.Cols {
			names = append(names, t.Cols[ci].Name)
		}
		sql := fmt.Sprintf("select %s from %s order by id", strings.Join(names, ", "), t.Name)
		// text protocol for the "text" statements, prepared statements (binary rows) for the others; a repeated statement in the
		// binary protocol is ONE prepared statement executed twice
		proto := "text"
		if st.Format != "text" {
			proto = "binary"
		}
		var results []*proxyrig.MyResult
		if proto == "text" {
			results = append(results, c.Query(sql))
		} else {
			ps, pr := c.Prepare(sql)
			if ps == nil {
				results = append(results, pr)
			} else {
				results = append(results, ps.Query())
				if strings.HasPrefix(st.Shape, "repeated:") && !results[0].Broken {
					results = append(results, ps.Query())
				}
				ps.Close()
			}
		}
		for xi, res := range results {
			label := proto
			if xi > 0 {
				label = "binary(prepared statement executed again)"
			}
			trail = append(trail, fmt.Sprintf("#%d %s [%s] %s", si, st.Shape, label, sql))
			detail := func(extra map[string]interface{}) map[string]interface{} {
				m := map[string]interface{}{"session": sidx, "schema": w.Schema, "writes": history, "reader": reader, "config_class": class, "opening": opening, "statements_of_this_connection": append([]string{}, trail...)}
				for k, v := range extra {
					m[k] = v
				}
				return m
			}
			r.Count("mysql_history_statements", 1)
			rows := res.Rows
			switch {
			case res.Timeout:
				r.Inconclusive("c11 mysql history: read watchdog expired")
				return false
			case res.Broken:
				hasMask := false
				for _, ci := range st.Cols {
					hasMask = hasMask || t.Cols[ci].Kind == "mask"
				}
				r.Case()
				r.Violation(fmt.Sprintf("mysql proxy history: connection broke while reading: config=%s reader=%s statement-with-masked-column=%v protocol=%s connection=%s", class, readerClass, hasMask, proto, state.Before()),
					detail(map[string]interface{}{"err": fmt.Sprint(res.Err), "driver_panic": res.DriverPanic}))
				return false
			case res.Err != nil:
				r.Count("mysql_history_statements_answered_with_ERR", 1)
				r.SetAdd("mysql_history_error_responses(not judged)", fmt.Sprintf("%s: %d %.80s", readerClass, res.ErrNo, res.ErrMsg))
				rows = nil
			case len(rows) != len(rrows):
				r.Case()
				r.Violation(fmt.Sprintf("mysql proxy history: row count differs: config=%s reader=%s protocol=%s", class, readerClass, proto), detail(map[string]interface{}{"rows": len(rows), "want": len(rrows)}))
				return false
			default:
				r.Count("mysql_history_statements_with_rows", 1)
			}
			idPos := 0
			if st.Cols[0] != 0 {
				idPos = len(st.Cols) - 1
			}
			delivered := map[int][]proxyrig.MyVal{}
			for _, row := range rows {
				if len(row) != len(st.Cols) || row[idPos].Null {
					continue
				}
				if id, err := strconv.ParseInt(string(row[idPos].B), 10, 64); err == nil {
					if ri, ok := byID[id]; ok {
						delivered[ri] = row
					}
				}
			}
			for ri := range rrows {
				row, got := delivered[ri]
				inRow := "first-protected-column-of-the-row"
				rowEnv := false
				for k, ci := range st.Cols {
					col := t.Cols[ci]
					if col.Name == "id" {
						continue
					}
					cell := cells[[2]int{ri, ci}]
					if col.Kind == "mask" && got {
						later := false
						for _, cj := range st.Cols[k+1:] {
							if cl := cells[[2]int{ri, cj}]; cl != nil && cl.Writer != "" {
								later = true
							}
						}
						historyJudge(r, col, reader, class, row[k], proto, rrows[ri][ci], state.Before(), inRow, rowEnv, later, detail)
					}
					switch {
					case col.Kind == "mask":
						if rrows[ri][ci] != nil {
							state.SawMasked = true
						}
					case cell != nil && cell.Writer != "":
						rowEnv = true
						if cell.Writer == reader && cell.Damage == "" {
							state.SawRevealable = true
						} else {
							state.SawUnrevealable = true
						}
					}
					if col.Name != "note" {
						inRow = "after-" + proxylayers.HistColClass(col) + "-in-the-row"
					}
				}
			}
		}
	}
	r.Count("mysql_history_connections_completed", 1)
	return true
}

func historyJudge(r *ev.Run, col proxyrig.ColSpec, reader, class string, got proxyrig.MyVal, proto string, plain fakepg.Value, before, inRow string, rightOfEnv, leftOfEnv bool, detail func(map[string]interface{}) map[string]interface{}) {
	r.Case()
	role := historyRole(col, reader)
	sig := func(what string) string {
		return fmt.Sprintf("mysql proxy history: %s: config=%s column=mask/%s/%s side=%s reader=%s protocol=%s connection=%s row=%s", what, class, col.Envelope, orUnset(col.DataType), col.MaskSide, role, proto, before, inRow)
	}
	if plain == nil {
		if !got.Null {
			r.Violation(sig("NULL did not stay NULL"), detail(map[string]interface{}{"column": col.Name, "got": ev.Hex(got.B)}))
		} else {
			r.Count("mysql_history_masked_null_stayed_null", 1)
		}
		return
	}
	pb := plainBytes(plain)
	if len(pb) == 0 {
		return
	}
	val := got.B
	masked := proxylayers.HistMaskOf(col, pb)
	want := masked
	if role == "owner-of-the-value" {
		want = pb
	}
	if got.Null || !bytes.Equal(val, want) {
		what := "reader without the owner's keys does not receive exactly window+pattern"
		if role == "owner-of-the-value" {
			what = "owner does not receive the original value"
			if bytes.Equal(val, masked) {
				what += " (gets window+pattern)"
			}
		} else {
			leak := "none"
			if len(pb) > col.MaskLen+8 {
				hidden := pb[col.MaskLen:]
				if col.MaskSide == "right" {
					hidden = pb[:len(pb)-col.MaskLen]
				}
				if len(hidden) > 24 {
					hidden = hidden[:24]
				}
				if bytes.Contains(val, hidden) {
					leak = "hidden-plaintext"
				}
			}
			if leak == "none" && len(val) > len(masked)+40 && (bytes.Contains(val, []byte("%%%")) || bytes.Contains(val, []byte(`""""`))) {
				leak = "ciphertext"
			}
			what += ": leak=" + leak
		}
		r.Violation(sig(what), detail(map[string]interface{}{"column": col.Name, "got": ev.Hex(val), "got_null": got.Null, "want": ev.Hex(want), "plain_len": len(pb), "window": col.MaskLen, "pattern": col.MaskPat}))
		return
	}
	r.Count("mysql_history_masked_fields_ok", 1)
	r.Count("mysql_history_masked_fields_ok:reader="+role, 1)
	r.Count("mysql_history_masked_fields_ok:protocol="+proto, 1)
	r.Count("mysql_history_masked_fields_ok:config="+class, 1)
	r.Count("mysql_history_masked_fields_ok:connection="+before, 1)
	if before == "after-unrevealable-non-masked-envelope" || before == "after-revealable-and-unrevealable-non-masked-envelopes" {
		r.Count("mysql_history_masked_fields_ok_after_unrevealable_non_masked_envelope:reader="+role, 1)
	}
	if rightOfEnv {
		r.Count("mysql_history_masked_fields_ok_right_of_a_non_masked_envelope_in_the_row", 1)
	}
	if leftOfEnv {
		r.Count("mysql_history_masked_fields_ok_left_of_a_non_masked_envelope_in_the_row", 1)
	}
	lc := "longer"
	if len(pb) <= col.MaskLen {
		lc = "not-longer-than-window"
	}
	r.SetAdd("mysql_history_row_neighbours_seen", inRow)
	r.Distinct(fmt.Sprintf("mysql-history|%s|%s|%s|%s|%s|%s|%s|%s|%s", class, col.Envelope, col.DataType, col.MaskSide, role, proto, lc, before, inRow))
	r.SampleN("mysql-history:"+role+":"+proto, 1, map[string]interface{}{"layer": "mysql proxy history", "config_class": class, "column": col, "reader": role, "protocol": proto, "connection": before, "row": inRow, "plain": ev.Hex(pb), "delivered": ev.Hex(val)})
}
