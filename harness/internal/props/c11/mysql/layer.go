// Package mysql is the MySQL wire layer of the C11 monitor ("masked columns show only the allowed window to clients that cannot
// decrypt"): the sibling of proxylayers.Masking (PostgreSQL) over the MySQL proxy rig. Masked columns are written through a
// MySQL-mode AcraServer (built by Acra's own proxy factory) by the owner and read back by the owner (differential against the
// reference database, through the C04 step runner), by a client with other keys and by a client without keys, in the text
// protocol (COM_QUERY) and the binary protocol (COM_STMT_PREPARE / EXECUTE).
//
// The encryptor configurations come in two classes, because what the MySQL proxy factory subscribes depends on the settings
// present ANYWHERE in the configuration: "masking-only" (every configured column of every table is a masked column without
// data type: the configuration's only non-default feature is masking) and "mixed" (masked columns next to searchable,
// tokenized, type-aware, plainly encrypted ones).
package mysql

import (
	"bytes"
	"fmt"
	"strconv"
	"time"

	"verif/harness/internal/ev"
	"verif/harness/internal/gen"
	"verif/harness/internal/props/c04"
	c04my "verif/harness/internal/props/c04/mysql"
	"verif/harness/internal/rig/fakepg"
	"verif/harness/internal/rig/proxyrig"
)

var patterns = []string{"xxxx", "*", "##mask##", "é€"}

// maskOf is the reference: what a reader that cannot decrypt must receive for a masked value.
func maskOf(c proxyrig.ColSpec, plain []byte) []byte {
	n := c.MaskLen
	if len(plain) <= n {
		return []byte(c.MaskPat)
	}
	if c.MaskSide == "left" {
		return append(append([]byte{}, plain[:n]...), []byte(c.MaskPat)...)
	}
	return append([]byte(c.MaskPat), plain[len(plain)-n:]...)
}

func plainBytes(v fakepg.Value) []byte {
	switch x := v.(type) {
	case string:
		return []byte(x)
	case []byte:
		return x
	}
	return nil
}

// maskCol draws one masked column. typed=false: no data_type (the column alone does not make the configuration type-aware).
func maskCol(rng *gen.Rand, name string, typed bool) proxyrig.ColSpec {
	c := proxyrig.ColSpec{Name: name, Kind: "mask", Envelope: []string{"acrablock", "acrastruct"}[rng.Intn(2)], AppType: fakepg.Bytea, StoreType: fakepg.Bytea,
		MaskPat: patterns[rng.Intn(len(patterns))], MaskLen: rng.Intn(8), MaskSide: []string{"left", "right"}[rng.Intn(2)]}
	if typed {
		// Acra's configuration validation accepts a data type on a masked column only with the AcraBlock envelope
		c.Envelope = "acrablock"
		if rng.Intn(2) == 0 {
			c.DataType, c.AppType = "str", fakepg.Text
		} else {
			c.DataType = "bytes"
		}
	}
	return c
}

// genTables builds the tables of one session. class = masking-only | mixed.
func genTables(rng *gen.Rand, class string) []proxyrig.TableSpec {
	if class == "masking-only" {
		var out []proxyrig.TableSpec
		for ti := 0; ti < 1+rng.Intn(2); ti++ {
			t := proxyrig.TableSpec{Name: fmt.Sprintf("mtab%d", ti+1)}
			t.Cols = append(t.Cols, proxyrig.ColSpec{Name: "id", AppType: fakepg.Int4, StoreType: fakepg.Int4}, proxyrig.ColSpec{Name: "note", AppType: fakepg.Text, StoreType: fakepg.Text})
			for k := 0; k < 1+rng.Intn(4); k++ {
				t.Cols = append(t.Cols, maskCol(rng, fmt.Sprintf("m%d", k+1), false))
			}
			t.Cols = append(t.Cols, proxyrig.ColSpec{Name: "raw", AppType: fakepg.Bytea, StoreType: fakepg.Bytea})
			rest := t.Cols[1:]
			rng.Shuffle(len(rest), func(i, j int) { rest[i], rest[j] = rest[j], rest[i] })
			out = append(out, t)
		}
		return out
	}
	// mixed: the rig's catalogue (encrypted, searchable, tokenized, type-aware, masked columns) plus masked columns of our own
	tables := proxyrig.GenTables(rng, 1+rng.Intn(2), c04.Other, nil)
	for ti := range tables {
		t := &tables[ti]
		for i := range t.Cols {
			if t.Cols[i].Kind == "mask" {
				t.Cols[i].MaskLen = rng.Intn(8)
				t.Cols[i].MaskSide = []string{"left", "right"}[rng.Intn(2)]
				t.Cols[i].MaskPat = patterns[rng.Intn(len(patterns))]
			}
		}
		if ti == 0 {
			for k := 0; k < 1+rng.Intn(2); k++ {
				t.Cols = append(t.Cols, maskCol(rng, fmt.Sprintf("mx%d", k+1), rng.Intn(2) == 0))
			}
		}
	}
	return tables
}

// configClassOf names the configuration by what it contains besides masking (derived from the generated specs).
func configClassOf(tables []proxyrig.TableSpec) string {
	other := false
	for _, t := range tables {
		for _, c := range t.Cols {
			if !c.Configured() {
				continue
			}
			if c.Kind != "mask" || c.DataType != "" || c.TypeID != 0 || c.OnFail != "" || c.Default != nil {
				other = true
			}
		}
	}
	if other {
		return "mixed"
	}
	return "masking-only"
}

// Layer runs the MySQL part of C11.
func Layer(r *ev.Run) {
	proxyrig.SetDialect(true)
	defer proxyrig.SetDialect(false)
	t0 := time.Now()
	defer func() { r.Extra("mysql_masking_layer_wall_s", time.Since(t0).Seconds()) }()
	r.Rule += " || MySQL wire layer: sessions over a MySQL-mode AcraServer (Acra's proxy factory) in front of a fake MySQL, encryptor configurations of two classes - masking-only (every configured column is a masked column without data type; 1-2 tables) and mixed (masked columns next to encrypted / searchable / tokenized / type-aware columns) - with pattern, window length 0..7 and side drawn per column, both envelopes; the owner writes and reads (differential against a reference database), then a client with other keys and a client without keys read every masked column in the text and in the binary protocol: exactly window joined with the pattern (pattern alone for values not longer than the window), NULL stays NULL"
	r.Assumptions = append(r.Assumptions, "MySQL wire layer: database replaced by the harness's fake MySQL server; client = go-sql-driver/mysql; the reader identities are separate AcraServer instances on the same configuration and database")
	rng := gen.New(r.Seed, "c11-mysql")
	n := r.Pick(10, 200)
	for s := 0; s < n; s++ {
		class := []string{"masking-only", "mixed"}[s%2]
		session(r, gen.New(r.Seed, fmt.Sprintf("c11my-%d-%d", s, rng.Int63())), s, class)
	}
	r.RequireAtLeast("mysql_masked_fields_checked:masking-only", 40)
	r.RequireAtLeast("mysql_masked_fields_checked:mixed", 40)
	r.RequireAtLeast("mysql_masked_fields_checked:text", 40)
	r.RequireAtLeast("mysql_masked_fields_checked:binary", 40)
	r.RequireAtLeast("mysql_masking_sessions_owner_differential_ok", 4)
	// masked columns inside longer session histories and next to other protected columns (history.go)
	historyLayer(r)
}

func session(r *ev.Run, rng *gen.Rand, sidx int, class string) {
	tables := genTables(rng, class)
	if got := configClassOf(tables); got != class {
		panic("c11 mysql layer: generated configuration is of class " + got + ", wanted " + class)
	}
	w, ac, rc, closeAll, ok := c04my.OpenWorld(r, tables)
	if !ok {
		return
	}
	defer closeAll()
	g := proxyrig.NewMySessGen(rng, tables)
	var history []string
	steps := 5*len(tables) + rng.Intn(8)
	for i := 0; i < steps; i++ {
		var st proxyrig.MyStep
		if i < 4*len(tables) {
			st = g.Insert()
		} else {
			st = g.Next()
		}
		history = append(history, fmt.Sprintf("[%s/%s] %.300s", st.Proto, st.Kind, st.SQL))
		if !c04my.RunStep(r, w, ac, rc, st, history, sidx) {
			return
		}
	}
	r.Count("mysql_masking_sessions_owner_differential_ok", 1)
	for _, t := range tables {
		rrows := w.Ref.DB.Snapshot(t.Name)
		srows := w.Store.DB.Snapshot(t.Name)
		if len(rrows) != len(srows) || len(rrows) == 0 {
			continue
		}
		byID := map[int64]int{}
		for ri := range rrows {
			if id, ok := rrows[ri][0].(int64); ok {
				byID[id] = ri
			}
		}
		for _, reader := range []string{c04.Other, c04.NoKeys} {
			c, err := proxyrig.DialMy(w.Acras[reader].Port, 1<<26)
			if err != nil {
				r.Inconclusive("cannot connect as " + reader + " (mysql)")
				return
			}
			readMasked(r, w, c, t, reader, class, rrows, srows, byID, history, sidx)
			c.Close()
		}
	}
}

func readMasked(r *ev.Run, w *c04my.World, c *proxyrig.MyClient, t proxyrig.TableSpec, reader, class string, rrows, srows [][]fakepg.Value, byID map[int64]int, history []string, sidx int) {
	readerName := map[string]string{c04.Other: "other-keys", c04.NoKeys: "no-keys"}[reader]
	for ci, col := range t.Cols {
		if col.Kind != "mask" {
			continue
		}
		for _, proto := range []string{"text", "binary"} {
			r.Case()
			sql := fmt.Sprintf("select id, %s from %s order by id", col.Name, t.Name)
			var res *proxyrig.MyResult
			if proto == "text" {
				res = c.Query(sql)
			} else {
				ps, pr := c.Prepare(sql)
				if ps == nil {
					res = pr
				} else {
					res = ps.Query()
					ps.Close()
				}
			}
			sig := func(what string) string {
				return fmt.Sprintf("mysql proxy: %s: config=%s column=mask/%s/%s side=%s reader=%s protocol=%s", what, class, col.Envelope, orUnset(col.DataType), col.MaskSide, readerName, proto)
			}
			detail := func(extra map[string]interface{}) map[string]interface{} {
				m := map[string]interface{}{"session": sidx, "schema": w.Schema, "history": history, "sql": sql, "config_class": class}
				for k, v := range extra {
					m[k] = v
				}
				return m
			}
			if res.Broken || res.Err != nil || len(res.Rows) != len(rrows) {
				r.Violation(sig("read failed"), detail(map[string]interface{}{"err": fmt.Sprint(res.Err), "rows": len(res.Rows), "want": len(rrows)}))
				if res.Broken {
					return
				}
				continue
			}
			for _, row := range res.Rows {
				if len(row) != 2 || row[0].Null {
					continue
				}
				id, err := strconv.ParseInt(string(row[0].B), 10, 64)
				if err != nil {
					continue
				}
				ri, ok := byID[id]
				if !ok {
					continue
				}
				plain := rrows[ri][ci]
				if plain == nil {
					if !row[1].Null {
						r.Violation(sig("NULL did not stay NULL"), detail(map[string]interface{}{"got": ev.Hex(row[1].B)}))
					} else {
						r.Count("mysql_masked_null_stayed_null", 1)
					}
					continue
				}
				pb := plainBytes(plain)
				if len(pb) == 0 {
					continue
				}
				val := row[1].B
				want := maskOf(col, pb)
				if row[1].Null || !bytes.Equal(val, want) {
					what := "non-owner did not get window joined with the pattern"
					if len(pb) > col.MaskLen+8 {
						hidden := pb[col.MaskLen:]
						if col.MaskSide == "right" {
							hidden = pb[:len(pb)-col.MaskLen]
						}
						if len(hidden) > 24 {
							hidden = hidden[:24]
						}
						if bytes.Contains(val, hidden) {
							what = "hidden plaintext delivered to a non-owner"
						}
					}
					if sv, _ := srows[ri][ci].([]byte); len(sv) > 40 && (bytes.Contains(val, sv[len(sv)-16:]) || bytes.Contains(val, sv[len(sv)/2:len(sv)/2+16])) {
						what = "ciphertext bytes delivered to a non-owner"
					}
					r.Violation(sig(what), detail(map[string]interface{}{"got": ev.Hex(val), "got_null": row[1].Null, "want": ev.Hex(want), "plain_len": len(pb), "window": col.MaskLen, "pattern": col.MaskPat}))
					continue
				}
				r.Count("mysql_masked_fields_checked", 1)
				r.Count("mysql_masked_fields_checked:"+class, 1)
				r.Count("mysql_masked_fields_checked:"+proto, 1)
				lc := "longer"
				if len(pb) <= col.MaskLen {
					lc = "not-longer-than-window"
				}
				r.Distinct(fmt.Sprintf("mysql-mask|%s|%s|%s|%s|%s|%s|%s", class, col.Envelope, orUnset(col.DataType), col.MaskSide, readerName, proto, lc))
				r.SampleN("mysql-mask:"+class+":"+proto, 1, map[string]interface{}{"config_class": class, "column": col, "reader": readerName, "protocol": proto, "plain": ev.Hex(pb), "delivered": ev.Hex(val)})
			}
		}
	}
}

func orUnset(s string) string {
	if s == "" {
		return "unset"
	}
	return s
}
