// Package c11 monitors "masked columns show only the allowed window to clients that cannot decrypt" at the
// library layer: masking.DataEncryptor inside the proxy's encryptor chain on the write side, the container
// detector with masking.Processor on the read side. The wire-proxy layer is plugged in through ProxyLayer.
package c11

import (
	"bytes"
	"encoding/binary"
	"fmt"
	"sort"
	"sync"
	"time"

	"verif/harness/internal/ev"
	"verif/harness/internal/gen"
	"verif/harness/internal/props"
)

func init() { props.Register("C11", props.Monitor{Level: "exploration", Run: Run, Child: Child}) }

// ProxyLayer, when set (by the wire-proxy rig), is run at the end of Run with the same evidence object.
var ProxyLayer func(r *ev.Run)

func u64(v uint64) []byte { b := make([]byte, 8); binary.LittleEndian.PutUint64(b, v); return b }

type patternDef struct{ name, text string }

var patterns = []patternDef{
	{"xxxx", "xxxx"},
	{"star", "*"},
	{"utf8", "мaск€漢😀"},
	{"percent-tags", "ab%%%cd%%%"},
	{"valpart", "VALPART7"},
}

func patternName(text string) string {
	for _, p := range patterns {
		if p.text == text {
			return p.name
		}
	}
	return "?"
}

var contents = []string{"random", "ascii", "utf8", "zeros", "nul-laden", "percents", "quotes"}

// ---- generators ----

type builder struct {
	rng                *gen.Rand
	dtypeOK            map[string]bool // envelope|dtype accepted by Acra's validation
	nextID             int
	zeroLenInWindow    int
	maxZeroLenInWindow int
}

func (b *builder) pick(xs []string) string { return xs[b.rng.Intn(len(xs))] }

func (b *builder) baseSpec() spec {
	s := spec{ID: b.nextID}
	b.nextID++
	s.KS = b.pick([]string{"v1", "v2mem"})
	s.Set.Envelope = b.pick([]string{"acrastruct", "acrablock"})
	s.Set.Side = b.pick([]string{"left", "right"})
	s.Set.Pattern = patterns[b.rng.Intn(len(patterns))].text
	s.Pipeline = b.pick([]string{"masking-only", "masking-only", "with-search"})
	return s
}

// finish fixes the data type variant (a function of pattern and n, to bound the number of columns).
func (b *builder) finish(s spec) spec {
	dt := []string{"", "str", "bytes"}[(s.Set.N+len(s.Set.Pattern))%3]
	if !b.dtypeOK[s.Set.Envelope+"|"+dt] {
		dt = ""
	}
	s.Set.DType = dt
	return s
}

func (b *builder) content(class string, n int) []byte { return gen.Content(b.rng, class, n) }

// marker returns 12 unique bytes that cannot be produced by the window or a pattern.
func (b *builder) marker() []byte {
	return []byte(fmt.Sprintf("MK%010x", b.rng.Int63()&0xffffffffff))
}

// assemble puts window and hidden part in the order the side demands: left = window first.
func assemble(side string, window, hidden []byte) []byte {
	if side == "left" {
		return gen.Cat(window, hidden)
	}
	return gen.Cat(hidden, window)
}

var sweepLengths = []int{1, 2, 3, 4, 5, 7, 8, 9, 12, 13, 15, 16, 17, 24, 31, 32, 33, 34, 47, 64, 100, 255, 300}

// plain: window and hidden part of one content class; n swept over 0..len+1 with weight on the edges.
func (b *builder) plain() spec { return b.plainFrom(b.baseSpec()) }

// plainFrom is plain() over a given base (keystore, envelope, side, pattern, pipeline already chosen).
func (b *builder) plainFrom(s spec) spec {
	L := sweepLengths[b.rng.Intn(len(sweepLengths))]
	var n int
	switch b.rng.Intn(8) {
	case 0:
		n = 0
	case 1:
		n = 1
	case 2:
		n = L - 1
	case 3:
		n = L
	case 4:
		n = L + 1
	default:
		n = b.rng.Intn(L + 2)
	}
	return b.plainWith(s, L, n, b.pick(contents))
}

func (b *builder) plainWith(s spec, L, n int, class string) spec {
	s.Set.N = n
	x := b.content(class, L)
	s.Class = "plain:" + class
	s.Cause = "plain:" + class
	// a marker inside the hidden part (only where it fits and the content is free-form)
	h := L - n
	if n >= L {
		h = L
	}
	if h >= 14 && (class == "random" || class == "ascii") {
		m := b.marker()
		off := b.rng.Intn(h - len(m) + 1)
		start := off // hidden part position inside x
		if s.Set.Side == "left" && n < L {
			start = n + off
		}
		copy(x[start:], m)
		s.Marker = m
	}
	s.Parts = []part{{Lit: x}}
	return b.finish(s)
}

// featured builds a value with a feature (bytes with a meaning for Acra's scanners) at a chosen place relative to the window.
// where: in-window | in-hidden | straddling-boundary
func (b *builder) featured(s spec, feat []part, featLen int, where string) (spec, bool) {
	r := b.rng
	fill := func(n int) []byte { return b.content("ascii", n) }
	var window, hidden []part
	wl, hl := 0, 0
	add := func(dst *[]part, l *int, p ...part) {
		for _, q := range p {
			*dst = append(*dst, q)
			if q.Env == nil {
				*l += len(q.Lit)
			}
		}
	}
	switch where {
	case "in-window":
		a, c := r.Intn(6), r.Intn(6)
		add(&window, &wl, part{Lit: fill(a)})
		add(&window, &wl, feat...)
		add(&window, &wl, part{Lit: fill(c)})
		wl = a + featLen + c
		m := b.marker()
		hidden = []part{{Lit: gen.Cat(fill(r.Intn(10)), m, fill(r.Intn(10)))}}
		s.Marker = m
	case "in-hidden":
		wl = r.Intn(9)
		window = []part{{Lit: fill(wl)}}
		a, c := 1+r.Intn(6), 1+r.Intn(6)
		hidden = append(hidden, part{Lit: fill(a)})
		hidden = append(hidden, feat...)
		hidden = append(hidden, part{Lit: fill(c)})
	default:
		return s, false
	}
	s.Set.N = wl
	if s.Set.Side == "left" {
		s.Parts = append(window, hidden...)
	} else {
		s.Parts = append(hidden, window...)
	}
	_ = hl
	return b.finish(s), true
}

// straddle builds a literal feature that lies across the window boundary.
func (b *builder) straddle(s spec, feat []byte) spec {
	r := b.rng
	cut := 1 + r.Intn(len(feat)-1) // bytes of the feature on the first side
	a, c := r.Intn(8), 1+r.Intn(8)
	x := gen.Cat(b.content("ascii", a), feat, b.content("ascii", c))
	if s.Set.Side == "left" {
		s.Set.N = a + cut
	} else {
		s.Set.N = len(x) - (a + cut)
	}
	s.Parts = []part{{Lit: x}}
	return b.finish(s)
}

func (b *builder) containsPattern() spec {
	s := b.baseSpec()
	p := []byte(s.Set.Pattern)
	where := b.pick([]string{"in-window", "in-hidden", "straddling-boundary", "value-is-pattern", "value-is-pattern-repeated"})
	s.Class = "value-contains-pattern"
	s.Cause = "value-contains-pattern(" + where + ")"
	switch where {
	case "in-window", "in-hidden":
		s, _ = b.featured(s, []part{{Lit: p}}, len(p), where)
		return s
	case "straddling-boundary":
		if len(p) < 2 {
			p = gen.Cat(p, p, p)
		}
		return b.straddle(s, p)
	case "value-is-pattern":
		s.Parts = []part{{Lit: p}}
		s.Set.N = b.rng.Intn(len(p) + 2)
	default:
		x := bytes.Repeat(p, 2+b.rng.Intn(3))
		s.Parts = []part{{Lit: x}}
		s.Set.N = b.rng.Intn(len(x) + 2)
	}
	return b.finish(s)
}

func (b *builder) tags() spec {
	s := b.baseSpec()
	tg := []struct {
		n string
		b []byte
	}{{"percent3", []byte("%%%")}, {"quote4", []byte(`""""`)}, {"quote8", []byte(`""""""""`)}, {"percent3+11-random", gen.Cat([]byte("%%%"), gen.Bytes(b.rng, 8), []byte{byte(b.rng.Intn(0xF0))}, gen.Bytes(b.rng, 2))}}
	t := tg[b.rng.Intn(len(tg))]
	where := b.pick([]string{"in-window", "in-hidden", "straddling-boundary"})
	s.Class = "envelope-tag"
	s.Cause = fmt.Sprintf("tag(%s)-%s", t.n, where)
	if where == "straddling-boundary" {
		return b.straddle(s, t.b)
	}
	s, _ = b.featured(s, []part{{Lit: t.b}}, len(t.b), where)
	return s
}

// lookalike: bytes shaped like a serialized container header: "%%%" + u64 length + envelope id + some bytes.
func (b *builder) lookalike() spec {
	s := b.baseSpec()
	s.Hostile = true
	r := b.rng
	variant := b.pick([]string{"zero", "small", "twelve", "consistent", "beyond", "huge", "negative"})
	where := b.pick([]string{"in-window", "in-window", "in-hidden", "straddling-boundary"})
	if (variant == "zero" || variant == "negative") && where != "in-hidden" {
		// on a tree without the repair these calls do not return and each costs one child process (see notes): a bounded number per run
		if b.zeroLenInWindow >= b.maxZeroLenInWindow {
			variant = b.pick([]string{"small", "twelve", "consistent", "beyond", "huge"})
		} else {
			b.zeroLenInWindow++
		}
	}
	tail := gen.Bytes(r, 1+r.Intn(20))
	var l uint64
	switch variant {
	case "zero":
		l = 0
	case "small":
		l = uint64(1 + r.Intn(11))
	case "twelve":
		l = 12
	case "consistent":
		l = uint64(12 + len(tail))
	case "beyond":
		l = uint64(12 + len(tail) + 1 + r.Intn(400))
	case "huge":
		l = []uint64{1 << 31, 1 << 32, 1 << 62, (1 << 63) - 1}[r.Intn(4)]
	default:
		l = []uint64{1 << 63, ^uint64(0), ^uint64(0) - 7, ^uint64(0) - 200}[r.Intn(4)]
	}
	h := gen.Cat([]byte("%%%"), u64(l), []byte{[]byte{0xF0, 0xF1}[r.Intn(2)]}, tail)
	s.Class = "lookalike-container-header"
	s.Cause = fmt.Sprintf("lookalike-header(len=%s)-%s", variant, where)
	if where == "straddling-boundary" {
		return b.straddle(s, h)
	}
	s, _ = b.featured(s, []part{{Lit: h}}, len(h), where)
	return s
}

// envelopes: a whole valid envelope inside the value.
func (b *builder) envelopes() spec {
	s := b.baseSpec()
	owner := b.pick([]string{"owner", "third"})
	kind := b.pick([]string{"container-as", "container-ab", "raw-as", "raw-ab"})
	where := b.pick([]string{"in-window", "in-hidden", "hidden-is-envelope", "value-is-envelope"})
	inner := b.content("ascii", 1+b.rng.Intn(40))
	e := part{Env: &envPart{Owner: owner, Kind: kind, Inner: inner}}
	// sizes: serialized container = 12 + inner envelope; AcraStruct = 145+44+len; AcraBlock = 18+84.. : computed by the executor, so the
	// window length for "in-window" is fixed through a literal-only layout: window = prefix ‖ envelope ‖ suffix needs the envelope length.
	el := envelopeLen(kind, len(inner))
	s.Class = "value-contains-envelope"
	s.Cause = fmt.Sprintf("envelope(%s,%s)-%s", owner, kind, where)
	switch where {
	case "in-window", "in-hidden":
		s, _ = b.featured(s, []part{e}, el, where)
		return s
	case "hidden-is-envelope":
		w := b.content("ascii", b.rng.Intn(9))
		s.Set.N = len(w)
		s.PassThrough = true
		if s.Set.Side == "left" {
			s.Parts = []part{{Lit: w}, e}
		} else {
			s.Parts = []part{e, {Lit: w}}
		}
	default:
		s.Set.N = 0
		s.PassThrough = true
		s.Parts = []part{e}
	}
	return b.finish(s)
}

// envelopeLen is the size of an envelope made by the stand-in crypto for a plaintext of n bytes
// (AcraStruct: 8 tag + 45 key + 84 wrapped key + 8 length + (n+44) cell; AcraBlock: checked by the rig self-test).
func envelopeLen(kind string, n int) int {
	as := 8 + 45 + 84 + 8 + n + 44
	ab := acraBlockLen(n)
	switch kind {
	case "raw-as":
		return as
	case "container-as":
		return as + 12
	case "raw-ab":
		return ab
	default:
		return ab + 12
	}
}

var abOverhead = -1

func acraBlockLen(n int) int { return abOverhead + n }

func (b *builder) hashWindow() spec {
	s := b.baseSpec()
	s.Set.Side = "left"
	s.Pipeline = b.pick([]string{"masking-only", "with-search"})
	n := 33 + b.rng.Intn(8)
	w := gen.Cat([]byte{0x7f}, gen.Bytes(b.rng, n-1))
	m := b.marker()
	hidden := gen.Cat(b.content("ascii", b.rng.Intn(10)), m, b.content("ascii", b.rng.Intn(10)))
	s.Marker = m
	s.Set.N = n
	s.Parts = []part{{Lit: gen.Cat(w, hidden)}}
	s.Class = "hash-lookalike-window"
	s.Cause = "window-starts-like-search-hash"
	return b.finish(s)
}

func (b *builder) short() spec { return b.shortFrom(b.baseSpec()) }

func (b *builder) shortFrom(s spec) spec {
	L := b.rng.Intn(20)
	n := L + []int{0, 0, 1, 5, L + 3}[b.rng.Intn(5)]
	return b.plainWith(s, L, n, b.pick([]string{"random", "ascii", "utf8"}))
}

// ---- keyword spellings in the configuration file ----

// spellingVariant is one way of writing a keyword-valued masking option other than the canonical lower-case word.
// Whether Acra accepts such a configuration is NOT demanded either way; an accepted one must behave as the keyword means.
type spellingVariant struct {
	option  string // plaintext_side | crypto_envelope | data_type
	text    string // as written (always put in YAML double quotes, so leading / trailing blanks survive the YAML reader)
	meaning string // the keyword lower-cased and trimmed
	control bool   // canonical word, only written through the same quoting path (rig control)
}

func spellingVariants() []spellingVariant {
	var out []spellingVariant
	add := func(option, meaning string, texts ...string) {
		out = append(out, spellingVariant{option, meaning, meaning, true})
		for _, t := range texts {
			out = append(out, spellingVariant{option, t, meaning, false})
		}
	}
	add("plaintext_side", "left", "Left", "LEFT", "lEfT", " left", "left ")
	add("plaintext_side", "right", "Right", "RIGHT", "rIGHt", " right", "right ")
	add("crypto_envelope", "acrastruct", "AcraStruct", "ACRASTRUCT", "acrastruct ")
	add("crypto_envelope", "acrablock", "AcraBlock", "ACRABLOCK", " acrablock")
	add("data_type", "str", "Str", "STR")
	add("data_type", "bytes", "Bytes", "BYTES")
	return out
}

// spelled builds one case whose configuration writes v.text for v.option; every other keyword is canonical.
func (b *builder) spelled(v spellingVariant, i int) spec {
	s := b.baseSpec()
	switch v.option {
	case "plaintext_side":
		s.Set.Side = v.meaning
	case "crypto_envelope":
		s.Set.Envelope = v.meaning
	default:
		// a data type goes with the envelopes Acra's validation admits it for (probed at start-up with the canonical word)
		if !b.dtypeOK[s.Set.Envelope+"|"+v.meaning] {
			for _, e := range []string{"acrastruct", "acrablock"} {
				if b.dtypeOK[e+"|"+v.meaning] {
					s.Set.Envelope = e
				}
			}
		}
	}
	if i%6 == 5 {
		s = b.shortFrom(s)
	} else {
		s = b.plainFrom(s)
	}
	switch v.option {
	case "plaintext_side":
		s.Set.SideText = v.text
	case "crypto_envelope":
		s.Set.EnvelopeText = v.text
	default:
		s.Set.DType, s.Set.DTypeText = v.meaning, v.text
	}
	return s
}

// ---- the monitor's own structural view of stored bytes ----

func wholeContainer(b []byte, envelope string) string {
	if len(b) <= 12 || !bytes.Equal(b[:3], []byte("%%%")) {
		return "no container tag"
	}
	if binary.LittleEndian.Uint64(b[3:11]) != uint64(len(b)) {
		return "container length field does not cover exactly the protected part"
	}
	inner := b[12:]
	switch envelope {
	case "acrastruct":
		if b[11] != 0xF1 {
			return "envelope id is not AcraStruct"
		}
		if len(inner) < 145+1 || !bytes.Equal(inner[:8], bytes.Repeat([]byte{'"'}, 8)) || binary.LittleEndian.Uint64(inner[137:145]) != uint64(len(inner)-145) {
			return "inner bytes are not laid out as an AcraStruct"
		}
	default:
		if b[11] != 0xF0 {
			return "envelope id is not AcraBlock"
		}
		if len(inner) < 18 || !bytes.Equal(inner[:4], []byte(`""""`)) || binary.LittleEndian.Uint64(inner[4:12]) != uint64(len(inner)-4) {
			return "inner bytes are not laid out as an AcraBlock"
		}
	}
	return ""
}

func sharesRun(a, b []byte, k int) bool {
	for i := 0; i+k <= len(a); i++ {
		if bytes.Contains(b, a[i:i+k]) {
			return true
		}
	}
	return false
}

// ---- oracle ----

// refineCause names, from the INPUT alone (value, window length, side), two shapes of a clear window that are known to
// matter to Acra's scanners even when the value class was not built to contain them (they occur by chance in random
// and repeated-byte values): the signature stays a function of the input construction, never of Acra's answer.
func refineCause(s spec, x []byte) string {
	n := s.Set.N
	if len(x) <= n || s.Hostile || s.Class == "hash-lookalike-window" {
		return s.Cause
	}
	if s.Set.Side == "left" {
		w := x[:n]
		if n >= 1 && w[0] == 0x7f { // the 33 bytes taken for a hash may extend from the window into the stored envelope's header
			return "window-starts-like-search-hash"
		}
		// "%%%" so close to the end of the window that a container header read from there runs into the header of the
		// real envelope stored right behind the window (whose length byte can then be taken for an envelope id)
		from := n - 11
		if from < 0 {
			from = 0
		}
		if bytes.Contains(w[from:], []byte("%%%")) {
			return "percent-tag-within-11-bytes-of-window-end(" + s.Cause + ")"
		}
	}
	return s.Cause
}

func judge(r *ev.Run, s spec, res result) {
	r.Case()
	x := res.X
	n, pat := s.Set.N, []byte(s.Set.Pattern)
	short := len(x) <= n
	s.Cause = refineCause(s, x)
	sigTail := fmt.Sprintf("side=%s short=%v envelope=%s pattern=%s pipeline=%s cause=%s", s.Set.Side, short, s.Set.Envelope, patternName(s.Set.Pattern), s.Pipeline, s.Cause)
	spelling := s.Set.spelling()
	if spelling != "" {
		// the configuration writes a keyword in a non-canonical spelling that Acra ACCEPTED at load time: side / envelope above are its meaning
		sigTail += " accepted-config-spelling=" + spelling
	}
	detail := func(extra map[string]interface{}) map[string]interface{} {
		m := map[string]interface{}{"keystore": s.KS, "setting": s.Set, "pipeline": s.Pipeline, "class": s.Class, "cause": s.Cause, "value": ev.FullHex(x), "value_len": len(x),
			"stored": ev.FullHex(res.Stored), "marker_in_hidden_part": string(s.Marker), "seed": r.Seed, "isolated_child": s.Hostile}
		for rn, rr := range res.Reads {
			m["read:"+rn] = map[string]interface{}{"out": ev.FullHex(rr.Out), "err": rr.Err, "panic": rr.Panic}
		}
		for k, v := range extra {
			m[k] = v
		}
		return m
	}
	if res.Aborted != "" {
		r.Violation("processing a masked value never completes: "+sigTail, detail(map[string]interface{}{"aborted": res.Aborted}))
		return
	}
	if res.ProtectPanic != "" {
		r.Violation("panic while protecting a masked value: "+sigTail, detail(map[string]interface{}{"panic": res.ProtectPanic}))
		return
	}
	if res.ProtectErr != "" {
		if len(x) == 0 {
			r.Count("empty_value_refused_by_the_crypto_contract", 1)
		} else {
			r.Count("protect_refused_nonempty", 1)
			r.SampleN("protect-refused", 2, detail(map[string]interface{}{"err": res.ProtectErr}))
		}
		return
	}
	// split according to the configuration (the monitor's own arithmetic)
	var window, hidden, protected []byte
	storedOK := true
	switch {
	case short:
		hidden, protected = x, res.Stored
	case s.Set.Side == "left":
		window, hidden = x[:n], x[n:]
		if len(res.Stored) < n || !bytes.Equal(res.Stored[:n], window) {
			storedOK = false
		} else {
			protected = res.Stored[n:]
		}
	default:
		window, hidden = x[len(x)-n:], x[:len(x)-n]
		if len(res.Stored) < n || !bytes.Equal(res.Stored[len(res.Stored)-n:], window) {
			storedOK = false
		} else {
			protected = res.Stored[:len(res.Stored)-n]
		}
	}
	// stored form: window in clear (allowed by design), everything else one envelope of the configured kind
	if !storedOK {
		r.Violation("stored form: the clear window is not where the configuration puts it: "+sigTail, detail(nil))
		// the readers are still judged (the expected output follows from value and configuration alone)
	} else if s.PassThrough {
		r.Count("stored_form_not_judged(part_to_hide_is_already_an_envelope)", 1)
	} else {
		if why := wholeContainer(protected, s.Set.Envelope); why != "" {
			r.Violation(fmt.Sprintf("stored form: protected part is not one whole envelope (%s): %s", why, sigTail), detail(nil))
			storedOK = false
		} else if len(s.Marker) > 0 && bytes.Contains(protected, s.Marker) || len(hidden) >= 8 && (s.Class == "plain:random" || s.Class == "plain:ascii") && sharesRun(hidden, protected, 8) {
			r.Violation("stored form: hidden plaintext present in the protected part: "+sigTail, detail(nil))
			storedOK = false
		} else {
			r.Count("stored_form_ok", 1)
			if short {
				r.Count("short_values_protected_in_full", 1)
			}
		}
	}
	// readers
	var expected []byte
	switch {
	case short:
		expected = pat
	case s.Set.Side == "left":
		expected = gen.Cat(window, pat)
	default:
		expected = gen.Cat(pat, window)
	}
	ok := storedOK
	for _, rn := range readerNames {
		rr := res.Reads[rn]
		if rr.Panic != "" {
			r.Violation(fmt.Sprintf("panic while reading a masked value: reader=%s %s", rn, sigTail), detail(nil))
			ok = false
			continue
		}
		if rr.Err != "" {
			r.Violation(fmt.Sprintf("error while reading a masked value: reader=%s %s", rn, sigTail), detail(nil))
			ok = false
			continue
		}
		if rn == "owner" {
			if s.PassThrough {
				r.Count("owner_not_judged(part_to_hide_is_already_an_envelope)", 1)
				continue
			}
			if !bytes.Equal(rr.Out, x) {
				r.Violation("owner does not receive the original value: "+sigTail, detail(nil))
				ok = false
				continue
			}
			r.Count("owner_got_original", 1)
			continue
		}
		if !bytes.Equal(rr.Out, expected) {
			leak := "none"
			switch {
			case sharesRun(protected, rr.Out, 8) && !sharesRun(protected, expected, 8):
				leak = "ciphertext"
			case len(s.Marker) > 0 && bytes.Contains(rr.Out, s.Marker), len(hidden) >= 8 && sharesRun(hidden, rr.Out, 8) && !sharesRun(hidden, expected, 8),
				len(hidden) > 0 && bytes.Contains(rr.Out, hidden) && !bytes.Contains(expected, hidden):
				leak = "hidden-plaintext"
			}
			r.Violation(fmt.Sprintf("reader without the owner's keys does not receive exactly window+pattern: reader=%s leak=%s %s", rn, leak, sigTail), detail(map[string]interface{}{"expected": ev.FullHex(expected)}))
			ok = false
			continue
		}
		r.Count("nonowner_exact:"+rn, 1)
	}
	if !ok {
		return
	}
	r.Count("cases_all_readers_ok", 1)
	r.Count("ok:side="+s.Set.Side, 1)
	r.Count("ok:envelope="+s.Set.Envelope, 1)
	r.Count("ok:pattern="+patternName(s.Set.Pattern), 1)
	r.Count("ok:pipeline="+s.Pipeline, 1)
	r.Count("ok:dtype="+orDefault(s.Set.DType), 1)
	if s.Hostile {
		r.Count("ok:isolated-child", 1)
	}
	nClass := "mid"
	switch {
	case n == 0:
		nClass = "0"
	case n == len(x)+1:
		nClass = "len+1"
	case n == len(x):
		nClass = "len"
	case n > len(x):
		nClass = ">len+1"
	case n == len(x)-1:
		nClass = "len-1"
	case n == 1:
		nClass = "1"
	}
	r.SetAdd("window_lengths_seen", fmt.Sprint(n))
	if spelling != "" {
		r.Count("ok:accepted_config_spelling", 1)
		r.SetAdd("accepted_config_spellings_behaving_as_the_keyword_means", spelling)
	}
	r.Distinct(fmt.Sprintf("%s|%s|%s|%s|%s|%s|%s|n=%s|%s", s.KS, s.Set.Envelope, s.Set.Side, patternName(s.Set.Pattern), orDefault(s.Set.DType), s.Pipeline, s.Cause, nClass, spelling))
	r.SampleN("ok:"+s.Class, 1, map[string]interface{}{"keystore": s.KS, "setting": s.Set, "pipeline": s.Pipeline, "class": s.Class, "value": ev.Hex(x), "stored": ev.Hex(res.Stored),
		"owner_gets": ev.Hex(res.Reads["owner"].Out), "client_without_keys_gets": ev.Hex(res.Reads["client-without-keys"].Out), "client_with_other_keys_gets": ev.Hex(res.Reads["client-with-other-keys"].Out)})
}

func orDefault(s string) string {
	if s == "" {
		return "unset"
	}
	return s
}

// Run is the C11 monitor (library layer), followed by the wire layer if plugged in.
func Run(r *ev.Run) {
	r.Rule = "cases = (keystore v1|v2 × envelope AcraStruct|AcraBlock × side × pattern {xxxx, *, multi-byte UTF-8, one containing %%%, one equal to part of the value} × window length n in 0..len+1 (edges weighted; thorough: full sweep for len<=40) × data_type {unset,str,bytes} where validation accepts × pipeline {masked columns only, schema that also has a searchable column} × value class {plain random/ascii/utf8/zeros/NUL-laden/percent/quote bytes; value containing the pattern in window / hidden part / across the boundary / equal to it; envelope tags; look-alike container headers with 7 kinds of length field (run in an isolated child process); whole envelopes of the owner or a third party in the window / in the hidden part / as the hidden part / as the value; window shaped like a search hash; short and empty values}), each written once and read by owner, client without keys, client with other keys. Seeded, fixed counts. A case is non-trivial when the value was stored and all three readers were judged; distinct = (keystore, envelope, side, pattern, data_type, pipeline, value cause, n class)"
	r.Assumptions = []string{
		"crypto library replaced by the pure-Go gothemis stand-in (Secure Cell Seal / Secure Message / EC key contract)",
		"library layer: write = encryptor chain of proxyFactory.New (encrypt, searchable, masking, re-encrypt handlers) under the owner's client id; read = ColumnDecryptionObserver with (old-)container detector and DecryptHandler over masking.Processor, without and with the search-hash subscribers; data_type only selects the column setting here, the text/binary wire encoders are the proxy layer's",
		"short values: 'values not longer than the window are protected in full' and the reader without keys gets the pattern only — as documented by tests/test_tokenization.py TestMasking (columns exact_plaintext_length and shorter_plaintext: assertEqual(mask_pattern, hidden_data[...])) and masking/dataEncryptor.go (partialPlaintextLen >= len(data))",
		"a part to hide that is by itself one valid envelope is stored as it is (documented pass-through of application-side encrypted data, C01's subject): for it only the readers without the owner's keys are judged",
	}
	rng := gen.New(r.Seed, "c11")
	b := &builder{rng: rng, dtypeOK: map[string]bool{}, maxZeroLenInWindow: r.Pick(4, 12)}
	refused := []string{}
	for _, env := range []string{"acrastruct", "acrablock"} {
		for _, dt := range []string{"", "str", "bytes", "int32", "int64"} {
			err := settingAccepted(setting{Envelope: env, Side: "left", Pattern: "xxxx", N: 2, DType: dt})
			b.dtypeOK[env+"|"+dt] = err == nil
			if err != nil {
				refused = append(refused, fmt.Sprintf("%s data_type=%s: %v", env, dt, err))
			}
		}
	}
	r.Extra("masking_settings_refused_by_validation", refused)
	// rig self-test: size of an AcraBlock made by the stand-in (used to lay out "envelope in window" values)
	{
		ex := newExecutor(nil)
		xb, err := ex.resolve(ex.envs["v1"], []part{{Env: &envPart{Owner: "owner", Kind: "raw-ab", Inner: []byte("0123456789")}}})
		if err != nil {
			panic(err)
		}
		abOverhead = len(xb) - 10
		xs, _ := ex.resolve(ex.envs["v2mem"], []part{{Env: &envPart{Owner: "third", Kind: "container-as", Inner: []byte("0123456789")}}})
		if len(xs) != envelopeLen("container-as", 10) {
			panic(fmt.Sprintf("c11 rig self-test: AcraStruct size %d, expected %d", len(xs), envelopeLen("container-as", 10)))
		}
	}
	var specs []spec
	mult := r.Pick(4, 30)
	for i := 0; i < 1800*mult; i++ {
		specs = append(specs, b.plain())
	}
	for i := 0; i < 120*mult; i++ {
		specs = append(specs, b.short())
	}
	for i := 0; i < 250*mult; i++ {
		specs = append(specs, b.containsPattern())
	}
	for i := 0; i < 250*mult; i++ {
		specs = append(specs, b.tags())
	}
	for i := 0; i < 260*mult; i++ {
		specs = append(specs, b.lookalike())
	}
	for i := 0; i < 260*mult; i++ {
		specs = append(specs, b.envelopes())
	}
	for i := 0; i < 60*mult; i++ {
		specs = append(specs, b.hashWindow())
	}
	for i := 0; i < 6; i++ { // empty values
		s := b.baseSpec()
		s.Set.N = i % 3
		s.Class, s.Cause = "empty", "empty"
		s.Parts = []part{{Lit: []byte{}}}
		specs = append(specs, b.finish(s))
	}
	// keyword spellings: each variant is loaded by Acra's configuration reader, setting by setting; a refused one is only
	// counted, an accepted one joins the schema and is judged by the window oracles with the keyword's meaning
	{
		perVariant := r.Pick(24, 120)
		probed := map[string]bool{}
		acceptedTexts, refusedTexts := map[string]bool{}, map[string]bool{}
		for _, v := range spellingVariants() {
			label := fmt.Sprintf("%s:%q", v.option, v.text)
			for i := 0; i < perVariant; i++ {
				s := b.spelled(v, i)
				k := s.Set.key()
				ok, seen := probed[k]
				if !seen {
					err := settingAccepted(s.Set)
					ok = err == nil
					probed[k] = ok
					r.Count("config_spelling_settings_loaded", 1)
					if err != nil {
						r.SampleN("config-spelling-refused:"+label, 1, map[string]interface{}{"setting": s.Set, "refused_with": err.Error()})
					}
				}
				switch {
				case v.control && ok:
					r.Count("config_spelling_control_canonical_word_accepted", 1)
				case v.control:
					r.Count("config_spelling_control_canonical_word_refused", 1)
				case ok:
					r.Count("config_spelling_variant_cases_accepted_at_load", 1)
					acceptedTexts[label] = true
				default:
					r.Count("config_spelling_variant_cases_refused_at_load(not judged)", 1)
					refusedTexts[label] = true
				}
				if !v.control {
					r.SetAdd("config_spelling_variants_offered", label)
				}
				if ok {
					s.Class = "config-spelling:" + s.Class
					specs = append(specs, s)
				}
			}
		}
		keys := func(m map[string]bool) []string {
			var o []string
			for k := range m {
				o = append(o, k)
			}
			sort.Strings(o)
			return o
		}
		r.Extra("config_spellings_accepted_at_load", keys(acceptedTexts))
		r.Extra("config_spellings_refused_at_load", keys(refusedTexts))
	}
	if r.Thorough() {
		// full sweep: every n in 0..len+1 for len <= 40 (and a few longer), both sides, both envelopes, every pattern
		ci := 0
		for _, L := range append(seq(0, 40), 63, 64, 65, 100) {
			for n := 0; n <= L+1; n++ {
				for _, side := range []string{"left", "right"} {
					for _, env := range []string{"acrastruct", "acrablock"} {
						for _, p := range patterns {
							s := spec{ID: b.nextID, KS: []string{"v1", "v2mem"}[ci%2], Pipeline: []string{"masking-only", "with-search"}[(ci/2)%2]}
							b.nextID++
							s.Set = setting{Envelope: env, Side: side, Pattern: p.text}
							specs = append(specs, b.plainWith(s, L, n, contents[ci%len(contents)]))
							ci++
						}
					}
				}
			}
		}
	}
	var sets []setting
	var inproc, hostile []spec
	for _, s := range specs {
		sets = append(sets, s.Set)
		if s.Hostile {
			hostile = append(hostile, s)
		} else {
			inproc = append(inproc, s)
		}
	}
	t0 := time.Now()
	ex := newExecutor(sets)
	r.Extra("masked_column_settings_in_schema", len(ex.columns))
	// in-process execution
	ch := make(chan spec, 64)
	var wg sync.WaitGroup
	for w := 0; w < 8; w++ {
		wg.Add(1)
		go func() {
			defer wg.Done()
			for s := range ch {
				judge(r, s, ex.run(s, nil))
			}
		}()
	}
	for _, s := range inproc {
		ch <- s
	}
	close(ch)
	wg.Wait()
	tInproc := time.Since(t0).Seconds()
	// crash-isolated execution of the hostile classes
	byID := map[int]spec{}
	for _, s := range hostile {
		byID[s.ID] = s
	}
	for _, res := range runIsolated(hostile, r.Inconclusive) {
		s := byID[res.ID]
		if res.X == nil {
			var x []byte
			for _, p := range s.Parts {
				x = append(x, p.Lit...)
			}
			res.X = x
		}
		judge(r, s, res)
		r.Count("cases_run_in_isolated_child", 1)
	}
	r.Extra("wall_s_in_process_part", tInproc)
	r.Extra("wall_s_isolated_part", time.Since(t0).Seconds()-tInproc)
	r.RequireAtLeast("owner_got_original", 1500)
	r.RequireAtLeast("nonowner_exact:client-without-keys", 1500)
	r.RequireAtLeast("nonowner_exact:client-with-other-keys", 1500)
	r.RequireAtLeast("stored_form_ok", 1500)
	r.RequireAtLeast("short_values_protected_in_full", 100)
	r.RequireAtLeast("cases_run_in_isolated_child", 100)
	for _, c := range []string{"ok:side=left", "ok:side=right", "ok:envelope=acrastruct", "ok:envelope=acrablock", "ok:pipeline=masking-only", "ok:pipeline=with-search"} {
		r.RequireAtLeast(c, 300)
	}
	for _, p := range patterns {
		r.RequireAtLeast("ok:pattern="+p.name, 100)
	}
	r.RequireSetAtLeast("window_lengths_seen", 40)
	nVariants := 0
	for _, v := range spellingVariants() {
		if !v.control {
			nVariants++
		}
	}
	r.RequireSetAtLeast("config_spelling_variants_offered", nVariants)
	r.RequireAtLeast("config_spelling_settings_loaded", int64(nVariants*10))
	// rig control: the canonical word written through the same quoting path loads and is judged (otherwise "refused" proves nothing)
	r.RequireAtLeast("config_spelling_control_canonical_word_accepted", 100)
	historyLayer(r)
	if ProxyLayer != nil {
		ProxyLayer(r)
	}
}

func seq(a, b int) []int {
	var o []int
	for i := a; i <= b; i++ {
		o = append(o, i)
	}
	return o
}
