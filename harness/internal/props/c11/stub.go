// Package c11 will hold the monitor of property C11 (not built yet; nothing is registered).
package c11
