package c11

import (
	"os"
	"testing"

	"verif/harness/internal/ev"
)

// TestHistoryLayerDev runs the history layer alone (development aid); evidence goes to $VERIF_ROOT.
func TestHistoryLayerDev(t *testing.T) {
	if os.Getenv("VERIF_ROOT") == "" {
		t.Skip("set VERIF_ROOT to a scratch directory (evidence and replay files are written there)")
	}
	r := ev.New("C11", "exploration")
	historyLayer(r)
	if rc := r.Finish(); rc != 0 {
		t.Fatalf("layer reported violations (rc=%d)", rc)
	}
}
