// Package proxy plugs the wire-proxy layer into the C11 monitor.
package proxy

import (
	"verif/harness/internal/props/c11"
	"verif/harness/internal/props/proxylayers"
)

func init() { c11.ProxyLayer = proxylayers.Masking }
