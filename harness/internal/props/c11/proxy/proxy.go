// Package proxy plugs the wire-proxy layers into the C11 monitor.
package proxy

import (
	"verif/harness/internal/ev"
	"verif/harness/internal/props/c11"
	"verif/harness/internal/props/proxylayers"
)

func init() {
	c11.ProxyLayer = func(r *ev.Run) {
		proxylayers.Masking(r)
		// masked columns inside longer session histories and next to other protected columns
		proxylayers.MaskingHistory(r)
	}
}
