// Package c08 monitors "a crash or I/O failure during a keystore write never loses or corrupts keys":
// every storage/back-end call of every keystore write operation is failed, crashed before/after, or torn,
// and the resulting storage is probed through fresh (and, for error returns, the same) keystore handles.
package c08

import (
	"fmt"
	"strings"
	"sync"
	"time"

	"github.com/sirupsen/logrus"

	"github.com/cossacklabs/acra/keystore"

	"verif/harness/internal/ev"
	"verif/harness/internal/gen"
	"verif/harness/internal/props"
	"verif/harness/internal/rig/ksdump"
	"verif/harness/internal/rig/ksrig"
)

func init() { props.Register("C08", props.Monitor{Level: "fault_enumeration", Run: Run}) }

// one (format, history, operation) combination
type job struct {
	kind    string // v1 | v2mem | v2dir
	noLinks bool
	cache   int
	hist    history
	op      *opSpec
	cmd     bool // Redis kinds: faults at the level of Redis commands (redis.go) instead of Storage/Backend calls
}

func (j job) fmtName() string {
	n := j.kind
	if j.noLinks {
		n += "-nolinks"
	}
	return n
}

type faultCase struct {
	k       int
	mode    ksrig.FaultMode
	torn    int
	tornTag string
	alt     string // command-level layer: "drop-before" (a variant of error-before: connection closed, command not applied)
}

func (c faultCase) modeName() string {
	if c.alt != "" {
		return c.alt
	}
	if c.mode == ksrig.FaultTorn {
		return "torn-" + c.tornTag
	}
	return c.mode.String()
}

// lruCacheSize is the small v1 key cache configuration (keystore.InfiniteCacheSize = 0 is the default and the main configuration).
const lruCacheSize = 8

var lockOps = map[string]bool{"Lock": true, "RLock": true, "Unlock": true, "RUnlock": true}

// casesFor enumerates the fault modes of one recorded call.
func casesFor(c ksrig.FaultCall, extraTorn int) []faultCase {
	var out []faultCase
	add := func(m ksrig.FaultMode) { out = append(out, faultCase{k: c.Seq, mode: m}) }
	switch {
	case c.Op == "Lock" || c.Op == "RLock":
		// "performed, then error" would leave the lock held by construction of the fault, not of Acra: not a storage failure mode
		add(ksrig.FaultErrBefore)
		add(ksrig.FaultCrashBefore)
		add(ksrig.FaultCrashAfter)
	case c.Op == "Unlock" || c.Op == "RUnlock":
		add(ksrig.FaultErrAfter)
		add(ksrig.FaultCrashBefore)
		add(ksrig.FaultCrashAfter)
	case !c.Mutates:
		// a failed or interrupted read leaves the same storage whether or not it was performed
		add(ksrig.FaultErrBefore)
		add(ksrig.FaultCrashBefore)
	default:
		add(ksrig.FaultErrBefore)
		add(ksrig.FaultErrAfter)
		add(ksrig.FaultCrashBefore)
		add(ksrig.FaultCrashAfter)
		if c.Carries && c.DataLen > 0 {
			seen := map[int]bool{}
			for _, t := range []struct {
				n   int
				tag string
			}{{0, "0"}, {1, "1"}, {c.DataLen / 2, "half"}, {c.DataLen - 1, "len-1"}, {extraTorn % c.DataLen, "seeded"}} {
				if t.n < 0 || t.n >= c.DataLen || seen[t.n] {
					continue
				}
				seen[t.n] = true
				out = append(out, faultCase{k: c.Seq, mode: ksrig.FaultTorn, torn: t.n, tornTag: t.tag})
			}
		}
	}
	return out
}

type monitor struct {
	r     *ev.Run
	fx    *fixtures
	rfx   *ringFixtures // ring-level layer (ring.go)
	mu    sync.Mutex
	hangs hangCaps // guard.go
}

// Run is the C08 monitor.
func Run(r *ev.Run) {
	r.Rule = "cases = for each keystore format (v1 over filesystem.Storage; v2 over in-memory and directory api.Backend; v1 also on a storage without hard links) × history prefix {empty, one-key, rotated-twice, other-clients} × write operation {generate/rotate of the 6 key kinds, destroy current, destroy rotated, save key pair (acra-rotate's call), import of bundles / key rings}: record the fault-free trace c1..cN of storage calls, then for EVERY k and every mode {error-before, error-after, crash-before, crash-after; torn at 0/1/half/len-1/seeded offset for WriteFile/Copy/Put} run the operation with that single fault and probe the post-fault storage (crash: snapshot taken at the crash instant) through fresh handles, and the same handle for error returns; then retry. A case is non-trivial when the planned fault actually fired at the recorded call; distinct = (format, operation, call class, mode) tuples that fired. RING-LEVEL LAYER (v2, both back ends): for each history of api.MutableKeyRing writes {mixed key states, fresh pre-active keys, empty ring} × faulted operation {AddKey sym/pair, SetCurrent, SetState (3 legal transitions), DestroyKey of a pre-active/deactivated/compromised/current key} on ONE kept-open ring handle × every back-end call of it × every mode × follow-up kind {retry, add, add+set-current, set-current, set-state, destroy; thorough: two-operation mixes and a write to another ring} × handle {same ring handle, new ring handle of the same store, second store on the same back end; crash modes: fresh store on the snapshot}: run the operation with the fault, check the storage (fresh store) and the same handle's view, perform the follow-up writes, close everything, reopen and compare every key (state, public/private/symmetric part, current marker) with the API contract applied to the state before; distinct adds (format, history/operation, call class, mode, follow-up kind, handle). REDIS LAYER: the first layer's procedure and oracles over v1 on filesystem.RedisStorage and v2 on backend.RedisBackend (fakeredis server per case, foreign keys of other applications in the same database, SCAN over several pages), faults at every Storage/Backend call {error-before/after, crash-before/after; no torn write: a Redis command is atomic} and at every Redis COMMAND of the operation {error reply not applied, connection closed not applied, connection closed after it was applied, process crash before / after it}; distinct adds (format, operation, Redis command class, mode)"
	r.Assumptions = []string{
		"crypto library replaced by the pure-Go gothemis stand-in (Secure Cell Seal / Secure Message / EC key contract)",
		"process-crash model: bytes handed to the storage before the crash instant survive; no power-loss reordering; single fault per operation (plus the no-hard-link configuration which makes Copy part of the fault-free trace)",
		"Redis layer: the server is the in-process stand-in rig/fakeredis (atomic, totally ordered commands; key expiry on a virtual clock); every post-fault state is probed after the v2 lock's 10 s time to live has passed; one connection pool per handle; acra-rotate is driven through the keystore call it makes (SaveDataEncryptionKeys), not through its main package",
		"v1 same-handle probes use an unbounded cache warmed before the operation; fresh-handle probes model the restart",
		"ring-level layer: expected ring content is the API contract of AddKey/SetCurrent/SetState/DestroyKey applied to the observed state before; it is validated against the real code's fault-free run of the same operation (+ follow-up) and a disagreement is inconclusive, never a violation",
	}
	logrus.StandardLogger().ExitFunc = func(code int) { panic(fmt.Sprintf("logrus.Fatal -> os.Exit(%d)", code)) }
	rng := gen.New(r.Seed, "c08")
	m := &monitor{r: r, fx: buildFixtures(), rfx: buildRingFixtures(r.Seed)}
	ops := buildOps(m.fx)
	hs := histories(1+rng.Intn(2), rng.Intn(2))
	extraTorn := 2 + rng.Intn(1000)

	var jobs []job
	quickPick := func(kind string, h history, op *opSpec) bool {
		// quick tier: every operation after the richest history (other clients present, clientx rotated once), key creation
		// and imports also on an empty keystore, and the two histories in between for the operations whose storage trace
		// depends on them (rotation with/without a history directory; destroy-rotated needs two rotated keys on v1)
		switch h.name {
		case "other-clients":
			if kind == "v2dir" {
				return op.name == "generate-storage-pair" || op.name == "destroy-storage-sym" || op.name == "import-keyrings"
			}
			return true
		case "empty":
			if kind == "v2dir" {
				return op.name == "generate-log"
			}
			return op.kind == kGenerate && (op.name == "generate-storage-pair" || op.name == "generate-hmac" || op.name == "generate-poison-sym" || op.name == "generate-poison-pair") || op.name == "import-keyrings" || (op.name == "import-bundle" && kind == "v1")
		case "one-key":
			return kind != "v2dir" && (op.name == "generate-storage-sym" || op.name == "generate-log" || op.name == "save-storage-pair")
		case "rotated-twice":
			return kind != "v2dir" && (op.name == "destroy-rotated-storage-pair" || op.name == "destroy-rotated-storage-sym" || op.name == "generate-poison-pair")
		}
		return false
	}
	for _, kind := range []string{"v1", "v2mem", "v2dir"} {
		for _, h := range hs {
			for _, op := range ops {
				if op.only != "" && !strings.HasPrefix(kind, op.only) {
					continue
				}
				if op.thorough && !r.Thorough() {
					continue
				}
				if !r.Thorough() && !quickPick(kind, h, op) {
					continue
				}
				jobs = append(jobs, job{kind: kind, hist: h, op: op, cache: keystore.InfiniteCacheSize})
			}
		}
	}
	// v1 on a storage without hard links: backupHistoricalKeyFile falls back to Copy (data-carrying, can be torn)
	for _, h := range hs {
		if h.name == "empty" {
			continue
		}
		for _, op := range ops {
			if op.kind != kGenerate && op.kind != kSave {
				continue
			}
			if !r.Thorough() && !(op.name == "generate-storage-sym" || op.name == "generate-poison-pair") {
				continue
			}
			if !r.Thorough() && h.name != "one-key" {
				continue
			}
			jobs = append(jobs, job{kind: "v1", noLinks: true, hist: h, op: op, cache: keystore.InfiniteCacheSize})
		}
	}
	// v1 with a small LRU cache (8 entries: fewer than the keys the workload reads, so entries are evicted while the handle lives):
	// what the handle that saw an error return hands out is compared with the storage (checkSameHandleAgainstStorage)
	for _, h := range hs {
		for _, op := range ops {
			if op.only == "v2" {
				continue
			}
			if !r.Thorough() && !(h.name == "other-clients" && !op.thorough && (op.kind == kGenerate || op.kind == kSave || op.kind == kDestroy)) {
				continue
			}
			jobs = append(jobs, job{kind: "v1", hist: h, op: op, cache: lruCacheSize})
		}
	}
	if r.Thorough() {
		// v1 with the cache switched off (the same-handle probe then reads the disk) on the key-pair operations
		for _, h := range hs {
			for _, op := range ops {
				if op.only == "v2" || !(op.name == "generate-storage-pair" || op.name == "destroy-storage-pair" || op.name == "import-bundle-over-existing") {
					continue
				}
				jobs = append(jobs, job{kind: "v1", hist: h, op: op, cache: keystore.WithoutCache})
			}
		}
	}

	// Redis layer (redis.go): the same procedure over RedisStorage / RedisBackend, faults at Storage/Backend calls and at Redis commands
	jobs = append(jobs, redisJobs(r.Thorough(), ops, hs)...)

	// base worlds per (format config, history)
	type baseKey struct {
		kind    string
		noLinks bool
		cache   int
		hist    string
	}
	bases := map[baseKey]*world{}
	for _, j := range jobs {
		k := baseKey{j.kind, j.noLinks, j.cache, j.hist.name}
		if _, ok := bases[k]; ok {
			continue
		}
		w := newWorld(j.kind, j.cache, j.noLinks)
		h := w.openPlain()
		j.hist.build(h)
		h.close()
		bases[k] = w
	}

	// ring-level layer (ring.go): api.MutableKeyRing operations on one kept-open handle, both v2 back ends
	var tasks []func()
	var ringBases []*ringBase
	nRing := 0
	for _, kind := range []string{"v2mem", "v2dir"} {
		for _, h := range m.rfx.histories() {
			if kind == "v2dir" && !r.Thorough() && !h.quick {
				continue
			}
			rb := m.buildRingBase(kind, h)
			ringBases = append(ringBases, rb)
			for _, fop := range h.ops {
				if kind == "v2dir" && !r.Thorough() && !fop.quick {
					continue
				}
				kind, rj := kind, ringJob{hist: h, fop: fop}
				tasks = append(tasks, func() { m.runRingJob(kind, rj, rb, extraTorn) })
				nRing++
			}
		}
	}
	for _, j := range jobs {
		j := j
		tasks = append(tasks, func() { m.runJob(j, bases[baseKey{j.kind, j.noLinks, j.cache, j.hist.name}], extraTorn) })
	}

	workers := 6
	ch := make(chan func())
	var wg sync.WaitGroup
	for i := 0; i < workers; i++ {
		wg.Add(1)
		go func() {
			defer wg.Done()
			for t := range ch {
				t()
			}
		}()
	}
	for _, t := range tasks {
		ch <- t
	}
	close(ch)
	wg.Wait()
	for _, w := range bases {
		w.dispose()
	}
	for _, rb := range ringBases {
		rb.w.dispose()
	}

	redisGuards(r)
	r.Extra("jobs", len(jobs))
	r.Extra("ring_jobs", nRing)
	r.SetExhaustive(r.Thorough()) // thorough: every (format, history, operation) combination × every call × every mode; quick: a fixed subset of the combinations
	// non-vacuity: a run that injected nothing, saw no crash snapshot, no retry, no old/new outcome must fail
	r.RequireAtLeast("fault_runs_fired", int64(r.Pick(1000, 4000)))
	r.RequireAtLeast("crash_snapshots_probed", 500)
	r.RequireAtLeast("error_returns_probed_same_handle", 200)
	r.RequireAtLeast("error_returns_probed_same_handle_lru_cache", 100)
	r.RequireAtLeast("same_handle_target_entries_compared_with_storage", 500)
	r.RequireAtLeast("torn_writes", 100)
	r.RequireAtLeast("retry_succeeded", 500)
	r.RequireAtLeast("outcome_target_old", 100)
	r.RequireAtLeast("outcome_target_new", 100)
	r.RequireAtLeast("nontarget_entries_compared", 5000)
	r.RequireAtLeast("listings_checked", 2000)
	r.RequireAtLeast("pair_consistency_checked", 100)
	r.RequireSetAtLeast("operations", 15)
	r.RequireSetAtLeast("formats", 3)
	// ring-level layer
	r.RequireAtLeast("ring_fault_runs_fired", int64(r.Pick(1500, 5000)))
	r.RequireAtLeast("ring_followups_validated_fault_free", 100)
	r.RequireAtLeast("ring_followup_writes_succeeded", 1000)
	r.RequireAtLeast("ring_followup_via:same-handle", 250)
	r.RequireAtLeast("ring_followup_via:new-ring-handle", 200)
	r.RequireAtLeast("ring_followup_via:second-store", 400)
	r.RequireAtLeast("ring_same_handle_views_checked", 800)
	r.RequireAtLeast("ring_crash_snapshots_probed", 300)
	r.RequireAtLeast("ring_reopen_views_compared", 1500)
	r.RequireAtLeast("ring_histories_fully_reflected", 800)
	r.RequireAtLeast("ring_keys_compared", 15000)
	r.RequireAtLeast("ring_listings_checked", 2000)
	r.RequireAtLeast("ring_outcome_final_old", 500)
	r.RequireAtLeast("ring_outcome_final_new", 300)
	r.RequireSetAtLeast("ring_operations", 12)
	r.RequireSetAtLeast("ring_followup_kinds", 6)
	r.RequireSetAtLeast("ring_followup_handles", 4)
	r.RequireSetAtLeast("ring_formats", 2)
}

// ---------------------------------------------------------------------------------------------

type ffResult struct {
	pre                 *ksdump.Dump
	post                *ksdump.Dump
	trace               []ksrig.FaultCall
	preFiles, postFiles map[string]int
}

func classes(cs []ksrig.FaultCall) []string {
	out := make([]string, len(cs))
	for i, c := range cs {
		out[i] = c.Class()
	}
	return out
}

// runJob records the fault-free trace of the operation and then enumerates every (call, mode).
func (m *monitor) runJob(j job, base *world, extraTorn int) {
	r := m.r
	t0 := time.Now()
	defer func() { r.Count("worker_ms:"+j.fmtName(), time.Since(t0).Milliseconds()) }()
	// fault-free run
	w := base.clone()
	h := w.open(nil)
	if j.cmd {
		h.close()
		h = w.openCmd()
	}
	ff := &ffResult{preFiles: w.files()}
	ff.pre = h.dump(allClients)
	h.setPlan(ksrig.FaultPlan{})
	out := ksrig.FaultRun(func() error { return j.op.run(h) })
	ff.trace = h.calls()
	if j.cmd {
		h.cmd.disarm()
	}
	h.close()
	if out.Panic != nil {
		// the operation panics WITHOUT any fault (seen: v1 destroy-rotated with an index one past the list — C06's subject):
		// not a statement about crashes or I/O failures; recorded, left to the property that owns the operation's semantics
		r.Count("fault_free_panics_left_to_other_properties", 1)
		r.SetAdd("inapplicable", describe(j.fmtName(), j.hist.name, j.op)+": panics without a fault at "+ksrig.FaultPanicSite(out.PanicStack))
		w.dispose()
		return
	}
	if out.Err != nil {
		// e.g. destroy-rotated without rotated keys, destroy of a key that does not exist: not a write operation in this history
		r.Count("inapplicable_op_history_pairs", 1)
		r.SetAdd("inapplicable", describe(j.fmtName(), j.hist.name, j.op)+": "+normErr(out.Err.Error()))
		w.dispose()
		return
	}
	hp := w.openPlain()
	ff.post = hp.dump(allClients)
	hp.close()
	ff.postFiles = w.files()
	w.dispose()
	nMut := 0
	for _, c := range ff.trace {
		if c.Mutates {
			nMut++
		}
	}
	if nMut == 0 {
		r.Count("inapplicable_op_history_pairs", 1)
		r.SetAdd("inapplicable", describe(j.fmtName(), j.hist.name, j.op)+": performs no storage write")
		return
	}
	r.SetAdd("operations", j.op.name)
	r.SetAdd("formats", j.fmtName())
	r.SetAdd("histories", j.hist.name)
	r.SetAdd("op_history_format", describe(j.fmtName(), j.hist.name, j.op))
	r.Count("fault_free_traces", 1)
	r.Count("fault_free_calls", int64(len(ff.trace)))
	r.SampleN("trace:"+j.kind, 2, map[string]interface{}{"what": "fault-free trace", "format": j.fmtName(), "history": j.hist.name, "op": j.op.name, "calls": classes(ff.trace)})

	if isRedis(j.kind) {
		m.redisTraceStats(j, ff)
	}
	for _, c := range ff.trace {
		r.SetAdd("call_classes", j.kind+":"+c.Op)
		cases := casesFor(c, extraTorn)
		if j.cmd {
			cases = casesForCmd(c, r.Thorough())
		}
		for _, fc := range cases {
			if fc.mode == ksrig.FaultTorn && isRedis(j.kind) {
				continue // a Redis command is atomic: no torn SET
			}
			m.runFault(j, base, ff, c, fc)
		}
	}
}

type caseCtx struct {
	j    job
	ff   *ffResult
	call ksrig.FaultCall
	fc   faultCase
	tgt  map[string]bool
	trk  *stepTracker // guard.go: which step of the case is running
}

func (c *caseCtx) sig(phase, symptom string) string {
	mode := c.fc.mode.String()
	if c.fc.alt != "" {
		mode = c.fc.alt
	}
	pfx := ""
	if isRedis(c.j.kind) {
		pfx = "redis " // Redis layer: known-finding matches of the other layers must not cover it
	}
	return fmt.Sprintf("%sc08:%s:%s:%s:%s:%s:%s", pfx, c.j.fmtName(), c.j.op.name, c.call.Class(), mode, phase, symptom)
}

func (m *monitor) violate(c *caseCtx, phase, symptom string, extra map[string]interface{}) {
	d := map[string]interface{}{
		"format": c.j.fmtName(), "history": c.j.hist.name, "operation": c.j.op.name, "operation_kind": c.j.op.kind.String(),
		"fault_call_index": c.call.Seq, "fault_call": c.call.Class(), "fault_mode": c.fc.modeName(), "torn_bytes": c.fc.torn, "data_len": c.call.DataLen,
		"fault_free_trace": classes(c.ff.trace), "phase": phase, "seed": m.r.Seed, "cache": c.j.cache,
		"before_operation": c.ff.pre.Render(),
	}
	for k, v := range extra {
		d[k] = v
	}
	for _, v := range d {
		if mm, ok := v.(map[string]string); ok {
			for k, x := range mm {
				mm[k] = reScratch.ReplaceAllString(x, "<dir>")
			}
		}
	}
	m.r.Violation(c.sig(phase, symptom), d)
}

func (m *monitor) runFault(j job, base *world, ff *ffResult, call ksrig.FaultCall, fc faultCase) {
	r := m.r
	r.Case()
	c := &caseCtx{j: j, ff: ff, call: call, fc: fc, tgt: j.op.targets(!isV1(j.kind))}
	detail := func() map[string]interface{} {
		return map[string]interface{}{"format": j.fmtName(), "history": j.hist.name, "operation": j.op.name, "fault_call_index": call.Seq, "fault_call": call.Class(),
			"fault_mode": fc.modeName(), "fault_free_trace": classes(ff.trace), "fault_level": redisLevel(j)}
	}
	m.guardCase("c08-ops", j.fmtName(), j.op.name, call.Class(), fc.modeName(), detail, func(t *stepTracker) {
		c.trk = t
		m.runFaultInner(c, base)
	})
}

func (m *monitor) runFaultInner(c *caseCtx, base *world) {
	r := m.r
	j, fc := c.j, c.fc
	w := base.clone()
	defer w.dispose()
	var snap *world
	h := w.open(func(s *world) { snap = s })
	if j.cmd {
		h.close()
		h = w.openCmd()
	}
	defer func() { h.close() }()
	if isV1(j.kind) {
		h.dump(allClients) // warms the v1 cache exactly like the fault-free run did (v2 handles keep no cache)
	}
	if h.cmd != nil {
		h.cmd.alt = fc.alt
	}
	h.setPlan(ksrig.FaultPlan{At: fc.k, Mode: fc.mode, TornBytes: fc.torn})
	c.trk.step("operation")
	out := ksrig.FaultRun(func() error { return j.op.run(h) })
	c.trk.step("after-operation")
	got := h.calls()
	if j.cmd {
		h.cmd.disarm()
		if fc.mode.IsCrash() && h.fired() {
			// every command after the crash point was dropped unapplied: the dataset is the one of the crash instant
			h.close()
			snap = w.clone()
		}
	}
	w.settle()
	if snap != nil {
		snap.settle()
	}
	defer func() {
		if snap != nil {
			snap.dispose()
		}
	}()
	if !h.fired() || len(got) < fc.k || got[fc.k-1].Class() != c.call.Class() {
		r.Inconclusive(fmt.Sprintf("trace diverged before the fault point: %s call#%d expected %s", describe(j.fmtName(), j.hist.name, j.op), fc.k, c.call.Class()))
		return
	}
	r.Count("fault_runs_fired", 1)
	if isRedis(j.kind) {
		m.redisCaseStats(c)
	}
	r.Count("mode:"+fc.mode.String(), 1)
	if fc.mode == ksrig.FaultTorn {
		r.Count("torn_writes", 1)
	}
	r.Distinct(fmt.Sprintf("%s|%s|%s|%s", j.fmtName(), j.op.name, c.call.Class(), fc.modeName()))
	if out.Panic != nil {
		r.Count("panics", 1)
		m.violate(c, "op", "panic("+ksrig.FaultPanicSite(out.PanicStack)+")", map[string]interface{}{"panic": fmt.Sprint(out.Panic), "stack": out.PanicStack})
		return
	}
	sample := map[string]interface{}{"format": j.fmtName(), "history": j.hist.name, "op": j.op.name, "call#": fc.k, "call": c.call.Class(), "mode": fc.modeName()}

	if fc.mode.IsCrash() {
		if (out.Crashed == nil && !j.cmd) || snap == nil {
			r.Inconclusive("crash mode did not crash: " + c.sig("op", ""))
			return
		}
		r.Count("crash_snapshots_probed", 1)
		if isRedis(j.kind) {
			r.Count("redis_crash_snapshots_probed", 1)
		}
		// restart: a fresh handle on the snapshot
		c.trk.step("reads and listings after the crash")
		hp := snap.openPlain()
		d := hp.dump(allClients)
		hp.close()
		outcome := m.check(c, "after-crash(fresh-handle)", d, snap)
		sample["after_fault"] = outcome
		if j.op.kind == kDestroyRotated {
			r.Count("retry_skipped_index_based_op", 1) // "destroy rotated #2" after a partly done attempt names another key: not a retry
			return
		}
		// follow-up write: retry the operation on the restarted keystore
		c.trk.step("retried write after the crash")
		h2 := snap.openPlain()
		ro := ksrig.FaultRun(func() error { return j.op.run(h2) })
		c.trk.step("reads and listings after the retry")
		h2.close()
		if m.checkRetry(c, "retry-after-crash", ro, snap) {
			h3 := snap.openPlain()
			d3 := h3.dump(allClients)
			h3.close()
			m.checkAfterRetry(c, "after-retry(fresh-handle)", d3, snap)
		}
	} else {
		sample["op_error"] = fmt.Sprint(out.Err)
		var dSame *ksdump.Dump
		if out.Err != nil {
			r.Count("error_returns", 1)
			// the process lives on: same handle
			c.trk.step("reads and listings after the error (same handle)")
			dSame = h.dump(allClients)
			r.Count("error_returns_probed_same_handle", 1)
			if isRedis(j.kind) {
				r.Count("redis_error_returns_probed_same_handle", 1)
			}
			if isV1(j.kind) && j.cache > 0 {
				r.Count("error_returns_probed_same_handle_lru_cache", 1)
			}
			m.check(c, "after-error(same-handle)", dSame, w)
		} else {
			r.Count("fault_absorbed_op_succeeded", 1)
		}
		c.trk.step("reads and listings after the error (fresh handle)")
		hp := w.openPlain()
		d := hp.dump(allClients)
		hp.close()
		if dSame != nil {
			// what the handle that saw the failure hands out must be the old key or what the storage holds now
			m.checkSameHandleAgainstStorage(c, "after-error(same-handle)", dSame, d, w)
		}
		outcome := m.check(c, "after-error(fresh-handle)", d, w)
		sample["after_fault"] = outcome
		if j.op.kind == kDestroyRotated {
			r.Count("retry_skipped_index_based_op", 1)
			return
		}
		h.setPlan(ksrig.FaultPlan{})
		c.trk.step("retried write after the error (same handle)")
		ro := ksrig.FaultRun(func() error { return j.op.run(h) })
		c.trk.step("reads and listings after the retry")
		if m.checkRetry(c, "retry-after-error", ro, w) {
			h3 := w.openPlain()
			d3 := h3.dump(allClients)
			h3.close()
			m.checkAfterRetry(c, "after-retry(fresh-handle)", d3, w)
		}
	}
	r.SampleN("case:"+j.kind+":"+fc.mode.String(), 1, sample)
}
