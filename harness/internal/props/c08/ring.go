package c08

// ring.go — ring-level fault layer of the v2 format.
//
// The first layer (c08.go) drives ServerKeyStore operations; every one of them opens a fresh key ring, so whatever a
// failed write leaves in the key ring OBJECT (the in-memory transaction log, the in-memory ring data) dies with it.
// This layer drives the other write API of the v2 format, api.MutableKeyRing, on ONE kept-open handle:
//
//	history (ring-level writes, fault-free)  →  faulted operation F (one back-end call of F fails / crashes)
//	   →  1–2 further SUCCESSFUL writes through the same handle (or a second handle)  →  close, reopen, compare.
//
// Expected content is a small statement of the API contract (mRing: what AddKey / SetCurrent / SetState / DestroyKey
// promise); it is validated against the real code's fault-free run of the same operations before it is used to judge.

import (
	"bytes"
	"encoding/hex"
	"errors"
	"fmt"
	"runtime"
	"sort"
	"strings"
	"time"

	"github.com/cossacklabs/themis/gothemis/keys"

	keystoreV2 "github.com/cossacklabs/acra/keystore/v2/keystore"
	"github.com/cossacklabs/acra/keystore/v2/keystore/api"
	fsV2 "github.com/cossacklabs/acra/keystore/v2/keystore/filesystem"
	"github.com/cossacklabs/acra/keystore/v2/keystore/filesystem/backend"
	backendAPI "github.com/cossacklabs/acra/keystore/v2/keystore/filesystem/backend/api"

	"verif/harness/internal/gen"
	"verif/harness/internal/rig/ksrig"
)

const (
	ringTarget    = "c08/target"    // the ring the history, the faulted operation and the follow-ups write
	ringBystander = "c08/bystander" // a ring of the same keystore nobody writes (except the other-ring follow-up)
)

// ---------------------------------------------------------------------------------------------
// handles

type ringStore struct {
	ks    api.MutableKeyStore
	be    *ksrig.FaultBackend // nil for plain stores
	close func()
}

func (w *world) ringInner() backend.Backend {
	switch w.kind {
	case "v2mem":
		return nopCloseBackend{w.mem}
	case "v2dir":
		b, err := backend.CreateDirectoryBackend(w.dir)
		if err != nil {
			panic(fmt.Sprintf("open v2dir: %v", err))
		}
		return b
	}
	panic("ring layer: " + w.kind)
}

// openRingStore opens an api.MutableKeyStore whose back-end calls go through a fault wrapper (no fault armed yet).
func (w *world) openRingStore(onCrash func(*world)) *ringStore {
	be := ksrig.NewFaultBackend(w.ringInner(), func() {
		if onCrash != nil {
			onCrash(w.clone())
		}
	})
	return w.ringStoreOn(be, be)
}

// openRingStorePlain opens a fresh store straight on the storage (a restarted process / a second process).
func (w *world) openRingStorePlain() *ringStore { return w.ringStoreOn(w.ringInner(), nil) }

func (w *world) ringStoreOn(b backend.Backend, fb *ksrig.FaultBackend) *ringStore {
	suite, err := keystoreV2.NewSCellSuite(w.keys.Enc, w.keys.Sig)
	must(err)
	ks, err := fsV2.CustomKeyStore(b, suite)
	must(err)
	return &ringStore{ks: ks, be: fb, close: func() { ks.Close() }}
}

// ---------------------------------------------------------------------------------------------
// operations

type material struct{ pub, priv, sym []byte }

func (m material) desc() api.KeyDescription {
	cp := func(b []byte) []byte { return append([]byte(nil), b...) }
	if m.sym != nil {
		return api.KeyDescription{Data: []api.KeyData{{Format: api.ThemisSymmetricKeyFormat, SymmetricKey: cp(m.sym)}}}
	}
	return api.KeyDescription{Data: []api.KeyData{{Format: api.ThemisKeyPairFormat, PublicKey: cp(m.pub), PrivateKey: cp(m.priv)}}}
}

// ringOp is one call of api.MutableKeyRing.
type ringOp struct {
	kind  string // add | set-current | set-state | destroy
	ring  string // ringTarget (default) | ringBystander
	tag   string // the key: tag of the new key for add, of the existing key otherwise
	state api.KeyState
	mat   material
}

func (o ringOp) ringPath() string {
	if o.ring == "" {
		return ringTarget
	}
	return o.ring
}

func (o ringOp) String() string {
	s := ""
	switch o.kind {
	case "add":
		s = "AddKey(" + o.tag + ")"
	case "set-current":
		s = "SetCurrent(" + o.tag + ")"
	case "set-state":
		s = "SetState(" + o.tag + "," + o.state.String() + ")"
	case "destroy":
		s = "DestroyKey(" + o.tag + ")"
	}
	if o.ring != "" && o.ring != ringTarget {
		s += "@" + o.ring
	}
	return s
}

// execRingOp performs the call. seqs resolves key tags to seqnums (history keys; added keys: what AddKey returned).
func execRingOp(ring api.MutableKeyRing, seqs map[string]int, op ringOp) error {
	switch op.kind {
	case "add":
		seq, err := ring.AddKey(op.mat.desc())
		if err == nil {
			seqs[op.tag] = seq
		}
		return err
	case "set-current":
		return ring.SetCurrent(seqs[op.tag])
	case "set-state":
		return ring.SetState(seqs[op.tag], op.state)
	case "destroy":
		return ring.DestroyKey(seqs[op.tag])
	}
	panic("ring op " + op.kind)
}

// ---------------------------------------------------------------------------------------------
// expected content (the API contract of the four mutators)

type mKey struct {
	tag   string
	seq   int
	state api.KeyState
	mat   material
	added bool // added by an operation of the case: located by its material (a duplicate left by attempt + retry is tolerated)
	wiped bool // destroyed by an operation of the case: must be unreadable, state destroyed
	dead  bool // destroyed already in the history: was not readable before, nothing is demanded of it
}

type mRing struct {
	keys    []*mKey
	current string // tag; "" = no current key
}

func (m *mRing) clone() *mRing {
	c := &mRing{current: m.current}
	for _, k := range m.keys {
		kk := *k
		c.keys = append(c.keys, &kk)
	}
	return c
}

func (m *mRing) key(tag string) *mKey {
	for _, k := range m.keys {
		if k.tag == tag {
			return k
		}
	}
	return nil
}

var errModel = errors.New("operation not legal in this state")

// apply states what the operation promises. An operation that is not legal in the state returns errModel.
func (m *mRing) apply(op ringOp, inHistory bool) error {
	switch op.kind {
	case "add":
		seq := 1
		if n := len(m.keys); n > 0 {
			seq = m.keys[n-1].seq + 1
		}
		m.keys = append(m.keys, &mKey{tag: op.tag, seq: seq, state: api.KeyPreActive, mat: op.mat, added: !inHistory})
		return nil
	case "set-current":
		if m.key(op.tag) == nil {
			return errModel
		}
		m.current = op.tag
		return nil
	case "set-state":
		k := m.key(op.tag)
		if k == nil || !api.KeyStateTransitionValid(k.state, op.state) {
			return errModel
		}
		k.state = op.state
		if op.state == api.KeyDestroyed {
			k.wiped, k.dead = !inHistory, inHistory // SetState(destroyed) keeps the material in the file but no getter returns it
		}
		return nil
	case "destroy":
		k := m.key(op.tag)
		if k == nil || !api.KeyStateTransitionValid(k.state, api.KeyDestroyed) {
			return errModel
		}
		k.state = api.KeyDestroyed
		k.wiped, k.dead = !inHistory, inHistory
		return nil
	}
	panic("ring op " + op.kind)
}

// ---------------------------------------------------------------------------------------------
// observation

type oPart struct {
	val []byte
	err string // "" = read; otherwise the error class
}

type oKey struct {
	seq            int
	state          api.KeyState
	stateErr       string
	pub, priv, sym oPart
}

type oRing struct {
	err, panicSite string
	absent         bool
	keys           []*oKey // oldest first
	current        int
	curErr         string
}

func partErr(err error) string {
	switch {
	case errors.Is(err, api.ErrKeyDestroyed):
		return "destroyed"
	case errors.Is(err, api.ErrFormatMissing):
		return "noformat"
	case errors.Is(err, api.ErrKeyNotExist):
		return "nokey"
	case errors.Is(err, api.ErrNoKeyData):
		return "nodata"
	case errors.Is(err, api.ErrInvalidFormat):
		return "invalidformat"
	}
	return "unreadable(" + errClass(err) + ")"
}

func readPart(b []byte, err error) oPart {
	if err != nil {
		return oPart{err: partErr(err)}
	}
	return oPart{val: append([]byte(nil), b...)}
}

// observeRing reads everything the api.KeyRing interface offers.
func observeRing(open func() (api.KeyRing, error)) (o *oRing) {
	o = &oRing{current: -1}
	defer func() {
		if p := recover(); p != nil {
			o.panicSite = ksrig.FaultPanicSite(panicStack())
			o.err = fmt.Sprint(p)
		}
	}()
	ring, err := open()
	if err != nil {
		o.err = errClass(err)
		o.absent = errors.Is(err, backendAPI.ErrNotExist)
		return o
	}
	seqs, err := ring.AllKeys()
	if err != nil {
		o.err = "AllKeys: " + errClass(err)
		return o
	}
	for i := len(seqs) - 1; i >= 0; i-- {
		q := seqs[i]
		k := &oKey{seq: q}
		st, err := ring.State(q)
		if err != nil {
			k.stateErr = partErr(err)
		}
		k.state = st
		k.pub = readPart(ring.PublicKey(q, api.ThemisKeyPairFormat))
		k.priv = readPart(ring.PrivateKey(q, api.ThemisKeyPairFormat))
		k.sym = readPart(ring.SymmetricKey(q, api.ThemisSymmetricKeyFormat))
		o.keys = append(o.keys, k)
	}
	c, err := ring.CurrentKey()
	if err != nil {
		o.curErr = errClass(err)
	} else {
		o.current = c
	}
	return o
}

func panicStack() string {
	buf := make([]byte, 16<<10)
	return string(buf[:runtime.Stack(buf, false)])
}

func (o *oRing) key(seq int) *oKey {
	for _, k := range o.keys {
		if k.seq == seq {
			return k
		}
	}
	return nil
}

func shortHex(b []byte) string {
	h := hex.EncodeToString(b)
	if len(h) > 16 {
		return fmt.Sprintf("%s..(%d)", h[:16], len(b))
	}
	return h
}

func (p oPart) String() string {
	if p.err != "" {
		return "!" + p.err
	}
	return shortHex(p.val)
}

func (o *oRing) render() map[string]string {
	out := map[string]string{}
	if o.panicSite != "" {
		out["ring"] = "PANIC@" + o.panicSite + ": " + o.err
		return out
	}
	if o.err != "" {
		out["ring"] = "error(" + o.err + ")"
		return out
	}
	for _, k := range o.keys {
		out[fmt.Sprintf("seq %02d", k.seq)] = fmt.Sprintf("state=%s%s pub=%s priv=%s sym=%s", k.state, k.stateErr, k.pub, k.priv, k.sym)
	}
	if o.curErr != "" {
		out["current"] = "none(" + o.curErr + ")"
	} else {
		out["current"] = fmt.Sprint(o.current)
	}
	return out
}

// shape is the ring without key bytes (evidence samples).
func (o *oRing) shape() []string {
	if o.err != "" {
		return []string{"error(" + o.err + ")"}
	}
	out := []string{}
	for _, k := range o.keys {
		out = append(out, fmt.Sprintf("seq %d state=%s pub=%s priv=%s sym=%s", k.seq, k.state, okOrErr(k.pub), okOrErr(k.priv), okOrErr(k.sym)))
	}
	if o.curErr != "" {
		return append(out, "current=none")
	}
	return append(out, fmt.Sprintf("current=%d", o.current))
}

func (m *mRing) render() map[string]string {
	out := map[string]string{}
	for _, k := range m.keys {
		what := "readable"
		switch {
		case k.wiped:
			what = "destroyed by the case"
		case k.dead:
			what = "destroyed in the history"
		}
		how := fmt.Sprintf("seq %02d", k.seq)
		if k.added {
			how = "added"
		}
		out[k.tag] = fmt.Sprintf("%s state=%s %s", how, k.state, what)
	}
	out["current"] = m.current
	return out
}

// ---------------------------------------------------------------------------------------------
// comparison

type ringDiff struct {
	tag  string // key tag, "#current", "#ring" or "#unexpected-key"
	what string
}

func matHas(m material, part string) []byte {
	switch part {
	case "pub":
		return m.pub
	case "priv":
		return m.priv
	}
	return m.sym
}

func (k *oKey) part(name string) oPart {
	switch name {
	case "pub":
		return k.pub
	case "priv":
		return k.priv
	}
	return k.sym
}

var partNames = []string{"pub", "priv", "sym"}

// hasMaterial: every part of the material reads with that value.
func (k *oKey) hasMaterial(m material) bool {
	for _, p := range partNames {
		if want := matHas(m, p); want != nil {
			if got := k.part(p); got.err != "" || !bytes.Equal(got.val, want) {
				return false
			}
		}
	}
	return true
}

// describeKey: what is observed of a key, relative to the material it should carry (no key bytes: goes into signatures).
func describeKey(k *oKey, m material) string {
	parts := []string{"state=" + k.state.String()}
	for _, p := range partNames {
		want := matHas(m, p)
		if want == nil {
			continue
		}
		got := k.part(p)
		switch {
		case got.err != "":
			parts = append(parts, p+"="+got.err)
		case !bytes.Equal(got.val, want):
			parts = append(parts, p+"=changed")
		default:
			parts = append(parts, p+"=ok")
		}
	}
	return strings.Join(parts, ",")
}

// compareRing lists where the observed ring differs from the expected content. Returns also the number of keys compared
// and of tolerated duplicates.
func compareRing(o *oRing, m *mRing) (diffs []ringDiff, compared, dups int) {
	if o.panicSite != "" {
		return []ringDiff{{"#ring", "panic(" + o.panicSite + ")"}}, 0, 0
	}
	if o.err != "" {
		return []ringDiff{{"#ring", "ring-unreadable(" + o.err + ")"}}, 0, 0
	}
	claimed := map[int]bool{}
	at := map[string]*oKey{}
	// history keys: by seqnum (seqnums are never reused)
	for _, mk := range m.keys {
		if mk.added {
			continue
		}
		ok := o.key(mk.seq)
		if ok == nil {
			if !mk.dead {
				diffs = append(diffs, ringDiff{mk.tag, "key-missing"})
			}
			continue
		}
		claimed[ok.seq] = true
		at[mk.tag] = ok
	}
	// added keys: by material, the expected seqnum first
	for _, mk := range m.keys {
		if !mk.added {
			continue
		}
		var found *oKey
		if ok := o.key(mk.seq); ok != nil && !claimed[ok.seq] && (ok.hasMaterial(mk.mat) || mk.wiped) {
			found = ok
		}
		if found == nil && !mk.wiped {
			for _, ok := range o.keys {
				if !claimed[ok.seq] && ok.hasMaterial(mk.mat) {
					found = ok
					break
				}
			}
		}
		if found == nil {
			diffs = append(diffs, ringDiff{mk.tag, "key-missing"})
			continue
		}
		claimed[found.seq] = true
		at[mk.tag] = found
	}
	for _, mk := range m.keys {
		ok := at[mk.tag]
		if ok == nil || mk.dead {
			continue
		}
		compared++
		switch {
		case mk.wiped:
			if ok.state != api.KeyDestroyed || ok.pub.err == "" || ok.priv.err == "" || ok.sym.err == "" {
				diffs = append(diffs, ringDiff{mk.tag, "not-destroyed(" + describeKey(ok, mk.mat) + ")"})
			}
		case ok.stateErr != "" || ok.state != mk.state || !ok.hasMaterial(mk.mat):
			diffs = append(diffs, ringDiff{mk.tag, describeKey(ok, mk.mat)})
		}
	}
	// keys nobody asked for: a second copy of an added key (attempt + retry) is a complete key; anything else is not
	for _, ok := range o.keys {
		if claimed[ok.seq] {
			continue
		}
		dup := false
		for _, mk := range m.keys {
			if mk.added && !mk.wiped && ok.hasMaterial(mk.mat) {
				dup = true
			}
		}
		if dup {
			dups++
			continue
		}
		diffs = append(diffs, ringDiff{"#unexpected-key", fmt.Sprintf("state=%s,pub=%s,priv=%s,sym=%s", ok.state, okOrErr(ok.pub), okOrErr(ok.priv), okOrErr(ok.sym))})
	}
	// current marker
	switch {
	case m.current == "":
		if o.curErr == "" {
			diffs = append(diffs, ringDiff{"#current", "current=" + tagOfSeq(m, at, o.current) + ",expected=none"})
		}
	case o.curErr != "":
		diffs = append(diffs, ringDiff{"#current", "current=none,expected=" + m.current})
	default:
		if ok := at[m.current]; ok == nil || ok.seq != o.current {
			diffs = append(diffs, ringDiff{"#current", "current=" + tagOfSeq(m, at, o.current) + ",expected=" + m.current})
		}
	}
	return diffs, compared, dups
}

func okOrErr(p oPart) string {
	if p.err != "" {
		return p.err
	}
	return "readable"
}

func tagOfSeq(m *mRing, at map[string]*oKey, seq int) string {
	for tag, k := range at {
		if k.seq == seq {
			return tag
		}
	}
	return "untracked-key"
}

// ---------------------------------------------------------------------------------------------
// histories, faulted operations, follow-ups

type ringHistory struct {
	name   string
	script []ringOp
	ops    []ringFaultOp
	quick  bool // part of the quick tier on the directory back end too
}

type ringFaultOp struct {
	name  string
	op    ringOp
	quick bool // enumerated on the directory back end in the quick tier
}

type ringFixtures struct {
	mats map[string]material
}

func buildRingFixtures(seed int64) *ringFixtures {
	rng := gen.New(seed, "c08-ring")
	f := &ringFixtures{mats: map[string]material{}}
	sym := func(tag string) { f.mats[tag] = material{sym: gen.Bytes(rng, 32)} }
	pair := func(tag string) {
		kp, err := keys.New(keys.TypeEC)
		must(err)
		f.mats[tag] = material{pub: kp.Public.Value, priv: kp.Private.Value}
	}
	for _, t := range []string{"k1-deactivated-sym", "k3-compromised-sym", "k4-preactive-sym", "k6-destroyed-sym", "k1-preactive-sym-current",
		"added-sym", "followup-sym", "followup-sym-2", "b1-sym-current", "other-ring-sym"} {
		sym(t)
	}
	for _, t := range []string{"k2-active-pair-current", "k5-suspended-pair", "k2-preactive-pair", "added-pair", "b2-active-pair"} {
		pair(t)
	}
	return f
}

func (f *ringFixtures) add(tag string) ringOp { return ringOp{kind: "add", tag: tag, mat: f.mats[tag]} }

func setState(tag string, s api.KeyState) ringOp {
	return ringOp{kind: "set-state", tag: tag, state: s}
}
func setCurrent(tag string) ringOp { return ringOp{kind: "set-current", tag: tag} }
func destroy(tag string) ringOp    { return ringOp{kind: "destroy", tag: tag} }

func (f *ringFixtures) bystanderScript() []ringOp {
	on := func(o ringOp) ringOp { o.ring = ringBystander; return o }
	return []ringOp{on(f.add("b1-sym-current")), on(setCurrent("b1-sym-current")), on(f.add("b2-active-pair")), on(setState("b2-active-pair", api.KeyActive))}
}

func (f *ringFixtures) histories() []ringHistory {
	return []ringHistory{
		{name: "mixed-states", quick: true, script: []ringOp{
			f.add("k1-deactivated-sym"), setState("k1-deactivated-sym", api.KeyActive), setState("k1-deactivated-sym", api.KeyDeactivated),
			f.add("k2-active-pair-current"), setState("k2-active-pair-current", api.KeyActive), setCurrent("k2-active-pair-current"),
			f.add("k3-compromised-sym"), setState("k3-compromised-sym", api.KeyCompromised),
			f.add("k4-preactive-sym"),
			f.add("k5-suspended-pair"), setState("k5-suspended-pair", api.KeyActive), setState("k5-suspended-pair", api.KeySuspended),
			f.add("k6-destroyed-sym"), destroy("k6-destroyed-sym"),
		}, ops: []ringFaultOp{
			{"add-sym", f.add("added-sym"), true},
			{"add-pair", f.add("added-pair"), false},
			{"set-current", setCurrent("k4-preactive-sym"), false},
			{"activate-preactive", setState("k4-preactive-sym", api.KeyActive), false},
			{"suspend-active-current", setState("k2-active-pair-current", api.KeySuspended), true},
			{"compromise-deactivated", setState("k1-deactivated-sym", api.KeyCompromised), false},
			{"destroy-deactivated", destroy("k1-deactivated-sym"), true},
			{"destroy-compromised", destroy("k3-compromised-sym"), false},
			{"destroy-preactive", destroy("k4-preactive-sym"), false},
		}},
		// what ServerKeyStore leaves: keys stay pre-active, the newest one is current
		{name: "fresh-keys", script: []ringOp{f.add("k1-preactive-sym-current"), setCurrent("k1-preactive-sym-current"), f.add("k2-preactive-pair")},
			ops: []ringFaultOp{
				{"destroy-preactive-current", destroy("k1-preactive-sym-current"), true},
				{"add-sym", f.add("added-sym"), false},
				{"set-current", setCurrent("k2-preactive-pair"), false},
				{"activate-preactive-current", setState("k1-preactive-sym-current", api.KeyActive), false},
			}},
		// ring created by OpenKeyRingRW, no key yet
		{name: "empty-ring", script: nil, ops: []ringFaultOp{{"add-first-key", f.add("added-sym"), false}}},
	}
}

// followUp is what is written after the faulted operation.
type followUp struct {
	kind string
	ops  []ringOp
}

var nextState = map[api.KeyState]api.KeyState{
	api.KeyPreActive: api.KeyActive, api.KeyActive: api.KeySuspended, api.KeySuspended: api.KeyActive, api.KeyDeactivated: api.KeyCompromised,
}

// followUps builds the follow-up kinds for a faulted operation on the given base content. Follow-ups other than the
// retry write keys OTHER than the one the faulted operation writes, so they are legal whether or not it took effect.
func (f *ringFixtures) followUps(m *mRing, fop ringOp, thorough bool) []followUp {
	out := []followUp{
		{"retry", []ringOp{fop}},
		{"add", []ringOp{f.add("followup-sym")}},
		{"add+set-current", []ringOp{f.add("followup-sym"), setCurrent("followup-sym")}},
	}
	pick := func(ok func(k *mKey) bool) *mKey {
		for _, k := range m.keys {
			if k.tag != fop.tag && !k.dead && ok(k) {
				return k
			}
		}
		return nil
	}
	if k := pick(func(k *mKey) bool { return k.tag != m.current }); k != nil {
		out = append(out, followUp{"set-current", []ringOp{setCurrent(k.tag)}})
	}
	stateKey := pick(func(k *mKey) bool { _, ok := nextState[k.state]; return ok })
	if stateKey != nil {
		out = append(out, followUp{"set-state", []ringOp{setState(stateKey.tag, nextState[stateKey.state])}})
	}
	destroyKey := pick(func(k *mKey) bool {
		return k.tag != m.current && api.KeyStateTransitionValid(k.state, api.KeyDestroyed)
	})
	if destroyKey == nil {
		destroyKey = pick(func(k *mKey) bool { return api.KeyStateTransitionValid(k.state, api.KeyDestroyed) })
	}
	if destroyKey != nil {
		out = append(out, followUp{"destroy", []ringOp{destroy(destroyKey.tag)}})
	}
	if thorough {
		if destroyKey != nil {
			out = append(out, followUp{"destroy+add", []ringOp{destroy(destroyKey.tag), f.add("followup-sym")}})
		}
		if stateKey != nil {
			out = append(out, followUp{"add+set-state", []ringOp{f.add("followup-sym"), setState(stateKey.tag, nextState[stateKey.state])}})
		}
		o := f.add("other-ring-sym")
		o.ring = ringBystander
		out = append(out, followUp{"other-ring+add", []ringOp{o, f.add("followup-sym-2")}})
	}
	return out
}

// ---------------------------------------------------------------------------------------------
// the job: one (back end, history, faulted operation)

type ringJob struct {
	hist ringHistory
	fop  ringFaultOp
}

type ringBase struct {
	w    *world
	tgt  *mRing
	by   *mRing
	seqs map[string]int
}

// buildRingBase creates the keystore of a history through the real API (fault-free) and checks that the expected
// content built alongside describes what a fresh handle reads.
func (m *monitor) buildRingBase(kind string, h ringHistory) *ringBase {
	b := &ringBase{w: newWorld(kind, 0, false), tgt: &mRing{}, by: &mRing{}, seqs: map[string]int{}}
	st := b.w.openRingStorePlain()
	defer st.close()
	rings := map[string]api.MutableKeyRing{}
	for _, p := range []string{ringBystander, ringTarget} {
		r, err := st.ks.OpenKeyRingRW(p)
		must(err)
		rings[p] = r
	}
	for _, op := range append(m.rfx.bystanderScript(), h.script...) {
		must(execRingOp(rings[op.ringPath()], b.seqs, op))
		mm := b.tgt
		if op.ringPath() == ringBystander {
			mm = b.by
		}
		must(mm.apply(op, true))
	}
	o, ob := observeStore(st.ks)
	d1, _, _ := compareRing(o, b.tgt)
	d2, _, _ := compareRing(ob, b.by)
	if len(d1)+len(d2) > 0 {
		panic(fmt.Sprintf("c08 ring layer: history %s is not what the API contract says: %v %v", h.name, d1, d2))
	}
	return b
}

func observeStore(ks api.KeyStore) (target, bystander *oRing) {
	target = observeRing(func() (api.KeyRing, error) { return ks.OpenKeyRing(ringTarget) })
	bystander = observeRing(func() (api.KeyRing, error) { return ks.OpenKeyRing(ringBystander) })
	return
}

type ringCtx struct {
	kind     string // v2mem | v2dir
	j        ringJob
	base     *ringBase
	trace    []ksrig.FaultCall
	call     ksrig.FaultCall
	fc       faultCase
	fu       followUp
	handle   string
	newAfter *mRing // base content with the faulted operation applied
	trk      *stepTracker
}

func (c *ringCtx) opName() string { return "ring/" + c.j.hist.name + "/" + c.j.fop.name }

func (c *ringCtx) sig(phase, symptom string) string {
	return fmt.Sprintf("c08:%s:%s:%s:%s:%s:%s", c.kind, c.opName(), c.call.Class(), c.fc.mode.String(), phase, symptom)
}

func (m *monitor) ringViolate(c *ringCtx, phase, symptom string, extra map[string]interface{}) {
	fus := []string{}
	for _, o := range c.fu.ops {
		fus = append(fus, o.String())
	}
	d := map[string]interface{}{
		"layer": "ring-level (api.MutableKeyRing on one kept-open handle)", "format": c.kind, "history": c.j.hist.name,
		"faulted_operation": c.j.fop.op.String(), "fault_call_index": c.call.Seq, "fault_call": c.call.Class(), "fault_mode": c.fc.modeName(),
		"torn_bytes": c.fc.torn, "fault_free_trace": classes(c.trace), "followup_kind": c.fu.kind, "followup_operations": fus,
		"followup_handle": c.handle, "phase": phase, "seed": m.r.Seed, "ring_before": c.base.tgt.render(),
	}
	for k, v := range extra {
		d[k] = v
	}
	m.r.Violation(c.sig(phase, symptom), d)
}

// staleNew reports whether the storage holds a "<ring>.keyring.new".
func staleNew(w *world) bool {
	for p := range w.files() {
		if strings.HasSuffix(p, ".keyring.new") {
			return true
		}
	}
	return false
}

func (m *monitor) runRingJob(kind string, j ringJob, base *ringBase, extraTorn int) {
	r := m.r
	t0 := time.Now()
	defer func() { r.Count("worker_ms:ring-"+kind, time.Since(t0).Milliseconds()) }()
	c0 := &ringCtx{kind: kind, j: j, base: base}
	// fault-free run of the operation on a kept-open handle: trace + validation of the expected content
	w := base.w.clone()
	st := w.openRingStore(nil)
	ring, err := st.ks.OpenKeyRingRW(ringTarget)
	must(err)
	seqs := copySeqs(base.seqs)
	st.be.SetPlan(ksrig.FaultPlan{})
	out := ksrig.FaultRun(func() error { return execRingOp(ring, seqs, j.fop.op) })
	c0.trace = st.be.Calls()
	st.close()
	c0.newAfter = base.tgt.clone()
	merr := c0.newAfter.apply(j.fop.op, false)
	if out.Panic != nil || out.Err != nil || merr != nil {
		r.Count("ring_inapplicable_operations", 1)
		r.SetAdd("inapplicable", fmt.Sprintf("%s/%s: fault-free err=%v panic=%v contract=%v", kind, c0.opName(), out.Err, out.Panic, merr))
		w.dispose()
		return
	}
	ps := w.openRingStorePlain()
	o, ob := observeStore(ps.ks)
	ps.close()
	w.dispose()
	d1, _, _ := compareRing(o, c0.newAfter)
	d2, _, _ := compareRing(ob, base.by)
	if len(d1)+len(d2) > 0 {
		r.Inconclusive(fmt.Sprintf("ring layer: fault-free %s/%s does not leave what the API contract says (%v %v): not judged", kind, c0.opName(), d1, d2))
		return
	}
	r.Count("ring_fault_free_traces", 1)
	r.Count("ring_fault_free_calls", int64(len(c0.trace)))
	r.SetAdd("ring_operations", j.hist.name+"/"+j.fop.name)
	r.SetAdd("ring_formats", kind)
	r.SampleN("ring-trace:"+kind, 1, map[string]interface{}{"what": "ring-level fault-free trace (handle kept open)", "format": kind, "history": j.hist.name,
		"op": j.fop.op.String(), "calls": classes(c0.trace)})

	fus := m.rfx.followUps(base.tgt, j.fop.op, r.Thorough())
	// the follow-ups fault-free, after the operation and without it: the expected content must describe both
	valid := []followUp{}
	for _, fu := range fus {
		if m.validateFollowUp(c0, fu) {
			valid = append(valid, fu)
		}
	}
	handles := []string{"same-handle", "new-ring-handle", "second-store"}
	if r.Thorough() {
		handles = append(handles, "second-store-then-same-handle")
	}
	quickDir := kind == "v2dir" && !r.Thorough()
	for _, call := range c0.trace {
		for _, fc := range casesFor(call, extraTorn) {
			if fc.mode.IsCrash() {
				for _, fu := range valid {
					if !(fu.kind == "retry" || (fu.kind == "add" && !quickDir) || (fu.kind == "add+set-current" && !quickDir) || (r.Thorough() && (fu.kind == "destroy" || fu.kind == "set-state"))) {
						continue
					}
					m.ringCase(c0, call, fc, fu, "fresh-handle")
				}
				continue
			}
			for _, fu := range valid {
				if quickDir && !(fu.kind == "retry" || fu.kind == "add" || fu.kind == "set-state") {
					continue
				}
				for _, h := range handles {
					if h == "second-store-then-same-handle" && len(fu.ops) < 2 {
						continue
					}
					if quickDir && h == "new-ring-handle" {
						continue
					}
					m.ringCase(c0, call, fc, fu, h)
				}
			}
		}
	}
}

func copySeqs(s map[string]int) map[string]int {
	c := make(map[string]int, len(s)+2)
	for k, v := range s {
		c[k] = v
	}
	return c
}

// candidates: the expected content after the follow-ups, once without and once with the faulted operation's effect.
// A retry asks for the effect: only the second one.
func (c *ringCtx) candidates(done []ringOp) (names []string, tgt []*mRing, by *mRing) {
	by = c.base.by.clone()
	starts := []*mRing{c.base.tgt.clone(), c.newAfter.clone()}
	labels := []string{"old", "new"}
	for i, s := range starts {
		ok := true
		for _, op := range done {
			if op.ringPath() == ringBystander {
				if i == 0 {
					must(by.apply(op, false))
				}
				continue
			}
			if c.fu.kind == "retry" {
				continue // the retried operation itself: its effect is what candidate "new" states
			}
			if err := s.apply(op, false); err != nil {
				ok = false
			}
		}
		if c.fu.kind == "retry" && len(done) > 0 && i == 0 {
			ok = false
		}
		if ok {
			names = append(names, labels[i])
			tgt = append(tgt, s)
		}
	}
	return
}

// validateFollowUp runs operation + follow-up, and the follow-up alone, fault-free and requires that the expected content
// describes the result. A disagreement is the monitor's (or a fault-free defect that is not C08's): not judged.
func (m *monitor) validateFollowUp(c0 *ringCtx, fu followUp) bool {
	r := m.r
	for _, withOp := range []bool{false, true} {
		if fu.kind == "retry" && !withOp {
			continue
		}
		w := c0.base.w.clone()
		st := w.openRingStorePlain()
		seqs := copySeqs(c0.base.seqs)
		rings := map[string]api.MutableKeyRing{}
		ringOf := func(p string) api.MutableKeyRing {
			if rings[p] == nil {
				rr, err := st.ks.OpenKeyRingRW(p)
				must(err)
				rings[p] = rr
			}
			return rings[p]
		}
		var ferr error
		exp, by := c0.base.tgt.clone(), c0.base.by.clone()
		if withOp && fu.kind != "retry" {
			ferr = execRingOp(ringOf(ringTarget), seqs, c0.j.fop.op)
			exp = c0.newAfter.clone()
		}
		if fu.kind == "retry" {
			exp = c0.newAfter.clone()
		}
		for _, op := range fu.ops {
			if ferr != nil {
				break
			}
			ferr = execRingOp(ringOf(op.ringPath()), seqs, op)
			if fu.kind == "retry" {
				continue
			}
			mm := exp
			if op.ringPath() == ringBystander {
				mm = by
			}
			if err := mm.apply(op, false); err != nil && ferr == nil {
				ferr = err
			}
		}
		st.close()
		var d1, d2 []ringDiff
		if ferr == nil {
			ps := w.openRingStorePlain()
			o, ob := observeStore(ps.ks)
			ps.close()
			d1, _, _ = compareRing(o, exp)
			d2, _, _ = compareRing(ob, by)
		}
		w.dispose()
		if ferr != nil || len(d1)+len(d2) > 0 {
			r.Count("ring_followups_not_validated", 1)
			r.Inconclusive(fmt.Sprintf("ring layer: fault-free %s/%s + follow-up %s (operation applied: %v) does not leave what the API contract says (err=%v %v %v): not judged",
				c0.kind, c0.opName(), fu.kind, withOp, ferr, d1, d2))
			return false
		}
		r.Count("ring_followups_validated_fault_free", 1)
	}
	return true
}

func (m *monitor) ringCase(c0 *ringCtx, call ksrig.FaultCall, fc faultCase, fu followUp, handle string) {
	r := m.r
	r.Case()
	c := *c0
	c.call, c.fc, c.fu, c.handle = call, fc, fu, handle
	detail := func() map[string]interface{} {
		return map[string]interface{}{"layer": "ring-level (api.MutableKeyRing on one kept-open handle)", "format": c.kind, "history": c.j.hist.name, "operation": c.j.fop.op.String(),
			"fault_call_index": call.Seq, "fault_call": call.Class(), "fault_mode": fc.modeName(), "followup_kind": fu.kind, "followup_handle": handle}
	}
	m.guardCase("c08-ring", c.kind, c.opName(), call.Class(), fc.modeName(), detail, func(t *stepTracker) {
		c.trk = t
		m.ringCaseInner(&c)
	})
}

// judge compares an observation with the candidates. Returns the name of the matching candidate ("" if none; then the
// differences from the nearest candidate have been reported).
func (m *monitor) judge(c *ringCtx, phase string, o, ob *oRing, names []string, cands []*mRing, by *mRing, touched map[string]bool, prefer string) string {
	r := m.r
	detail := func() map[string]interface{} {
		d := map[string]interface{}{"observed_target_ring": o.render(), "observed_bystander_ring": ob.render()}
		for i, n := range names {
			d["expected_if_faulted_operation_is_"+n] = cands[i].render()
		}
		return d
	}
	// bystander ring: "every key that was readable before still reads with the same value"
	if by != nil {
		bd, bn, _ := compareRing(ob, by)
		r.Count("ring_keys_compared", int64(bn))
		for _, d := range bd {
			if strings.HasPrefix(d.what, "panic(") {
				m.ringViolate(c, phase, "read-"+d.what, detail())
				continue
			}
			m.ringViolate(c, phase, fmt.Sprintf("nontarget-changed(bystander/%s:%s)", d.tag, d.what), detail())
		}
	}
	best, bestDiffs := -1, []ringDiff(nil)
	match := ""
	for i := len(cands) - 1; i >= 0; i-- { // "old" wins a tie: the caller was told the operation failed
		d, n, dups := compareRing(o, cands[i])
		if len(d) == 0 {
			if match == "" {
				r.Count("ring_keys_compared", int64(n))
				r.Count("ring_duplicate_added_keys_tolerated", int64(dups))
			}
			if match == "" || names[i] == prefer {
				match = names[i] // both describe it (the follow-up overwrote what the operation writes): the one seen before stays
			}
			continue
		}
		if best < 0 || len(d) <= len(bestDiffs) {
			best, bestDiffs = i, d
		}
	}
	if match != "" || best < 0 {
		return match
	}
	ftag := c.j.fop.op.tag
	for _, d := range bestDiffs {
		var sym string
		switch {
		case strings.HasPrefix(d.what, "panic("):
			sym = "read-" + d.what
		case d.tag == "#ring":
			sym = "old-keys-unreadable(" + d.what + ")"
		case d.tag == ftag || (d.tag == "#current" && c.j.fop.op.kind == "set-current"):
			sym = fmt.Sprintf("target-neither-old-nor-new(%s:%s)", d.tag, d.what)
		case touched[d.tag]:
			sym = fmt.Sprintf("followup-not-reflected(%s:%s)", d.tag, d.what)
		default:
			sym = fmt.Sprintf("nontarget-changed(%s:%s)", d.tag, d.what)
		}
		m.ringViolate(c, phase, sym, detail())
	}
	return ""
}

func (m *monitor) checkRingListing(c *ringCtx, phase string, ks api.KeyStore) {
	r := m.r
	var rings []string
	out := ksrig.FaultRun(func() (err error) { rings, err = ks.ListKeyRings(); return })
	r.Count("ring_listings_checked", 1)
	switch {
	case out.Panic != nil:
		m.ringViolate(c, phase, "listing-panic(ListKeyRings@"+ksrig.FaultPanicSite(out.PanicStack)+")", map[string]interface{}{"panic": fmt.Sprint(out.Panic)})
	case out.Err != nil:
		m.ringViolate(c, phase, "listing-broken(ListKeyRings:"+errClass(out.Err)+")", nil)
	default:
		sort.Strings(rings)
		for _, want := range []string{ringBystander, ringTarget} {
			if i := sort.SearchStrings(rings, want); i >= len(rings) || rings[i] != want {
				m.ringViolate(c, phase, "listing-broken(ListKeyRings:"+want+"-not-listed)", map[string]interface{}{"listed": rings})
			}
		}
	}
}

// observeWorld reads both rings and the listing through a fresh store on the storage.
func (m *monitor) observeWorld(c *ringCtx, phase string, w *world) (o, ob *oRing) {
	ps := w.openRingStorePlain()
	defer ps.close()
	o, ob = observeStore(ps.ks)
	m.checkRingListing(c, phase, ps.ks)
	return
}

func (m *monitor) ringCaseInner(c *ringCtx) {
	r := m.r
	fc := c.fc
	w := c.base.w.clone()
	defer w.dispose()
	var snap *world
	stA := w.openRingStore(func(s *world) { snap = s })
	closeA := stA.close
	defer func() { closeA() }()
	ringA, err := stA.ks.OpenKeyRingRW(ringTarget)
	must(err)
	seqs := copySeqs(c.base.seqs)
	stA.be.SetPlan(ksrig.FaultPlan{At: fc.k, Mode: fc.mode, TornBytes: fc.torn})
	c.trk.step("operation")
	out := ksrig.FaultRun(func() error { return execRingOp(ringA, seqs, c.j.fop.op) })
	c.trk.step("after-operation")
	got := stA.be.Calls()
	if !stA.be.Fired() || len(got) < fc.k || got[fc.k-1].Class() != c.call.Class() {
		r.Inconclusive(fmt.Sprintf("ring layer: trace diverged before the fault point: %s/%s call#%d expected %s", c.kind, c.opName(), fc.k, c.call.Class()))
		return
	}
	r.Count("ring_fault_runs_fired", 1)
	r.Count("ring_mode:"+fc.mode.String(), 1)
	r.SetAdd("ring_followup_kinds", c.fu.kind)
	r.SetAdd("ring_followup_handles", c.handle)
	r.SetAdd("ring_fault_points", c.opName()+"|"+c.call.Class()+"|"+fc.mode.String())
	r.Distinct(fmt.Sprintf("%s|%s|%s|%s|%s@%s", c.kind, c.opName(), c.call.Class(), fc.modeName(), c.fu.kind, c.handle))
	if out.Panic != nil {
		r.Count("panics", 1)
		m.ringViolate(c, "op", "panic("+ksrig.FaultPanicSite(out.PanicStack)+")", map[string]interface{}{"panic": fmt.Sprint(out.Panic), "stack": out.PanicStack})
		return
	}
	sample := map[string]interface{}{"layer": "ring", "format": c.kind, "history": c.j.hist.name, "op": c.j.fop.op.String(), "call#": fc.k, "call": c.call.Class(),
		"mode": fc.modeName(), "followup": c.fu.kind, "followup_handle": c.handle}
	names0, cands0, by0 := c.candidatesBefore()

	live := w // the storage the follow-ups and the reopen work on
	crash := fc.mode.IsCrash()
	afterFault := "after-error(fresh-handle)"
	if crash {
		if out.Crashed == nil || snap == nil {
			r.Inconclusive("ring layer: crash mode did not crash: " + c.sig("op", ""))
			return
		}
		defer snap.dispose()
		r.Count("ring_crash_snapshots_probed", 1)
		live = snap
		afterFault = "after-crash(fresh-handle)"
	} else {
		sample["op_error"] = fmt.Sprint(out.Err)
		if out.Err != nil {
			r.Count("ring_error_returns", 1)
			// the process lives on: what the SAME ring handle shows (old or new; which of them is not demanded to agree with the storage)
			c.trk.step("reads after the error (same ring handle)")
			oa := observeRing(func() (api.KeyRing, error) { return ringA, nil })
			r.Count("ring_same_handle_views_checked", 1)
			m.judge(c, "after-error(same-handle)", oa, &oRing{err: "not read"}, names0, cands0, nil, nil, "")
		} else {
			r.Count("ring_fault_absorbed_op_succeeded", 1)
		}
	}
	// restart view of the post-fault storage
	c.trk.step("reads and listings after the fault (fresh store)")
	o1, ob1 := m.observeWorld(c, afterFault, live)
	c.trk.step("follow-up writes")
	outcome1 := m.judge(c, afterFault, o1, ob1, names0, cands0, by0, nil, "old")
	sample["after_fault"] = outcome1
	if outcome1 == "" {
		return // reported; the follow-ups cannot be judged against a state that is neither
	}
	r.Count("ring_outcome_after_fault_"+outcome1, 1)

	// ---- follow-up writes ----
	var stB *ringStore
	defer func() {
		if stB != nil {
			stB.close()
		}
	}()
	ringsOf := map[string]api.MutableKeyRing{}
	ringVia := func(how, path string) (api.MutableKeyRing, error) {
		key := how + "|" + path
		if rr := ringsOf[key]; rr != nil {
			return rr, nil
		}
		var rr api.MutableKeyRing
		var err error
		switch how {
		case "same-handle":
			if path == ringTarget {
				rr = ringA
			} else {
				rr, err = stA.ks.OpenKeyRingRW(path)
			}
		case "new-ring-handle":
			rr, err = stA.ks.OpenKeyRingRW(path)
		default: // second store / fresh store after a crash
			if stB == nil {
				stB = live.openRingStorePlain()
			}
			rr, err = stB.ks.OpenKeyRingRW(path)
		}
		if err == nil {
			ringsOf[key] = rr
		}
		return rr, err
	}
	if !crash {
		stA.be.SetPlan(ksrig.FaultPlan{})
	}
	after := "error"
	if crash {
		after = "crash"
	}
	phaseFU := fmt.Sprintf("followup-after-%s(%s@%s)", after, c.fu.kind, c.handle)
	if c.fu.kind == "retry" {
		phaseFU = fmt.Sprintf("retry-after-%s(%s)", after, c.handle)
	}
	var doneOps []ringOp
	touched := map[string]bool{}
	for i, op := range c.fu.ops {
		how := c.handle
		switch {
		case crash:
			how = "second-store"
		case c.handle == "second-store-then-same-handle":
			how = []string{"second-store", "same-handle"}[i%2]
		}
		var ferr error
		attempt := func() ksrig.FaultOutcome {
			return ksrig.FaultRun(func() error {
				rr, err := ringVia(how, op.ringPath())
				if err != nil {
					return err
				}
				return execRingOp(rr, seqs, op)
			})
		}
		fo := attempt()
		r.Count("ring_followup_writes_attempted", 1)
		alreadyDone := c.fu.kind == "retry" && outcome1 == "new"
		if fo.Panic == nil && fo.Err != nil && !alreadyDone && !(strings.Contains(fo.Err.Error(), "key path already exists") && staleNew(live)) {
			// "keeps accepting further writes" is not "accepts every write at the first attempt": a key ring handle is a cached view, and
			// the keystore's own conflict detection ("concurrent keystore modification", "duplicate key with seqnum") refuses ONE write
			// made from a view that is behind the storage — e.g. after a rename that was performed but reported as failed — and
			// re-reads the ring while doing so. The write is offered once more; a keystore that refuses it again does not accept it.
			first := errClass(fo.Err)
			fo = attempt()
			r.Count("ring_followup_second_attempts", 1)
			if fo.Panic == nil && fo.Err == nil {
				r.Count("ring_followup_accepted_at_second_attempt", 1)
				r.SetAdd("ring_first_attempt_refusals_that_healed", op.kind+": "+first)
			}
		}
		if fo.Panic != nil {
			r.Count("panics", 1)
			m.ringViolate(c, phaseFU, "panic("+ksrig.FaultPanicSite(fo.PanicStack)+")", map[string]interface{}{"panic": fmt.Sprint(fo.Panic), "stack": fo.PanicStack, "followup_operation": op.String()})
			return
		}
		ferr = fo.Err
		if ferr != nil {
			etxt := errClass(ferr)
			switch {
			case strings.Contains(etxt, "key path already exists") && staleNew(live):
				// the known stale '<ring>.keyring.new' (left by this fault point) blocks every later write of the ring. One cause, one
				// report per fault point: under the retry kind, in the first layer's words, so that the listed finding matches it
				if c.fu.kind == "retry" {
					m.ringViolate(c, "retry-after-"+after, "write-blocked(key path already exists):leftover=keyring.new", map[string]interface{}{"followup_error": ferr.Error(), "followup_operation": op.String()})
				}
				r.Count("ring_followups_blocked_by_stale_keyring_new", 1)
			case alreadyDone:
				// the first attempt took effect although an error was returned (fault after the rename): "invalid state transition" /
				// "concurrent keystore modification" is a legitimate answer to doing it again (as for the first layer's destroy retry)
				r.Count("ring_retry_refused_already_done", 1)
			default:
				// refused twice
				m.ringViolate(c, phaseFU, fmt.Sprintf("write-refused(%s:%s):leftover=%s", op.kind, etxt, map[bool]string{true: "keyring.new", false: "none"}[staleNew(live)]),
					map[string]interface{}{"followup_error": ferr.Error(), "followup_operation": op.String(), "storage_after_fault": outcome1})
			}
			break
		}
		r.Count("ring_followup_writes_succeeded", 1)
		r.Count("ring_followup_via:"+how, 1)
		doneOps = append(doneOps, op)
		touched[op.tag] = true
		if op.kind == "set-current" {
			touched["#current"] = true
		}
	}
	// ---- close everything, reopen, compare ----
	closeA()
	closeA = func() {}
	if stB != nil {
		stB.close()
		stB = nil
	}
	names, cands, by := c.candidates(doneOps)
	if c.fu.kind == "retry" && len(doneOps) == 0 {
		names, cands, by = names0, cands0, by0
	}
	phase := "after-followup(" + c.fu.kind + "@" + c.handle + ")"
	c.trk.step("reads and listings after the follow-up writes")
	o2, ob2 := m.observeWorld(c, phase, live)
	r.Count("ring_reopen_views_compared", 1)
	final := m.judge(c, phase, o2, ob2, names, cands, by, touched, outcome1)
	sample["followups_done"] = len(doneOps)
	sample["after_followups_and_reopen"] = final
	if final != "" {
		r.Count("ring_outcome_final_"+final, 1)
		if len(doneOps) == len(c.fu.ops) {
			r.Count("ring_histories_fully_reflected", 1)
		}
		if outcome1 == "old" && final == "new" && c.fu.kind != "retry" {
			// the failed operation took effect later, with a follow-up that did not ask for it: its key is "completely the new
			// one", which is all the property text demands; counted as an observation (see notes), not a violation
			r.Count("ring_observed_failed_operation_took_effect_with_a_later_write", 1)
		}
	}
	how := "error"
	if crash {
		how = "crash"
	}
	sample["reopened_target_ring"] = o2.shape()
	r.SampleN("ring-case:"+how+":"+c.fu.kind, 1, sample)
}

// candidatesBefore: the expected content right after the faulted operation (no follow-up yet).
func (c *ringCtx) candidatesBefore() ([]string, []*mRing, *mRing) {
	return []string{"old", "new"}, []*mRing{c.base.tgt.clone(), c.newAfter.clone()}, c.base.by.clone()
}
