package c08

import (
	"fmt"

	"github.com/cossacklabs/themis/gothemis/keys"

	"github.com/cossacklabs/acra/keystore"
	"github.com/cossacklabs/acra/keystore/filesystem"
	keystoreV2 "github.com/cossacklabs/acra/keystore/v2/keystore"
	"github.com/cossacklabs/acra/keystore/v2/keystore/api"
	"github.com/cossacklabs/acra/keystore/v2/keystore/asn1"
	"github.com/cossacklabs/acra/keystore/v2/keystore/crypto"

	"verif/harness/internal/rig/ksdump"
	"verif/harness/internal/rig/ksrig"
)

// Client identities used by the workload (fixed, so that entry names and signatures are stable).
var (
	idX      = []byte("clientx")   // the client whose keys the operation targets
	idOther1 = []byte("other1")    // bystander with rotated keys
	idOther2 = []byte("other_two") // bystander (underscore in the id on purpose: v1 file names are <id>_<suffix>)
	idImp    = []byte("impclient") // client that exists only in the imported bundle
)

var allClients = [][]byte{idX, idOther1, idOther2, idImp}

type opKind int

const (
	kGenerate       opKind = iota // new random key becomes current, old one is kept behind it
	kDestroy                      // current key removed / marked destroyed
	kDestroyRotated               // rotated key chosen by index removed
	kImport                       // keys of a bundle written (values known from the fault-free run)
	kSave                         // caller-provided key pair becomes current (values known)
)

func (k opKind) String() string {
	return [...]string{"generate", "destroy", "destroy-rotated", "import", "save"}[k]
}

// keyGroup is one logical key the operation writes.
type keyGroup struct {
	cur  string // entry: current private/symmetric value
	all  string // entry: newest-first list ("" when the key kind has no such getter)
	pub  string // entry: current public key (pairs only)
	ring string // v2 ring path
	pair bool
}

func (g keyGroup) names(v2 bool) []string {
	out := []string{g.cur}
	if g.all != "" {
		out = append(out, g.all)
	}
	if g.pub != "" {
		out = append(out, g.pub)
	}
	if v2 && g.ring != "" {
		out = append(out, ksdump.RingName(g.ring), ksdump.RingCurrent(g.ring))
	}
	return out
}

func grpStoragePair(id []byte) keyGroup {
	return keyGroup{cur: ksdump.Priv(id), all: ksdump.Privs(id), pub: ksdump.Pub(id), ring: "client/" + string(id) + "/storage", pair: true}
}
func grpStorageSym(id []byte) keyGroup {
	return keyGroup{cur: ksdump.Sym(id), all: ksdump.Syms(id), ring: "client/" + string(id) + "/storage-sym"}
}
func grpHmac(id []byte) keyGroup {
	return keyGroup{cur: ksdump.Hmac(id), ring: "client/" + string(id) + "/hmac-sym"}
}
func grpLog() keyGroup { return keyGroup{cur: ksdump.Log, ring: "audit-log"} }
func grpPoisonPair() keyGroup {
	return keyGroup{cur: ksdump.PoisonPriv, all: ksdump.PoisonAll, pub: ksdump.PoisonPub, ring: "poison-record", pair: true}
}
func grpPoisonSym() keyGroup {
	return keyGroup{cur: ksdump.PoisonSym, all: ksdump.PoisonSyms, ring: "poison-record-sym"}
}

type opSpec struct {
	name     string
	kind     opKind
	groups   []keyGroup
	run      func(h *handle) error
	only     string // "" both formats, "v1" or "v2"
	thorough bool   // only enumerated in the thorough tier
}

func (o *opSpec) targets(v2 bool) map[string]bool {
	t := map[string]bool{}
	for _, g := range o.groups {
		for _, n := range g.names(v2) {
			t[n] = true
		}
	}
	return t
}

// fixtures are inputs prepared once per run: bundles exported from source keystores and a key pair to save.
type fixtures struct {
	savePair  *keys.Keypair
	v1Bundle  *keystore.KeysBackup // all keys of a v1 source holding client impa (rotated once)
	v1BundleX *keystore.KeysBackup // all keys of a v1 source holding clientx and impa: overwrites existing keys of clientx
	v2Bundle  *keystore.KeysBackup // KeyBackuper bundle of a v2 source: rings of impa (rotated once)
	v2Rings   []byte               // ExportKeyRings container: rings of impa
	v2RingsX  []byte               // ExportKeyRings container: rings of clientx (imported with an overwrite delegate)
	v2Suite   *crypto.KeyStoreSuite
}

func copyBackup(b *keystore.KeysBackup) *keystore.KeysBackup {
	return &keystore.KeysBackup{Keys: append([]byte(nil), b.Keys...), Data: append([]byte(nil), b.Data...)}
}

func must(err error) {
	if err != nil {
		panic(err)
	}
}

func copyPair(p *keys.Keypair) *keys.Keypair {
	return &keys.Keypair{Private: &keys.PrivateKey{Value: append([]byte(nil), p.Private.Value...)}, Public: &keys.PublicKey{Value: append([]byte(nil), p.Public.Value...)}}
}

func buildFixtures() *fixtures {
	f := &fixtures{}
	var err error
	f.savePair, err = keys.New(keys.TypeEC)
	must(err)
	// v1 sources
	mk := func(withX bool) *keystore.KeysBackup {
		w := newWorld("v1", keystore.WithoutCache, false)
		defer w.dispose()
		h := w.openPlain()
		must(ksrig.GenClient(h.wr, idImp))
		must(h.wr.GenerateClientIDSymmetricKey(idImp)) // rotate: the bundle carries a history directory
		must(h.wr.GenerateDataEncryptionKeys(idImp))
		if withX {
			must(ksrig.GenClient(h.wr, idX))
		}
		b, err := filesystem.NewKeyBackuper(w.dir, "", &filesystem.DummyStorage{}, h.enc, h.v1)
		must(err)
		out, err := b.Export(nil, keystore.ExportAllKeys)
		must(err)
		return out
	}
	f.v1Bundle = mk(false)
	f.v1BundleX = mk(true)
	// v2 sources
	w := newWorld("v2mem", 0, false)
	h := w.openPlain()
	must(ksrig.GenClient(h.wr, idImp))
	must(h.wr.GenerateClientIDSymmetricKey(idImp))
	must(h.wr.GenerateDataEncryptionKeys(idImp))
	must(ksrig.GenClient(h.wr, idX))
	bk, err := keystoreV2.NewKeyBackuper("", "", h.v2)
	must(err)
	ids := []keystore.ExportID{{KeyKind: keystore.KeyStoragePrivate, ContextID: idImp}, {KeyKind: keystore.KeySymmetric, ContextID: idImp}, {KeyKind: keystore.KeySearch, ContextID: idImp}}
	f.v2Bundle, err = bk.Export(ids, keystore.ExportPrivateKeys)
	must(err)
	ek, sk := ksrig.RandBytes(32), ksrig.RandBytes(32)
	f.v2Suite, err = keystoreV2.NewSCellSuite(ek, sk)
	must(err)
	ring := func(id []byte) []string {
		return []string{"client/" + string(id) + "/storage", "client/" + string(id) + "/storage-sym", "client/" + string(id) + "/hmac-sym"}
	}
	f.v2Rings, err = h.v2.ExportKeyRings(ring(idImp), f.v2Suite, keystore.ExportPrivateKeys)
	must(err)
	f.v2RingsX, err = h.v2.ExportKeyRings(ring(idX), f.v2Suite, keystore.ExportPrivateKeys)
	must(err)
	h.close()
	return f
}

type overwriteDelegate struct{}

func (overwriteDelegate) DecideKeyRingOverwrite(currentData, newData *asn1.KeyRing) (api.ImportDecision, error) {
	return api.ImportOverwrite, nil
}

func clientGroups(id []byte) []keyGroup {
	return []keyGroup{grpStoragePair(id), grpStorageSym(id), grpHmac(id)}
}

func buildOps(f *fixtures) []*opSpec {
	ops := []*opSpec{
		// generate / rotate, each of the 6 key kinds
		{name: "generate-storage-pair", kind: kGenerate, groups: []keyGroup{grpStoragePair(idX)}, run: func(h *handle) error { return h.wr.GenerateDataEncryptionKeys(idX) }},
		{name: "generate-storage-sym", kind: kGenerate, groups: []keyGroup{grpStorageSym(idX)}, run: func(h *handle) error { return h.wr.GenerateClientIDSymmetricKey(idX) }},
		{name: "generate-hmac", kind: kGenerate, groups: []keyGroup{grpHmac(idX)}, run: func(h *handle) error { return h.wr.GenerateHmacKey(idX) }},
		{name: "generate-log", kind: kGenerate, groups: []keyGroup{grpLog()}, run: func(h *handle) error { return h.wr.GenerateLogKey() }},
		{name: "generate-poison-pair", kind: kGenerate, groups: []keyGroup{grpPoisonPair()}, run: func(h *handle) error { return h.wr.GeneratePoisonKeyPair() }},
		{name: "generate-poison-sym", kind: kGenerate, groups: []keyGroup{grpPoisonSym()}, run: func(h *handle) error { return h.wr.GeneratePoisonSymmetricKey() }},
		// destroy current
		{name: "destroy-storage-pair", kind: kDestroy, groups: []keyGroup{grpStoragePair(idX)}, run: func(h *handle) error { return h.wr.DestroyClientIDEncryptionKeyPair(idX) }},
		{name: "destroy-storage-sym", kind: kDestroy, groups: []keyGroup{grpStorageSym(idX)}, run: func(h *handle) error { return h.wr.DestroyClientIDSymmetricKey(idX) }},
		{name: "destroy-hmac", kind: kDestroy, groups: []keyGroup{grpHmac(idX)}, run: func(h *handle) error { return h.wr.DestroyHmacSecretKey(idX) }, thorough: true},
		{name: "destroy-poison-pair", kind: kDestroy, groups: []keyGroup{grpPoisonPair()}, run: func(h *handle) error { return h.wr.DestroyPoisonKeyPair() }, thorough: true},
		{name: "destroy-poison-sym", kind: kDestroy, groups: []keyGroup{grpPoisonSym()}, run: func(h *handle) error { return h.wr.DestroyPoisonSymmetricKey() }, thorough: true},
		// destroy rotated (index 2 = newest rotated key in the listing numbering)
		{name: "destroy-rotated-storage-pair", kind: kDestroyRotated, groups: []keyGroup{grpStoragePair(idX)}, run: func(h *handle) error { return h.wr.DestroyRotatedClientIDEncryptionKeyPair(idX, 2) }},
		{name: "destroy-rotated-storage-sym", kind: kDestroyRotated, groups: []keyGroup{grpStorageSym(idX)}, run: func(h *handle) error { return h.wr.DestroyRotatedClientIDSymmetricKey(idX, 2) }},
		{name: "destroy-rotated-hmac", kind: kDestroyRotated, groups: []keyGroup{grpHmac(idX)}, run: func(h *handle) error { return h.wr.DestroyRotatedHmacSecretKey(idX, 2) }, thorough: true},
		{name: "destroy-rotated-poison-pair", kind: kDestroyRotated, groups: []keyGroup{grpPoisonPair()}, run: func(h *handle) error { return h.wr.DestroyRotatedPoisonKeyPair(2) }, thorough: true},
		{name: "destroy-rotated-poison-sym", kind: kDestroyRotated, groups: []keyGroup{grpPoisonSym()}, run: func(h *handle) error { return h.wr.DestroyRotatedPoisonSymmetricKey(2) }, thorough: true},
		// the call acra-rotate's saveRotatedKeys makes for every re-encrypted client
		{name: "save-storage-pair", kind: kSave, groups: []keyGroup{grpStoragePair(idX)}, run: func(h *handle) error { return h.wr.SaveDataEncryptionKeys(idX, copyPair(f.savePair)) }},
		// import of an export bundle (acra-keys import library path)
		{name: "import-bundle", kind: kImport, only: "v1", groups: clientGroups(idImp), run: func(h *handle) error {
			b, err := filesystem.NewKeyBackuper(h.w.dir, "", h.storage(), h.enc, nil)
			if err != nil {
				return err
			}
			_, err = b.Import(copyBackup(f.v1Bundle))
			return err
		}},
		{name: "import-bundle-over-existing", kind: kImport, only: "v1", groups: append(clientGroups(idImp), clientGroups(idX)...), run: func(h *handle) error {
			b, err := filesystem.NewKeyBackuper(h.w.dir, "", h.storage(), h.enc, nil)
			if err != nil {
				return err
			}
			_, err = b.Import(copyBackup(f.v1BundleX))
			return err
		}},
		{name: "import-bundle", kind: kImport, only: "v2", groups: clientGroups(idImp), run: func(h *handle) error {
			b, err := keystoreV2.NewKeyBackuper("", "", h.v2)
			if err != nil {
				return err
			}
			_, err = b.Import(copyBackup(f.v2Bundle))
			return err
		}},
		{name: "import-keyrings", kind: kImport, only: "v2", groups: clientGroups(idImp), run: func(h *handle) error {
			_, err := h.v2.ImportKeyRings(append([]byte(nil), f.v2Rings...), f.v2Suite, nil)
			return err
		}},
		{name: "import-keyrings-overwrite", kind: kImport, only: "v2", groups: clientGroups(idX), run: func(h *handle) error {
			_, err := h.v2.ImportKeyRings(append([]byte(nil), f.v2RingsX...), f.v2Suite, overwriteDelegate{})
			return err
		}},
	}
	return ops
}

// ---------------------------------------------------------------------------------------------
// history prefixes

type history struct {
	name  string
	build func(h *handle)
}

func genAll(h *handle, id []byte) {
	must(ksrig.GenClient(h.wr, id))
}

func genGlobal(h *handle) {
	must(h.wr.GenerateLogKey())
	must(h.wr.GeneratePoisonKeyPair())
	must(h.wr.GeneratePoisonSymmetricKey())
}

func histories(rot1, rot2 int) []history {
	return []history{
		{"empty", func(h *handle) {}},
		{"one-key", func(h *handle) { genAll(h, idX); genGlobal(h) }},
		{"rotated-twice", func(h *handle) {
			for i := 0; i < 3; i++ {
				genAll(h, idX)
				genGlobal(h)
			}
		}},
		{"other-clients", func(h *handle) {
			genAll(h, idOther1)
			genAll(h, idX)
			genGlobal(h)
			genAll(h, idOther2)
			for i := 0; i < rot1; i++ {
				genAll(h, idOther1)
			}
			for i := 0; i < rot2; i++ {
				genAll(h, idOther2)
			}
			genAll(h, idX) // clientx rotated once
			must(h.wr.GeneratePoisonSymmetricKey())
		}},
	}
}

func describe(kind string, hist string, op *opSpec) string {
	return fmt.Sprintf("%s/%s/%s", kind, hist, op.name)
}

func pairConsistent(priv, pub []byte) bool { return ksdump.PairConsistent(priv, pub) }
