package c08

// Watchdog of the faulted operation and of every post-fault probe (reads, listings, further writes): property clause "the
// keystore keeps accepting reads, listings and further writes". Each case runs in a goroutine of its own and announces the step it
// is in (stepTracker); when one step has been running for hangBound the watcher takes two dumps of that goroutine 2 s apart: blocked
// both times in a lock acquisition / flock / channel wait with the same stack = the call never returns -> violation; the world
// and the goroutine are abandoned. A goroutine that is still moving is waited for up to hangGiveUp, then the case is inconclusive.
// Wall-clock time only decides WHEN to look; the verdict is what the two dumps show.

import (
	"fmt"
	"runtime"
	"strconv"
	"strings"
	"sync"
	"time"
)

const (
	hangBound     = 15 * time.Second
	hangGiveUp    = 120 * time.Second
	hangsPerOp    = 3 // stop enumerating an operation after this many hangs
	hangsPerLayer = 9 // ... and a (layer, format) after this many
)

type stepTracker struct {
	mu    sync.Mutex
	gid   int
	name  string
	seq   int
	since time.Time
}

func curGID() int {
	buf := make([]byte, 64)
	n := runtime.Stack(buf, false)
	f := strings.Fields(string(buf[:n]))
	if len(f) >= 2 {
		id, _ := strconv.Atoi(f[1])
		return id
	}
	return -1
}

// begin is called by the case goroutine itself.
func (t *stepTracker) begin() {
	t.mu.Lock()
	t.gid = curGID()
	t.name, t.since = "start", time.Now()
	t.mu.Unlock()
}

func (t *stepTracker) step(name string) {
	if t == nil {
		return
	}
	t.mu.Lock()
	t.name, t.since = name, time.Now()
	t.seq++
	t.mu.Unlock()
}

func (t *stepTracker) get() (gid int, name string, seq int, since time.Time) {
	t.mu.Lock()
	defer t.mu.Unlock()
	return t.gid, t.name, t.seq, t.since
}

// goroutineStack returns the wait state and the function frames (innermost first) of goroutine gid.
func goroutineStack(gid int) (state string, frames []string) {
	buf := make([]byte, 1<<20)
	for {
		n := runtime.Stack(buf, true)
		if n < len(buf) {
			buf = buf[:n]
			break
		}
		buf = make([]byte, 2*len(buf))
	}
	hdr := fmt.Sprintf("goroutine %d [", gid)
	for _, blk := range strings.Split(string(buf), "\n\n") {
		if !strings.HasPrefix(blk, hdr) {
			continue
		}
		lines := strings.Split(blk, "\n")
		state = strings.TrimPrefix(lines[0], hdr)
		if i := strings.IndexAny(state, ",]"); i >= 0 {
			state = state[:i]
		}
		for _, l := range lines[1:] {
			if strings.HasPrefix(l, "\t") || l == "" {
				continue
			}
			if strings.HasPrefix(l, "created by ") {
				break
			}
			if i := strings.LastIndex(l, "("); i > 0 {
				l = l[:i]
			}
			frames = append(frames, l)
		}
		return
	}
	return "gone", nil
}

func waitState(s string) bool {
	for _, p := range []string{"semacquire", "sync.", "chan ", "select", "syscall"} {
		if strings.HasPrefix(s, p) {
			return true
		}
	}
	return false
}

const acraPkg = "github.com/cossacklabs/acra/"

func innermostAcra(frames []string) string {
	for _, f := range frames {
		if i := strings.Index(f, acraPkg); i >= 0 {
			return f[i+len(acraPkg):]
		}
	}
	return "no-acra-frame"
}

type hangVerdict struct {
	hung      bool // blocked for good
	gaveUp    bool // still moving after hangGiveUp
	step      string
	state     string
	blockedIn string
	stack     []string
}

// watch waits for done; see the file comment.
func watch(t *stepTracker, done <-chan struct{}) hangVerdict {
	checked := -1
	tick := time.NewTicker(500 * time.Millisecond)
	defer tick.Stop()
	for {
		select {
		case <-done:
			return hangVerdict{}
		case <-tick.C:
		}
		gid, name, seq, since := t.get()
		age := time.Since(since)
		if age > hangGiveUp {
			return hangVerdict{gaveUp: true, step: name}
		}
		if age > hangBound && checked != seq {
			checked = seq
			s1, f1 := goroutineStack(gid)
			select {
			case <-done:
				return hangVerdict{}
			case <-time.After(2 * time.Second):
			}
			s2, f2 := goroutineStack(gid)
			_, _, seq2, _ := t.get()
			if seq2 == seq && waitState(s1) && s1 == s2 && len(f1) > 0 && strings.Join(f1, "\n") == strings.Join(f2, "\n") {
				return hangVerdict{hung: true, step: name, state: s1, blockedIn: innermostAcra(f1), stack: f1}
			}
		}
	}
}

// hang accounting (caps)
type hangCaps struct {
	mu sync.Mutex
	n  map[string]int
}

func (h *hangCaps) add(keys ...string) {
	h.mu.Lock()
	if h.n == nil {
		h.n = map[string]int{}
	}
	for _, k := range keys {
		h.n[k]++
	}
	h.mu.Unlock()
}

func (h *hangCaps) capped(opKey, layerKey string) bool {
	h.mu.Lock()
	defer h.mu.Unlock()
	return h.n[opKey] >= hangsPerOp || h.n[layerKey] >= hangsPerLayer
}

// guardCase runs body in a goroutine under the watchdog. layer/kind/op/call/mode go into the signature.
func (m *monitor) guardCase(layer, kind, op, callClass, mode string, detail func() map[string]interface{}, body func(t *stepTracker)) {
	r := m.r
	opKey, layerKey := layer+"|"+kind+"|"+op, layer+"|"+kind
	if m.hangs.capped(opKey, layerKey) {
		r.Count("cases_not_run_after_repeated_hangs", 1)
		r.SetAdd("enumeration_stopped_after_hangs", opKey)
		return
	}
	t := &stepTracker{since: time.Now()}
	done := make(chan struct{})
	go func() {
		defer close(done)
		t.begin()
		body(t)
	}()
	v := watch(t, done)
	pfx := ""
	if isRedis(kind) {
		pfx = "redis "
	}
	what := fmt.Sprintf("%s%s %s op=%s fault=%s mode=%s", pfx, layer, kind, op, callClass, mode)
	switch {
	case v.hung:
		m.hangs.add(opKey, layerKey)
		r.Count("hangs_reported", 1)
		stepName := v.step
		if stepName == "operation" {
			stepName = "operation never returns"
		} else {
			stepName += " never returns"
		}
		d := map[string]interface{}{}
		if detail != nil {
			d = detail()
		}
		d["step"], d["goroutine_state"], d["blocked_stack_innermost_first"], d["seed"] = v.step, v.state, v.stack, r.Seed
		d["how_decided"] = fmt.Sprintf("step running for more than %v; two dumps of its goroutine 2 s apart show the same stack in state %q", hangBound, v.state)
		r.Violation(fmt.Sprintf("%s: %s (blocked in %s)", what, stepName, v.blockedIn), d)
	case v.gaveUp:
		r.Inconclusive(fmt.Sprintf("watchdog: %s: step %q still running (not blocked at one place) after %v", what, v.step, hangGiveUp))
	}
}
