package c08

import (
	"fmt"
	"os"

	"github.com/cossacklabs/themis/gothemis/keys"

	"github.com/cossacklabs/acra/keystore"
	"github.com/cossacklabs/acra/keystore/filesystem"
	keystoreV2 "github.com/cossacklabs/acra/keystore/v2/keystore"
	"github.com/cossacklabs/acra/keystore/v2/keystore/filesystem/backend"

	"verif/harness/internal/rig/fakeredis"
	"verif/harness/internal/rig/ksdump"
	"verif/harness/internal/rig/ksrig"
)

// writer is the write surface both server keystores offer (the operations of the property's quantifier).
type writer interface {
	GenerateDataEncryptionKeys(id []byte) error
	GenerateClientIDSymmetricKey(id []byte) error
	GenerateHmacKey(id []byte) error
	GenerateLogKey() error
	GeneratePoisonKeyPair() error
	GeneratePoisonSymmetricKey() error
	DestroyClientIDEncryptionKeyPair(id []byte) error
	DestroyClientIDSymmetricKey(id []byte) error
	DestroyHmacSecretKey(id []byte) error
	DestroyPoisonKeyPair() error
	DestroyPoisonSymmetricKey() error
	DestroyRotatedClientIDEncryptionKeyPair(id []byte, index int) error
	DestroyRotatedClientIDSymmetricKey(id []byte, index int) error
	DestroyRotatedHmacSecretKey(id []byte, index int) error
	DestroyRotatedPoisonKeyPair(index int) error
	DestroyRotatedPoisonSymmetricKey(index int) error
	SaveDataEncryptionKeys(id []byte, keypair *keys.Keypair) error
}

// world is one keystore's storage plus what is needed to open handles on it.
//
//	kind "v1"    : directory + master key, filesystem.Storage interposed
//	kind "v2mem" : in-memory back end, api.Backend interposed
//	kind "v2dir" : directory back end, api.Backend interposed (every handle opens its own DirectoryBackend, like a restarted process)
//	kind "v1redis" / "v2redis" : Acra's filesystem.RedisStorage / backend.RedisBackend on a rig/fakeredis server of its own
//	                (redis.go); every handle opens its own connection pool, like a restarted process
type world struct {
	kind    string
	dir     string
	master  []byte
	noLinks bool
	cache   int
	mem     *backend.InMemory
	keys    ksrig.V2Keys
	srv     *fakeredis.Server // Redis kinds
}

func isV1(kind string) bool    { return kind == "v1" || kind == "v1redis" }
func isRedis(kind string) bool { return kind == "v1redis" || kind == "v2redis" }

func (w *world) v2() bool { return !isV1(w.kind) }

type handle struct {
	w     *world
	st    ksdump.Store
	wr    writer
	v1    *filesystem.KeyStore
	v2    *keystoreV2.ServerKeyStore
	fs    *ksrig.FaultStorage // v1, nil for plain handles
	be    *ksrig.FaultBackend // v2, nil for plain handles
	enc   keystore.KeyEncryptor
	close func()
	rst   filesystem.Storage // v1redis: the RedisStorage of this handle (unwrapped)
	cmd   *cmdInjector       // Redis kinds, command-level fault injection (redis.go); nil otherwise
}

func (h *handle) setPlan(p ksrig.FaultPlan) {
	if h.cmd != nil {
		h.cmd.arm(p)
		return
	}
	if h.fs != nil {
		h.fs.SetPlan(p)
	}
	if h.be != nil {
		h.be.SetPlan(p)
	}
}

func (h *handle) calls() []ksrig.FaultCall {
	if h.cmd != nil {
		return h.cmd.Calls()
	}
	if h.fs != nil {
		return h.fs.Calls()
	}
	if h.be != nil {
		return h.be.Calls()
	}
	return nil
}

func (h *handle) fired() bool {
	if h.cmd != nil {
		return h.cmd.Fired()
	}
	if h.fs != nil {
		return h.fs.Fired()
	}
	if h.be != nil {
		return h.be.Fired()
	}
	return false
}

// storage returns the v1 storage this handle writes through (fault wrapper or plain).
func (h *handle) storage() filesystem.Storage {
	if h.fs != nil {
		return h.fs
	}
	if h.rst != nil {
		return h.rst
	}
	return &filesystem.DummyStorage{}
}

func (h *handle) dump(clients [][]byte) *ksdump.Dump {
	o := ksdump.Options{Clients: clients}
	if h.v1 != nil {
		o.CacheOnStart = h.v1.CacheOnStart
	}
	if h.v2 != nil {
		o.Rings = h.v2
	}
	return ksdump.Read(h.st, o)
}

func newWorld(kind string, cache int, noLinks bool) *world {
	w := &world{kind: kind, cache: cache, noLinks: noLinks}
	switch kind {
	case "v1":
		w.dir = ksrig.ScratchDir("c08-v1")
		w.master = ksrig.RandBytes(32)
	case "v2mem":
		w.mem = backend.NewInMemory()
		w.keys = ksrig.NewV2Keys()
	case "v2dir":
		w.dir = ksrig.ScratchDir("c08-v2")
		w.keys = ksrig.NewV2Keys()
	case "v1redis", "v2redis":
		newRedisWorld(w)
	default:
		panic(kind)
	}
	return w
}

// clone copies the storage into an independent world (same keys).
func (w *world) clone() *world {
	c := *w
	switch w.kind {
	case "v1":
		c.dir = ksrig.ScratchDir("c08-v1")
		if err := ksrig.FaultCopyTree(w.dir, c.dir); err != nil {
			panic(err)
		}
	case "v2mem":
		st, err := ksrig.FaultDumpBackend(w.mem)
		if err != nil {
			panic(err)
		}
		c.mem = ksrig.FaultRestoreMem(st).(*backend.InMemory)
	case "v2dir":
		c.dir = ksrig.ScratchDir("c08-v2")
		if err := ksrig.FaultCopyTree(w.dir, c.dir); err != nil {
			panic(err)
		}
	case "v1redis", "v2redis":
		c.srv = fakeredis.StartWith(w.srv.Snapshot())
		c.srv.SetLogging(false)
	}
	return &c
}

func (w *world) dispose() {
	if w.srv != nil {
		redisNoteDispose(w)
		w.srv.Close()
		return
	}
	if w.dir != "" {
		os.RemoveAll(w.dir)
	}
}

// files lists the storage content (relative path classes -> size), for the diagnosis of leftovers.
func (w *world) files() map[string]int {
	out := map[string]int{}
	switch w.kind {
	case "v1", "v2dir":
		t, err := ksrig.FaultDumpTree(w.dir)
		if err != nil {
			return out
		}
		for p, f := range t {
			if !f.Dir {
				out[p] = len(f.Data)
			}
		}
	case "v2mem":
		st, _ := ksrig.FaultDumpBackend(w.mem)
		for p, d := range st {
			out[p] = len(d)
		}
	case "v1redis", "v2redis":
		return w.redisFiles()
	}
	return out
}

type nopCloseBackend struct{ backend.Backend }

func (nopCloseBackend) Close() error { return nil }

// open returns a handle whose storage calls go through a fault wrapper (no fault armed yet).
// onCrash receives the snapshot world taken at the crash instant.
func (w *world) open(onCrash func(*world)) *handle {
	snap := func() {
		if onCrash != nil {
			s := w.clone()
			s.settle()
			onCrash(s)
		}
	}
	h := &handle{w: w, close: func() {}}
	switch w.kind {
	case "v1redis", "v2redis":
		w.openRedis(h, snap, true)
	case "v1":
		fs := ksrig.NewFaultStorage(&filesystem.DummyStorage{}, w.dir, snap)
		fs.NoHardLinks = w.noLinks
		ks, err := ksrig.V1WithStorage(w.dir, w.master, w.cache, fs)
		if err != nil {
			panic(fmt.Sprintf("open v1: %v", err))
		}
		h.fs, h.v1, h.st, h.wr = fs, ks, ks, ks
		h.enc, _ = keystore.NewSCellKeyEncryptor(w.master)
	case "v2mem":
		be := ksrig.NewFaultBackend(nopCloseBackend{w.mem}, snap)
		ks, err := ksrig.V2OnBackend(be, w.keys)
		if err != nil {
			panic(fmt.Sprintf("open v2mem: %v", err))
		}
		h.be, h.v2, h.st, h.wr = be, ks, ks, ks
		h.close = func() { ks.Close() }
	case "v2dir":
		inner, err := backend.CreateDirectoryBackend(w.dir)
		if err != nil {
			panic(fmt.Sprintf("open v2dir: %v", err))
		}
		be := ksrig.NewFaultBackend(inner, snap)
		ks, err := ksrig.V2OnBackend(be, w.keys)
		if err != nil {
			panic(fmt.Sprintf("open v2dir: %v", err))
		}
		h.be, h.v2, h.st, h.wr = be, ks, ks, ks
		h.close = func() { ks.Close() }
	}
	return h
}

// openPlain returns a fresh handle straight on the storage (what a restarted process has).
func (w *world) openPlain() *handle {
	h := &handle{w: w, close: func() {}}
	switch w.kind {
	case "v1redis", "v2redis":
		w.openRedis(h, nil, false)
	case "v1":
		var ks *filesystem.KeyStore
		var err error
		if w.noLinks {
			fs := ksrig.NewFaultStorage(&filesystem.DummyStorage{}, w.dir, nil)
			fs.NoHardLinks = true
			ks, err = ksrig.V1WithStorage(w.dir, w.master, w.cache, fs)
			h.fs = fs
		} else {
			ks, err = ksrig.V1(w.dir, w.master, w.cache)
		}
		if err != nil {
			panic(fmt.Sprintf("open v1: %v", err))
		}
		h.v1, h.st, h.wr = ks, ks, ks
		h.enc, _ = keystore.NewSCellKeyEncryptor(w.master)
	case "v2mem":
		ks, err := ksrig.V2OnBackend(nopCloseBackend{w.mem}, w.keys)
		if err != nil {
			panic(err)
		}
		h.v2, h.st, h.wr = ks, ks, ks
		h.close = func() { ks.Close() }
	case "v2dir":
		ks, err := ksrig.V2Dir(w.dir, w.keys)
		if err != nil {
			panic(err)
		}
		h.v2, h.st, h.wr = ks, ks, ks
		h.close = func() { ks.Close() }
	}
	return h
}
