package c08

// Redis layer: the first layer's procedure and oracles over the Redis-backed keystores
//
//	v1redis : filesystem.KeyStore over Acra's filesystem.RedisStorage
//	v2redis : keystoreV2.ServerKeyStore over Acra's backend.RedisBackend
//
// each on a rig/fakeredis server of its own (clone = Snapshot + StartWith), with keys of other applications in the same
// database (other prefixes, look-alike prefixes), so that every SCAN of Acra runs over several pages, some of them empty.
//
// Two fault enumerations:
//   - storage level: the existing ksrig.FaultStorage / FaultBackend wrappers around RedisStorage / RedisBackend
//     (error-before/after, crash-before/after of every Storage / Backend call; no torn writes: a Redis command is atomic);
//   - command level (cmdInjector, a fakeredis hook): every Redis COMMAND the operation issues is failed with an error reply
//     (not applied), answered by a closed connection (not applied / applied), or is the last one before / the first one after
//     a process crash. This reaches the points BETWEEN the commands of one storage call (Copy = GET + SETNX, Stat = EXISTS +
//     STRLEN | SCAN, RemoveAll = SCAN.. + DEL, Lock = SET NX PX) and the client code that interprets replies.
//
// The v2 lock (SET <root>/.lock NX with a 10 s TTL) left by a crashed or failed holder expires on the server's virtual clock
// only: every post-fault world is "settled" (clock + 11 s) before it is probed. What is probed is therefore the keystore after
// the lock's time to live, which is the recovery the back end is designed around (a waiting Lock() also spins for 10 s).

import (
	"fmt"
	"reflect"
	"regexp"
	"strings"
	"sync"
	"sync/atomic"
	"time"
	"unsafe"

	"github.com/go-redis/redis/v7"

	"github.com/cossacklabs/acra/keystore"
	"github.com/cossacklabs/acra/keystore/filesystem"

	"verif/harness/internal/ev"
	"verif/harness/internal/rig/fakeredis"
	"verif/harness/internal/rig/ksrig"
)

const (
	redisDB     = 0
	redisV1Dir  = "acraks/v1"
	redisV2Root = "acraks/v2"
)

// foreign keys: other applications (and look-alike prefixes) in the same database. Never written by Acra.
func redisForeign() map[string]string {
	m := map[string]string{
		"acraks/v1-other/clientx_storage": "Zm9yZWlnbg==",
		"acraks/v1.old":                   "Zm9yZWlnbg==",
		"acraks/v2-other/version":         "9",
		"acraks/v2x/.lock":                "locked",
		"acraks":                          "plain",
		"clientx_storage":                 "Zm9yZWlnbg==",
	}
	for i := 0; i < 37; i++ {
		m[fmt.Sprintf("otherapp:session:%03d", i)] = fmt.Sprintf("payload-%d", i)
	}
	return m
}

func newRedisWorld(w *world) {
	w.srv = fakeredis.Start()
	w.srv.SetLogging(false)
	for k, v := range redisForeign() {
		w.srv.Put(redisDB, k, v)
	}
	switch w.kind {
	case "v1redis":
		w.dir = redisV1Dir
		w.master = ksrig.RandBytes(32)
	case "v2redis":
		w.dir = redisV2Root
		w.keys = ksrig.NewV2Keys()
	}
}

var (
	redisUnknownCmds   int64 // commands the stand-in does not implement, summed over all servers of the run
	redisForeignDamage int64 // foreign keys found changed when a world was disposed
	redisWorlds        int64
)

func redisNoteDispose(w *world) {
	atomic.AddInt64(&redisWorlds, 1)
	atomic.AddInt64(&redisUnknownCmds, int64(w.srv.Unknown()))
	atomic.AddInt64(&redisForeignDamage, int64(w.foreignChanged()))
}

// settle lets the v2 lock's time to live pass (virtual clock).
func (w *world) settle() {
	if w.srv != nil {
		w.srv.AdvanceClock(11 * time.Second)
	}
}

// redisFiles: keystore keys of the database relative to the keystore prefix -> stored length (foreign keys left out).
func (w *world) redisFiles() map[string]int {
	out := map[string]int{}
	d := w.srv.Snapshot()
	for k, v := range d.DBs[redisDB] {
		if strings.HasPrefix(k, w.dir+"/") {
			out[strings.TrimPrefix(k, w.dir+"/")] = len(v)
		}
	}
	return out
}

// foreignChanged counts foreign keys that no longer hold what was put there.
func (w *world) foreignChanged() int {
	n := 0
	d := w.srv.Snapshot().DBs[redisDB]
	for k, v := range redisForeign() {
		if got, ok := d[k]; !ok || got != v {
			n++
		}
	}
	return n
}

// closeV1Redis closes the connection pool of a filesystem.RedisStorage (the type has no Close; a monitor that opens
// thousands of handles must not leave their pools and reaper goroutines behind).
func closeV1Redis(st filesystem.Storage) {
	rs, ok := st.(*filesystem.RedisStorage)
	if !ok || rs == nil {
		return
	}
	defer func() { recover() }()
	f := reflect.ValueOf(rs).Elem().Field(0).Field(0)
	if f.Kind() != reflect.Ptr || f.IsNil() {
		return
	}
	c := *(**redis.Client)(unsafe.Pointer(f.UnsafeAddr()))
	c.Close()
}

// openRedis fills a handle on a Redis world. wrapped: Storage/Backend calls go through the ksrig fault wrapper.
func (w *world) openRedis(h *handle, snap func(), wrapped bool) {
	switch w.kind {
	case "v1redis":
		st, err := ksrig.V1RedisStorage(w.srv, redisDB)
		if err != nil {
			panic(fmt.Sprintf("open v1redis: %v", err))
		}
		h.rst = st
		var use filesystem.Storage = st
		if wrapped {
			fs := ksrig.NewFaultStorage(st, w.dir, snap)
			h.fs, use = fs, fs
		}
		ks, err := ksrig.V1WithStorage(w.dir, w.master, w.cache, use)
		if err != nil {
			closeV1Redis(st)
			panic(fmt.Sprintf("open v1redis: %v", err))
		}
		h.v1, h.st, h.wr = ks, ks, ks
		h.enc, _ = keystore.NewSCellKeyEncryptor(w.master)
		var once sync.Once
		h.close = func() { once.Do(func() { closeV1Redis(st) }) }
	case "v2redis":
		inner, err := ksrig.V2RedisBackend(w.srv, redisDB, w.dir)
		if err != nil {
			panic(fmt.Sprintf("open v2redis: %v", err))
		}
		if wrapped {
			be := ksrig.NewFaultBackend(inner, snap)
			ks, err := ksrig.V2OnBackend(be, w.keys)
			if err != nil {
				inner.Close()
				panic(fmt.Sprintf("open v2redis: %v", err))
			}
			h.be, h.v2, h.st, h.wr = be, ks, ks, ks
			var once sync.Once
			h.close = func() { once.Do(func() { ks.Close() }) }
		} else {
			ks, err := ksrig.V2OnBackend(inner, w.keys)
			if err != nil {
				inner.Close()
				panic(fmt.Sprintf("open v2redis: %v", err))
			}
			h.v2, h.st, h.wr = ks, ks, ks
			var once sync.Once
			h.close = func() { once.Do(func() { ks.Close() }) }
		}
	}
}

// openCmd returns a handle straight on the Redis storage / back end (no Storage-level wrapper) whose Redis COMMANDS go through
// a cmdInjector installed as the server's hook.
func (w *world) openCmd() *handle {
	h := &handle{w: w, close: func() {}}
	w.openRedis(h, nil, false)
	h.cmd = newCmdInjector(w)
	return h
}

// ---------------------------------------------------------------------------------------------
// command-level injector

var (
	reCmdTmp = regexp.MustCompile(`(\D)\d{6,}$`)
)

type cmdInjector struct {
	w     *world
	mu    sync.Mutex
	plan  ksrig.FaultPlan
	alt   string // "drop-before": the error mode "connection closed, command not applied"
	calls []ksrig.FaultCall
	fired bool
	dead  bool
	armed bool
	spin  int // consecutive SET <root>/.lock NX commands seen (a Lock() waiting for an abandoned lock)
}

func newCmdInjector(w *world) *cmdInjector { return &cmdInjector{w: w} }

func (ci *cmdInjector) normKey(k string) string {
	if k == ci.w.dir {
		return "."
	}
	if !strings.HasPrefix(k, ci.w.dir+"/") {
		return "<outside>" + k
	}
	k = strings.TrimPrefix(k, ci.w.dir+"/")
	k = reTS.ReplaceAllString(k, "<ts>")
	if isV1(ci.w.kind) {
		k = reCmdTmp.ReplaceAllString(k, "$1~tmp")
	}
	return k
}

// cmdCall turns a received command into a FaultCall: Op = command name, Path(s) = normalised key(s).
func (ci *cmdInjector) cmdCall(c *fakeredis.Cmd) ksrig.FaultCall {
	fc := ksrig.FaultCall{Op: c.Name, DataLen: -1, Mutates: c.Mutates}
	a := c.Args
	switch c.Name {
	case "SCAN":
		for i := 1; i+1 < len(a); i++ {
			if strings.EqualFold(a[i], "MATCH") {
				fc.Path = ci.normKey(strings.TrimSuffix(a[i+1], "/*")) + "/*"
			}
		}
	case "RENAME", "RENAMENX":
		if len(a) >= 2 {
			fc.Path, fc.Path2 = ci.normKey(a[0]), ci.normKey(a[1])
		}
	case "DEL", "UNLINK", "EXISTS", "MGET":
		if len(a) >= 1 {
			fc.Path = ci.normKey(a[0])
		}
		if len(a) > 1 {
			fc.Path2 = fmt.Sprintf("+%d", len(a)-1)
		}
	default:
		if len(a) >= 1 {
			fc.Path = ci.normKey(a[0])
		}
		if c.Name == "SET" || c.Name == "SETNX" {
			if len(a) >= 2 {
				fc.DataLen = len(a[1])
			}
			for _, x := range a[2:] {
				if strings.EqualFold(x, "nx") {
					fc.Op = "SETNX"
				}
			}
		}
	}
	return fc
}

var cmdIgnored = map[string]bool{"PING": true, "SELECT": true, "AUTH": true, "ECHO": true}

func (ci *cmdInjector) hook(c *fakeredis.Cmd) fakeredis.Action {
	ci.mu.Lock()
	defer ci.mu.Unlock()
	if !ci.armed || cmdIgnored[c.Name] {
		if ci.dead {
			return fakeredis.DropBefore
		}
		return fakeredis.Proceed
	}
	call := ci.cmdCall(c)
	call.Seq = len(ci.calls) + 1
	if call.Op == "SETNX" && call.Path == ".lock" {
		// RedisBackend.Lock spins on SET NX for up to 10 s of wall time; the lock it waits for (left by an Unlock whose DEL
		// failed) has a 10 s time to live, so a real waiter always gets it in the end. The server's clock is virtual:
		// a second attempt in a row means "time passes while waiting" -> let the time to live pass.
		ci.spin++
		if ci.spin == 2 {
			go ci.w.srv.AdvanceClock(11 * time.Second)
		}
	} else {
		ci.spin = 0
	}
	if ci.dead {
		call.Err = ksrig.ErrFaultDead.Error()
		ci.calls = append(ci.calls, call)
		return fakeredis.DropBefore
	}
	act := fakeredis.Proceed
	if ci.plan.Mode != ksrig.FaultNone && call.Seq == ci.plan.At && !ci.fired {
		ci.fired = true
		call.Faulted = ci.plan.Mode.String()
		switch ci.plan.Mode {
		case ksrig.FaultErrBefore:
			act = fakeredis.FailBefore
			if ci.alt == "drop-before" {
				act = fakeredis.DropBefore
				call.Faulted = ci.alt
			}
		case ksrig.FaultErrAfter:
			act = fakeredis.DropAfter
		case ksrig.FaultCrashBefore:
			act, ci.dead = fakeredis.DropBefore, true
		case ksrig.FaultCrashAfter:
			act, ci.dead = fakeredis.DropAfter, true
		}
	}
	ci.calls = append(ci.calls, call)
	return act
}

// arm installs the hook; the command counter restarts.
func (ci *cmdInjector) arm(p ksrig.FaultPlan) {
	ci.mu.Lock()
	ci.plan, ci.calls, ci.fired, ci.armed = p, nil, false, true
	ci.mu.Unlock()
	ci.w.srv.SetHook(ci.hook)
}

// disarm removes the hook. It is called when the operation has returned: from the crash point on every command of the
// (single, synchronous) handle was dropped unapplied, so the dataset is the one of the crash instant.
func (ci *cmdInjector) disarm() {
	ci.mu.Lock()
	ci.armed = false
	ci.mu.Unlock()
	ci.w.srv.SetHook(nil)
}

func (ci *cmdInjector) Calls() []ksrig.FaultCall {
	ci.mu.Lock()
	defer ci.mu.Unlock()
	return append([]ksrig.FaultCall(nil), ci.calls...)
}

func (ci *cmdInjector) Fired() bool { ci.mu.Lock(); defer ci.mu.Unlock(); return ci.fired }

// casesForCmd enumerates the fault modes of one recorded Redis command.
func casesForCmd(c ksrig.FaultCall, thorough bool) []faultCase {
	var out []faultCase
	add := func(m ksrig.FaultMode, alt string) { out = append(out, faultCase{k: c.Seq, mode: m, alt: alt}) }
	add(ksrig.FaultErrBefore, "") // error reply, not applied
	if c.Mutates {
		add(ksrig.FaultErrAfter, "") // applied, connection closed instead of the reply
		add(ksrig.FaultCrashBefore, "")
		add(ksrig.FaultCrashAfter, "")
		add(ksrig.FaultErrBefore, "drop-before") // connection closed, not applied
	} else {
		add(ksrig.FaultCrashBefore, "")
		if thorough {
			add(ksrig.FaultErrBefore, "drop-before")
		}
	}
	return out
}

// ---------------------------------------------------------------------------------------------
// jobs, counters, guards

// redisJobs: (format, history, operation) combinations of the Redis layer, each once with faults at Storage/Backend calls
// and once with faults at Redis commands.
func redisJobs(thorough bool, ops []*opSpec, hs []history) []job {
	// quick tier: ten combinations (the v2 ones mostly on a small keystore: a dump of a v2 keystore costs three Redis round trips per entry), each at ONE fault level ("cmd" = Redis commands, "call" = Storage/Backend calls);
	// thorough: every operation after every history at both levels
	quick := func(kind string, h history, op *opSpec) string {
		key := kind + "/" + h.name + "/" + op.name
		switch key {
		case "v1redis/other-clients/generate-storage-pair", "v1redis/other-clients/destroy-storage-sym", "v1redis/empty/import-bundle",
			"v2redis/other-clients/generate-hmac", "v2redis/empty/import-keyrings", "v2redis/other-clients/destroy-storage-sym":
			return "cmd"
		case "v1redis/other-clients/generate-storage-sym", "v1redis/rotated-twice/destroy-rotated-storage-sym", "v1redis/other-clients/save-storage-pair",
			"v2redis/empty/generate-poison-sym":
			return "call"
		}
		return ""
	}
	var out []job
	for _, kind := range []string{"v1redis", "v2redis"} {
		for _, h := range hs {
			for _, op := range ops {
				if op.only != "" && !strings.HasPrefix(kind, op.only) {
					continue
				}
				lvl := quick(kind, h, op)
				if !thorough && lvl == "" {
					continue
				}
				if thorough && h.name == "one-key" {
					continue // thorough: every operation after empty / rotated-twice / other-clients
				}
				if thorough || lvl == "call" {
					out = append(out, job{kind: kind, hist: h, op: op, cache: keystore.InfiniteCacheSize})
				}
				if thorough || lvl == "cmd" {
					out = append(out, job{kind: kind, hist: h, op: op, cache: keystore.InfiniteCacheSize, cmd: true})
				}
			}
		}
	}
	return out
}

func redisLevel(j job) string {
	if j.cmd {
		return "command"
	}
	return "storage-call"
}

func (m *monitor) redisTraceStats(j job, ff *ffResult) {
	r := m.r
	r.SetAdd("redis_formats", j.kind)
	r.SetAdd("redis_operations", j.kind+":"+j.op.name)
	r.Count("redis_fault_free_traces:"+redisLevel(j), 1)
	r.Count("redis_fault_free_calls:"+redisLevel(j), int64(len(ff.trace)))
	for _, c := range ff.trace {
		if j.cmd {
			r.SetAdd("redis_commands_faulted", j.kind+":"+c.Op)
		} else {
			r.SetAdd("redis_storage_calls_faulted", j.kind+":"+c.Op)
		}
	}
	r.SampleN("redis-trace:"+j.kind+":"+redisLevel(j), 1, map[string]interface{}{"what": "fault-free trace (Redis layer, " + redisLevel(j) + " level)", "format": j.kind, "history": j.hist.name, "op": j.op.name, "calls": classes(ff.trace)})
}

func (m *monitor) redisCaseStats(c *caseCtx) {
	r := m.r
	r.Count("redis_fault_runs_fired", 1)
	r.Count("redis_fault_runs_fired:"+redisLevel(c.j), 1)
	r.Count("redis_mode:"+redisLevel(c.j)+":"+c.fc.modeName(), 1)
	r.SetAdd("redis_fault_points", fmt.Sprintf("%s|%s|%s|%s", c.j.kind, c.j.op.name, c.call.Class(), c.fc.modeName()))
}

func redisGuards(r *ev.Run) {
	if n := atomic.LoadInt64(&redisUnknownCmds); n > 0 {
		r.Inconclusive(fmt.Sprintf("fakeredis: unknown command received %d times (the stand-in does not cover what Acra asked for)", n))
	}
	r.Count("redis_servers_used", atomic.LoadInt64(&redisWorlds))
	// measured, not judged: the property speaks about the keystore's keys; keys of other applications in the same database
	// (other prefixes, look-alike prefixes) were checked on every server before it was closed
	r.Count("redis_foreign_keys_found_changed", atomic.LoadInt64(&redisForeignDamage))
	r.RequireAtLeast("redis_fault_runs_fired:storage-call", 100)
	r.RequireAtLeast("redis_fault_runs_fired:command", 200)
	r.RequireAtLeast("redis_crash_snapshots_probed", 100)
	r.RequireAtLeast("redis_error_returns_probed_same_handle", 100)
	r.RequireAtLeast("redis_mode:command:drop-before", 30)
	r.RequireAtLeast("redis_mode:command:error-after", 30)
	r.RequireSetAtLeast("redis_formats", 2)
	r.RequireSetAtLeast("redis_operations", 8)
	r.RequireSetAtLeast("redis_commands_faulted", 8)
	r.RequireSetAtLeast("redis_fault_points", 150)
}
