package c08

import (
	"errors"
	"fmt"
	"regexp"
	"sort"
	"strings"

	"github.com/cossacklabs/acra/keystore"

	"verif/harness/internal/rig/ksdump"
	"verif/harness/internal/rig/ksrig"
)

var (
	reScratch = regexp.MustCompile(`/\S*?/c08-v[12]-\d+-\d+`)
	reTS      = regexp.MustCompile(`\d{4}-\d{2}-\d{2}T\d{2}:\d{2}:\d{2}(\.\d+)?`)
	reTmp     = regexp.MustCompile(`(_storage|_sym|_hmac|_key|_server|_translator|\.pub)(\d{3,})`)
	reTmpName = regexp.MustCompile(`(^|/)[^/]*\D\d{3,}$`)
)

// normErr makes an error text stable (no scratch paths, timestamps, random temp suffixes); the texts by which the
// crypto layer says "this blob does not decrypt" are one class.
// errClass names an error in a signature: the text of the innermost wrapped error (normalised), so that context added around
// it by Acra ("failed to write ...: %w") does not change signatures or known-finding matches.
func errClass(err error) string {
	if err == nil {
		return ""
	}
	root := err
	for {
		u := errors.Unwrap(root)
		if u == nil {
			break
		}
		root = u
	}
	return normErr(root.Error())
}

func normErr(s string) string {
	for _, m := range []string{"failed to get output size", "failed to unprotect data", "empty message for Secure Cell", "failed to protect data"} {
		if strings.Contains(s, m) {
			return "key-unreadable"
		}
	}
	s = reScratch.ReplaceAllString(s, "<dir>")
	s = reTS.ReplaceAllString(s, "<ts>")
	s = reTmp.ReplaceAllString(s, "$1<rnd>")
	if len(s) > 160 {
		s = s[:160]
	}
	return s
}

// leftovers names what is in the storage now that neither the state before the operation nor the fault-free result has.
func leftovers(c *caseCtx, w *world) (kinds []string, files []string) {
	now := w.files()
	norm := func(p string) string { return reTS.ReplaceAllString(p, "<ts>") }
	known := map[string]bool{}
	for p := range c.ff.preFiles {
		known[norm(p)] = true
	}
	for p := range c.ff.postFiles {
		known[norm(p)] = true
	}
	ks := map[string]bool{}
	for p := range now {
		if known[norm(p)] {
			continue
		}
		files = append(files, p)
		switch {
		case strings.HasSuffix(p, ".keyring.new"):
			ks["keyring.new"] = true
		case isV1(c.j.kind) && reTmpName.MatchString(p):
			ks["tempfile"] = true
		default:
			ks["other"] = true
		}
	}
	for k := range ks {
		kinds = append(kinds, k)
	}
	sort.Strings(kinds)
	sort.Strings(files)
	if len(kinds) == 0 {
		kinds = []string{"none"}
	}
	return
}

// ringsWithoutCurrent lists v2 rings that exist but have no current key (diagnosis for listing failures).
func ringsWithoutCurrent(d *ksdump.Dump) []string {
	var out []string
	for name, e := range d.E {
		if strings.HasPrefix(name, "ring/") && !strings.HasSuffix(name, "#current") && e.OK() {
			if cur := ent(d, name+"#current"); !cur.OK() && cur.Absent {
				out = append(out, strings.TrimPrefix(name, "ring/"))
			}
		}
	}
	sort.Strings(out)
	return out
}

// ent reads an entry; a name the dump does not have (e.g. the ring-level view of a ring that does not exist) is absent.
func ent(d *ksdump.Dump, n string) ksdump.Entry {
	if e, ok := d.E[n]; ok {
		return e
	}
	return ksdump.Entry{Err: "no such entry", Absent: true}
}

// emptyish: nothing is readable under this name, without any failure other than "not there".
func emptyish(e ksdump.Entry) bool {
	return (e.OK() && len(e.Vals) == 0) || (!e.OK() && e.Panic == "" && e.Absent)
}

// same: equal entries, where "absent" and "present but empty" (a v2 ring that exists with no keys / no current key) are one class.
func same(a, b ksdump.Entry) bool {
	if emptyish(a) && emptyish(b) {
		return true
	}
	return a.Equal(b)
}

func has(vals [][]byte, v []byte) bool {
	for _, x := range vals {
		if string(x) == string(v) {
			return true
		}
	}
	return false
}

func entryClass(e ksdump.Entry) string {
	switch {
	case e.Panic != "":
		return "panic"
	case e.OK() && len(e.Vals) == 0:
		return "empty"
	case e.OK():
		return "different-value"
	case e.Absent:
		return "absent"
	}
	return "unreadable"
}

type diagFn func() map[string]interface{}

func (m *monitor) diagnose(c *caseCtx, key string, d *ksdump.Dump, w *world) (diagFn, func() string) {
	diag := func() map[string]interface{} {
		kinds, files := leftovers(c, w)
		return map[string]interface{}{key: d.Render(), "fault_free_result": c.ff.post.Render(), "leftover_kinds": kinds, "leftover_files": files, "rings_without_current": ringsWithoutCurrent(d)}
	}
	tag := func() string {
		kinds, _ := leftovers(c, w)
		t := "leftover=" + strings.Join(kinds, "+")
		if rw := ringsWithoutCurrent(d); len(rw) > 0 && len(ringsWithoutCurrent(c.ff.pre)) == 0 {
			t += ",ring-without-current"
		}
		return t
	}
	return diag, tag
}

// common clauses (5) (1) (3)
func (m *monitor) checkCommon(c *caseCtx, phase string, d *ksdump.Dump, diag diagFn, tag func() string) {
	r := m.r
	pre := c.ff.pre
	// (5) "nothing panics"
	for _, n := range d.Names() {
		if e := d.E[n]; e.Panic != "" {
			m.violate(c, phase, fmt.Sprintf("read-panic(%s@%s)", n, e.Panic), diag())
		}
	}
	for n, l := range d.L {
		if l.Panic != "" {
			m.violate(c, phase, fmt.Sprintf("listing-panic(%s@%s)", n, l.Panic), diag())
		}
	}
	// (1) "every key that was readable before still reads with the same value" — entries the operation does not target
	for _, n := range pre.Names() {
		if c.tgt[n] || !pre.E[n].OK() {
			continue
		}
		r.Count("nontarget_entries_compared", 1)
		if e := ent(d, n); e.Panic == "" && !same(e, pre.E[n]) {
			m.violate(c, phase, fmt.Sprintf("nontarget-changed(%s:%s)", n, entryClass(e))+":"+tag(), diag())
		}
	}
	// (3) "the keystore keeps accepting reads, listings" — listings that worked before the operation must work now
	for n, l := range pre.L {
		if !l.OK() {
			continue
		}
		r.Count("listings_checked", 1)
		if got := d.L[n]; !got.OK() && got.Panic == "" {
			m.violate(c, phase, fmt.Sprintf("listing-broken(%s:%s)", n, normErr(got.Err))+":"+tag(), diag())
		}
	}
}

// check evaluates clauses (1) (2) (3) (5) on one dump of the post-fault state. Returns old / new / mixed.
func (m *monitor) check(c *caseCtx, phase string, d *ksdump.Dump, w *world) string {
	diag, tag := m.diagnose(c, "after_fault", d, w)
	m.checkCommon(c, phase, d, diag, tag)
	// (2) "the key being written is either still its old self (or absent) or completely the new one"
	outcome := "old"
	for _, g := range c.j.op.groups {
		switch m.checkGroup(c, phase, g, d, diag) {
		case "new":
			if outcome == "old" {
				outcome = "new"
			}
		case "mixed":
			outcome = "mixed"
		}
	}
	m.r.Count("outcome_target_"+outcome, 1)
	return outcome
}

// checkSameHandleAgainstStorage: clause (2) for the process that lives on after an error return. "Still its old self or completely
// the new one" is a statement about the KEY, not about a cache: a value the handle hands out for a targeted entry must be the
// value from before the operation or the value the storage holds now (what a fresh handle reads). A well-formed value that is
// neither — a new key kept in the handle's cache although it never reached the storage — is stored nowhere: data protected with it
// is lost at the next restart, when the handle silently goes back to the old key.
func (m *monitor) checkSameHandleAgainstStorage(c *caseCtx, phase string, dSame, dFresh *ksdump.Dump, w *world) {
	r := m.r
	v2 := !isV1(c.j.kind)
	diag := func() map[string]interface{} {
		kinds, files := leftovers(c, w)
		return map[string]interface{}{"same_handle_after_fault": dSame.Render(), "fresh_handle_after_fault": dFresh.Render(), "leftover_kinds": kinds, "leftover_files": files}
	}
	for _, g := range c.j.op.groups {
		for _, n := range g.names(v2) {
			eS, eP, eF := ent(dSame, n), ent(c.ff.pre, n), ent(dFresh, n)
			if !eS.OK() {
				continue // unreadable / absent / panic through the same handle: judged by the other clauses
			}
			r.Count("same_handle_target_entries_compared_with_storage", 1)
			if same(eS, eP) || same(eS, eF) {
				continue
			}
			nowhere := 0
			for _, v := range eS.Vals {
				if !(eP.OK() && has(eP.Vals, v)) && !(eF.OK() && has(eF.Vals, v)) {
					nowhere++
				}
			}
			if nowhere == 0 {
				continue // a list whose every element is an old or a stored value (files arrive one by one); what is MISSING is judged by check()
			}
			stored := "storage-holds-" + entryClass(eF)
			if eF.OK() && same(eF, eP) {
				stored = "storage-holds-the-old-value"
			}
			m.violate(c, phase, fmt.Sprintf("target-value-stored-nowhere(%s:%s)", n, stored), diag())
		}
	}
}

func isAggregate(g keyGroup, n string) bool {
	return n == g.all || (strings.HasPrefix(n, "ring/") && !strings.HasSuffix(n, "#current"))
}

// checkGroup applies clause (2) to one targeted key. Returns "old", "new" or "mixed".
func (m *monitor) checkGroup(c *caseCtx, phase string, g keyGroup, d *ksdump.Dump, diag diagFn) string {
	r := m.r
	pre, post := c.ff.pre, c.ff.post
	v2 := !isV1(c.j.kind)
	kind := c.j.op.kind
	r.Count("target_groups_checked", 1)
	isNew, isOld := false, true
	switch kind {
	case kDestroy, kDestroyRotated, kImport, kSave:
		// The values are determined: every targeted entry must be what it was before or what the fault-free operation leaves.
		// Per entry — v1 keeps the halves of a pair and every rotated version in separate files; atomicity ACROSS the
		// entries of one destroy/import is not demanded. Lists (get-all, ring view) are judged element by element.
		for _, n := range g.names(v2) {
			e, pe, po := ent(d, n), ent(pre, n), ent(post, n)
			okOld, okNew := same(e, pe), same(e, po)
			if !okOld {
				isOld = false
			}
			if okNew && !okOld {
				isNew = true
			}
			if okOld || okNew || e.Panic != "" {
				continue
			}
			if (kind == kDestroy || kind == kDestroyRotated) && !e.OK() {
				continue // destroying = making unreadable: any error class is "absent"
			}
			if isAggregate(g, n) && e.OK() {
				bad := 0
				for _, v := range e.Vals {
					if !(pe.OK() && has(pe.Vals, v)) && !(po.OK() && has(po.Vals, v)) {
						bad++
					}
				}
				if bad == 0 {
					continue
				}
			}
			m.violate(c, phase, fmt.Sprintf("target-neither-old-nor-new(%s:%s)", n, entryClass(e)), diag())
		}
	case kGenerate:
		cur, preCur := ent(d, g.cur), ent(pre, g.cur)
		preAll := ksdump.Entry{Err: "no getter", Absent: true}
		if g.all != "" {
			preAll = ent(pre, g.all)
		}
		switch {
		case same(cur, preCur):
		case cur.OK() && len(cur.Vals) == 1 && completeValue(g, cur.Vals[0]) && !(preAll.OK() && has(preAll.Vals, cur.Vals[0])):
			isNew, isOld = true, false
		case cur.Panic != "":
			return "mixed"
		case preCur.OK():
			m.violate(c, phase, fmt.Sprintf("target-lost(%s:%s)", g.cur, entryClass(cur)), diag())
			return "mixed"
		default:
			m.violate(c, phase, fmt.Sprintf("target-neither-old-nor-new(%s:%s)", g.cur, entryClass(cur)), diag())
			return "mixed"
		}
		if g.all != "" {
			all := ent(d, g.all)
			switch {
			case all.Panic != "":
			case preAll.OK() && !all.OK():
				m.violate(c, phase, fmt.Sprintf("old-keys-unreadable(%s:%s)", g.all, entryClass(all)), diag())
			case all.OK():
				var old [][]byte
				if preAll.OK() {
					old = preAll.Vals
				}
				if why := checkAll(g, old, all.Vals); why != "" {
					m.violate(c, phase, fmt.Sprintf("get-all-broken(%s:%s)", g.all, why), diag())
				} else if isNew && (len(all.Vals) == 0 || string(all.Vals[0]) != string(cur.Vals[0])) {
					m.violate(c, phase, fmt.Sprintf("get-all-broken(%s:new-current-key-not-first)", g.all), diag())
				}
			case !all.Absent:
				m.violate(c, phase, fmt.Sprintf("target-neither-old-nor-new(%s:%s)", g.all, entryClass(all)), diag())
			}
		}
		if v2 && g.ring != "" {
			rn := ksdump.RingName(g.ring)
			if pr := ent(pre, rn); pr.OK() {
				if now := ent(d, rn); now.Panic == "" && (!now.OK() || !suffixOf(pr.Vals, now.Vals)) {
					m.violate(c, phase, fmt.Sprintf("ring-history-changed(%s:%s)", rn, entryClass(now)), diag())
				}
			}
		}
		if g.pub != "" {
			pub, prePub := ent(d, g.pub), ent(pre, g.pub)
			if pub.Panic == "" && !same(pub, prePub) && !(pub.OK() && len(pub.Vals) == 1 && len(pub.Vals[0]) == 45 && string(pub.Vals[0][:4]) == "UEC2") {
				m.violate(c, phase, fmt.Sprintf("target-neither-old-nor-new(%s:%s)", g.pub, entryClass(pub)), diag())
			}
		}
	}
	// a key pair is ONE key: its two halves must belong together (the old pair or the new pair)
	if g.pair && kind != kDestroy && kind != kDestroyRotated {
		pub, priv := ent(d, g.pub), ent(d, g.cur)
		if pub.OK() && priv.OK() && len(pub.Vals) == 1 && len(priv.Vals) == 1 {
			pp, pv := ent(pre, g.pub), ent(pre, g.cur)
			prePairOK := !pp.OK() || !pv.OK() || len(pp.Vals) != 1 || len(pv.Vals) != 1 || pairConsistent(pv.Vals[0], pp.Vals[0])
			if prePairOK {
				r.Count("pair_consistency_checked", 1)
				if !pairConsistent(priv.Vals[0], pub.Vals[0]) {
					m.violate(c, phase, fmt.Sprintf("pair-mismatch(%s+%s:current-private-and-public-key-belong-to-different-pairs)", g.cur, g.pub), diag())
					return "mixed"
				}
			}
		}
	}
	if isNew {
		return "new"
	}
	if isOld {
		return "old"
	}
	return "mixed"
}

func suffixOf(old, now [][]byte) bool {
	if len(now) < len(old) {
		return false
	}
	off := len(now) - len(old)
	for i := range old {
		if string(old[i]) != string(now[off+i]) {
			return false
		}
	}
	return true
}

func completeValue(g keyGroup, v []byte) bool {
	if g.pair {
		return len(v) == 45 && string(v[:4]) == "REC2"
	}
	return len(v) == keystore.SymmetricKeyLength
}

// checkAll: old (newest first) must survive as a subsequence of now; keys that are not old ones must precede every old
// one and be complete.
func checkAll(g keyGroup, old, now [][]byte) string {
	i := 0
	for _, v := range now {
		if i < len(old) && string(v) == string(old[i]) {
			i++
		}
	}
	if i < len(old) {
		return fmt.Sprintf("old-key-missing(%d-of-%d-found)", i, len(old))
	}
	seenOld := false
	for _, v := range now {
		if has(old, v) {
			seenOld = true
			continue
		}
		if !completeValue(g, v) {
			return "incomplete-new-value"
		}
		if seenOld {
			return "new-key-behind-old-one"
		}
	}
	return ""
}

// checkRetry: clause (4) "keeps accepting ... further writes": the retried operation must succeed.
func (m *monitor) checkRetry(c *caseCtx, phase string, ro ksrig.FaultOutcome, w *world) bool {
	r := m.r
	r.Count("retries", 1)
	if ro.Panic != nil {
		m.violate(c, phase, "panic("+ksrig.FaultPanicSite(ro.PanicStack)+")", map[string]interface{}{"panic": fmt.Sprint(ro.Panic), "stack": ro.PanicStack})
		return false
	}
	if ro.Err != nil {
		if c.j.op.kind == kDestroy {
			// the first attempt may have completed (fault after the last effective call): "nothing left to destroy" is a legitimate answer
			r.Count("retry_nothing_left_to_destroy", 1)
			return false
		}
		if c.j.op.kind == kImport && strings.Contains(ro.Err.Error(), "imported key ring already exists") {
			// v2 import with the default delegate refuses rings that exist: after a partly completed import that is the
			// documented conflict policy, not a keystore that stopped accepting writes
			r.Count("retry_refused_by_import_conflict_policy", 1)
			return false
		}
		kinds, files := leftovers(c, w)
		m.violate(c, phase, fmt.Sprintf("write-blocked(%s):leftover=%s", errClass(ro.Err), strings.Join(kinds, "+")),
			map[string]interface{}{"retry_error": ro.Err.Error(), "leftover_files": files})
		return false
	}
	r.Count("retry_succeeded", 1)
	return true
}

// checkAfterRetry: (1)–(3) again, with the new key current.
func (m *monitor) checkAfterRetry(c *caseCtx, phase string, d *ksdump.Dump, w *world) {
	r := m.r
	pre, post := c.ff.pre, c.ff.post
	v2 := !isV1(c.j.kind)
	diag, tag := m.diagnose(c, "after_retry", d, w)
	m.checkCommon(c, phase, d, diag, tag)
	for _, g := range c.j.op.groups {
		r.Count("target_groups_checked_after_retry", 1)
		switch c.j.op.kind {
		case kImport, kSave:
			for _, n := range g.names(v2) {
				e, po := ent(d, n), ent(post, n)
				if e.Panic != "" {
					continue
				}
				if strings.HasPrefix(n, "ring/") && c.j.op.kind == kSave {
					continue // a retried save appends once more: seqnums differ from the fault-free run; the key-level entries decide
				}
				if n == g.all && c.j.op.kind == kSave {
					// the saved pair must be first, everything old behind it
					bad := !e.OK() || !po.OK() || len(e.Vals) == 0 || len(po.Vals) == 0 || string(e.Vals[0]) != string(po.Vals[0])
					if !bad {
						if pa := ent(pre, n); pa.OK() && checkAll(g, pa.Vals, e.Vals) != "" {
							bad = true
						}
					}
					if bad {
						m.violate(c, phase, fmt.Sprintf("retried-write-not-effective(%s:%s)", n, entryClass(e)), diag())
					}
					continue
				}
				if !same(e, po) {
					m.violate(c, phase, fmt.Sprintf("retried-write-not-effective(%s:%s)", n, entryClass(e)), diag())
				}
			}
		case kGenerate:
			cur, preCur := ent(d, g.cur), ent(pre, g.cur)
			if cur.Panic != "" {
				continue
			}
			if !cur.OK() || len(cur.Vals) != 1 || !completeValue(g, cur.Vals[0]) || (preCur.OK() && cur.Equal(preCur)) {
				m.violate(c, phase, fmt.Sprintf("retried-write-not-effective(%s:%s)", g.cur, entryClass(cur)), diag())
				continue
			}
			if g.all != "" {
				all := ent(d, g.all)
				var old [][]byte
				if pa := ent(pre, g.all); pa.OK() {
					old = pa.Vals
				}
				if all.Panic != "" {
				} else if !all.OK() {
					m.violate(c, phase, fmt.Sprintf("old-keys-unreadable(%s:%s)", g.all, entryClass(all)), diag())
				} else if why := checkAll(g, old, all.Vals); why != "" {
					m.violate(c, phase, fmt.Sprintf("get-all-broken(%s:%s)", g.all, why), diag())
				} else if len(all.Vals) == 0 || string(all.Vals[0]) != string(cur.Vals[0]) {
					m.violate(c, phase, fmt.Sprintf("get-all-broken(%s:new-current-key-not-first)", g.all), diag())
				}
			}
			if g.pair {
				pub := ent(d, g.pub)
				r.Count("pair_consistency_checked", 1)
				if pub.Panic == "" && (!pub.OK() || len(pub.Vals) != 1 || !pairConsistent(cur.Vals[0], pub.Vals[0])) {
					m.violate(c, phase, fmt.Sprintf("pair-mismatch(%s+%s:after-retry)", g.cur, g.pub), diag())
				}
			}
		case kDestroy:
			if cur := ent(d, g.cur); cur.OK() && len(cur.Vals) > 0 {
				m.violate(c, phase, fmt.Sprintf("retried-write-not-effective(%s:still-readable)", g.cur), diag())
			}
		}
	}
}
