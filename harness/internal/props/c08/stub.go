// Package c08 will hold the monitor of property C08 (not built yet; nothing is registered).
package c08
