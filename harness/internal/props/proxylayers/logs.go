package proxylayers

import (
	"bytes"
	"encoding/hex"
	"fmt"
	"strings"
	"sync"

	"github.com/cossacklabs/acra/logging"
	"github.com/jackc/pgx/v5/pgproto3"
	"github.com/sirupsen/logrus"

	"verif/harness/internal/ev"
	"verif/harness/internal/gen"
	"verif/harness/internal/props/c04"
	"verif/harness/internal/rig/proxyrig"
)

// logCapture collects every entry logged through logrus' standard logger, formatted with the active formatter.
type logCapture struct {
	mu      sync.Mutex
	entries [][]byte
}

func (h *logCapture) Levels() []logrus.Level { return logrus.AllLevels }

func (h *logCapture) Fire(e *logrus.Entry) error {
	b, err := e.Bytes()
	if err != nil {
		b = []byte(e.Message)
	}
	h.mu.Lock()
	h.entries = append(h.entries, append([]byte{}, b...))
	h.mu.Unlock()
	return nil
}

func (h *logCapture) take() [][]byte {
	h.mu.Lock()
	defer h.mu.Unlock()
	out := h.entries
	h.entries = nil
	return out
}

// literalMarkers extracts from a statement the literal values that must never show up in logs:
// quoted strings of >= 8 characters and numbers of >= 9 digits, as spelled in the statement text.
func literalMarkers(sql string) [][]byte {
	var out [][]byte
	i := 0
	for i < len(sql) {
		c := sql[i]
		switch {
		case c == '\'':
			j := i + 1
			var lit []byte
			for j < len(sql) {
				if sql[j] == '\'' {
					if j+1 < len(sql) && sql[j+1] == '\'' {
						lit = append(lit, '\'')
						j += 2
						continue
					}
					break
				}
				lit = append(lit, sql[j])
				j++
			}
			if len(lit) >= 8 {
				out = append(out, lit)
				if bytes.HasPrefix(lit, []byte(`\x`)) && len(lit) >= 18 {
					// the bytes a hex literal denotes
					if d, err := hex.DecodeString(string(lit[2:])); err == nil && len(d) >= 8 {
						out = append(out, d)
					}
				}
			}
			i = j + 1
		case c >= '0' && c <= '9':
			j := i
			for j < len(sql) && sql[j] >= '0' && sql[j] <= '9' {
				j++
			}
			if j-i >= 9 && (i == 0 || !isIdentChar(sql[i-1])) {
				out = append(out, []byte(sql[i:j]))
			}
			i = j
		default:
			i++
		}
	}
	return out
}

func isIdentChar(c byte) bool {
	return c == '_' || c == '$' || (c >= 'a' && c <= 'z') || (c >= 'A' && c <= 'Z') || (c >= '0' && c <= '9')
}

// Logs is the C16 proxy layer: statements with marker literals travel through a real AcraServer (with and without firewall
// rules) while every log entry is captured at debug level in each log format; no literal may appear in any entry.
func Logs(r *ev.Run) {
	rng := gen.New(r.Seed, "c16-proxy")
	hook := &logCapture{}
	std := logrus.StandardLogger()
	oldFormatter, oldLevel := std.Formatter, std.Level
	std.AddHook(hook)
	defer func() {
		std.SetFormatter(oldFormatter)
		std.SetLevel(oldLevel)
		logging.SetLogLevel(logging.LogVerbose)
		// logrus has no RemoveHook: replace the hook set without ours
		nh := logrus.LevelHooks{}
		for lvl, hs := range std.Hooks {
			for _, h := range hs {
				if h != logrus.Hook(hook) {
					nh[lvl] = append(nh[lvl], h)
				}
			}
		}
		std.ReplaceHooks(nh)
	}()
	n := r.Pick(12, 240)
	for s := 0; s < n; s++ {
		format := []string{logging.PlaintextFormatString, logging.JSONFormatString, logging.CefFormatString}[s%3]
		level := []int{logging.LogDebug, logging.LogVerbose}[(s/3)%2]
		std.SetFormatter(logging.CreateFormatter(format))
		logging.SetLogLevel(level)
		logSession(r, gen.New(r.Seed, fmt.Sprintf("c16p-%d-%d", s, rng.Int63())), s, hook, format, level)
	}
	r.RequireAtLeast("proxy_log_entries_scanned", 500)
	r.RequireAtLeast("proxy_literals_checked", 200)
}

func logSession(r *ev.Run, rng *gen.Rand, sidx int, hook *logCapture, format string, level int) {
	tables := proxyrig.GenTables(rng, 1+rng.Intn(2), c04.Other, func(c proxyrig.ColSpec) bool { return c.ClientID == "" })
	censor := ""
	switch rng.Intn(3) {
	case 1:
		censor = "version: 0.85.0\nhandlers:\n  - handler: deny\n    tables:\n      - " + tables[len(tables)-1].Name + "\n  - handler: allowall\n"
	case 2:
		censor = "version: 0.85.0\nhandlers:\n  - handler: query_capture\n    filepath: /dev/null\n  - handler: deny\n    patterns:\n      - '%%DELETE%%'\n"
	}
	w, ac, rc, closeAll, ok := c04.OpenWorld(r, tables, censor)
	if !ok {
		return
	}
	defer closeAll()
	rc.Close()
	g := proxyrig.NewSessGen(rng, tables)
	hook.take()
	steps := 8 + rng.Intn(16)
	levelName := map[int]string{logging.LogDebug: "debug", logging.LogVerbose: "info"}[level]
	for i := 0; i < steps; i++ {
		var sql string
		var groups [][]pgproto3.FrontendMessage
		unparseable := false
		if rng.Intn(8) == 0 {
			// a statement that cannot be parsed: none of its long tokens may be logged
			sql = fmt.Sprintf("selec UNPARSEABLETOKEN%08x frm whatever 'UNPARSEDLITERAL%08x' 123456789%d", rng.Uint32(), rng.Uint32(), rng.Intn(1000))
			groups = [][]pgproto3.FrontendMessage{{&pgproto3.Query{String: sql}}}
			unparseable = true
		} else {
			st := g.Next()
			sql, groups = st.SQL, st.Groups
		}
		r.Case()
		broke := false
		for _, grp := range groups {
			if err := ac.Send(grp...); err != nil {
				broke = true
				break
			}
			msgs, err := ac.ReadUntilReady()
			if err != nil {
				broke = true
				break
			}
			if proxyrig.ErrorOf(msgs) != nil {
				break
			}
		}
		entries := hook.take()
		var markers [][]byte
		if unparseable {
			for _, tok := range strings.Fields(sql) {
				tok = strings.Trim(tok, "'")
				if len(tok) >= 8 {
					markers = append(markers, []byte(tok))
				}
			}
		} else {
			markers = literalMarkers(sql)
		}
		r.Count("proxy_log_entries_scanned", int64(len(entries)))
		for _, m := range markers {
			r.Count("proxy_literals_checked", 1)
			probe := m
			if len(probe) > 48 {
				probe = probe[:48]
			}
			for _, e := range entries {
				if bytes.Contains(e, probe) || bytes.Contains(e, []byte(hex.EncodeToString(probe))) {
					kind := "literal"
					if unparseable {
						kind = "token of an unparseable statement"
					}
					r.Violation(fmt.Sprintf("proxy: %s appears in a log entry: format=%s level=%s censor=%v", kind, format, levelName, censor != ""),
						map[string]interface{}{"session": sidx, "statement": sql, "literal": ev.Hex(m), "entry": string(clipBytes(e, 600)), "schema": w.Schema})
					break
				}
			}
		}
		r.Distinct(fmt.Sprintf("proxy-logs|%s|%s|censor=%v|unparseable=%v", format, levelName, censor != "", unparseable))
		if broke {
			return
		}
	}
}

func clipBytes(b []byte, n int) []byte {
	if len(b) > n {
		return b[:n]
	}
	return b
}
