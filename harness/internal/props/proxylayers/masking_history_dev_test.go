package proxylayers

import (
	"os"
	"testing"

	"verif/harness/internal/ev"
)

// TestMaskingHistoryDev runs the PostgreSQL history layer of C11 alone (development aid); evidence goes to $VERIF_ROOT.
func TestMaskingHistoryDev(t *testing.T) {
	if os.Getenv("VERIF_ROOT") == "" {
		t.Skip("set VERIF_ROOT to a scratch directory (evidence and replay files are written there)")
	}
	r := ev.New("C11", "exploration")
	MaskingHistory(r)
	if rc := r.Finish(); rc != 0 {
		t.Fatalf("layer reported violations (rc=%d)", rc)
	}
}
