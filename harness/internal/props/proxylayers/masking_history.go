package proxylayers

// MaskingHistory is the second C11 wire layer (PostgreSQL): masked columns read INSIDE LONGER SESSION HISTORIES and NEXT TO OTHER
// PROTECTED COLUMNS. proxylayers.Masking gives every reader a connection that reads `select id, <one masked column>` only. A real
// connection keeps ONE set of decryption subscribers (built once by the proxy factory) for all columns of all statements, so this
// layer drives, for readers of each kind (owner, client with other keys, client without keys), ONE connection through a history
// of statements over rows that hold masked columns next to unconfigured columns (text, a bytea column holding envelopes nobody
// configured), plainly encrypted, searchable, tokenized and typed columns with the three failure policies, columns of another
// client id; the database holds, in the neighbour columns, values protected for the other client and damaged values, so that
// every reader meets values it cannot reveal before and next to masked values.
//
// Oracle (C11's clauses, per masked field, whatever the connection relayed before): the client the value was protected for
// "receives the complete original value"; every other reader "receives exactly the configured plaintext window ... joined with
// the masking pattern" - "never any byte of the ciphertext and never a hidden plaintext byte"; NULL stays NULL.
// Nothing is demanded of the neighbour columns; a statement that ends with an ErrorResponse (failure policy error) delivers no
// masked field and is only counted - the connection must go on.

import (
	"bytes"
	"context"
	"encoding/binary"
	"fmt"
	"os"
	"strings"
	"time"

	trcommon "github.com/cossacklabs/acra/cmd/acra-translator/common"

	"verif/harness/internal/ev"
	"verif/harness/internal/gen"
	"verif/harness/internal/props/c04"
	"verif/harness/internal/rig/fakepg"
	"verif/harness/internal/rig/proxyrig"
)

// HistMaskCol draws one masked column of the history layers. owner = client id the column's values are protected for ("" = the writing session's client).
func HistMaskCol(rng *gen.Rand, name string, typed bool, owner string) proxyrig.ColSpec {
	c := proxyrig.ColSpec{Name: name, Kind: "mask", Envelope: []string{"acrablock", "acrastruct"}[rng.Intn(2)], AppType: fakepg.Bytea, StoreType: fakepg.Bytea,
		MaskPat: []string{"xxxx", "*", "##mask##", "é€"}[rng.Intn(4)], MaskLen: rng.Intn(8), MaskSide: []string{"left", "right"}[rng.Intn(2)], ClientID: owner}
	if typed {
		// Acra's configuration validation accepts a data type on a masked column only with the AcraBlock envelope
		c.Envelope = "acrablock"
		if rng.Intn(2) == 0 {
			c.DataType, c.AppType = "str", fakepg.Text
		} else {
			c.DataType = "bytes"
		}
	}
	return c
}

// HistNeighbourCatalogue lists the non-masked columns the history layers put next to masked ones.
func HistNeighbourCatalogue(other string) []proxyrig.ColSpec {
	def := func(s string) *string { return &s }
	bytea, text := fakepg.Bytea, fakepg.Text
	return []proxyrig.ColSpec{
		{Name: "e_as", Kind: "enc", Envelope: "acrastruct", AppType: bytea, StoreType: bytea},
		{Name: "e_ab", Kind: "enc", Envelope: "acrablock", AppType: bytea, StoreType: bytea},
		{Name: "e_other", Kind: "enc", Envelope: "acrablock", ClientID: other, AppType: bytea, StoreType: bytea},
		{Name: "s_as", Kind: "search", Envelope: "acrastruct", AppType: bytea, StoreType: bytea},
		{Name: "s_ab", Kind: "search", Envelope: "acrablock", AppType: bytea, StoreType: bytea},
		{Name: "t_str", Kind: "token", TokenType: "str", Consist: true, AppType: text, StoreType: text},
		{Name: "t_i32", Kind: "token", TokenType: "int32", Consist: false, AppType: fakepg.Int4, StoreType: fakepg.Int4},
		{Name: "ty_str_ct", Kind: "enc", Envelope: "acrablock", DataType: "str", OnFail: "ciphertext", AppType: text, StoreType: bytea},
		{Name: "ty_str_def", Kind: "enc", Envelope: "acrastruct", DataType: "str", OnFail: "default_value", Default: def("n/a"), AppType: text, StoreType: bytea},
		{Name: "ty_i32_def", Kind: "enc", Envelope: "acrablock", DataType: "int32", OnFail: "default_value", Default: def("42"), AppType: fakepg.Int4, StoreType: bytea},
		{Name: "ty_bytes_err", Kind: "enc", Envelope: "acrablock", DataType: "bytes", OnFail: "error", AppType: bytea, StoreType: bytea},
		{Name: "ty_i64_ct", Kind: "enc", Envelope: "acrastruct", DataType: "int64", OnFail: "ciphertext", AppType: fakepg.Int8, StoreType: bytea},
	}
}

// HistColClass is the text used for a column in signatures and counters of the history layers.
func HistColClass(c proxyrig.ColSpec) string {
	switch {
	case c.Kind == "mask":
		return "masked"
	case c.Name == "raw":
		return "unconfigured-column-holding-envelopes"
	case !c.Configured():
		return "unconfigured-" + c.AppType.String()
	case c.Kind == "token":
		return "token/" + c.TokenType
	case c.OnFail != "":
		return "typed/" + c.DataType + "/on-fail-" + c.OnFail
	case c.ClientID != "":
		return c.Kind + "/" + c.Envelope + "/column-of-another-client"
	}
	return c.Kind + "/" + c.Envelope
}

// HistHoldsEnvelopes: the column's stored values are crypto envelopes that are not masked.
func HistHoldsEnvelopes(c proxyrig.ColSpec) bool {
	return c.Name == "raw" || c.Kind == "enc" || c.Kind == "search"
}

// HistTable draws the table of one history session: id, unconfigured note and raw, 1-3 masked columns (every third session one of
// them belongs to the other client), and neighbours by session class (sidx%4): 0, 2 = 2-4 configured neighbours; 1 = the column with
// failure policy "error" plus 1-3 others (that column ends every statement selecting it for the readers that cannot reveal it, so it
// takes part by plan, not by chance); 3 = "masking-only": no configured neighbour at all, every configured column is a masked column
// without data type - the envelopes next to them sit in the unconfigured raw column.
// keep, when non-nil, filters the neighbour catalogue (dialect-specific exclusions).
func HistTable(rng *gen.Rand, name, other string, sidx int, keep func(proxyrig.ColSpec) bool) proxyrig.TableSpec {
	t := proxyrig.TableSpec{Name: name}
	t.Cols = append(t.Cols, proxyrig.ColSpec{Name: "id", AppType: fakepg.Int4, StoreType: fakepg.Int4}, proxyrig.ColSpec{Name: "note", AppType: fakepg.Text, StoreType: fakepg.Text},
		proxyrig.ColSpec{Name: "raw", AppType: fakepg.Bytea, StoreType: fakepg.Bytea})
	lean := sidx%4 == 3
	nm := 1 + rng.Intn(3)
	for k := 0; k < nm; k++ {
		owner := ""
		if k == 0 && sidx%3 == 2 {
			owner = other
		}
		t.Cols = append(t.Cols, HistMaskCol(rng, fmt.Sprintf("m%d", k+1), !lean && rng.Intn(3) == 0, owner))
	}
	if !lean {
		var cat []proxyrig.ColSpec
		for _, c := range HistNeighbourCatalogue(other) {
			if keep != nil && !keep(c) {
				continue
			}
			if c.OnFail == "error" {
				if sidx%4 == 1 {
					t.Cols = append(t.Cols, c)
				}
				continue
			}
			cat = append(cat, c)
		}
		nn := 2 + rng.Intn(3)
		if sidx%4 == 1 {
			nn--
		}
		for _, i := range rng.Perm(len(cat))[:nn] {
			t.Cols = append(t.Cols, cat[i])
		}
	}
	rest := t.Cols[1:]
	rng.Shuffle(len(rest), func(i, j int) { rest[i], rest[j] = rest[j], rest[i] })
	return t
}

// HistConfigClass names the session class of HistTable.
func HistConfigClass(sidx int) string {
	switch sidx % 4 {
	case 1:
		return "mixed+error-policy-column"
	case 3:
		return "masking-only"
	}
	return "mixed"
}

// HistCell is what the layer knows, by construction, about one stored value of a neighbour column.
type HistCell struct {
	Writer string // client id the envelope was made for ("" = no envelope)
	Damage string
}

// HistStatement is one read of a history.
type HistStatement struct {
	Cols   []int  // column indices of the table, in select-list order (id included)
	Format string // text | binary | mixed
	Ext    bool   // extended protocol
	Shape  string
}

// HistStatements builds the reads of one connection: opening, every rotation of the row, reversed and shuffled orders, one-column
// statements interleaved, masked-only / neighbours-only alternation, repeated statements; formats and protocols cycle.
func HistStatements(rng *gen.Rand, t proxyrig.TableSpec, opening string) []HistStatement {
	var M, N []int
	for i, c := range t.Cols {
		switch {
		case c.Name == "id":
		case c.Kind == "mask":
			M = append(M, i)
		default:
			N = append(N, i)
		}
	}
	cat := func(a, b []int) []int { return append(append([]int{}, a...), b...) }
	var out []HistStatement
	add := func(shape string, cols []int) {
		k := len(out)
		st := HistStatement{Shape: shape, Format: []string{"text", "binary", "mixed", "text"}[k%4], Ext: k%4 != 0}
		// id first or last, so that a masked column is also the first field of a row
		if k%2 == 0 {
			st.Cols = cat([]int{0}, cols)
		} else {
			st.Cols = cat(cols, []int{0})
		}
		out = append(out, st)
	}
	switch opening {
	case "neighbours-first":
		add("neighbours-only", N)
	case "row:neighbours-then-masked":
		add("row", cat(N, M))
	case "masked-first":
		add("masked-only", M)
	default:
		add("row", cat(M, N))
	}
	all := cat(N, M)
	for k := 0; k < len(all); k++ {
		add("row", cat(all[k:], all[:k]))
	}
	rev := append([]int{}, all...)
	for i, j := 0, len(rev)-1; i < j; i, j = i+1, j-1 {
		rev[i], rev[j] = rev[j], rev[i]
	}
	add("row", rev)
	sh := append([]int{}, all...)
	rng.Shuffle(len(sh), func(i, j int) { sh[i], sh[j] = sh[j], sh[i] })
	add("row", sh)
	for _, i := range rng.Perm(len(all)) {
		add("single-column", []int{all[i]})
	}
	add("masked-only", M)
	add("neighbours-only", N)
	add("masked-only", M)
	last := out[1+rng.Intn(len(out)-1)]
	for k := 0; k < 2; k++ {
		st := last
		st.Shape = "repeated:" + last.Shape
		out = append(out, st)
	}
	return out
}

// HistConnState tracks what a connection has relayed so far (by construction of the history, not by Acra's answers).
type HistConnState struct{ SawMasked, SawRevealable, SawUnrevealable bool }

// Before names the state.
func (c HistConnState) Before() string {
	switch {
	case c.SawRevealable && c.SawUnrevealable:
		return "after-revealable-and-unrevealable-non-masked-envelopes"
	case c.SawUnrevealable:
		return "after-unrevealable-non-masked-envelope"
	case c.SawRevealable:
		return "after-revealable-non-masked-envelope"
	case c.SawMasked:
		return "after-masked-values-only"
	}
	return "first-protected-value-of-the-connection"
}

// HistMaskOf is the reference: what a reader that cannot decrypt must receive for a masked value.
func HistMaskOf(c proxyrig.ColSpec, plain []byte) []byte { return maskOf(c, plain) }

// MaskingHistory runs the layer.
func MaskingHistory(r *ev.Run) {
	t0 := time.Now()
	defer func() { r.Extra("proxy_history_layer_wall_s", time.Since(t0).Seconds()) }()
	r.Rule += " || PostgreSQL wire history layer: per session one table with 1-3 masked columns (pattern, window 0..7, side, envelope, data type drawn per column; every third session one masked column belongs to the other client id) next to unconfigured text, an unconfigured bytea column holding envelopes, and 2-4 of {encrypted both envelopes, encrypted for another client id, searchable, tokenized str/int32, typed str/int32/int64/bytes with policies ciphertext/default_value/error}; the owner writes 5-8 rows through AcraServer (differential), then the database replaces some neighbour cells by envelopes of the other client and damages others; the owner (on the connection that wrote), a client with other keys and a client without keys each read on ONE connection a history of 15-25 statements: four openings (neighbours first / masked first / row in both orders), every rotation of the row, reversed, shuffled, one-column statements, masked-only / neighbours-only alternation, repeated statements; simple protocol, extended with text, binary and per-column mixed result formats; every masked field of every delivered row judged"
	rng := gen.New(r.Seed, "c11-proxy-history")
	n := r.Pick(6, 120)
	for s := 0; s < n; s++ {
		maskHistorySession(r, gen.New(r.Seed, fmt.Sprintf("c11ph-%d-%d", s, rng.Int63())), s)
	}
	r.RequireAtLeast("proxy_history_masked_fields_ok", 300)
	for _, role := range []string{"owner-of-the-value", "client-with-other-keys", "client-without-keys"} {
		r.RequireAtLeast("proxy_history_masked_fields_ok:reader="+role, 80)
		r.RequireAtLeast("proxy_history_masked_fields_ok_after_unrevealable_non_masked_envelope:reader="+role, 40)
	}
	for _, f := range []string{"text", "binary"} {
		r.RequireAtLeast("proxy_history_masked_fields_ok:format="+f, 80)
	}
	r.RequireAtLeast("proxy_history_masked_fields_ok_right_of_a_non_masked_envelope_in_the_row", 50)
	r.RequireAtLeast("proxy_history_masked_fields_ok_left_of_a_non_masked_envelope_in_the_row", 50)
	r.RequireAtLeast("proxy_history_statements_with_rows", 60)
}

// HistOpenings are the first statements a history connection starts with.
var HistOpenings = []string{"neighbours-first", "row:neighbours-then-masked", "masked-first", "row:masked-then-neighbours"}

func maskHistorySession(r *ev.Run, rng *gen.Rand, sidx int) {
	t := HistTable(rng, "hist", c04.Other, sidx, nil)
	tables := []proxyrig.TableSpec{t}
	w, ac, rc, closeAll, ok := c04.OpenWorld(r, tables, "")
	if !ok {
		return
	}
	defer closeAll()
	g := proxyrig.NewSessGen(rng, tables)
	var history []string
	for i := 0; i < 4+rng.Intn(3); i++ {
		st := g.Insert()
		history = append(history, fmt.Sprintf("[%s %s/%s/%s] %.200s", st.Proto, st.ParamFmt, st.ResFmt, st.Kind, st.SQL))
		if !c04.RunStep(r, w, ac, rc, st, history, sidx) {
			return
		}
	}
	rrows := w.Ref.DB.Snapshot(t.Name)
	srows := w.Store.DB.Snapshot(t.Name)
	if len(rrows) != len(srows) || len(rrows) == 0 {
		return
	}
	// what the database holds in the neighbour columns: by default the writer's envelope (column client id or the owner);
	// some cells are replaced by envelopes of the other client / of the owner (unconfigured raw column), some are damaged
	ts, err := trcommon.NewTranslatorService(&trcommon.TranslatorData{Keystorage: w.KS})
	if err != nil {
		panic(err)
	}
	appEnc := func(block bool, id string, plain []byte) []byte {
		var out []byte
		var err error
		if block {
			out, err = ts.EncryptSym(context.Background(), plain, []byte(id), nil)
		} else {
			out, err = ts.Encrypt(context.Background(), plain, []byte(id), nil)
		}
		if err != nil {
			panic(err)
		}
		return out
	}
	cells := map[[2]int]*HistCell{}
	for ci, col := range t.Cols {
		if !HistHoldsEnvelopes(col) {
			continue
		}
		ci, col := ci, col
		repl := map[int][]byte{}
		for ri := range srows {
			sv, isBytes := srows[ri][ci].([]byte)
			cell := &HistCell{}
			cells[[2]int{ri, ci}] = cell
			if col.Name == "raw" {
				if rng.Intn(4) != 0 {
					cell.Writer = []string{c04.Owner, c04.Owner, c04.Other}[rng.Intn(3)]
					repl[ri] = appEnc(rng.Intn(2) == 0, cell.Writer, []byte(fmt.Sprintf("app-side secret %d/%d", sidx, ri)))
				}
				continue
			}
			if !isBytes || len(sv) < 40 {
				continue // NULL or empty: nothing protected
			}
			cell.Writer = c04.Owner
			if col.ClientID != "" {
				cell.Writer = col.ClientID
			}
			switch rng.Intn(6) {
			case 0:
				if col.Kind == "enc" {
					cell.Writer = c04.Other
					plain := []byte(fmt.Sprintf("other client's %d/%d", sidx, ri))
					if col.DataType == "int32" || col.DataType == "int64" {
						plain = []byte(fmt.Sprint(1000 + ri))
					}
					repl[ri] = appEnc(col.Envelope == "acrablock", c04.Other, plain)
				}
			case 1:
				cell.Damage = "flip-payload"
				nv := append([]byte{}, sv...)
				nv[len(nv)-1-rng.Intn(8)] ^= 1 << uint(rng.Intn(8))
				repl[ri] = nv
			case 2:
				cell.Damage = "truncate"
				repl[ri] = append([]byte{}, sv[:len(sv)-1-rng.Intn(5)]...)
			}
		}
		w.Store.DB.TamperAll(t.Name, col.Name, func(row int, v fakepg.Value) fakepg.Value {
			if nv, ok := repl[row]; ok {
				return nv
			}
			return v
		})
	}
	byID := map[int64]int{}
	for ri := range rrows {
		if id, ok := rrows[ri][0].(int64); ok {
			byID[id] = ri
		}
	}
	opening := HistOpenings[(sidx/4+sidx)%4]
	for _, reader := range []string{c04.Owner, c04.Other, c04.NoKeys} {
		c := ac
		if reader != c04.Owner {
			var err error
			c, _, err = proxyrig.DialPG(w.Acras[reader].Port)
			if err != nil {
				r.Inconclusive("cannot connect as " + reader)
				return
			}
		}
		ok := histRead(r, w, c, t, reader, opening, HistStatements(gen.New(r.Seed, fmt.Sprintf("c11ph-stmts-%d", sidx)), t, opening), rrows, byID, cells, history, sidx)
		if reader != c04.Owner {
			c.Close()
		}
		if !ok {
			return
		}
	}
}

func histRole(col proxyrig.ColSpec, reader string) string {
	owner := c04.Owner
	if col.ClientID != "" {
		owner = col.ClientID
	}
	switch {
	case reader == owner:
		return "owner-of-the-value"
	case reader == c04.NoKeys:
		return "client-without-keys"
	}
	return "client-with-other-keys"
}

func histRead(r *ev.Run, w *c04.World, c *proxyrig.PGClient, t proxyrig.TableSpec, reader, opening string, stmts []HistStatement, rrows [][]fakepg.Value, byID map[int64]int, cells map[[2]int]*HistCell, history []string, sidx int) bool {
	var state HistConnState
	var trail []string
	for si, st := range stmts {
		var names []string
		var formats []int16
		for k, ci := range st.Cols {
			names = append(names, t.Cols[ci].Name)
			switch st.Format {
			case "binary":
				formats = append(formats, 1)
			case "mixed":
				formats = append(formats, int16((k+si)%2))
			default:
				formats = append(formats, 0)
			}
		}
		sql := fmt.Sprintf("select %s from %s order by id", strings.Join(names, ", "), t.Name)
		proto := "simple"
		var msgs []proxyrig.BackendMsg
		var err error
		if st.Ext {
			proto = "extended"
			msgs, err = c.Extended("", sql, nil, nil, nil, formats, 0)
		} else {
			for k := range formats {
				formats[k] = 0
			}
			msgs, err = c.Simple(sql)
		}
		trail = append(trail, fmt.Sprintf("#%d %s [%s %v] %s", si, st.Shape, proto, formats, sql))
		detail := func(extra map[string]interface{}) map[string]interface{} {
			m := map[string]interface{}{"session": sidx, "schema": w.Schema, "writes": history, "reader": reader, "opening": opening, "statements_of_this_connection": append([]string{}, trail...)}
			for k, v := range extra {
				m[k] = v
			}
			return m
		}
		r.Count("proxy_history_statements", 1)
		if err != nil {
			if err == proxyrig.ErrTimeout {
				r.Inconclusive("c11 proxy history: exchange watchdog expired")
				return false
			}
			hasMask := false
			for _, ci := range st.Cols {
				hasMask = hasMask || t.Cols[ci].Kind == "mask"
			}
			r.Case()
			r.Violation(fmt.Sprintf("proxy history: connection broke while reading: reader=%s statement-with-masked-column=%v proto=%s format=%s connection=%s", histReaderClass(reader), hasMask, proto, st.Format, state.Before()),
				detail(map[string]interface{}{"err": err.Error()}))
			return false
		}
		rows := proxyrig.Rows(msgs)
		if e := proxyrig.ErrorOf(msgs); e != nil {
			// failure policy "error" of a neighbour (or another refusal that is not C11's matter): no masked field is judged
			r.Count("proxy_history_statements_ended_with_error_response", 1)
			r.SetAdd("proxy_history_error_responses(not judged)", fmt.Sprintf("%s: %.80s", histReaderClass(reader), e.Message))
			if os.Getenv("VERIF_C11_DEBUG") != "" {
				fmt.Fprintf(os.Stderr, "c11 proxy history: session %d reader %s: ErrorResponse %q for %s\n", sidx, histReaderClass(reader), e.Message, sql)
			}
			// the rows relayed before the error were still processed by the connection's subscribers
			rows = nil
		} else if len(rows) != len(rrows) {
			r.Case()
			r.Violation(fmt.Sprintf("proxy history: row count differs: reader=%s proto=%s format=%s", histReaderClass(reader), proto, st.Format), detail(map[string]interface{}{"rows": len(rows), "want": len(rrows)}))
			return false
		} else {
			r.Count("proxy_history_statements_with_rows", 1)
		}
		idPos := 0
		if st.Cols[0] != 0 {
			idPos = len(st.Cols) - 1
		}
		// the database sent every row (before a possible error), so the connection has seen all of them
		deliveredRows := map[int][][]byte{}
		for _, row := range rows {
			var id int64
			if formats[idPos] == 1 && len(row[idPos]) == 4 {
				id = int64(int32(binary.BigEndian.Uint32(row[idPos])))
			} else {
				fmt.Sscan(string(row[idPos]), &id)
			}
			if ri, ok := byID[id]; ok {
				deliveredRows[ri] = row
			}
		}
		for ri := range rrows {
			row, delivered := deliveredRows[ri]
			inRow := "first-protected-column-of-the-row"
			rowEnv := false
			for k, ci := range st.Cols {
				col := t.Cols[ci]
				if col.Name == "id" {
					continue
				}
				cell := cells[[2]int{ri, ci}]
				if col.Kind == "mask" && delivered {
					later := false
					for _, cj := range st.Cols[k+1:] {
						if cl := cells[[2]int{ri, cj}]; cl != nil && cl.Writer != "" {
							later = true
						}
					}
					histJudge(r, col, reader, row[k], formats[k] == 1, rrows[ri][ci], state.Before(), inRow, rowEnv, later, HistConfigClass(sidx)+" proto="+proto, detail)
				}
				switch {
				case col.Kind == "mask":
					if rrows[ri][ci] != nil {
						state.SawMasked = true
					}
				case cell != nil && cell.Writer != "":
					rowEnv = true
					if cell.Writer == reader && cell.Damage == "" {
						state.SawRevealable = true
					} else {
						state.SawUnrevealable = true
					}
				}
				if col.Name != "note" {
					inRow = "after-" + HistColClass(col) + "-in-the-row"
				}
			}
		}
	}
	r.Count("proxy_history_connections_completed", 1)
	return true
}

func histReaderClass(reader string) string {
	switch reader {
	case c04.Owner:
		return "owner"
	case c04.Other:
		return "other-keys"
	}
	return "no-keys"
}

func histJudge(r *ev.Run, col proxyrig.ColSpec, reader string, got []byte, bin bool, plain fakepg.Value, before, inRow string, rightOfEnv, leftOfEnv bool, proto string, detail func(map[string]interface{}) map[string]interface{}) {
	r.Case()
	role := histRole(col, reader)
	format := map[bool]string{false: "text", true: "binary"}[bin]
	sig := func(what string) string {
		return fmt.Sprintf("proxy history: %s: column=mask/%s/%s side=%s reader=%s format=%s config=%s connection=%s row=%s", what, col.Envelope, orUnsetPL(col.DataType), col.MaskSide, role, format, proto, before, inRow)
	}
	if plain == nil {
		if got != nil {
			r.Violation(sig("NULL did not stay NULL"), detail(map[string]interface{}{"column": col.Name, "got": ev.Hex(got)}))
		} else {
			r.Count("proxy_history_masked_null_stayed_null", 1)
		}
		return
	}
	pb := plainBytes(plain)
	if len(pb) == 0 {
		return
	}
	val := got
	if !bin && col.AppType == fakepg.Bytea && got != nil {
		if d, err := fakepg.DecodeByteaText(string(got)); err == nil {
			val = d
		}
	}
	masked := maskOf(col, pb)
	want := masked
	if role == "owner-of-the-value" {
		want = pb
	}
	if got == nil || !bytes.Equal(val, want) {
		what := "reader without the owner's keys does not receive exactly window+pattern"
		if role == "owner-of-the-value" {
			what = "owner does not receive the original value"
			if bytes.Equal(val, masked) {
				what += " (gets window+pattern)"
			}
		} else {
			leak := "none"
			if len(pb) > col.MaskLen+8 {
				hidden := pb[col.MaskLen:]
				if col.MaskSide == "right" {
					hidden = pb[:len(pb)-col.MaskLen]
				}
				if len(hidden) > 24 {
					hidden = hidden[:24]
				}
				if bytes.Contains(val, hidden) {
					leak = "hidden-plaintext"
				}
			}
			if leak == "none" && len(val) > len(masked)+40 && (bytes.Contains(val, []byte("%%%")) || bytes.Contains(val, []byte(`""""`))) {
				leak = "ciphertext"
			}
			what += ": leak=" + leak
		}
		r.Violation(sig(what), detail(map[string]interface{}{"column": col.Name, "got": ev.Hex(val), "got_null": got == nil, "want": ev.Hex(want), "plain_len": len(pb), "window": col.MaskLen, "pattern": col.MaskPat}))
		return
	}
	r.Count("proxy_history_masked_fields_ok", 1)
	r.Count("proxy_history_masked_fields_ok:reader="+role, 1)
	r.Count("proxy_history_masked_fields_ok:format="+format, 1)
	r.Count("proxy_history_masked_fields_ok:config="+proto, 1)
	r.Count("proxy_history_masked_fields_ok:connection="+before, 1)
	if before == "after-unrevealable-non-masked-envelope" || before == "after-revealable-and-unrevealable-non-masked-envelopes" {
		r.Count("proxy_history_masked_fields_ok_after_unrevealable_non_masked_envelope:reader="+role, 1)
	}
	if rightOfEnv {
		r.Count("proxy_history_masked_fields_ok_right_of_a_non_masked_envelope_in_the_row", 1)
	}
	if leftOfEnv {
		r.Count("proxy_history_masked_fields_ok_left_of_a_non_masked_envelope_in_the_row", 1)
	}
	lc := "longer"
	if len(pb) <= col.MaskLen {
		lc = "not-longer-than-window"
	}
	r.SetAdd("proxy_history_row_neighbours_seen", inRow)
	r.Distinct(fmt.Sprintf("proxy-history|%s|%s|%s|%s|%s|%s|%s|%s|%s", col.Envelope, col.DataType, col.MaskSide, role, format, proto, lc, before, inRow))
	r.SampleN("proxy-history:"+role+":"+format, 1, map[string]interface{}{"layer": "proxy history", "column": col, "reader": role, "format": format, "proto": proto, "connection": before, "row": inRow, "plain": ev.Hex(pb), "delivered": ev.Hex(val)})
}

func orUnsetPL(s string) string {
	if s == "" {
		return "unset"
	}
	return s
}
