// Package proxylayers holds the wire-proxy layers that are plugged into the library-layer monitors of C11, C15 and C16.
package proxylayers

import (
	"bytes"
	"fmt"

	"verif/harness/internal/ev"
	"verif/harness/internal/gen"
	"verif/harness/internal/props/c04"
	"verif/harness/internal/rig/fakepg"
	"verif/harness/internal/rig/proxyrig"
)

func maskCols(c proxyrig.ColSpec) bool {
	return c.Kind == "mask" || c.Kind == ""
}

func plainBytes(v fakepg.Value) []byte {
	switch x := v.(type) {
	case string:
		return []byte(x)
	case []byte:
		return x
	}
	return nil
}

// maskOf is the reference: what a reader that cannot decrypt must receive for a masked value.
func maskOf(c proxyrig.ColSpec, plain []byte) []byte {
	n := c.MaskLen
	if len(plain) <= n {
		return []byte(c.MaskPat)
	}
	if c.MaskSide == "left" {
		return append(append([]byte{}, plain[:n]...), []byte(c.MaskPat)...)
	}
	return append([]byte(c.MaskPat), plain[len(plain)-n:]...)
}

// Masking is the C11 proxy layer: masked columns written through AcraServer and read back by the owner (differential, via RunStep)
// and by clients with other keys / without keys, in text and binary result format.
func Masking(r *ev.Run) {
	rng := gen.New(r.Seed, "c11-proxy")
	n := r.Pick(12, 300)
	for s := 0; s < n; s++ {
		maskSession(r, gen.New(r.Seed, fmt.Sprintf("c11p-%d-%d", s, rng.Int63())), s)
	}
	r.RequireAtLeast("proxy_masked_fields_checked", 60)
}

func maskSession(r *ev.Run, rng *gen.Rand, sidx int) {
	tables := proxyrig.GenTables(rng, 1, c04.Other, func(c proxyrig.ColSpec) bool { return c.Kind == "mask" })
	t := tables[0]
	// vary the masking parameters of the generated columns
	for i := range t.Cols {
		if t.Cols[i].Kind != "mask" {
			continue
		}
		t.Cols[i].MaskLen = rng.Intn(8)
		t.Cols[i].MaskSide = []string{"left", "right"}[rng.Intn(2)]
		t.Cols[i].MaskPat = []string{"xxxx", "*", "##mask##", "é€"}[rng.Intn(4)]
	}
	w, ac, rc, closeAll, ok := c04.OpenWorld(r, tables, "")
	if !ok {
		return
	}
	defer closeAll()
	g := proxyrig.NewSessGen(rng, tables)
	var history []string
	for i := 0; i < 6+rng.Intn(10); i++ {
		var st proxyrig.Step
		if i < 4 {
			st = g.Insert()
		} else {
			st = g.Next()
		}
		history = append(history, fmt.Sprintf("[%s %s/%s/%s] %.300s", st.Proto, st.ParamFmt, st.ResFmt, st.Kind, st.SQL))
		if !c04.RunStep(r, w, ac, rc, st, history, sidx) {
			return
		}
	}
	rrows := w.Ref.DB.Snapshot(t.Name)
	srows := w.Store.DB.Snapshot(t.Name)
	if len(rrows) != len(srows) {
		return
	}
	for _, reader := range []string{c04.Other, c04.NoKeys} {
		c, _, err := proxyrig.DialPG(w.Acras[reader].Port)
		if err != nil {
			r.Inconclusive("cannot connect as " + reader)
			return
		}
		for ci, col := range t.Cols {
			if col.Kind != "mask" {
				continue
			}
			for _, bin := range []bool{false, true} {
				r.Case()
				sql := fmt.Sprintf("select id, %s from %s order by id", col.Name, t.Name)
				var msgs []proxyrig.BackendMsg
				if bin {
					msgs, err = c.Extended("", sql, nil, nil, nil, []int16{1}, 0)
				} else {
					msgs, err = c.Simple(sql)
				}
				rows := proxyrig.Rows(msgs)
				sig := func(what string) string {
					return fmt.Sprintf("proxy: %s: column=mask/%s/%s side=%s reader=%s format=%v", what, col.Envelope, col.DataType, col.MaskSide, map[string]string{c04.Other: "other-keys", c04.NoKeys: "no-keys"}[reader], map[bool]string{false: "text", true: "binary"}[bin])
				}
				detail := func(extra map[string]interface{}) map[string]interface{} {
					m := map[string]interface{}{"session": sidx, "schema": w.Schema, "history": history, "sql": sql}
					for k, v := range extra {
						m[k] = v
					}
					return m
				}
				if err != nil || proxyrig.ErrorOf(msgs) != nil || len(rows) != len(rrows) {
					r.Violation(sig("read failed"), detail(map[string]interface{}{"err": fmt.Sprint(err), "rows": len(rows), "want": len(rrows)}))
					continue
				}
				// order by id: map reference rows by id
				byID := map[int64]int{}
				for ri := range rrows {
					byID[rrows[ri][0].(int64)] = ri
				}
				for _, row := range rows {
					var id int64
					if bin && len(row[0]) == 4 {
						id = int64(int32(uint32(row[0][0])<<24 | uint32(row[0][1])<<16 | uint32(row[0][2])<<8 | uint32(row[0][3])))
					} else {
						fmt.Sscan(string(row[0]), &id)
					}
					ri, ok := byID[id]
					if !ok {
						continue
					}
					plain := rrows[ri][ci]
					got := row[1]
					if plain == nil {
						if got != nil {
							r.Violation(sig("NULL did not stay NULL"), detail(nil))
						}
						continue
					}
					pb := plainBytes(plain)
					if len(pb) == 0 {
						continue
					}
					// decode the delivered field to bytes (bytea text format is hex)
					val := got
					if !bin && col.AppType == fakepg.Bytea {
						if d, err := fakepg.DecodeByteaText(string(got)); err == nil {
							val = d
						}
					}
					want := maskOf(col, pb)
					if !bytes.Equal(val, want) {
						what := "non-owner did not get window joined with the pattern"
						if len(pb) > col.MaskLen+8 {
							hidden := pb[col.MaskLen:]
							if col.MaskSide == "right" {
								hidden = pb[:len(pb)-col.MaskLen]
							}
							if len(hidden) > 24 {
								hidden = hidden[:24]
							}
							if bytes.Contains(val, hidden) {
								what = "hidden plaintext delivered to a non-owner"
							}
						}
						if sv, _ := srows[ri][ci].([]byte); len(sv) > 40 && bytes.Contains(val, sv[len(sv)-16:]) {
							what = "ciphertext bytes delivered to a non-owner"
						}
						r.Violation(sig(what), detail(map[string]interface{}{"got": ev.Hex(val), "want": ev.Hex(want), "plain_len": len(pb), "window": col.MaskLen}))
						continue
					}
					r.Count("proxy_masked_fields_checked", 1)
					lc := "longer"
					if len(pb) <= col.MaskLen {
						lc = "not-longer-than-window"
					}
					r.Distinct(fmt.Sprintf("proxy-mask|%s|%s|%s|%s|%v|%s", col.Envelope, col.DataType, col.MaskSide, reader, bin, lc))
				}
			}
		}
		c.Close()
	}
}
