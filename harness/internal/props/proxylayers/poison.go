package proxylayers

import (
	"bytes"
	"fmt"
	"sync"
	"sync/atomic"

	"github.com/cossacklabs/acra/keystore"
	"github.com/cossacklabs/acra/poison"

	"verif/harness/internal/ev"
	"verif/harness/internal/gen"
	"verif/harness/internal/props/c04"
	"verif/harness/internal/rig/fakepg"
	"verif/harness/internal/rig/ksrig"
	"verif/harness/internal/rig/proxyrig"
)

// recCallback records every poison alarm and, at that instant, whether the row it belongs to has already reached the client.
type recCallback struct {
	mu        sync.Mutex
	calls     int64
	client    *proxyrig.PGClient
	rowMarker []byte
	offset    int // bytes the client had received before the statement was sent
	delivered int64 // alarms raised when the row marker was already in the client's receive stream
}

func (c *recCallback) Call() error {
	atomic.AddInt64(&c.calls, 1)
	c.mu.Lock()
	cl, mk, off := c.client, c.rowMarker, c.offset
	c.mu.Unlock()
	if in := cl.RawIn(); cl != nil && mk != nil && len(in) > off && bytes.Contains(in[off:], mk) {
		atomic.AddInt64(&c.delivered, 1)
	}
	return nil
}

// Poison is the C15 proxy layer: poison records come back from the database inside result rows of a real AcraServer session.
func Poison(r *ev.Run) {
	rng := gen.New(r.Seed, "c15-proxy")
	n := r.Pick(10, 200)
	for s := 0; s < n; s++ {
		poisonSession(r, gen.New(r.Seed, fmt.Sprintf("c15p-%d-%d", s, rng.Int63())), s)
	}
	r.RequireAtLeast("proxy_poison_rows_alarmed", 30)
	r.RequireAtLeast("proxy_clean_rows_silent", 30)
}

func poisonSession(r *ev.Run, rng *gen.Rand, sidx int) {
	dir := ksrig.ScratchDir("c15p")
	ks, err := ksrig.V1(dir, ksrig.RandBytes(32), keystore.InfiniteCacheSize)
	if err != nil {
		panic(err)
	}
	for _, id := range []string{c04.Owner, c04.Other} {
		ksrig.GenClient(ks, []byte(id))
	}
	// poison key history: 0-2 rotations; records are made under each generation
	var records [][]byte
	rot := rng.Intn(3)
	for g := 0; g <= rot; g++ {
		if err := ks.GeneratePoisonKeyPair(); err != nil {
			panic(err)
		}
		if err := ks.GeneratePoisonSymmetricKey(); err != nil {
			panic(err)
		}
		for k := 0; k < 2; k++ {
			rec, err := poison.CreatePoisonRecord(ks, 1+rng.Intn(100))
			if err != nil {
				panic(err)
			}
			records = append(records, rec)
			rec2, err := poison.CreateSymmetricPoisonRecord(ks, 1+rng.Intn(100))
			if err != nil {
				panic(err)
			}
			records = append(records, rec2)
		}
	}
	ks.Reset()
	tables := proxyrig.GenTables(rng, 1, c04.Other, func(c proxyrig.ColSpec) bool {
		// every kind of configured column whose stored form is a byte string: the pipeline of a masked or searchable column differs from
		// that of a plainly encrypted one (another processor stands behind the envelope detector), the alarm must not depend on it
		return c.StoreType == fakepg.Bytea
	})
	t := tables[0]
	cb := &recCallback{}
	callbacks := poison.NewCallbackStorage()
	callbacks.AddCallback(cb)
	pw, err := proxyrig.NewWorld(proxyrig.WorldOpts{Tables: tables, KS: ks, Clients: []string{c04.Owner}, Poison: callbacks})
	if err != nil {
		r.Violation("rig: world could not be built (generated configuration rejected)", map[string]interface{}{"err": err.Error()})
		return
	}
	defer pw.Close()
	c, _, err := proxyrig.DialPG(pw.Acras[c04.Owner].Port)
	if err != nil {
		r.Inconclusive("cannot connect")
		return
	}
	defer c.Close()
	// bytea columns of the table (configured or not): the database returns poison records in any of them
	var byteaCols []int
	noteCol := -1
	for ci, col := range t.Cols {
		if col.StoreType == fakepg.Bytea {
			byteaCols = append(byteaCols, ci)
		}
		if col.Name == "note" {
			noteCol = ci
		}
	}
	// rows are placed directly into the database (this is data "coming back from storage")
	type rowKind struct {
		id     int
		poison bool
		marker string
	}
	var rows []rowKind
	nrows := 6 + rng.Intn(10)
	for i := 1; i <= nrows; i++ {
		row := make([]fakepg.Value, len(t.Cols))
		row[0] = int64(i)
		mk := fmt.Sprintf("ROWMARK%08x%04d", rng.Uint32(), i)
		if noteCol >= 0 {
			row[noteCol] = mk
		}
		isPoison := rng.Intn(2) == 0
		for _, ci := range byteaCols {
			row[ci] = gen.Bytes(rng, rng.Intn(60))
		}
		if isPoison {
			rec := records[rng.Intn(len(records))]
			ci := byteaCols[rng.Intn(len(byteaCols))]
			switch rng.Intn(3) {
			case 0:
				row[ci] = append([]byte{}, rec...)
			case 1:
				row[ci] = gen.Cat(gen.Bytes(rng, 1+rng.Intn(64)), rec)
			default:
				row[ci] = gen.Cat(gen.Bytes(rng, rng.Intn(64)), rec, gen.Bytes(rng, 1+rng.Intn(40)))
			}
		} else if rng.Intn(3) == 0 {
			// damaged poison record: must stay silent
			rec := append([]byte{}, records[rng.Intn(len(records))]...)
			rec[len(rec)-3] ^= 0x40
			row[byteaCols[rng.Intn(len(byteaCols))]] = rec
		}
		pw.Store.DB.InsertRow(t.Name, row)
		rows = append(rows, rowKind{i, isPoison, mk})
	}
	for _, rk := range rows {
		for _, bin := range []bool{false, true} {
			r.Case()
			cb.mu.Lock()
			cb.client, cb.rowMarker, cb.offset = c, []byte(rk.marker), len(c.RawIn())
			cb.mu.Unlock()
			before, deliveredBefore := atomic.LoadInt64(&cb.calls), atomic.LoadInt64(&cb.delivered)
			sql := fmt.Sprintf("select * from %s where id = %d", t.Name, rk.id)
			var msgs []proxyrig.BackendMsg
			var err error
			if bin {
				msgs, err = c.Extended("", sql, nil, nil, nil, []int16{1}, 0)
			} else {
				msgs, err = c.Simple(sql)
			}
			calls := atomic.LoadInt64(&cb.calls) - before
			late := atomic.LoadInt64(&cb.delivered) - deliveredBefore
			fmtName := map[bool]string{false: "text", true: "binary"}[bin]
			detail := map[string]interface{}{"session": sidx, "schema": pw.Schema, "sql": sql, "poison_row": rk.poison, "rotations": rot, "err": fmt.Sprint(err), "reply_rows": len(proxyrig.Rows(msgs))}
			if rk.poison {
				if calls == 0 {
					r.Violation(fmt.Sprintf("proxy: poison record in a result row raised no alarm: format=%s", fmtName), detail)
				} else if late > 0 {
					r.Violation(fmt.Sprintf("proxy: alarm raised after the row had been delivered: format=%s", fmtName), detail)
				} else {
					r.Count("proxy_poison_rows_alarmed", 1)
					r.Distinct(fmt.Sprintf("proxy-poison|%s|rot%d", fmtName, rot))
				}
			} else {
				if calls != 0 {
					r.Violation(fmt.Sprintf("proxy: alarm raised for a row without a poison record: format=%s", fmtName), detail)
				} else {
					r.Count("proxy_clean_rows_silent", 1)
					r.Distinct(fmt.Sprintf("proxy-clean|%s", fmtName))
				}
			}
			if err != nil {
				return
			}
		}
	}
}
