package proxylayers

// Damage layer (C01 and C03 at the wire): rows with several protected columns in which SOME stored values were altered by the
// database (bit flips, truncation, extension, swapped search hash, a value protected for another client) are read by the
// owner through a live AcraServer, several statements in one session, text and binary result formats.
//
//   C03 "In transparent column processing a damaged value is handed to the client unchanged" and "never yields different
//       plaintext": a damaged cell must arrive as exactly the stored bytes (or, for a damage that leaves the value
//       revealable, as exactly the original plaintext) - never as anything else (another column's bytes, a mix).
//   C01 "comes back byte-for-byte identical when the same client identity reveals it, whatever ... surrounds it": an intact
//       cell of the owner must arrive as the original plaintext although its neighbours in the row, or values read earlier in
//       the session, could not be revealed.

import (
	"bytes"
	"fmt"

	"github.com/jackc/pgx/v5/pgproto3"

	"verif/harness/internal/ev"
	"verif/harness/internal/gen"
	"verif/harness/internal/props/c03"
	"verif/harness/internal/props/c04"
	"verif/harness/internal/rig/fakepg"
	"verif/harness/internal/rig/proxyrig"
)

// DamageLayer runs the layer; which selects the clause reported: "C01" (intact cells), "C03" (damaged cells).
func DamageLayer(which string) func(r *ev.Run) {
	return func(r *ev.Run) {
		rng := gen.New(r.Seed, "damage-layer")
		n := r.Pick(30, 300)
		for s := 0; s < n; s++ {
			damageSession(r, which, gen.New(r.Seed, fmt.Sprintf("damage-%d-%d", s, rng.Int63())), s)
		}
		r.RequireAtLeast("wire_damage_intact_cells_checked", 40)
		r.RequireAtLeast("wire_damage_damaged_cells_checked", 40)
	}
}

type cellState struct {
	damage string // "" = intact
	stored []byte // what the database holds now
	plain  []byte
}

func damageSession(r *ev.Run, which string, rng *gen.Rand, sidx int) {
	cat := []proxyrig.ColSpec{
		{Name: "e_as", Kind: "enc", Envelope: "acrastruct", AppType: fakepg.Bytea, StoreType: fakepg.Bytea},
		{Name: "e_ab", Kind: "enc", Envelope: "acrablock", AppType: fakepg.Bytea, StoreType: fakepg.Bytea},
		{Name: "s_as", Kind: "search", Envelope: "acrastruct", AppType: fakepg.Bytea, StoreType: fakepg.Bytea},
		{Name: "s_ab", Kind: "search", Envelope: "acrablock", AppType: fakepg.Bytea, StoreType: fakepg.Bytea},
		{Name: "s2_ab", Kind: "search", Envelope: "acrablock", AppType: fakepg.Bytea, StoreType: fakepg.Bytea},
		{Name: "e2_as", Kind: "enc", Envelope: "acrastruct", AppType: fakepg.Bytea, StoreType: fakepg.Bytea},
	}
	cols := []proxyrig.ColSpec{{Name: "id", AppType: fakepg.Int4, StoreType: fakepg.Int4}}
	k := 2 + rng.Intn(3)
	for _, i := range rng.Perm(len(cat))[:k] {
		cols = append(cols, cat[i])
	}
	cols = append(cols, proxyrig.ColSpec{Name: "note", AppType: fakepg.Text, StoreType: fakepg.Text})
	tables := []proxyrig.TableSpec{{Name: "dmg", Cols: cols}}
	w, ac, rc, closeAll, ok := c04.OpenWorld(r, tables, "")
	if !ok {
		return
	}
	defer closeAll()
	var history []string
	nrows := 5 + rng.Intn(6)
	// same-length values in the protected columns of one row (a reused buffer shows only when the later value fits)
	for id := 1; id <= nrows; id++ {
		vlen := 12 + rng.Intn(30)
		sql := "insert into dmg (id"
		vals := fmt.Sprintf("%d", id)
		st := proxyrig.Step{Kind: "insert", Table: "dmg", Proto: "simple", ParamFmt: "none", ResFmt: "text"}
		for _, c := range cols[1:] {
			sql += ", " + c.Name
			var v proxyrig.Val
			if c.Name == "note" {
				v = proxyrig.Val{Type: fakepg.Text, S: fmt.Sprintf("note %d", id)}
			} else {
				v = proxyrig.Val{Type: fakepg.Bytea, B: append([]byte(fmt.Sprintf("MK%02d%s", id, c.Name)), gen.Bytes(rng, vlen)...)}
				st.Writes = append(st.Writes, proxyrig.Written{Table: "dmg", Col: c.Name, V: v})
			}
			vals += ", " + v.Literal(0, false)
		}
		st.SQL = sql + ") values (" + vals + ")"
		st.Groups = [][]pgproto3.FrontendMessage{{&pgproto3.Query{String: st.SQL}}}
		history = append(history, st.SQL[:60]+"...")
		if !c04.RunStep(r, w, ac, rc, st, history, sidx) {
			return
		}
	}
	srows, rrows := w.Store.DB.Snapshot("dmg"), w.Ref.DB.Snapshot("dmg")
	if len(srows) != nrows || len(rrows) != nrows {
		return
	}
	// decide the damage of every cell
	cells := map[[2]int]*cellState{}
	kinds := []string{"", "", "flip-payload", "truncate", "swap-hash", "flip-header"}
	for ri := 0; ri < nrows; ri++ {
		for ci := 1; ci < len(cols)-1; ci++ {
			sv, _ := srows[ri][ci].([]byte)
			pv, _ := rrows[ri][ci].([]byte)
			cs := &cellState{stored: append([]byte{}, sv...), plain: pv}
			cells[[2]int{ri, ci}] = cs
			d := kinds[rng.Intn(len(kinds))]
			if ri == 0 {
				d = "" // the first row stays intact: a baseline before any unrevealable value was seen
			}
			nv := append([]byte{}, sv...)
			switch d {
			case "flip-payload":
				nv[len(nv)-1-rng.Intn(8)] ^= 1 << uint(rng.Intn(8))
			case "truncate":
				nv = nv[:len(nv)-1-rng.Intn(5)]
			case "swap-hash":
				if cols[ci].Kind != "search" || ri+1 >= nrows {
					d = ""
					break
				}
				other, _ := srows[ri+1][ci].([]byte)
				if len(other) < 33 || len(nv) < 33 || bytes.Equal(other[:33], nv[:33]) {
					d = ""
					break
				}
				copy(nv, other[:33])
			case "flip-header":
				off := 0
				if cols[ci].Kind == "search" {
					off = 33
				}
				nv[off+3+rng.Intn(8)] ^= 0x40
			}
			if d != "" {
				cs.damage = d
				cs.stored = nv
			}
		}
	}
	for ci := 1; ci < len(cols)-1; ci++ {
		ci := ci
		w.Store.DB.TamperAll("dmg", cols[ci].Name, func(row int, v fakepg.Value) fakepg.Value {
			if cs := cells[[2]int{row, ci}]; cs != nil && cs.damage != "" {
				return append([]byte{}, cs.stored...)
			}
			return v
		})
	}
	// reads: all columns / subsets / reversed order, text and binary, simple and extended, several in one session
	type read struct {
		colIdx []int
		bin    bool
		ext    bool
	}
	var reads []read
	all := []int{}
	for ci := 1; ci < len(cols)-1; ci++ {
		all = append(all, ci)
	}
	rev := append([]int{}, all...)
	for i, j := 0, len(rev)-1; i < j; i, j = i+1, j-1 {
		rev[i], rev[j] = rev[j], rev[i]
	}
	reads = append(reads, read{all, false, false}, read{all, true, true}, read{rev, true, true}, read{rev, false, true}, read{all[:1], true, true}, read{all, false, false})
	for _, rd := range reads {
		sql := "select id"
		for _, ci := range rd.colIdx {
			sql += ", " + cols[ci].Name
		}
		sql += " from dmg order by id"
		var msgs []proxyrig.BackendMsg
		var err error
		if rd.ext {
			var rf []int16
			if rd.bin {
				rf = []int16{1}
			}
			msgs, err = ac.Extended("", sql, nil, nil, nil, rf, 0)
		} else {
			msgs, err = ac.Simple(sql)
		}
		label := fmt.Sprintf("format=%s proto=%s", map[bool]string{false: "text", true: "binary"}[rd.bin], map[bool]string{false: "simple", true: "extended"}[rd.ext])
		detail := func(extra map[string]interface{}) map[string]interface{} {
			m := map[string]interface{}{"session": sidx, "schema": w.Schema, "sql": sql, "read": label}
			for k, v := range extra {
				m[k] = v
			}
			return m
		}
		if err != nil {
			r.Violation("wire damage: connection broke while reading rows with damaged values: "+label, detail(map[string]interface{}{"err": err.Error()}))
			return
		}
		if e := proxyrig.ErrorOf(msgs); e != nil {
			r.Violation("wire damage: error instead of rows (no failure policy is configured): "+label, detail(map[string]interface{}{"error": e.Message}))
			return
		}
		rows := proxyrig.Rows(msgs)
		if len(rows) != nrows {
			r.Violation("wire damage: row count differs: "+label, detail(map[string]interface{}{"rows": len(rows), "want": nrows}))
			return
		}
		for ri, row := range rows {
			for k, ci := range rd.colIdx {
				r.Case()
				cs := cells[[2]int{ri, ci}]
				got := row[1+k]
				if !rd.bin && got != nil {
					dec, derr := fakepg.DecodeByteaText(string(got))
					if derr == nil {
						got = dec
					}
				}
				c := cols[ci]
				cls := fmt.Sprintf("column=%s/%s %s", c.Kind, c.Envelope, label)
				if cs.damage == "" {
					r.Count("wire_damage_intact_cells_checked", 1)
					if !bytes.Equal(got, cs.plain) {
						if which == "C01" {
							what := "something else"
							if bytes.Equal(got, cs.stored) {
								what = "the stored form (not revealed)"
							}
							r.Violation("wire damage: intact value of the owner not revealed next to / after unrevealable values: got "+what+": "+cls,
								detail(map[string]interface{}{"row": ri, "column": c.Name, "got": ev.Hex(got), "plaintext": ev.Hex(cs.plain), "damage_in_row": rowDamage(cells, ri, len(cols))}))
						}
					} else {
						r.Distinct("wire-damage-intact|" + cls)
					}
					continue
				}
				r.Count("wire_damage_damaged_cells_checked", 1)
				switch {
				case bytes.Equal(got, cs.stored):
					r.Count("wire_damage_damaged_cells_handed_unchanged", 1)
					r.Distinct("wire-damage-unchanged|" + cs.damage + "|" + cls)
				case bytes.Equal(got, cs.plain):
					r.Count("wire_damage_damaged_cells_still_revealed_to_original", 1)
				case c03.Derivable(got, cs.stored, cs.plain):
					// the damage hit the container header only: the intact inner envelope is revealed in place and every other
					// stored byte is kept (C03's framing rule: "the correctly revealed value with framing intact")
					r.Count("wire_damage_damaged_cells_inner_envelope_revealed_in_place", 1)
				default:
					if which == "C03" {
						r.Violation("wire damage: damaged value neither handed to the client unchanged nor revealed to the original: damage="+cs.damage+" "+cls,
							detail(map[string]interface{}{"row": ri, "column": c.Name, "got": ev.Hex(got), "stored": ev.Hex(cs.stored), "plaintext": ev.Hex(cs.plain), "damage_in_row": rowDamage(cells, ri, len(cols))}))
					}
				}
			}
		}
	}
	r.SampleN("wire-damage", 2, map[string]interface{}{"layer": "wire damage", "session": sidx, "columns": len(cols) - 2, "rows": nrows, "damaged_cells": countDamaged(cells)})
}

func rowDamage(cells map[[2]int]*cellState, ri, ncols int) []string {
	var out []string
	for ci := 1; ci < ncols-1; ci++ {
		if cs := cells[[2]int{ri, ci}]; cs != nil {
			d := cs.damage
			if d == "" {
				d = "intact"
			}
			out = append(out, d)
		}
	}
	return out
}

func countDamaged(cells map[[2]int]*cellState) int {
	n := 0
	for _, c := range cells {
		if c.damage != "" {
			n++
		}
	}
	return n
}
