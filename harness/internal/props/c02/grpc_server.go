package c02

import (
	"bytes"
	"context"
	"crypto/tls"
	"fmt"
	"net"
	"os"
	"path/filepath"
	"time"

	trcommon "github.com/cossacklabs/acra/cmd/acra-translator/common"
	"github.com/cossacklabs/acra/cmd/acra-translator/grpc_api"
	"github.com/cossacklabs/acra/keystore"
	"github.com/cossacklabs/acra/network"
	tokenCommon "github.com/cossacklabs/acra/pseudonymization/common"
	"google.golang.org/grpc"
	"google.golang.org/grpc/codes"
	"google.golang.org/grpc/credentials"
	"google.golang.org/grpc/status"

	"verif/harness/internal/ev"
	"verif/harness/internal/gen"
	"verif/harness/internal/rig/envrig"
	"verif/harness/internal/rig/ksrig"
)

// gRPC server as acra-translator builds it: grpc_api.NewServer(TranslatorData{UseConnectionClientID: true, Tokenizer, ...},
// TLS connection wrapper) - service construction, wrapping and REGISTRATION of the six gRPC services are Acra's - served on a
// unix socket, called through the generated clients over real TLS connections that present different client certificates.
// (identity.go calls TLSDecryptServiceWrapper as a Go object; which object each gRPC service is registered with is decided
// in NewServer and only seen here.)
//
// Every RPC family (Encrypt/Decrypt, Sym, Searchable, SearchableSym, Tokenize/Detokenize for the five token types,
// GenerateQueryHash) is called by every ordered pair (A, B) of certificate identities, with the client_id field of the
// request empty / the caller's own id / the other certificate's id / an ordinary client that has keys / an id without keys:
//   - protect over A's connection with any client_id: the artefact must be A's - A reads it, and neither the identity named
//     in the request nor B can (checked in process against the same keystore and token storage, and over B's connection);
//   - reveal over B's connection of A's artefacts with any client_id (in particular A's own id, and empty): no plaintext;
//   - reveal over A's connection of A's artefacts with any client_id: the plaintext ("the identity named inside a request is ignored").

type grpcClients struct {
	id     *tlsIdentity
	conn   *grpc.ClientConn
	reader grpc_api.ReaderClient
	writer grpc_api.WriterClient
	rsym   grpc_api.ReaderSymClient
	wsym   grpc_api.WriterSymClient
	search grpc_api.SearchableEncryptionClient
	tok    grpc_api.TokenizatorClient
}

type idVariant struct {
	label string
	id    []byte
}

// grpcArtefact is one protected value made over a connection.
type grpcArtefact struct {
	family  string // Encrypt | EncryptSym | EncryptSearchable | EncryptSymSearchable | Tokenize(<type>)
	madeAs  string // label of the client_id variant named in the protect request
	plain   []byte
	data    []byte // envelope
	hash    []byte // search hash (searchable families)
	tokType tokenCommon.TokenType
	tokIn   interface{} // original value (typed)
	tokOut  interface{} // token (typed)
}

func tokenRequest(id []byte, v interface{}) *grpc_api.TokenizeRequest {
	q := &grpc_api.TokenizeRequest{ClientId: id}
	switch x := v.(type) {
	case string:
		q.Value = &grpc_api.TokenizeRequest_StrValue{StrValue: x}
	case tokenCommon.Email:
		q.Value = &grpc_api.TokenizeRequest_EmailValue{EmailValue: string(x)}
	case int32:
		q.Value = &grpc_api.TokenizeRequest_Int32Value{Int32Value: x}
	case int64:
		q.Value = &grpc_api.TokenizeRequest_Int64Value{Int64Value: x}
	case []byte:
		q.Value = &grpc_api.TokenizeRequest_BytesValue{BytesValue: x}
	}
	return q
}

func tokenResponse(t tokenCommon.TokenType, p *grpc_api.TokenizeResponse) interface{} {
	if p == nil {
		return nil
	}
	switch t {
	case tokenCommon.TokenType_String:
		return p.GetStrToken()
	case tokenCommon.TokenType_Email:
		return tokenCommon.Email(p.GetEmailToken())
	case tokenCommon.TokenType_Int32:
		return p.GetInt32Token()
	case tokenCommon.TokenType_Int64:
		return p.GetInt64Token()
	default:
		return p.GetBytesToken()
	}
}

func sameToken(a, b interface{}) bool {
	if x, ok := a.([]byte); ok {
		y, ok := b.([]byte)
		return ok && bytes.Equal(x, y)
	}
	return a == b
}

func grpcServerTLS(r *ev.Run) {
	rng := gen.New(r.Seed, "c02-grpc-server")
	rig, err := loadTLSRig()
	if err != nil {
		r.Violation("grpc server rig: cannot load TLS identities (rig fault)", map[string]interface{}{"err": err.Error()})
		return
	}
	dir := ksrig.ScratchDir("c02-grpc")
	defer os.RemoveAll(dir)
	ks, err := ksrig.V1(filepath.Join(dir, "ks"), ksrig.RandBytes(32), keystore.InfiniteCacheSize)
	if err != nil {
		panic(err)
	}
	e, err := envrig.New("grpc-server", ks, nil, "")
	if err != nil {
		panic(err)
	}
	ordinary := []byte("c02_grpc_ordinary_client")
	keyless := []byte("c02_grpc_client_without_keys")
	for _, id := range rig.ids {
		if err := ksrig.GenClient(ks, id.clientID); err != nil {
			panic(err)
		}
	}
	if err := ksrig.GenClient(ks, ordinary); err != nil {
		panic(err)
	}
	// the server, as cmd/acra-translator assembles it
	td := &trcommon.TranslatorData{Keystorage: ks, Tokenizer: e.Tokenizer, UseConnectionClientID: true, TLSClientIDExtractor: rig.extractor}
	rig.wrapper.AddOnServerHandshakeCallback(network.SafeCloseConnectionCallback{})
	srv, err := grpc_api.NewServer(td, rig.wrapper)
	if err != nil {
		r.Violation("grpc server rig: grpc_api.NewServer failed (rig fault)", map[string]interface{}{"err": err.Error()})
		return
	}
	sock := filepath.Join(dir, "translator-grpc.sock")
	ln, err := net.Listen("unix", sock)
	if err != nil {
		r.Inconclusive("grpc server: cannot listen on a unix socket: " + err.Error())
		return
	}
	served := make(chan struct{})
	go func() { srv.Serve(ln); close(served) }()
	defer func() {
		srv.Stop()
		select {
		case <-served:
		case <-time.After(5 * time.Second):
		}
	}()
	dial := func(id *tlsIdentity) (*grpcClients, error) {
		ctx, cancel := context.WithTimeout(bg, 20*time.Second)
		defer cancel()
		cc, err := grpc.DialContext(ctx, "passthrough:///translator", grpc.WithBlock(),
			grpc.WithContextDialer(func(ctx context.Context, _ string) (net.Conn, error) { return (&net.Dialer{}).DialContext(ctx, "unix", sock) }),
			grpc.WithTransportCredentials(credentials.NewTLS(&tls.Config{Certificates: []tls.Certificate{id.cert}, InsecureSkipVerify: true})))
		if err != nil {
			return nil, err
		}
		return &grpcClients{id: id, conn: cc, reader: grpc_api.NewReaderClient(cc), writer: grpc_api.NewWriterClient(cc), rsym: grpc_api.NewReaderSymClient(cc),
			wsym: grpc_api.NewWriterSymClient(cc), search: grpc_api.NewSearchableEncryptionClient(cc), tok: grpc_api.NewTokenizatorClient(cc)}, nil
	}
	var clients []*grpcClients
	for _, id := range rig.ids {
		c, err := dial(id)
		if err != nil {
			r.Violation("grpc server rig: TLS connection with a client certificate could not be established (rig fault)", map[string]interface{}{"identity": id.name, "err": err.Error()})
			return
		}
		defer c.conn.Close()
		clients = append(clients, c)
	}
	call := func() (context.Context, context.CancelFunc) { return context.WithTimeout(bg, 20*time.Second) }

	const where = "grpc server built by grpc_api.NewServer, identity from the TLS connection: "
	reps := r.Pick(1, 4)
	for rep := 0; rep < reps; rep++ {
		for ai, A := range clients {
			for bi, B := range clients {
				if ai == bi {
					continue
				}
				variants := func(owner, caller *grpcClients) []idVariant {
					other := clients[(3-ai-bi)%3]
					vs := []idVariant{{"empty", nil}, {"owner's-certificate-id", owner.id.clientID}, {"ordinary-client-with-keys", ordinary}, {"id-without-keys", keyless}}
					if caller != owner {
						vs = append(vs, idVariant{"caller's-own-certificate-id", caller.id.clientID})
					} else {
						vs = append(vs, idVariant{"another-certificate's-id", B.id.clientID})
					}
					if other != owner && other != caller {
						vs = append(vs, idVariant{"third-certificate's-id", other.id.clientID})
					}
					return vs
				}
				detail := func(extra map[string]interface{}) map[string]interface{} {
					m := map[string]interface{}{"owner_certificate": A.id.name, "owner_client_id": string(A.id.clientID), "other_certificate": B.id.name, "other_client_id": string(B.id.clientID), "listener": "unix socket, TLS with client certificates"}
					for k, v := range extra {
						m[k] = v
					}
					return m
				}
				// ---- protect over A's connection, naming each variant in the request --------------------
				var arts []*grpcArtefact
				for _, v := range variants(A, A) {
					x, _ := plaintext(rng, 30)
					ctx, cancel := call()
					if p, err := A.writer.Encrypt(ctx, &grpc_api.EncryptRequest{ClientId: v.id, Data: x}); err == nil && len(p.Acrastruct) > 0 {
						arts = append(arts, &grpcArtefact{family: "Encrypt", madeAs: v.label, plain: x, data: p.Acrastruct})
					} else {
						r.Count("grpc_server_protect_failed:Encrypt", 1)
					}
					x, _ = plaintext(rng, 30)
					if p, err := A.wsym.EncryptSym(ctx, &grpc_api.EncryptSymRequest{ClientId: v.id, Data: x}); err == nil && len(p.Acrablock) > 0 {
						arts = append(arts, &grpcArtefact{family: "EncryptSym", madeAs: v.label, plain: x, data: p.Acrablock})
					} else {
						r.Count("grpc_server_protect_failed:EncryptSym", 1)
					}
					x, _ = plaintext(rng, 30)
					if p, err := A.search.EncryptSearchable(ctx, &grpc_api.SearchableEncryptionRequest{ClientId: v.id, Data: x}); err == nil && len(p.Acrastruct) > 0 {
						arts = append(arts, &grpcArtefact{family: "EncryptSearchable", madeAs: v.label, plain: x, data: p.Acrastruct, hash: p.Hash})
					} else {
						r.Count("grpc_server_protect_failed:EncryptSearchable", 1)
					}
					x, _ = plaintext(rng, 30)
					if p, err := A.search.EncryptSymSearchable(ctx, &grpc_api.SearchableSymEncryptionRequest{ClientId: v.id, Data: x}); err == nil && len(p.Acrablock) > 0 {
						arts = append(arts, &grpcArtefact{family: "EncryptSymSearchable", madeAs: v.label, plain: x, data: p.Acrablock, hash: p.Hash})
					} else {
						r.Count("grpc_server_protect_failed:EncryptSymSearchable", 1)
					}
					for _, tv := range []struct {
						name string
						t    tokenCommon.TokenType
						v    interface{}
					}{
						{"str", tokenCommon.TokenType_String, "grpc token " + string(newMarker(rng))},
						{"email", tokenCommon.TokenType_Email, tokenCommon.Email(string(newMarker(rng)) + "@example.com")},
						{"int32", tokenCommon.TokenType_Int32, int32(rng.Uint64())},
						{"int64", tokenCommon.TokenType_Int64, int64(rng.Uint64())},
						{"bytes", tokenCommon.TokenType_Bytes, append([]byte("grpc bytes "), newMarker(rng)...)},
					} {
						p, err := A.tok.Tokenize(ctx, tokenRequest(v.id, tv.v))
						out := tokenResponse(tv.t, p)
						if err != nil || out == nil || sameToken(out, tv.v) {
							r.Count("grpc_server_protect_failed:Tokenize("+tv.name+")", 1)
							if status.Code(err) == codes.Unimplemented {
								r.Count("grpc_server_rpc_unimplemented:Tokenize", 1)
							}
							continue
						}
						arts = append(arts, &grpcArtefact{family: "Tokenize(" + tv.name + ")", madeAs: v.label, tokType: tv.t, tokIn: tv.v, tokOut: out, plain: []byte(fmt.Sprint(tv.v))})
					}
					// query hash: must be the hash under the CONNECTION's key whatever the request names
					x, _ = plaintext(rng, 30)
					r.Case()
					if p, err := A.search.GenerateQueryHash(ctx, &grpc_api.QueryHashRequest{ClientId: v.id, Data: x}); err == nil && len(p.Hash) > 0 {
						own, _ := e.Translator.GenerateQueryHash(bg, x, A.id.clientID, nil)
						if !bytes.Equal(own, p.Hash) {
							r.Violation(where+"query hash not made with the key of the connection's identity: rpc=GenerateQueryHash request-client-id="+v.label,
								detail(map[string]interface{}{"request_client_id": string(v.id)}))
						} else {
							r.Count("grpc_server_query_hash_under_connection_identity", 1)
							r.Distinct("grpc-server|GenerateQueryHash|" + v.label)
						}
					} else {
						r.Count("grpc_server_protect_failed:GenerateQueryHash", 1)
					}
					cancel()
				}
				// ---- whose artefact is it? (in process, same keystore and token storage) ----------------
				inProcess := func(a *grpcArtefact, id []byte) bool {
					switch {
					case a.tokOut != nil:
						out, err := e.Translator.Detokenize(bg, a.tokOut, a.tokType, id, nil)
						return err == nil && sameToken(out, a.tokIn)
					case a.family == "Encrypt":
						out, err := e.Translator.Decrypt(bg, append([]byte{}, a.data...), id, nil)
						return err == nil && bytes.Equal(out, a.plain)
					case a.family == "EncryptSym":
						out, err := e.Translator.DecryptSym(bg, append([]byte{}, a.data...), id, nil)
						return err == nil && bytes.Equal(out, a.plain)
					case a.family == "EncryptSearchable":
						out, err := e.Translator.DecryptSearchable(bg, append([]byte{}, a.data...), append([]byte{}, a.hash...), id, nil)
						return err == nil && bytes.Equal(out, a.plain)
					default:
						out, err := e.Translator.DecryptSymSearchable(bg, append([]byte{}, a.data...), append([]byte{}, a.hash...), id, nil)
						return err == nil && bytes.Equal(out, a.plain)
					}
				}
				for _, a := range arts {
					r.Case()
					if !inProcess(a, A.id.clientID) {
						r.Violation(fmt.Sprintf(where+"artefact made over a connection is not readable under the connection's identity (request identity not ignored): rpc=%s request-client-id=%s", a.family, a.madeAs),
							detail(map[string]interface{}{"plaintext": string(a.plain)}))
						continue
					}
					leaked := ""
					for _, o := range []idVariant{{"empty", nil}, {"another-certificate's-id", B.id.clientID}, {"ordinary-client-with-keys", ordinary}, {"id-without-keys", keyless}} {
						if inProcess(a, o.id) {
							leaked = o.label
						}
					}
					if leaked != "" {
						r.Violation(fmt.Sprintf(where+"artefact made over a connection is readable under an identity other than the connection's: rpc=%s request-client-id=%s readable-as=%s", a.family, a.madeAs, leaked),
							detail(map[string]interface{}{"plaintext": string(a.plain)}))
						continue
					}
					r.Count("grpc_server_artefacts_bound_to_connection_identity", 1)
					r.Distinct("grpc-server|protect|" + a.family + "|" + a.madeAs)
				}
				// ---- reveal over B's connection (must not), and over A's (must), naming each variant ----
				reveal := func(c *grpcClients, a *grpcArtefact, id []byte) (got []byte, typed interface{}, err error) {
					ctx, cancel := call()
					defer cancel()
					switch {
					case a.tokOut != nil:
						p, err := c.tok.Detokenize(ctx, tokenRequest(id, a.tokOut))
						return nil, tokenResponse(a.tokType, p), err
					case a.family == "Encrypt":
						p, err := c.reader.Decrypt(ctx, &grpc_api.DecryptRequest{ClientId: id, Acrastruct: a.data})
						return p.GetData(), nil, err
					case a.family == "EncryptSym":
						p, err := c.rsym.DecryptSym(ctx, &grpc_api.DecryptSymRequest{ClientId: id, Acrablock: a.data})
						return p.GetData(), nil, err
					case a.family == "EncryptSearchable":
						p, err := c.search.DecryptSearchable(ctx, &grpc_api.SearchableDecryptionRequest{ClientId: id, Data: a.data, Hash: a.hash})
						return p.GetData(), nil, err
					default:
						p, err := c.search.DecryptSymSearchable(ctx, &grpc_api.SearchableSymDecryptionRequest{ClientId: id, Data: a.data, Hash: a.hash})
						return p.GetData(), nil, err
					}
				}
				revealName := func(a *grpcArtefact) string {
					if a.tokOut != nil {
						return "Detokenize" + a.family[len("Tokenize"):]
					}
					return "De" + a.family[2:]
				}
				for _, a := range arts {
					for _, rd := range []*grpcClients{B, A} {
						for _, v := range variants(A, rd) {
							r.Case()
							got, typed, err := reveal(rd, a, v.id)
							inClear := a.tokOut == nil && bytes.Contains(got, a.plain) || a.tokOut != nil && err == nil && sameToken(typed, a.tokIn)
							if status.Code(err) == codes.Unimplemented {
								r.Count("grpc_server_rpc_unimplemented:"+revealName(a), 1)
							}
							if rd == A {
								if !inClear {
									r.Violation(fmt.Sprintf(where+"connection cannot reveal the artefact of its own certificate identity (request identity not ignored): rpc=%s request-client-id=%s protected-with-request-client-id=%s", revealName(a), v.label, a.madeAs),
										detail(map[string]interface{}{"err": fmt.Sprint(err), "request_client_id": string(v.id)}))
								} else {
									r.Count("grpc_server_own_reveals_succeeded", 1)
									r.SetAdd("grpc_server_rpcs_revealing_to_owner", revealName(a))
									r.Distinct("grpc-server|own|" + revealName(a) + "|" + v.label)
								}
								continue
							}
							if inClear {
								r.Violation(fmt.Sprintf(where+"value protected over one certificate's connection returned in clear over a connection presenting another certificate: rpc=%s request-client-id=%s protected-with-request-client-id=%s", revealName(a), v.label, a.madeAs),
									detail(map[string]interface{}{"plaintext": string(a.plain), "request_client_id": string(v.id)}))
							} else {
								r.Count("grpc_server_foreign_reveals_refused", 1)
								r.Distinct("grpc-server|foreign|" + revealName(a) + "|" + v.label)
							}
						}
					}
				}
				r.SampleN("grpc-server", 2, map[string]interface{}{"owner_certificate": A.id.name, "other_certificate": B.id.name, "artefacts": len(arts), "listener": "unix socket"})
			}
		}
	}
	r.RequireAtLeast("grpc_server_artefacts_bound_to_connection_identity", 200)
	r.RequireAtLeast("grpc_server_own_reveals_succeeded", 1000)
	r.RequireAtLeast("grpc_server_foreign_reveals_refused", 1000)
	r.RequireAtLeast("grpc_server_query_hash_under_connection_identity", 20)
	r.RequireSetAtLeast("grpc_server_rpcs_revealing_to_owner", 9)
}
