package c02

import (
	"bytes"
	"fmt"
	"sort"
	"strings"

	"github.com/cossacklabs/acra/keystore"
	"github.com/cossacklabs/acra/keystore/v2/keystore/filesystem/backend"

	"verif/harness/internal/ev"
	"verif/harness/internal/gen"
	"verif/harness/internal/rig/envrig"
	"verif/harness/internal/rig/ksrig"
)

// Near-identical identities: "for all pairs of distinct client identities ... both keystore formats".
// The main part uses four identities that are far apart and always have keys. Here the two identities of a pair differ
// only by letter case, one leading / trailing space, one being a prefix of the other, or '-' / '_' / ' ' exchanged, and
// the pair is met in both situations: the requester has NO keys of its own (every key getter and every reveal under it
// must fail or give nothing of the owner's; generating keys for it must leave the owner's stored keys alone), and both
// have keys (keys pairwise distinct, nothing of one reveals under the other). Oracles are those of the main part.

type nearKind struct {
	name string
	// ids returns the two identities built over a base name (letters, digits and '-' only, lower case).
	ids func(base string) (x, y string)
}

func nearKinds() []nearKind {
	return []nearKind{
		{"case-only(lower|Mixed)", func(b string) (string, string) { return b + "-backend", mixedCase(b + "-backend") }},
		{"case-only(lower|UPPER)", func(b string) (string, string) { return b + "-backend", strings.ToUpper(b + "-backend") }},
		{"trailing-space", func(b string) (string, string) { return b + "-backend", b + "-backend " }},
		{"leading-space", func(b string) (string, string) { return b + "-backend", " " + b + "-backend" }},
		{"prefix(one more letter)", func(b string) (string, string) { return b + "-backend", b + "-backends" }},
		{"prefix(_storage suffix)", func(b string) (string, string) { return b + "-backend", b + "-backend_storage" }},
		{"dash|underscore", func(b string) (string, string) { return b + "-backend-one", b + "_backend_one" }},
		{"space|underscore", func(b string) (string, string) { return b + " backend one", b + "_backend_one" }},
	}
}

// mixedCase upper-cases the first letter of every '-'-separated word ("alice-backend" -> "Alice-Backend").
func mixedCase(s string) string {
	b := []byte(s)
	up := true
	for i, c := range b {
		if up && c >= 'a' && c <= 'z' {
			b[i] = c - 32
		}
		up = c == '-'
	}
	return string(b)
}

type nearStore struct {
	env *envrig.Env
	// dump returns the stored objects (files of the keystore directory / paths of the in-memory back end) -> bytes.
	dump func() map[string][]byte
}

func dumpTree(root string) map[string][]byte {
	t, err := ksrig.FaultDumpTree(root)
	if err != nil {
		panic(err)
	}
	out := map[string][]byte{}
	for p, f := range t {
		if !f.Dir {
			out[p] = f.Data
		}
	}
	return out
}

func nearStores() []nearStore {
	var out []nearStore
	add := func(name string, ks ksrig.FullKeyStore, dump func() map[string][]byte) {
		e, err := envrig.New(name, ks, nil, "")
		if err != nil {
			panic(err)
		}
		out = append(out, nearStore{e, dump})
	}
	master := ksrig.RandBytes(32)
	for _, c := range []struct {
		name  string
		cache int
	}{{"v1", keystore.InfiniteCacheSize}, {"v1nocache", keystore.WithoutCache}} {
		dir := ksrig.ScratchDir("c02-near-" + c.name)
		ks, err := ksrig.V1(dir, master, c.cache)
		if err != nil {
			panic(err)
		}
		add(c.name, ks, func() map[string][]byte { return dumpTree(dir) })
	}
	mem := backend.NewInMemory()
	v2m, err := ksrig.V2OnBackend(mem, ksrig.NewV2Keys())
	if err != nil {
		panic(err)
	}
	add("v2mem", v2m, func() map[string][]byte {
		st, err := ksrig.FaultDumpBackend(mem)
		if err != nil {
			panic(err)
		}
		return st
	})
	v2root := ksrig.ScratchDir("c02-near-v2dir") + "/ks"
	v2d, err := ksrig.V2Dir(v2root, ksrig.NewV2Keys())
	if err != nil {
		panic(err)
	}
	add("v2dir", v2d, func() map[string][]byte { return dumpTree(v2root) })
	return out
}

// changedPaths lists the stored objects that are new or different in `after`.
func changedPaths(before, after map[string][]byte) []string {
	var out []string
	for p, d := range after {
		if o, ok := before[p]; !ok || !bytes.Equal(o, d) {
			out = append(out, p)
		}
	}
	sort.Strings(out)
	return out
}

// keyLists reads every key list of a client, getter by getter (values copied); a failing getter gives "error".
func keyLists(ks ksrig.FullKeyStore, id []byte) map[string]string {
	m := map[string]string{}
	for _, g := range getters() {
		vals, err, pan := safeGet(g, ks, id)
		switch {
		case pan != "":
			m[g.name] = "panic"
		case err != nil:
			m[g.name] = "error"
		default:
			m[g.name] = fmt.Sprintf("%x", vals)
		}
	}
	return m
}

// nearIdentities is the part driver.
func nearIdentities(r *ev.Run, rng *gen.Rand) {
	stores := nearStores()
	pfs := protects()
	rvs := reveals()
	for _, st := range stores {
		ledger := &keyLedger{owner: map[string]string{}}
		for ki, kind := range nearKinds() {
			for order := 0; order < 2; order++ {
				// a fresh base per (kind, order): the pairs never interact
				x, y := kind.ids(fmt.Sprintf("nr%c%d", 'a'+ki, order))
				if order == 1 {
					x, y = y, x
				}
				if !keystore.ValidateID([]byte(x)) || !keystore.ValidateID([]byte(y)) || x == y {
					panic("near-identity generator produced an id Acra does not accept: " + x + " / " + y)
				}
				nearFlow(r, rng, st, ledger, kind.name, order, []byte(x), []byte(y), pfs, rvs)
			}
		}
	}
	n := int64(len(stores) * len(nearKinds()) * 2)
	r.RequireAtLeast("near_pairs_explored", n)
	r.RequireAtLeast("near_owner_reads_own_value", n*int64(len(pfs)))
	r.RequireAtLeast("near_getter_under_keyless_requester_gave_nothing_of_owner", n*3)
	r.RequireAtLeast("near_owner_keys_untouched_by_generation_for_requester", n)
	r.RequireAtLeast("near_cross_reveal_evaluated", n*int64(len(pfs)*len(rvs)))
	r.RequireSetAtLeast("near_kinds_explored", len(nearKinds())*2*len(stores))
}

// nearFlow: A = first (gets keys first, one rotation), B = second (no keys at first).
func nearFlow(r *ev.Run, rng *gen.Rand, st nearStore, ledger *keyLedger, kind string, order int, aID, bID []byte, pfs []protectFn, rvs []revealFn) {
	e := st.env
	first := "first-of-pair-has-keys"
	if order == 1 {
		first = "second-of-pair-has-keys"
	}
	tagFor := func(requesterKeys string) string {
		return fmt.Sprintf(" ids=near-identical:%s:%s requester-keys=%s", kind, first, requesterKeys)
	}
	a, b := client{aID, 1}, client{bID, 0}
	detail := func(extra map[string]interface{}) map[string]interface{} {
		m := map[string]interface{}{"keystore": e.Name, "kind": kind, "owner": string(aID), "requester": string(bID), "owner_hex": ev.FullHex(aID), "requester_hex": ev.FullHex(bID)}
		for k, v := range extra {
			m[k] = v
		}
		return m
	}

	// --- A gets keys (current + one rotated generation of every kind) ----------------------------
	before := st.dump()
	if err := ksrig.GenClient(e.KS, aID); err != nil {
		// the keystore refuses the identity as such: nothing to observe for this pair
		r.Count("near_identity_refused_by_keystore", 1)
		return
	}
	rotate(e, a, true)
	e.KS.Reset()
	afterA := st.dump()
	pathsA := changedPaths(before, afterA)
	// the stored objects OF THIS CLIENT: those written while its keys were made whose path names it (a keystore-wide object
	// that any key generation may touch is not this client's); if no path names the client (another layout), all of them
	var named []string
	for _, p := range pathsA {
		if strings.Contains(p, string(aID)) {
			named = append(named, p)
		}
	}
	if len(named) >= 3 {
		pathsA = named
	}
	secretsA := secretsOf(e.KS, aID, true)
	if len(pathsA) < 3 || len(secretsA) < 8 {
		panic(fmt.Sprintf("near-identity rig: keys of %q not as expected: stored=%v secrets=%d", aID, pathsA, len(secretsA)))
	}
	produce := func(c client) []*artefact {
		var out []*artefact
		for _, pf := range pfs {
			x, mk := plaintext(rng, 24)
			y, err := pf.f(e, c.id, x)
			if err != nil || bytes.Contains(y, x) {
				r.Count("near_protect_errors", 1)
				continue
			}
			out = append(out, &artefact{env: e, owner: c, ep: pf, step: 0, x: x, marker: mk, y: y})
		}
		return out
	}
	control := func(as []*artefact) {
		for _, art := range as {
			for _, rv := range rvs {
				if out, err, pan := safe(rv, e, art.owner.id, art.y); pan == "" && err == nil && bytes.Contains(out, art.marker) {
					r.Count("near_owner_reads_own_value", 1)
					break
				}
			}
		}
	}
	cross := func(as []*artefact, other client, tag string) {
		for i, art := range as {
			j := crossJob{a: art, other: other, tag: tag}
			if i%3 == 1 {
				j.pre, j.suf = []byte("prefix text "), []byte(" suffix text")
			}
			crossReveal(r, j, rvs)
			r.Count("near_cross_reveal_evaluated", int64(len(rvs)))
		}
	}
	gettersUnder := func(req []byte, ownerSecrets [][]byte, ownerID []byte, tag string, keyless bool) {
		for _, g := range getters() {
			r.Case()
			vals, err, pan := safeGet(g, e.KS, req)
			leaked := false
			for _, v := range vals {
				for _, s := range ownerSecrets {
					if len(v) > 0 && bytes.Equal(v, s) {
						leaked = true
					}
				}
			}
			sig := fmt.Sprintf("key of one client handed out under another identity: ks=%s getter=%s%s", e.Name, g.name, tag)
			switch {
			case leaked:
				r.Violation(sig, detail(map[string]interface{}{"key_owner": string(ownerID), "asked_as": string(req), "getter": g.name, "values_returned": len(vals), "error": fmt.Sprint(err)}))
			case pan != "":
				r.Inconclusive("panic in key getter (C14's subject): " + sig)
			default:
				if keyless {
					r.Count("near_getter_under_keyless_requester_gave_nothing_of_owner", 1)
					if err != nil {
						r.Distinct("near|" + e.Name + "|" + kind + "|" + first + "|" + g.name + "|keyless-refused")
					} else {
						r.Distinct("near|" + e.Name + "|" + kind + "|" + first + "|" + g.name + "|keyless-empty-or-other")
					}
				} else {
					r.Count("near_getter_under_requester_gave_only_own_keys", 1)
					r.Distinct("near|" + e.Name + "|" + kind + "|" + first + "|" + g.name + "|own-keys")
				}
			}
		}
	}

	artsA := produce(a)
	control(artsA)

	// --- situation (b): B has no keys ------------------------------------------------------------
	gettersUnder(bID, secretsA, aID, tagFor("none"), true)
	cross(artsA, b, tagFor("none"))

	// --- keys are generated for B: A's stored keys and A's key lists must stay as they are -----------
	listsA := keyLists(e.KS, aID)
	storedA := st.dump()
	if err := ksrig.GenClient(e.KS, bID); err != nil {
		r.Count("near_identity_refused_by_keystore", 1)
		return
	}
	b.rotations = 1
	rotate(e, b, false)
	e.KS.Reset()
	storedAfter := st.dump()
	r.Case()
	var altered []string
	for _, p := range pathsA {
		if now, ok := storedAfter[p]; !ok || !bytes.Equal(now, storedA[p]) {
			altered = append(altered, p)
		}
	}
	listsAfter := keyLists(e.KS, aID)
	var lists []string
	for g, v := range listsA {
		if listsAfter[g] != v {
			lists = append(lists, g)
		}
	}
	sort.Strings(lists)
	switch {
	case len(altered) > 0:
		r.Violation(fmt.Sprintf("generating keys for one client altered the stored keys of another client: ks=%s%s", e.Name, tagFor("none")),
			detail(map[string]interface{}{"keys_generated_for": string(bID), "altered_stored_objects_of_owner": altered, "owner_getters_with_changed_result": lists}))
	case len(lists) > 0:
		r.Violation(fmt.Sprintf("generating keys for one client changed the keys another client gets: ks=%s%s", e.Name, tagFor("none")),
			detail(map[string]interface{}{"keys_generated_for": string(bID), "owner_getters_with_changed_result": lists}))
	default:
		r.Count("near_owner_keys_untouched_by_generation_for_requester", 1)
		r.Distinct("near|" + e.Name + "|" + kind + "|" + first + "|generation-left-owner-alone")
	}

	// --- situation (a): both have keys -----------------------------------------------------------
	for _, c := range []client{a, b} {
		for kd, vals := range keyMaterial(e, c.id) {
			for _, v := range vals {
				ledger.add(r, e.Name, c, kd, v)
				r.Count("near_key_values_compared", 1)
			}
		}
	}
	secretsB := secretsOf(e.KS, bID, true)
	gettersUnder(bID, secretsA, aID, tagFor("own"), false)
	gettersUnder(aID, secretsB, bID, tagFor("own"), false)
	artsB := produce(b)
	control(artsB)
	control(artsA) // the owner still reads what was protected before the other client got keys
	cross(artsA, b, tagFor("own"))
	cross(artsB, a, tagFor("own"))

	r.Count("near_pairs_explored", 1)
	r.SetAdd("near_kinds_explored", e.Name+"|"+kind+"|"+first)
	r.SampleN("near:"+e.Name, 2, map[string]interface{}{"keystore": e.Name, "kind": kind, "first_with_keys": string(aID), "second": string(bID),
		"stored_objects_of_first": pathsA, "artefacts_of_first": len(artsA), "artefacts_of_second": len(artsB)})
}
