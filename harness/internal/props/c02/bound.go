package c02

// Columns bound to an explicit per-column client_id, read through sessions of every other identity (in-process part).
//
// Acra's encryptor configuration lets every protected column carry its own `client_id`: whichever session writes, the value
// is protected under that configured identity. Who may REVEAL it is decided by the identity of the session that reads -
// the clause "a value protected for client A is never returned in clear to a request running under a different client
// identity B: decryption, de-tokenization and search-hash verification under B fail or hand back the stored protected form".
//
// Real code driven, per (keystore, token store):
//   write: the query observers the PostgreSQL proxy factory registers (tokenizer query observer, search-hash query observer,
//          QueryDataEncryptor over the factory's encryptor chain token -> encrypt -> searchable -> masking -> re-encrypt)
//          rewrite one INSERT per (table, writing session); the forwarded statement is executed by the in-memory database
//          of the rig (fakepg) - what is read back from there is the stored form;
//   read:  the decryption subscribers in the order proxyFactory.New subscribes them (PgSQLDataDecoderProcessor, TokenProcessor,
//          hmac.Processor, envelope detector with DecryptHandler over masking.Processor, hmac.Processor, PgSQLDataEncoderProcessor)
//          get every stored field in the text and in the binary result format, with the per-column context PgProxy builds
//          (access context of the session + column info + column setting), under every identity.

import (
	"bytes"
	"context"
	"encoding/binary"
	"fmt"
	"net"
	"path/filepath"
	"runtime/debug"
	"sort"
	"strconv"
	"strings"
	"sync"
	"time"

	bolt "go.etcd.io/bbolt"

	"github.com/cossacklabs/acra/crypto"
	"github.com/cossacklabs/acra/decryptor/base"
	pgproxy "github.com/cossacklabs/acra/decryptor/postgresql"
	encryptor "github.com/cossacklabs/acra/encryptor/base"
	"github.com/cossacklabs/acra/encryptor/base/config"
	pgenc "github.com/cossacklabs/acra/encryptor/postgresql"
	"github.com/cossacklabs/acra/hmac"
	pghash "github.com/cossacklabs/acra/hmac/decryptor/postgresql"
	"github.com/cossacklabs/acra/masking"
	"github.com/cossacklabs/acra/pseudonymization"
	tokenCommon "github.com/cossacklabs/acra/pseudonymization/common"
	"github.com/cossacklabs/acra/pseudonymization/storage"

	"verif/harness/internal/ev"
	"verif/harness/internal/gen"
	"verif/harness/internal/rig/envrig"
	"verif/harness/internal/rig/fakepg"
	"verif/harness/internal/rig/ksrig"
)

// BoundCol is one column configuration of the class (shared with the wire layer).
type BoundCol struct {
	Name  string
	Kind  string // enc | search | mask | token | typed
	YAML  []string
	Store fakepg.ColType // type of the column in the database
	App   string         // bytes | text | email | i32 | i64: what the application writes and expects back
	Mask  []byte         // masking pattern (mask columns)
	// Default is what a session that cannot reveal gets from a column with response_on_fail: default_value
	Default []byte
}

const (
	boundDefaultStr = "c02-default-str"
	boundDefaultInt = "-7"
)

// BoundCols is the catalogue: every column kind, every token type (consistent and not), type-aware columns with every
// failure policy.
func BoundCols() []BoundCol {
	tok := func(name, typ string, consistent bool, store fakepg.ColType, app string) BoundCol {
		return BoundCol{Name: name, Kind: "token", YAML: []string{"token_type: " + typ, fmt.Sprintf("consistent_tokenization: %v", consistent)}, Store: store, App: app}
	}
	return []BoundCol{
		{Name: "e_as", Kind: "enc", YAML: []string{"crypto_envelope: acrastruct"}, Store: fakepg.Bytea, App: "bytes"},
		{Name: "e_ab", Kind: "enc", YAML: []string{"crypto_envelope: acrablock"}, Store: fakepg.Bytea, App: "bytes"},
		{Name: "s_as", Kind: "search", YAML: []string{"crypto_envelope: acrastruct", "searchable: true"}, Store: fakepg.Bytea, App: "bytes"},
		{Name: "s_ab", Kind: "search", YAML: []string{"crypto_envelope: acrablock", "searchable: true"}, Store: fakepg.Bytea, App: "bytes"},
		{Name: "m_as_l", Kind: "mask", YAML: []string{"crypto_envelope: acrastruct", `masking: "xxxx"`, "plaintext_length: 3", "plaintext_side: left"}, Store: fakepg.Bytea, App: "bytes", Mask: []byte("xxxx")},
		{Name: "m_ab_r", Kind: "mask", YAML: []string{"crypto_envelope: acrablock", `masking: "**"`, "plaintext_length: 2", "plaintext_side: right"}, Store: fakepg.Bytea, App: "bytes", Mask: []byte("**")},
		tok("t_str", "str", true, fakepg.Text, "text"),
		tok("t_bytes", "bytes", true, fakepg.Bytea, "bytes"),
		tok("t_email", "email", true, fakepg.Text, "email"),
		tok("t_i32", "int32", true, fakepg.Int4, "i32"),
		tok("t_i64", "int64", true, fakepg.Int8, "i64"),
		tok("t_str_nc", "str", false, fakepg.Text, "text"),
		tok("t_bytes_nc", "bytes", false, fakepg.Bytea, "bytes"),
		tok("t_email_nc", "email", false, fakepg.Text, "email"),
		tok("t_i32_nc", "int32", false, fakepg.Int4, "i32"),
		tok("t_i64_nc", "int64", false, fakepg.Int8, "i64"),
		{Name: "ty_str_c", Kind: "typed", YAML: []string{"crypto_envelope: acrablock", "data_type: str", "response_on_fail: ciphertext"}, Store: fakepg.Bytea, App: "text"},
		{Name: "ty_str_d", Kind: "typed", YAML: []string{"crypto_envelope: acrastruct", "data_type: str", "response_on_fail: default_value", `default_data_value: "` + boundDefaultStr + `"`}, Store: fakepg.Bytea, App: "text", Default: []byte(boundDefaultStr)},
		{Name: "ty_str_e", Kind: "typed", YAML: []string{"crypto_envelope: acrablock", "data_type: str", "response_on_fail: error"}, Store: fakepg.Bytea, App: "text"},
		{Name: "ty_bytes_c", Kind: "typed", YAML: []string{"crypto_envelope: acrablock", "data_type: bytes", "response_on_fail: ciphertext"}, Store: fakepg.Bytea, App: "bytes"},
		{Name: "ty_i32_d", Kind: "typed", YAML: []string{"crypto_envelope: acrablock", "data_type: int32", "response_on_fail: default_value", `default_data_value: "` + boundDefaultInt + `"`}, Store: fakepg.Bytea, App: "i32", Default: []byte(boundDefaultInt)},
		{Name: "ty_i32_c", Kind: "typed", YAML: []string{"crypto_envelope: acrastruct", "data_type: int32", "response_on_fail: ciphertext"}, Store: fakepg.Bytea, App: "i32"},
		{Name: "ty_i64_e", Kind: "typed", YAML: []string{"crypto_envelope: acrastruct", "data_type: int64", "response_on_fail: error"}, Store: fakepg.Bytea, App: "i64"},
		{Name: "ty_s_str", Kind: "typed", YAML: []string{"crypto_envelope: acrablock", "searchable: true", "data_type: str", "response_on_fail: ciphertext"}, Store: fakepg.Bytea, App: "text"},
		{Name: "ty_m_str", Kind: "typed", YAML: []string{"crypto_envelope: acrablock", "data_type: str", `masking: "##"`, "plaintext_length: 4", "plaintext_side: right"}, Store: fakepg.Bytea, App: "text", Mask: []byte("##")},
	}
}

// BoundTable is one table whose configured columns are all bound to Binding ("" = no client_id option: the session's identity).
type BoundTable struct {
	Name    string
	Binding string
}

// BoundYAML renders the encryptor configuration of the tables.
func BoundYAML(tables []BoundTable, cols []BoundCol) string {
	var b strings.Builder
	b.WriteString("schemas:\n")
	for _, t := range tables {
		fmt.Fprintf(&b, "  - table: %s\n    columns:\n      - id\n", t.Name)
		for _, c := range cols {
			fmt.Fprintf(&b, "      - %s\n", c.Name)
		}
		b.WriteString("    encrypted:\n")
		for _, c := range cols {
			fmt.Fprintf(&b, "      - column: %s\n", c.Name)
			if t.Binding != "" {
				fmt.Fprintf(&b, "        client_id: %q\n", t.Binding)
			}
			for _, l := range c.YAML {
				fmt.Fprintf(&b, "        %s\n", l)
			}
		}
	}
	return b.String()
}

// BoundValue is an original written to one cell.
type BoundValue struct {
	Raw    []byte // what the application writes / expects back (decimal text for integers)
	Marker []byte // nil for integers (exact test)
}

// BoundValueGen hands out originals: byte strings / texts carry a unique marker that lies completely inside the hidden part of
// every masked column of the catalogue (windows are at most 4 bytes), integers are pairwise distinct and differ from the defaults.
type BoundValueGen struct {
	rng *gen.Rand
	seq int64
	i32 int64
	i64 int64
}

// NewBoundValueGen seeds a generator.
func NewBoundValueGen(rng *gen.Rand) *BoundValueGen {
	return &BoundValueGen{rng: rng, i32: 1_000_000 + int64(rng.Intn(1_000_000)), i64: 7_000_000_000_000_000_001 + int64(rng.Intn(1_000_000))}
}

// Next draws the original for a column.
func (g *BoundValueGen) Next(c BoundCol) BoundValue {
	g.seq++
	switch c.App {
	case "i32":
		g.i32 += 1 + int64(g.rng.Intn(1000))
		return BoundValue{Raw: []byte(strconv.FormatInt(g.i32, 10))}
	case "i64":
		g.i64 += 1 + int64(g.rng.Intn(1_000_000))
		return BoundValue{Raw: []byte(strconv.FormatInt(g.i64, 10))}
	case "email":
		mk := []byte(fmt.Sprintf("mk%014x%04x", g.rng.Uint64()&0xffffffffffffff, g.seq&0xffff))
		return BoundValue{Raw: []byte(string(mk) + "@example.com"), Marker: mk}
	default:
		mk := []byte(fmt.Sprintf("MK%012x%04x", g.rng.Uint64()&0xffffffffffff, g.seq&0xffff))
		return BoundValue{Raw: []byte("win" + string(mk) + "tail"), Marker: mk}
	}
}

// PGLiteral spells the original as a PostgreSQL literal for the column's application type.
func (v BoundValue) PGLiteral(c BoundCol) string {
	switch c.App {
	case "i32", "i64":
		return string(v.Raw)
	case "bytes":
		return `'\x` + fmt.Sprintf("%x", v.Raw) + `'`
	default:
		return "'" + string(v.Raw) + "'"
	}
}

// BoundAppValue decodes a delivered field to the application's view: bytea text spelling decoded, binary integers rendered in decimal.
func BoundAppValue(c BoundCol, delivered []byte, binaryFmt bool) []byte {
	switch c.App {
	case "bytes":
		if !binaryFmt {
			if d, err := fakepg.DecodeByteaText(string(delivered)); err == nil {
				return d
			}
		}
	case "i32":
		if binaryFmt && len(delivered) == 4 {
			return []byte(strconv.FormatInt(int64(int32(binary.BigEndian.Uint32(delivered))), 10))
		}
	case "i64":
		if binaryFmt && len(delivered) == 8 {
			return []byte(strconv.FormatInt(int64(binary.BigEndian.Uint64(delivered)), 10))
		}
	}
	return delivered
}

// BoundReveals reports whether what was delivered gives the original away: the marker inside the delivered bytes (as they are,
// in the application's view `app`, or spelled in hex), or - integers and other short values - equality with the original.
func BoundReveals(v BoundValue, delivered, app []byte) bool {
	if v.Marker == nil {
		return bytes.Equal(app, v.Raw)
	}
	return bytes.Contains(delivered, v.Marker) || bytes.Contains(app, v.Marker) || bytes.Contains(delivered, []byte(fmt.Sprintf("%x", v.Marker)))
}

// BoundOutcome classifies what a session that must not reveal received (stored = the field as the database sent it).
// "" means: none of the outcomes the statement allows.
func BoundOutcome(c BoundCol, delivered, stored []byte, err error, binaryFmt bool) string {
	if err != nil {
		return "refused"
	}
	if bytes.Equal(delivered, stored) {
		return "stored-form-unchanged"
	}
	if c.Default != nil && bytes.Equal(BoundAppValue(c, delivered, binaryFmt), c.Default) {
		return "configured-default-value"
	}
	// the database spells bytea in the text format as \x<hex>; Acra may hand the bytes themselves to a column it presents as another type
	spellings := func(b []byte) [][]byte {
		out := [][]byte{b}
		if !binaryFmt {
			if d, err := fakepg.DecodeByteaText(string(b)); err == nil {
				out = append(out, d)
			}
		}
		return out
	}
	for _, d := range spellings(delivered) {
		for _, s := range spellings(stored) {
			if bytes.Equal(d, s) {
				return "stored-form-unchanged(bytea spelling decoded)"
			}
			if c.Mask != nil && maskOnly(d, s, c.Mask) {
				return "bare-masking-pattern"
			}
		}
	}
	return ""
}

// ---------------------------------------------------------------------------------------------

type stubSession struct {
	mu   sync.Mutex
	data map[string]interface{}
}

func (s *stubSession) Context() context.Context           { return context.Background() }
func (s *stubSession) ClientConnection() net.Conn         { return nil }
func (s *stubSession) DatabaseConnection() net.Conn       { return nil }
func (s *stubSession) ProtocolState() interface{}         { return nil }
func (s *stubSession) SetProtocolState(state interface{}) {}
func (s *stubSession) GetData(k string) (interface{}, bool) {
	s.mu.Lock()
	defer s.mu.Unlock()
	v, ok := s.data[k]
	return v, ok
}
func (s *stubSession) SetData(k string, v interface{}) { s.mu.Lock(); s.data[k] = v; s.mu.Unlock() }
func (s *stubSession) DeleteData(k string)             { s.mu.Lock(); delete(s.data, k); s.mu.Unlock() }
func (s *stubSession) HasData(k string) bool {
	s.mu.Lock()
	defer s.mu.Unlock()
	_, ok := s.data[k]
	return ok
}

// boundSession is what proxyFactory.New assembles for one connection: query observers for writes, decryption subscribers for reads.
type boundSession struct {
	id      []byte
	ctx     context.Context
	queries *pgenc.ArrayQueryObservableManager
	columns base.ColumnDecryptionObserver
}

func newBoundSession(e *envrig.Env, schema config.TableSchemaStore, tokenizer tokenCommon.Pseudoanonymizer, id []byte) (*boundSession, error) {
	s := &boundSession{id: id, columns: base.NewColumnDecryptionObserver()}
	s.ctx = base.SetClientSessionToContext(context.Background(), &stubSession{data: map[string]interface{}{}})
	s.ctx = base.SetAccessContextToContext(s.ctx, base.NewAccessContext(base.WithClientID(id)))
	registry := crypto.NewRegistryHandler(e.KS)
	detector := crypto.NewEnvelopeDetector()
	var containerDetector base.DecryptionSubscriber = detector
	if base.OldContainerDetectionOn {
		containerDetector = crypto.NewOldContainerDetectorWrapper(detector)
	}
	dec, err := pgproxy.NewPgSQLDataDecoderProcessor()
	if err != nil {
		return nil, err
	}
	enc, err := pgproxy.NewPgSQLDataEncoderProcessor()
	if err != nil {
		return nil, err
	}
	s.columns.SubscribeOnAllColumnsDecryption(dec)
	mgr, err := pgenc.NewArrayQueryObservableManager(s.ctx)
	if err != nil {
		return nil, err
	}
	s.queries = mgr
	var chain []encryptor.DataEncryptor
	dt, err := pseudonymization.NewDataTokenizer(tokenizer)
	if err != nil {
		return nil, err
	}
	tp, err := pseudonymization.NewTokenProcessor(dt)
	if err != nil {
		return nil, err
	}
	s.columns.SubscribeOnAllColumnsDecryption(tp)
	te, err := pseudonymization.NewTokenEncryptor(dt)
	if err != nil {
		return nil, err
	}
	chain = append(chain, te)
	mgr.AddQueryObserver(pseudonymization.NewPostgresqlTokenizeQuery(schema, te))
	chain = append(chain, crypto.NewEncryptHandler(registry))
	hp := hmac.NewHMACProcessor(e.KS)
	s.columns.SubscribeOnAllColumnsDecryption(hp)
	se, err := hmac.NewSearchableEncryptor(e.KS, registry, registry)
	if err != nil {
		return nil, err
	}
	chain = append(chain, se)
	mgr.AddQueryObserver(pghash.NewHashQuery(e.KS, schema, registry))
	mp, err := masking.NewProcessor(registry)
	if err != nil {
		return nil, err
	}
	me, err := masking.NewMaskingDataEncryptor(e.KS, encryptor.NewChainDataEncryptor([]encryptor.DataEncryptor{registry}...))
	if err != nil {
		return nil, err
	}
	chain = append(chain, me)
	detector.AddCallback(crypto.NewDecryptHandler(e.KS, mp))
	s.columns.SubscribeOnAllColumnsDecryption(containerDetector)
	s.columns.SubscribeOnAllColumnsDecryption(hp)
	chain = append(chain, crypto.NewReEncryptHandler(e.KS))
	qe, err := pgenc.NewQueryEncryptor(schema, encryptor.NewChainDataEncryptor(chain...))
	if err != nil {
		return nil, err
	}
	mgr.AddQueryObserver(qe)
	s.columns.SubscribeOnAllColumnsDecryption(enc)
	return s, nil
}

// write passes one statement through the session's query observers and returns what would be forwarded to the database.
func (s *boundSession) write(sql string) (string, error) {
	obj, _, err := s.queries.OnQuery(s.ctx, pgenc.NewOnQueryObjectFromQuery(sql))
	if err != nil {
		return "", err
	}
	return obj.Query()
}

// read passes one field of a data row through the session's decryption subscribers the way PgProxy.onColumnDecryption does.
func (s *boundSession) read(setting config.ColumnEncryptionSetting, index int, field []byte, binaryFmt bool) (out []byte, err error, pan string) {
	defer func() {
		if p := recover(); p != nil {
			pan = fmt.Sprintf("%v\n%s", p, debug.Stack())
		}
	}()
	ac := base.NewAccessContext(base.WithClientID(s.id))
	ac.SetColumnInfo(base.NewColumnInfo(index, "", binaryFmt, len(field), 0, 0))
	ctx := base.SetAccessContextToContext(s.ctx, ac)
	ctx = encryptor.NewContextWithEncryptionSetting(ctx, setting)
	_, out, err = s.columns.OnColumnDecryption(ctx, index, append([]byte{}, field...))
	return
}

type boundCell struct {
	table   BoundTable
	col     BoundCol
	colIdx  int
	writer  client
	owner   []byte // identity the value is protected for: the binding, or the writer when the column has none
	value   BoundValue
	stored  fakepg.Value
	rowID   int
	binding string // bound-to-writer | bound-to-other | unbound
}

func boundColumns(r *ev.Run, envs []*envrig.Env, rng *gen.Rand) {
	t0 := time.Now()
	defer func() { r.Extra("bound_columns_part_wall_s", time.Since(t0).Seconds()) }()
	cols := BoundCols()
	// bindings: every client, and none
	var tables []BoundTable
	for i, c := range clients {
		if !r.Thorough() && i >= 2 {
			break // quick: two binding identities; all four identities still write and read
		}
		tables = append(tables, BoundTable{Name: fmt.Sprintf("bound_%d", i), Binding: string(c.id)})
	}
	tables = append(tables, BoundTable{Name: "bound_none"})
	yaml := BoundYAML(tables, cols)
	schema, err := config.MapTableSchemaStoreFromConfig([]byte(yaml), false)
	if err != nil {
		panic(fmt.Errorf("bound columns schema: %w\n%s", err, yaml))
	}
	type storeKind struct {
		name      string
		bolt, enc bool
	}
	stores := []storeKind{{"memory", false, false}, {"memory+encryption", false, true}, {"boltdb", true, false}, {"boltdb+encryption", true, true}}
	vg := NewBoundValueGen(rng)
	expectedOwnerClasses := map[string]struct{}{}
	for _, e := range envs[:2] {
		for si, st := range stores {
			var raw tokenCommon.TokenStorage
			closeFn := func() {}
			if st.bolt {
				// NoSync: durability of the token file is not the subject; fdatasync per token dominates the run time on a loaded machine
				db, err := bolt.Open(filepath.Join(ksrig.ScratchDir("c02-bound-bolt"), "tokens.db"), 0o600, &bolt.Options{NoSync: true})
				if err != nil {
					panic(err)
				}
				raw, closeFn = storage.NewBoltDBTokenStorage(db), func() { db.Close() }
			} else {
				raw, _ = storage.NewMemoryTokenStorage()
			}
			if st.enc {
				enc, err := storage.NewSCellEncryptor(e.KS)
				if err != nil {
					panic(err)
				}
				raw = storage.WrapStorageWithEncryption(raw, enc)
			}
			pseudo, err := pseudonymization.NewPseudoanonymizer(raw)
			if err != nil {
				panic(err)
			}
			sessions := map[string]*boundSession{}
			for _, c := range clients {
				s, err := newBoundSession(e, schema, pseudo, c.id)
				if err != nil {
					panic(err)
				}
				sessions[string(c.id)] = s
			}
			// columns that do not involve the token store are driven with the first store of each keystore only
			var use []int
			for ci, c := range cols {
				if c.Kind == "token" || si == 0 {
					use = append(use, ci)
				}
			}
			db := fakepg.NewDB()
			for _, t := range tables {
				dbc := []fakepg.Column{{Name: "id", Type: fakepg.Int4}}
				for _, c := range cols {
					dbc = append(dbc, fakepg.Column{Name: c.Name, Type: c.Store})
				}
				db.CreateTable(t.Name, dbc)
			}
			cfgName := e.Name + "/" + st.name
			var cells []*boundCell
			rowID := 0
			// --- writes: every identity's session inserts one row into every table
			for _, t := range tables {
				for _, w := range clients {
					rowID++
					names, lits := []string{"id"}, []string{strconv.Itoa(rowID)}
					var row []*boundCell
					for _, ci := range use {
						c := cols[ci]
						v := vg.Next(c)
						names = append(names, c.Name)
						lits = append(lits, v.PGLiteral(c))
						cell := &boundCell{table: t, col: c, colIdx: ci + 1, writer: w, value: v, rowID: rowID}
						switch {
						case t.Binding == "":
							cell.owner, cell.binding = w.id, "unbound"
						case t.Binding == string(w.id):
							cell.owner, cell.binding = []byte(t.Binding), "bound-to-writer"
						default:
							cell.owner, cell.binding = []byte(t.Binding), "bound-to-other"
						}
						row = append(row, cell)
					}
					sql := fmt.Sprintf("insert into %s (%s) values (%s)", t.Name, strings.Join(names, ", "), strings.Join(lits, ", "))
					fwd, err := sessions[string(w.id)].write(sql)
					if err != nil {
						r.Count("bound_write_errors", 1)
						r.SampleN("bound-write-error", 2, map[string]interface{}{"config": cfgName, "statement": sql, "err": err.Error()})
						continue
					}
					stmt, err := fakepg.Parse(fwd)
					if err == nil {
						_, err = db.Exec(stmt, nil)
					}
					if err != nil {
						r.Count("bound_write_rig_could_not_store_forwarded_statement", 1)
						r.SampleN("bound-write-rig", 2, map[string]interface{}{"config": cfgName, "forwarded": fwd, "err": err.Error()})
						continue
					}
					snap := db.Snapshot(t.Name)
					stored := snap[len(snap)-1]
					for _, cell := range row {
						cell.stored = stored[cell.colIdx]
						sb := fakepg.EncodeValue(cell.stored, cell.col.Store, false)
						if BoundReveals(cell.value, sb, BoundAppValue(cell.col, sb, false)) {
							// stored in clear: C01/C04's subject; such a value proves nothing here
							r.Count("bound_write_left_value_in_clear", 1)
							r.SampleN("bound-write-clear", 2, map[string]interface{}{"config": cfgName, "column": cell.col.Name, "binding": cell.binding, "value": string(cell.value.Raw), "stored": ev.Hex(sb)})
							continue
						}
						cells = append(cells, cell)
						r.Count("bound_values_written", 1)
						r.Count("bound_values_written:"+cell.binding, 1)
					}
				}
			}
			// --- reads: every cell under every identity, text and binary result format
			for _, cell := range cells {
				setting := schema.GetTableSchema(cell.table.Name).GetColumnEncryptionSettings(cell.col.Name)
				for ri, rd := range clients {
					// quick: the identity the value is protected for, the session that wrote it and one more identity (rotating); thorough: everybody
					if !r.Thorough() && !bytes.Equal(rd.id, cell.owner) && !bytes.Equal(rd.id, cell.writer.id) && (ri+cell.rowID+cell.colIdx)%2 != 0 {
						continue
					}
					for _, bin := range []bool{false, true} {
						format := map[bool]string{false: "text", true: "binary"}[bin]
						field := fakepg.EncodeValue(cell.stored, cell.col.Store, bin)
						r.Case()
						out, err, pan := sessions[string(rd.id)].read(setting, cell.colIdx, field, bin)
						class := fmt.Sprintf("column=%s(%s) binding=%s format=%s", cell.col.Name, cell.col.Kind, cell.binding, format)
						detail := func() map[string]interface{} {
							return map[string]interface{}{"keystore": e.Name, "token_store": st.name, "table": cell.table.Name, "column_client_id": cell.table.Binding, "written_by_session_of": string(cell.writer.id),
								"protected_for": string(cell.owner), "read_by_session_of": string(rd.id), "result_format": format, "original": string(cell.value.Raw), "stored_field": ev.FullHex(field), "delivered": ev.FullHex(out), "err": fmt.Sprint(err), "panic": pan}
						}
						if pan != "" {
							r.Count("bound_read_panicked", 1)
							r.Inconclusive("panic while reading a bound column (subject of C03/C14): " + class)
							continue
						}
						if bytes.Equal(rd.id, cell.owner) {
							// control: the identity the value is protected for reads it through its own session
							if err == nil && bytes.Equal(BoundAppValue(cell.col, out, bin), cell.value.Raw) {
								r.Count("bound_owner_session_got_original", 1)
								r.Count("bound_owner_session_got_original:"+cell.binding, 1)
								r.SetAdd("bound_owner_revealed_classes", cfgName+"|"+class)
							} else {
								r.Count("bound_owner_session_did_not_get_original", 1)
								r.SampleN("bound-owner-miss:"+cell.col.Name, 1, detail())
							}
							expectedOwnerClasses[cfgName+"|"+class] = struct{}{}
							continue
						}
						// the property's clause
						relation := "reader-is-neither-writer-nor-binding"
						if bytes.Equal(rd.id, cell.writer.id) {
							relation = "reader-wrote-the-value"
						}
						sig := fmt.Sprintf("ks=%s store=%s column=%s(%s) binding=%s", e.Name, st.name, cell.col.Name, cell.col.Kind, cell.binding)
						if BoundReveals(cell.value, out, BoundAppValue(cell.col, out, bin)) {
							d := detail()
							d["reader"] = relation
							r.Violation("column bound to a client_id revealed to a session of another identity: "+sig, d)
							continue
						}
						oc := BoundOutcome(cell.col, out, field, err, bin)
						if oc == "" {
							if cell.col.Kind == "token" {
								// another value (e.g. an equal token of the reader's own): not the original, not judged
								r.Count("bound_foreign_read_returned_other_value", 1)
								continue
							}
							r.Violation("read of a bound column under another identity returned an altered value (neither failure nor the stored form nor the configured policy result): "+sig, detail())
							continue
						}
						r.Count("bound_foreign_reads_not_revealed", 1)
						r.Count("bound_foreign_reads_not_revealed:"+cell.binding, 1)
						r.Count("bound_foreign_read_outcome:"+oc, 1)
						if relation == "reader-wrote-the-value" {
							r.Count("bound_writer_session_could_not_read_back_value_bound_to_other", 1)
						}
						r.Distinct(fmt.Sprintf("bound|%s|%s|%s|%s", cfgName, class, relation, oc))
						r.SampleN("bound:"+cell.col.Kind+":"+cell.binding+":"+oc, 1, detail())
					}
				}
			}
			closeFn()
		}
	}
	// non-vacuity: every (configuration, column, binding class, format) the layer judged under foreign readers was revealed to its owner
	missing := []string{}
	for k := range expectedOwnerClasses {
		missing = append(missing, k)
	}
	sort.Strings(missing)
	r.Extra("bound_owner_classes_expected", len(missing))
	r.RequireSetAtLeast("bound_owner_revealed_classes", len(missing))
	r.RequireAtLeast("bound_owner_session_got_original:bound-to-other", 800)
	r.RequireAtLeast("bound_owner_session_got_original:bound-to-writer", 300)
	r.RequireAtLeast("bound_owner_session_got_original:unbound", 500)
	r.RequireAtLeast("bound_foreign_reads_not_revealed:bound-to-other", 1500)
	r.RequireAtLeast("bound_foreign_reads_not_revealed:bound-to-writer", 400)
	r.RequireAtLeast("bound_foreign_reads_not_revealed:unbound", 800)
	r.RequireAtLeast("bound_writer_session_could_not_read_back_value_bound_to_other", 800)
	r.RequireAtLeast("bound_foreign_read_outcome:stored-form-unchanged", 2000)
}
