package c02

import (
	"bytes"
	"context"
	"crypto/tls"
	"crypto/x509"
	"encoding/base64"
	"encoding/json"
	"encoding/pem"
	"fmt"
	"io"
	"net"
	"net/http"
	"net/url"
	"os"
	"path/filepath"
	"reflect"
	"sort"
	"strings"
	"sync"
	"time"
	"unsafe"

	"github.com/gin-gonic/gin"
	"google.golang.org/grpc/codes"
	"google.golang.org/grpc/credentials"
	"google.golang.org/grpc/peer"
	"google.golang.org/grpc/status"

	trcommon "github.com/cossacklabs/acra/cmd/acra-translator/common"
	"github.com/cossacklabs/acra/cmd/acra-translator/grpc_api"
	"github.com/cossacklabs/acra/cmd/acra-translator/http_api"
	"github.com/cossacklabs/acra/network"
	tokenCommon "github.com/cossacklabs/acra/pseudonymization/common"
	"github.com/cossacklabs/themis/gothemis/keys"

	"verif/harness/internal/ev"
	"verif/harness/internal/gen"
	"verif/harness/internal/rig/envrig"
	"verif/harness/internal/rig/ksrig"
)

// Identity override: "when the identity is taken from the TLS connection the identity named inside a request is ignored".

func sslDir() string {
	repo := os.Getenv("VERIF_REPO_PATH")
	if repo == "" {
		repo = "/repo"
	}
	return filepath.Join(repo, "tests", "ssl")
}

type tlsIdentity struct {
	name     string
	cert     tls.Certificate
	leaf     *x509.Certificate
	clientID []byte // what network.TLSClientIDExtractor derives from the certificate
}

type tlsRig struct {
	extractor  network.TLSClientIDExtractor
	serverConf *tls.Config
	wrapper    *network.TLSConnectionWrapper
	ids        []*tlsIdentity
}

func loadTLSRig() (*tlsRig, error) {
	dir := sslDir()
	caPEM, err := os.ReadFile(filepath.Join(dir, "ca", "ca.crt"))
	if err != nil {
		return nil, err
	}
	pool := x509.NewCertPool()
	if !pool.AppendCertsFromPEM(caPEM) {
		return nil, fmt.Errorf("no CA certificate in %s", dir)
	}
	srv, err := tls.LoadX509KeyPair(filepath.Join(dir, "acra-server", "acra-server.crt"), filepath.Join(dir, "acra-server", "acra-server.key"))
	if err != nil {
		return nil, err
	}
	ext, err := network.NewDefaultTLSClientIDExtractor()
	if err != nil {
		return nil, err
	}
	rig := &tlsRig{extractor: ext}
	rig.serverConf = &tls.Config{Certificates: []tls.Certificate{srv}, ClientCAs: pool, ClientAuth: tls.RequireAndVerifyClientCert, MinVersion: tls.VersionTLS12}
	rig.wrapper, err = network.NewTLSAuthenticationConnectionWrapper(true, nil, rig.serverConf, ext)
	if err != nil {
		return nil, err
	}
	for _, n := range []string{"acra-writer", "acra-writer-2", "acra-client"} {
		c, err := tls.LoadX509KeyPair(filepath.Join(dir, n, n+".crt"), filepath.Join(dir, n, n+".key"))
		if err != nil {
			return nil, err
		}
		raw, _ := os.ReadFile(filepath.Join(dir, n, n+".crt"))
		blk, _ := pem.Decode(raw)
		leaf, err := x509.ParseCertificate(blk.Bytes)
		if err != nil {
			return nil, err
		}
		id, err := ext.ExtractClientID(leaf)
		if err != nil {
			return nil, err
		}
		rig.ids = append(rig.ids, &tlsIdentity{name: n, cert: c, leaf: leaf, clientID: id})
	}
	return rig, nil
}

// handshake performs a real TLS handshake (client certificate of id) against the production connection wrapper and
// returns the AuthInfo gRPC would attach to the peer of every call on that connection.
func (rig *tlsRig) handshake(id *tlsIdentity) (credentials.AuthInfo, func(), error) {
	ln, err := net.Listen("tcp", "127.0.0.1:0")
	if err != nil {
		return nil, nil, err
	}
	defer ln.Close()
	type res struct {
		conn net.Conn
		ai   credentials.AuthInfo
		err  error
	}
	ch := make(chan res, 1)
	go func() {
		c, err := ln.Accept()
		if err != nil {
			ch <- res{err: err}
			return
		}
		c.SetDeadline(time.Now().Add(20 * time.Second))
		wc, ai, err := rig.wrapper.ServerHandshake(c)
		ch <- res{wc, ai, err}
	}()
	raw, err := net.Dial("tcp", ln.Addr().String())
	if err != nil {
		return nil, nil, err
	}
	cc := tls.Client(raw, &tls.Config{Certificates: []tls.Certificate{id.cert}, InsecureSkipVerify: true, NextProtos: []string{"h2"}})
	raw.SetDeadline(time.Now().Add(20 * time.Second))
	herr := cc.Handshake()
	// TLS 1.3: the client certificate is checked by the server after the client's handshake returned; read until the server side finished
	rs := <-ch
	if herr != nil {
		return nil, nil, herr
	}
	if rs.err != nil {
		cc.Close()
		return nil, nil, rs.err
	}
	return rs.ai, func() { cc.Close(); rs.conn.Close() }, nil
}

// ---------------------------------------------------------------------------------------------
// recording services

type seen struct {
	mu  sync.Mutex
	ids []string // "where=<layer>:<op> id=<client id>"
	raw [][]byte
}

func (s *seen) note(where string, id []byte) {
	s.mu.Lock()
	s.ids = append(s.ids, where)
	s.raw = append(s.raw, append([]byte{}, id...))
	s.mu.Unlock()
}

func (s *seen) take() ([]string, [][]byte) {
	s.mu.Lock()
	defer s.mu.Unlock()
	a, b := s.ids, s.raw
	s.ids, s.raw = nil, nil
	return a, b
}

// recordingGRPC is the recording inner DecryptService: it answers every known RPC itself and notes the client id it was given.
// RPCs added to the service interfaces later fall through to the embedded Unimplemented* servers (and are then observed
// through the second inner service, the real TranslatorService over recording back ends).
type recordingGRPC struct {
	s *seen
	grpc_api.UnimplementedReaderServer
	grpc_api.UnimplementedReaderSymServer
	grpc_api.UnimplementedTokenizatorServer
	grpc_api.UnimplementedSearchableEncryptionServer
	grpc_api.UnimplementedWriterServer
	grpc_api.UnimplementedWriterSymServer
}

func (r *recordingGRPC) Encrypt(ctx context.Context, q *grpc_api.EncryptRequest) (*grpc_api.EncryptResponse, error) {
	r.s.note("inner:Encrypt", q.ClientId)
	return &grpc_api.EncryptResponse{}, nil
}
func (r *recordingGRPC) Decrypt(ctx context.Context, q *grpc_api.DecryptRequest) (*grpc_api.DecryptResponse, error) {
	r.s.note("inner:Decrypt", q.ClientId)
	return &grpc_api.DecryptResponse{}, nil
}
func (r *recordingGRPC) Tokenize(ctx context.Context, q *grpc_api.TokenizeRequest) (*grpc_api.TokenizeResponse, error) {
	r.s.note("inner:Tokenize", q.ClientId)
	return &grpc_api.TokenizeResponse{}, nil
}
func (r *recordingGRPC) Detokenize(ctx context.Context, q *grpc_api.TokenizeRequest) (*grpc_api.TokenizeResponse, error) {
	r.s.note("inner:Detokenize", q.ClientId)
	return &grpc_api.TokenizeResponse{}, nil
}
func (r *recordingGRPC) DecryptSym(ctx context.Context, q *grpc_api.DecryptSymRequest) (*grpc_api.DecryptSymResponse, error) {
	r.s.note("inner:DecryptSym", q.ClientId)
	return &grpc_api.DecryptSymResponse{}, nil
}
func (r *recordingGRPC) EncryptSym(ctx context.Context, q *grpc_api.EncryptSymRequest) (*grpc_api.EncryptSymResponse, error) {
	r.s.note("inner:EncryptSym", q.ClientId)
	return &grpc_api.EncryptSymResponse{}, nil
}
func (r *recordingGRPC) EncryptSearchable(ctx context.Context, q *grpc_api.SearchableEncryptionRequest) (*grpc_api.SearchableEncryptionResponse, error) {
	r.s.note("inner:EncryptSearchable", q.ClientId)
	return &grpc_api.SearchableEncryptionResponse{}, nil
}
func (r *recordingGRPC) DecryptSearchable(ctx context.Context, q *grpc_api.SearchableDecryptionRequest) (*grpc_api.SearchableDecryptionResponse, error) {
	r.s.note("inner:DecryptSearchable", q.ClientId)
	return &grpc_api.SearchableDecryptionResponse{}, nil
}
func (r *recordingGRPC) EncryptSymSearchable(ctx context.Context, q *grpc_api.SearchableSymEncryptionRequest) (*grpc_api.SearchableSymEncryptionResponse, error) {
	r.s.note("inner:EncryptSymSearchable", q.ClientId)
	return &grpc_api.SearchableSymEncryptionResponse{}, nil
}
func (r *recordingGRPC) DecryptSymSearchable(ctx context.Context, q *grpc_api.SearchableSymDecryptionRequest) (*grpc_api.SearchableSymDecryptionResponse, error) {
	r.s.note("inner:DecryptSymSearchable", q.ClientId)
	return &grpc_api.SearchableSymDecryptionResponse{}, nil
}
func (r *recordingGRPC) GenerateQueryHash(ctx context.Context, q *grpc_api.QueryHashRequest) (*grpc_api.QueryHashResponse, error) {
	r.s.note("inner:GenerateQueryHash", q.ClientId)
	return &grpc_api.QueryHashResponse{}, nil
}

// recordingITS records the client id handed to the transport-independent service and forwards to the real one.
type recordingITS struct {
	s    *seen
	next trcommon.ITranslatorService
}

func (t *recordingITS) Decrypt(ctx context.Context, d, id, ac []byte) ([]byte, error) {
	t.s.note("service:Decrypt", id)
	return t.next.Decrypt(ctx, d, id, ac)
}
func (t *recordingITS) Encrypt(ctx context.Context, d, id, ac []byte) ([]byte, error) {
	t.s.note("service:Encrypt", id)
	return t.next.Encrypt(ctx, d, id, ac)
}
func (t *recordingITS) EncryptSearchable(ctx context.Context, d, id, ac []byte) (trcommon.SearchableResponse, error) {
	t.s.note("service:EncryptSearchable", id)
	return t.next.EncryptSearchable(ctx, d, id, ac)
}
func (t *recordingITS) DecryptSearchable(ctx context.Context, d, h, id, ac []byte) ([]byte, error) {
	t.s.note("service:DecryptSearchable", id)
	return t.next.DecryptSearchable(ctx, d, h, id, ac)
}
func (t *recordingITS) GenerateQueryHash(ctx context.Context, d, id, ac []byte) ([]byte, error) {
	t.s.note("service:GenerateQueryHash", id)
	return t.next.GenerateQueryHash(ctx, d, id, ac)
}
func (t *recordingITS) Tokenize(ctx context.Context, d interface{}, ty tokenCommon.TokenType, id, ac []byte) (interface{}, error) {
	t.s.note("service:Tokenize", id)
	return t.next.Tokenize(ctx, d, ty, id, ac)
}
func (t *recordingITS) Detokenize(ctx context.Context, d interface{}, ty tokenCommon.TokenType, id, ac []byte) (interface{}, error) {
	t.s.note("service:Detokenize", id)
	return t.next.Detokenize(ctx, d, ty, id, ac)
}
func (t *recordingITS) EncryptSymSearchable(ctx context.Context, d, id, ac []byte) (trcommon.SearchableResponse, error) {
	t.s.note("service:EncryptSymSearchable", id)
	return t.next.EncryptSymSearchable(ctx, d, id, ac)
}
func (t *recordingITS) DecryptSymSearchable(ctx context.Context, d, h, id, ac []byte) ([]byte, error) {
	t.s.note("service:DecryptSymSearchable", id)
	return t.next.DecryptSymSearchable(ctx, d, h, id, ac)
}
func (t *recordingITS) EncryptSym(ctx context.Context, d, id, ac []byte) ([]byte, error) {
	t.s.note("service:EncryptSym", id)
	return t.next.EncryptSym(ctx, d, id, ac)
}
func (t *recordingITS) DecryptSym(ctx context.Context, d, id, ac []byte) ([]byte, error) {
	t.s.note("service:DecryptSym", id)
	return t.next.DecryptSym(ctx, d, id, ac)
}

// recordingKS notes the ids used for key look-ups made by the transport layers directly (gRPC EncryptSymSearchable does that).
type recordingKS struct {
	ksrig.FullKeyStore
	s *seen
}

func (k *recordingKS) GetClientIDSymmetricKey(id []byte) ([]byte, error) {
	k.s.note("keystore:GetClientIDSymmetricKey", id)
	return k.FullKeyStore.GetClientIDSymmetricKey(id)
}
func (k *recordingKS) GetClientIDSymmetricKeys(id []byte) ([][]byte, error) {
	k.s.note("keystore:GetClientIDSymmetricKeys", id)
	return k.FullKeyStore.GetClientIDSymmetricKeys(id)
}
func (k *recordingKS) GetHMACSecretKey(id []byte) ([]byte, error) {
	k.s.note("keystore:GetHMACSecretKey", id)
	return k.FullKeyStore.GetHMACSecretKey(id)
}
func (k *recordingKS) GetServerDecryptionPrivateKey(id []byte) (*keys.PrivateKey, error) {
	k.s.note("keystore:GetServerDecryptionPrivateKey", id)
	return k.FullKeyStore.GetServerDecryptionPrivateKey(id)
}
func (k *recordingKS) GetServerDecryptionPrivateKeys(id []byte) ([]*keys.PrivateKey, error) {
	k.s.note("keystore:GetServerDecryptionPrivateKeys", id)
	return k.FullKeyStore.GetServerDecryptionPrivateKeys(id)
}
func (k *recordingKS) GetClientIDEncryptionPublicKey(id []byte) (*keys.PublicKey, error) {
	k.s.note("keystore:GetClientIDEncryptionPublicKey", id)
	return k.FullKeyStore.GetClientIDEncryptionPublicKey(id)
}

// ---------------------------------------------------------------------------------------------
// gRPC

// rpcMethods lists the RPC methods of the aggregated service interface by reflection.
func rpcMethods() []reflect.Method {
	t := reflect.TypeOf((*grpc_api.DecryptService)(nil)).Elem()
	ctxT := reflect.TypeOf((*context.Context)(nil)).Elem()
	errT := reflect.TypeOf((*error)(nil)).Elem()
	var out []reflect.Method
	for i := 0; i < t.NumMethod(); i++ {
		m := t.Method(i)
		if m.PkgPath != "" { // mustEmbedUnimplemented…
			continue
		}
		ft := m.Type
		if ft.NumIn() != 2 || ft.NumOut() != 2 || !ft.In(0).Implements(ctxT) || ft.In(1).Kind() != reflect.Ptr || ft.In(1).Elem().Kind() != reflect.Struct || !ft.Out(1).Implements(errT) {
			continue
		}
		out = append(out, m)
	}
	return out
}

// forgedRequest builds a request of the RPC's request type whose client-id field names `forged` and whose payload fields carry `payload`.
func forgedRequest(m reflect.Method, forged []byte, payload map[string][]byte, token interface{}) (reflect.Value, bool) {
	req := reflect.New(m.Type.In(1).Elem())
	hasID := false
	e := req.Elem()
	for i := 0; i < e.NumField(); i++ {
		f := e.Type().Field(i)
		if f.PkgPath != "" {
			continue
		}
		fv := e.Field(i)
		if fv.Kind() == reflect.Slice && fv.Type().Elem().Kind() == reflect.Uint8 {
			if f.Name == "ClientId" {
				fv.SetBytes(append([]byte{}, forged...))
				hasID = true
			} else if p, ok := payload[f.Name]; ok {
				fv.SetBytes(append([]byte{}, p...))
			} else {
				fv.SetBytes(append([]byte{}, payload["*"]...))
			}
		}
	}
	if tr, ok := req.Interface().(*grpc_api.TokenizeRequest); ok {
		switch v := token.(type) {
		case string:
			tr.Value = &grpc_api.TokenizeRequest_StrValue{StrValue: v}
		default:
			tr.Value = &grpc_api.TokenizeRequest_StrValue{StrValue: "some value to tokenize"}
		}
	}
	return req, hasID
}

func identityOverrideGRPC(r *ev.Run, e *envrig.Env, rng *gen.Rand) {
	rig, err := loadTLSRig()
	if err != nil {
		r.Violation("identity-override rig: cannot load TLS identities (rig fault)", map[string]interface{}{"err": err.Error(), "dir": sslDir()})
		return
	}
	// keys for the TLS-derived client ids in the keystore of e
	for _, id := range rig.ids {
		if err := ksrig.GenClient(e.KS, id.clientID); err != nil {
			panic(err)
		}
	}
	methods := rpcMethods()
	r.Extra("grpc_rpc_methods_by_reflection", func() []string {
		var n []string
		for _, m := range methods {
			n = append(n, m.Name)
		}
		return n
	}())
	if len(methods) < 11 {
		r.Violation("non-vacuity:grpc_rpc_methods", map[string]interface{}{"found": len(methods)})
	}
	s := &seen{}
	innerRec := &recordingGRPC{s: s}
	recKS := &recordingKS{FullKeyStore: e.KS, s: s}
	td := &trcommon.TranslatorData{Keystorage: recKS, Tokenizer: e.Tokenizer, UseConnectionClientID: true, TLSClientIDExtractor: rig.extractor}
	realSvc, err := trcommon.NewTranslatorService(td)
	if err != nil {
		panic(err)
	}
	innerReal, err := grpc_api.NewTranslatorService(&recordingITS{s: s, next: realSvc}, td)
	if err != nil {
		panic(err)
	}
	wrapRec, _ := grpc_api.NewTLSDecryptServiceWrapper(innerRec, rig.extractor)
	wrapReal, _ := grpc_api.NewTLSDecryptServiceWrapper(innerReal, rig.extractor)

	// which RPCs the recording inner service answers itself (probed directly, so the list follows the code)
	known := map[string]bool{}
	for _, m := range methods {
		req, _ := forgedRequest(m, []byte("probe"), map[string][]byte{"*": []byte("x")}, nil)
		s.take()
		reflect.ValueOf(innerRec).MethodByName(m.Name).Call([]reflect.Value{reflect.ValueOf(bg), req})
		if w, _ := s.take(); len(w) > 0 {
			known[m.Name] = true
		}
	}

	auth := map[string]credentials.AuthInfo{}
	for _, id := range rig.ids {
		ai, closeFn, err := rig.handshake(id)
		if err != nil {
			r.Violation("identity-override rig: TLS handshake failed (rig fault)", map[string]interface{}{"identity": id.name, "err": err.Error()})
			return
		}
		defer closeFn()
		auth[id.name] = ai
		// the production extraction path must give the id of the certificate
		got, err := network.GetClientIDFromAuthInfo(ai, rig.extractor)
		if err != nil || !bytes.Equal(got, id.clientID) {
			r.Violation("identity-override rig: connection identity differs from certificate identity (rig fault)", map[string]interface{}{"identity": id.name, "err": fmt.Sprint(err)})
			return
		}
		r.Count("tls_handshakes", 1)
	}

	// forged identities: another TLS identity with keys, an ordinary client of the keystore, an id without keys, empty
	for _, A := range rig.ids {
		forgeds := [][]byte{clients[0].id, []byte("no_such_client_id"), {}}
		for _, B := range rig.ids {
			if B != A {
				forgeds = append(forgeds, B.clientID)
			}
		}
		ctx := peer.NewContext(bg, &peer.Peer{AuthInfo: auth[A.name]})
		for _, forged := range forgeds {
			for _, m := range methods {
				for wi, w := range []interface{}{wrapRec, wrapReal} {
					layer := []string{"recording-inner-service", "real-service-over-recording-back-ends"}[wi]
					// payload: something protected for the forged identity where that is possible (so that honouring the forged id would succeed)
					payload := map[string][]byte{"*": []byte("payload " + string(newMarker(rng)))}
					req, hasID := forgedRequest(m, forged, payload, nil)
					r.Case()
					s.take()
					var out []reflect.Value
					pan := ""
					func() {
						defer func() {
							if p := recover(); p != nil {
								pan = fmt.Sprint(p)
							}
						}()
						out = reflect.ValueOf(w).MethodByName(m.Name).Call([]reflect.Value{reflect.ValueOf(ctx), req})
					}()
					where, ids := s.take()
					sig := fmt.Sprintf("identity override: rpc=%s layer=%s", m.Name, layer)
					detail := map[string]interface{}{"rpc": m.Name, "tls_identity": A.name, "tls_client_id": string(A.clientID), "forged_client_id": string(forged), "observed": where, "request_has_client_id_field": hasID}
					if pan != "" {
						r.Inconclusive("panic in " + sig + ": " + pan)
						continue
					}
					var callErr error
					if len(out) == 2 && !out[1].IsNil() {
						callErr = out[1].Interface().(error)
					}
					bad := false
					for i, id := range ids {
						if !bytes.Equal(id, A.clientID) {
							bad = true
							detail["offending_observation"] = where[i]
							detail["offending_id"] = string(id)
						}
					}
					switch {
					case bad:
						r.Violation("request identity reached the service instead of the connection identity: "+sig, detail)
					case len(ids) > 0:
						r.Count("rpc_calls_with_connection_identity_observed", 1)
						r.SetAdd("rpcs_observed_with_connection_identity", m.Name)
						r.Distinct(fmt.Sprintf("grpc|%s|%s|forged-len%d|overridden", m.Name, layer, len(forged)))
						r.SampleN("grpc:"+m.Name, 1, map[string]interface{}{"rpc": m.Name, "layer": layer, "tls_identity": A.name, "tls_client_id": string(A.clientID)[:16] + "…", "forged_client_id": string(forged), "ids_seen_inside": len(ids), "all_equal_connection_identity": true})
					case status.Code(callErr) == codes.Unimplemented:
						r.Count("rpc_unimplemented_without_reaching_inner_service", 1)
						r.SetAdd("rpcs_unimplemented", m.Name+"@"+layer)
					default:
						// nothing observed inside: look at the request object the wrapper passed on (it rewrites the field in place)
						after := req.Elem().FieldByName("ClientId")
						if hasID && after.IsValid() && bytes.Equal(after.Bytes(), A.clientID) {
							r.Count("rpc_override_seen_on_request_object_only", 1)
						} else if !known[m.Name] && wi == 0 {
							r.Count("rpc_not_observable_by_recording_inner_service", 1)
						} else {
							r.Inconclusive("no identity observation for " + sig + " err=" + fmt.Sprint(callErr))
						}
					}
				}
			}
		}
	}

	// end-to-end effect through the real service: data of B requested over a connection of A while the request names B
	A, B := rig.ids[0], rig.ids[1]
	ctxA := peer.NewContext(bg, &peer.Peer{AuthInfo: auth[A.name]})
	ctxB := peer.NewContext(bg, &peer.Peer{AuthInfo: auth[B.name]})
	mk := newMarker(rng)
	x := []byte("tls protected value " + string(mk))
	type e2e struct {
		name string
		make func() (interface{}, error)                                   // produce the stored form under B's own connection
		read func(ctx context.Context, stored interface{}) ([]byte, error) // request it naming B
	}
	cases := []e2e{
		{"Decrypt", func() (interface{}, error) {
			rsp, err := wrapReal.Encrypt(ctxB, &grpc_api.EncryptRequest{ClientId: A.clientID, Data: x})
			if err != nil {
				return nil, err
			}
			return rsp.Acrastruct, nil
		}, func(ctx context.Context, st interface{}) ([]byte, error) {
			rsp, err := wrapReal.Decrypt(ctx, &grpc_api.DecryptRequest{ClientId: B.clientID, Acrastruct: st.([]byte)})
			if err != nil {
				return nil, err
			}
			return rsp.Data, nil
		}},
		{"DecryptSym", func() (interface{}, error) {
			rsp, err := wrapReal.EncryptSym(ctxB, &grpc_api.EncryptSymRequest{ClientId: A.clientID, Data: x})
			if err != nil {
				return nil, err
			}
			return rsp.Acrablock, nil
		}, func(ctx context.Context, st interface{}) ([]byte, error) {
			rsp, err := wrapReal.DecryptSym(ctx, &grpc_api.DecryptSymRequest{ClientId: B.clientID, Acrablock: st.([]byte)})
			if err != nil {
				return nil, err
			}
			return rsp.Data, nil
		}},
		{"DecryptSearchable", func() (interface{}, error) {
			rsp, err := wrapReal.EncryptSearchable(ctxB, &grpc_api.SearchableEncryptionRequest{ClientId: A.clientID, Data: x})
			if err != nil {
				return nil, err
			}
			return [2][]byte{rsp.Hash, rsp.Acrastruct}, nil
		}, func(ctx context.Context, st interface{}) ([]byte, error) {
			p := st.([2][]byte)
			rsp, err := wrapReal.DecryptSearchable(ctx, &grpc_api.SearchableDecryptionRequest{ClientId: B.clientID, Hash: p[0], Data: p[1]})
			if err != nil {
				return nil, err
			}
			return rsp.Data, nil
		}},
		{"DecryptSymSearchable", func() (interface{}, error) {
			rsp, err := wrapReal.EncryptSymSearchable(ctxB, &grpc_api.SearchableSymEncryptionRequest{ClientId: A.clientID, Data: x})
			if err != nil {
				return nil, err
			}
			return [2][]byte{rsp.Hash, rsp.Acrablock}, nil
		}, func(ctx context.Context, st interface{}) ([]byte, error) {
			p := st.([2][]byte)
			rsp, err := wrapReal.DecryptSymSearchable(ctx, &grpc_api.SearchableSymDecryptionRequest{ClientId: B.clientID, Hash: p[0], Data: p[1]})
			if err != nil {
				return nil, err
			}
			return rsp.Data, nil
		}},
		{"Detokenize", func() (interface{}, error) {
			rsp, err := wrapReal.Tokenize(ctxB, &grpc_api.TokenizeRequest{ClientId: A.clientID, Value: &grpc_api.TokenizeRequest_StrValue{StrValue: string(x)}})
			if err != nil {
				return nil, err
			}
			return rsp.GetStrToken(), nil
		}, func(ctx context.Context, st interface{}) ([]byte, error) {
			rsp, err := wrapReal.Detokenize(ctx, &grpc_api.TokenizeRequest{ClientId: B.clientID, Value: &grpc_api.TokenizeRequest_StrValue{StrValue: st.(string)}})
			if err != nil {
				return nil, err
			}
			return []byte(rsp.GetStrToken()), nil
		}},
	}
	for _, c := range cases {
		stored, err := c.make()
		if err != nil {
			r.Inconclusive("end-to-end gRPC case could not be prepared: " + c.name + ": " + err.Error())
			continue
		}
		r.Case()
		if got, err := c.read(ctxB, stored); err == nil && bytes.Contains(got, mk) {
			r.Count("grpc_end_to_end_owner_reads", 1)
		} else {
			r.Inconclusive("end-to-end gRPC control failed: owner connection cannot read own value: " + c.name + ": " + fmt.Sprint(err))
			continue
		}
		r.Case()
		got, err := c.read(ctxA, stored)
		switch {
		case bytes.Contains(got, mk):
			r.Violation("value of identity B returned over a connection of identity A that named B in the request: rpc="+c.name,
				map[string]interface{}{"connection_identity": A.name, "named_identity": B.name, "got": ev.Hex(got)})
		case err != nil:
			r.Count("grpc_end_to_end_refused", 1)
			r.Distinct("grpc-e2e|" + c.name + "|refused")
		default:
			r.Count("grpc_end_to_end_returned_protected_form", 1)
			r.Distinct("grpc-e2e|" + c.name + "|no-plaintext")
		}
	}
	s.take()
	r.RequireAtLeast("rpc_calls_with_connection_identity_observed", 200)
	r.RequireSetAtLeast("rpcs_observed_with_connection_identity", 11)
	r.RequireAtLeast("grpc_end_to_end_owner_reads", 4)
}

// ---------------------------------------------------------------------------------------------
// HTTP

// ginRoutes reads the routes of the HTTP service by reflection over its (unexported) gin engine.
func ginRoutes(svc *http_api.HTTPService) (routes gin.RoutesInfo, ok bool) {
	defer func() {
		if recover() != nil {
			ok = false
		}
	}()
	f := reflect.ValueOf(svc).Elem().FieldByName("engine")
	if !f.IsValid() || f.Kind() != reflect.Ptr {
		return nil, false
	}
	eng := (*gin.Engine)(unsafe.Pointer(f.Pointer()))
	if eng == nil {
		return nil, false
	}
	return eng.Routes(), true
}

func identityOverrideHTTP(r *ev.Run, e *envrig.Env, rng *gen.Rand) {
	rig, err := loadTLSRig()
	if err != nil {
		r.Violation("identity-override rig: cannot load TLS identities (rig fault)", map[string]interface{}{"err": err.Error()})
		return
	}
	for _, id := range rig.ids {
		ksrig.GenClient(e.KS, id.clientID) // already present when the gRPC part ran first: an error here is fine
	}
	s := &seen{}
	recKS := &recordingKS{FullKeyStore: e.KS, s: s}
	td := &trcommon.TranslatorData{Keystorage: recKS, Tokenizer: e.Tokenizer, UseConnectionClientID: true, TLSClientIDExtractor: rig.extractor}
	realSvc, err := trcommon.NewTranslatorService(td)
	if err != nil {
		panic(err)
	}
	// listener chain as in cmd/acra-translator: connection-to-context callback, safe-close wrapper, TLS wrapper last
	httpWrapper, err := network.NewHTTPServerConnectionWrapper()
	if err != nil {
		panic(err)
	}
	httpWrapper.AddConnectionContextCallback(network.ConnectionToContextCallback{})
	ln, err := net.Listen("tcp", "127.0.0.1:0")
	if err != nil {
		r.Inconclusive("HTTP identity override: cannot listen on loopback: " + err.Error())
		return
	}
	httpWrapper.SetListener(ln)
	httpWrapper.AddCallback(network.SafeCloseConnectionCallback{})
	httpWrapper.AddCallback(rig.wrapper)
	if os.Getenv("VERIF_LOGS") == "" {
		gin.DefaultWriter, gin.DefaultErrorWriter = io.Discard, io.Discard
	}
	ctx, cancel := context.WithCancel(bg)
	svc, err := http_api.NewHTTPService(&recordingITS{s: s, next: realSvc}, td, http_api.WithContext(ctx), http_api.WithConnectionContextHandler(httpWrapper.OnConnectionContext))
	if err != nil {
		panic(err)
	}
	done := make(chan struct{})
	go func() { svc.Start(httpWrapper); close(done) }()
	defer func() {
		cancel()
		select {
		case <-done:
		case <-time.After(5 * time.Second):
		}
	}()

	type route struct{ method, path string }
	var routes []route
	if ri, ok := ginRoutes(svc); ok {
		for _, x := range ri {
			if strings.Contains(x.Path, "swagger") {
				continue
			}
			routes = append(routes, route{x.Method, x.Path})
		}
		r.Count("http_routes_by_reflection", int64(len(routes)))
	} else {
		r.Assumptions = append(r.Assumptions, "HTTP routes could not be read from the gin engine by reflection in this tree; the fixed route list of the pinned revision was used")
		for _, p := range []string{"decrypt", "encrypt", "encryptSearchable", "decryptSearchable", "decryptSym", "encryptSym", "encryptSymSearchable", "decryptSymSearchable", "generateQueryHash", "tokenize", "detokenize"} {
			routes = append(routes, route{"GET", "/v2/" + p}, route{"POST", "/v2/" + p})
		}
		routes = append(routes, route{"POST", "/v1/decrypt"}, route{"POST", "/v1/encrypt"})
	}
	sort.Slice(routes, func(i, j int) bool { return routes[i].path+routes[i].method < routes[j].path+routes[j].method })
	var rn []string
	for _, x := range routes {
		rn = append(rn, x.method+" "+x.path)
	}
	r.Extra("http_routes", rn)

	base := "https://" + ln.Addr().String()
	clientFor := func(id *tlsIdentity) *http.Client {
		return &http.Client{Timeout: 20 * time.Second, Transport: &http.Transport{TLSClientConfig: &tls.Config{Certificates: []tls.Certificate{id.cert}, InsecureSkipVerify: true}, DisableKeepAlives: true}}
	}
	do := func(c *http.Client, method, path string, q url.Values, hdr map[string]string, body []byte, ctype string) (int, []byte, error) {
		u := base + path
		if len(q) > 0 {
			u += "?" + q.Encode()
		}
		req, err := http.NewRequest(method, u, bytes.NewReader(body))
		if err != nil {
			return 0, nil, err
		}
		if ctype != "" {
			req.Header.Set("Content-Type", ctype)
		}
		for k, v := range hdr {
			req.Header.Set(k, v)
		}
		rsp, err := c.Do(req)
		if err != nil {
			return 0, nil, err
		}
		defer rsp.Body.Close()
		b, _ := io.ReadAll(rsp.Body)
		return rsp.StatusCode, b, nil
	}
	do1 := do
	do = func(c *http.Client, method, path string, q url.Values, hdr map[string]string, body []byte, ctype string) (code int, b []byte, err error) {
		for try := 0; try < 3; try++ { // transport hiccups on a loaded machine are not the subject
			if code, b, err = do1(c, method, path, q, hdr, body, ctype); err == nil {
				return
			}
		}
		return
	}
	forge := func(id []byte) (url.Values, map[string]string, map[string]interface{}) {
		q := url.Values{}
		for _, k := range []string{"client_id", "clientId", "ClientId", "clientID", "client-id", "id"} {
			q.Set(k, string(id))
		}
		hdr := map[string]string{"X-Client-Id": string(id), "Client-Id": string(id), "ClientId": string(id), "X-Acra-Client-Id": string(id)}
		js := map[string]interface{}{"client_id": string(id), "clientId": string(id), "ClientId": base64.StdEncoding.EncodeToString(id), "clientID": string(id), "id": string(id)}
		return q, hdr, js
	}

	A, B := rig.ids[0], rig.ids[1]
	cA, cB := clientFor(A), clientFor(B)
	// something protected for B (through B's own connection) that a forged request would like to read
	mk := newMarker(rng)
	x := []byte("http protected value " + string(mk))
	storedFor := map[string][]byte{}
	for _, op := range []string{"encrypt", "encryptSym", "encryptSearchable", "encryptSymSearchable"} {
		body, _ := json.Marshal(map[string]interface{}{"data": base64.StdEncoding.EncodeToString(x)})
		code, rsp, err := do(cB, "POST", "/v2/"+op, nil, nil, body, "application/json")
		var out struct {
			Data []byte `json:"data"`
		}
		if err != nil || code != 200 || json.Unmarshal(rsp, &out) != nil || len(out.Data) == 0 {
			r.Inconclusive(fmt.Sprintf("HTTP rig: cannot protect a value through B's own connection: op=%s code=%d err=%v body=%.80s", op, code, err, rsp))
			continue
		}
		storedFor["de"+op[2:]] = out.Data // decrypt, decryptSym, decryptSearchable, decryptSymSearchable
	}
	s.take()

	for _, forged := range [][]byte{B.clientID, clients[0].id} {
		for _, rt := range routes {
			op := rt.path[strings.LastIndex(rt.path, "/")+1:]
			q, hdr, js := forge(forged)
			var body []byte
			ctype := "application/json"
			payload := storedFor[op]
			if payload == nil {
				payload = []byte("http payload " + string(newMarker(rng)))
			}
			switch {
			case strings.HasPrefix(rt.path, "/v1/"):
				body, ctype = payload, "application/octet-stream"
			case op == "tokenize" || op == "detokenize":
				js["data"] = "token-or-value " + string(mk)
				js["type"] = int(tokenCommon.TokenType_String)
				body, _ = json.Marshal(js)
			default:
				js["data"] = base64.StdEncoding.EncodeToString(payload)
				body, _ = json.Marshal(js)
			}
			r.Case()
			s.take()
			code, rsp, err := do(cA, rt.method, rt.path, q, hdr, body, ctype)
			where, ids := s.take()
			sig := fmt.Sprintf("identity override: http route=%s %s", rt.method, rt.path)
			detail := map[string]interface{}{"route": rt.method + " " + rt.path, "tls_identity": A.name, "tls_client_id": string(A.clientID), "forged_client_id": string(forged), "observed": where, "status": code, "err": fmt.Sprint(err)}
			if err != nil {
				r.Inconclusive("HTTP request failed: " + sig + ": " + err.Error())
				continue
			}
			bad := false
			for i, id := range ids {
				if !bytes.Equal(id, A.clientID) {
					bad = true
					detail["offending_observation"] = where[i]
					detail["offending_id"] = string(id)
				}
			}
			leak := bytes.Contains(rsp, mk) || bytes.Contains(rsp, []byte(base64.StdEncoding.EncodeToString(x)))
			if storedFor[op] == nil {
				leak = false // the marker was sent in clear by the requester itself (tokenize/encrypt payloads)
			}
			switch {
			case bad:
				r.Violation("request identity reached the service instead of the connection identity: "+sig, detail)
			case leak:
				detail["response"] = string(rsp)
				r.Violation("value of identity B returned over a connection of identity A that named B in the request: "+sig, detail)
			case len(ids) > 0:
				r.Count("http_calls_with_connection_identity_observed", 1)
				r.SetAdd("http_routes_observed_with_connection_identity", rt.method+" "+rt.path)
				r.Distinct("http|" + rt.method + " " + rt.path + "|overridden")
				r.SampleN("http:"+op, 1, map[string]interface{}{"route": rt.method + " " + rt.path, "tls_identity": A.name, "forged_client_id": string(forged)[:12] + "…", "ids_seen_inside": len(ids), "all_equal_connection_identity": true, "status": code})
			default:
				r.Count("http_calls_not_reaching_the_service", 1)
				r.SetAdd("http_routes_not_reaching_the_service", fmt.Sprintf("%s %s -> %d", rt.method, rt.path, code))
			}
		}
	}
	if n := r.SetSize("http_routes_not_reaching_the_service"); n > 0 {
		r.Extra("http_routes_not_reaching_the_service_count", n)
	}
	r.RequireAtLeast("http_calls_with_connection_identity_observed", 30)
	r.RequireSetAtLeast("http_routes_observed_with_connection_identity", 20)
}
