package c02

import (
	"bytes"
	"context"
	"crypto/tls"
	"encoding/base64"
	"encoding/json"
	"fmt"
	"io"
	"net"
	"net/http"
	"os"
	"path/filepath"
	"time"

	trcommon "github.com/cossacklabs/acra/cmd/acra-translator/common"
	"github.com/cossacklabs/acra/cmd/acra-translator/http_api"
	"github.com/cossacklabs/acra/keystore"
	"github.com/cossacklabs/acra/network"
	tokenCommon "github.com/cossacklabs/acra/pseudonymization/common"
	"github.com/gin-gonic/gin"

	"verif/harness/internal/ev"
	"verif/harness/internal/gen"
	"verif/harness/internal/rig/envrig"
	"verif/harness/internal/rig/ksrig"
)

// HTTPPeerReuse drives AcraTranslator's HTTP API, served with TLS identities on a UNIX-SOCKET listener (every peer of such a
// listener has the same, unnamed remote address), with a history of connections that present different client certificates:
// A, then B, then interleaved. Every connection protects values through its own identity and then asks for the reveal of its
// own and of the other identity's artefacts (decrypt, decryptSym, decryptSearchable, decryptSymSearchable, detokenize): the
// identity that counts is the one of the certificate of THIS connection - B never gets A's plaintext, A never B's, and each
// reads its own (which also shows which identity the connection really ran under).
func HTTPPeerReuse(r *ev.Run) {
	part(r, "http-peer-reuse", func() { httpPeerReuse(r) })
	r.RequireAtLeast("http_reuse_foreign_reveals_refused", 40)
	r.RequireAtLeast("http_reuse_own_reveals_succeeded", 40)
	r.RequireAtLeast("http_reuse_connections_after_another_identity_from_the_same_address", 8)
}

func httpPeerReuse(r *ev.Run) {
	rng := gen.New(r.Seed, "c02-http-reuse")
	rig, err := loadTLSRig()
	if err != nil {
		r.Violation("http peer reuse rig: cannot load TLS identities (rig fault)", map[string]interface{}{"err": err.Error()})
		return
	}
	dir := ksrig.ScratchDir("c02-reuse")
	defer os.RemoveAll(dir)
	ks, err := ksrig.V1(filepath.Join(dir, "ks"), ksrig.RandBytes(32), keystore.InfiniteCacheSize)
	if err != nil {
		panic(err)
	}
	e, err := envrig.New("reuse", ks, nil, "")
	if err != nil {
		panic(err)
	}
	for _, id := range rig.ids {
		if err := ksrig.GenClient(ks, id.clientID); err != nil {
			panic(err)
		}
	}
	td := &trcommon.TranslatorData{Keystorage: ks, Tokenizer: e.Tokenizer, UseConnectionClientID: true, TLSClientIDExtractor: rig.extractor}
	realSvc, err := trcommon.NewTranslatorService(td)
	if err != nil {
		panic(err)
	}
	rounds := r.Pick(2, 12)
	for round := 0; round < rounds; round++ {
		// a fresh socket and service per round; which identity connects first alternates
		httpWrapper, err := network.NewHTTPServerConnectionWrapper()
		if err != nil {
			panic(err)
		}
		httpWrapper.AddConnectionContextCallback(network.ConnectionToContextCallback{})
		sock := filepath.Join(dir, fmt.Sprintf("translator-%d.sock", round))
		ln, err := net.Listen("unix", sock)
		if err != nil {
			r.Inconclusive("http peer reuse: cannot listen on a unix socket: " + err.Error())
			return
		}
		httpWrapper.SetListener(ln)
		httpWrapper.AddCallback(network.SafeCloseConnectionCallback{})
		httpWrapper.AddCallback(rig.wrapper)
		if os.Getenv("VERIF_LOGS") == "" {
			gin.DefaultWriter, gin.DefaultErrorWriter = io.Discard, io.Discard
		}
		ctx, cancel := context.WithCancel(bg)
		svc, err := http_api.NewHTTPService(realSvc, td, http_api.WithContext(ctx), http_api.WithConnectionContextHandler(httpWrapper.OnConnectionContext))
		if err != nil {
			panic(err)
		}
		done := make(chan struct{})
		go func() { svc.Start(httpWrapper); close(done) }()
		httpReuseRound(r, rng, rig, sock, round)
		cancel()
		select {
		case <-done:
		case <-time.After(5 * time.Second):
		}
		ln.Close()
	}
}

type reuseArtefacts struct {
	plain  []byte
	tokenP string
	stored map[string][]byte // reveal operation -> protected form
	token  string
}

func httpReuseRound(r *ev.Run, rng *gen.Rand, rig *tlsRig, sock string, round int) {
	// one request per connection (keep-alives off): every request is a new TLS connection from the same unnamed peer address
	clientFor := func(id *tlsIdentity) *http.Client {
		return &http.Client{Timeout: 20 * time.Second, Transport: &http.Transport{
			DialContext: func(ctx context.Context, _, _ string) (net.Conn, error) {
				return (&net.Dialer{}).DialContext(ctx, "unix", sock)
			},
			TLSClientConfig:   &tls.Config{Certificates: []tls.Certificate{id.cert}, InsecureSkipVerify: true},
			DisableKeepAlives: true}}
	}
	var history []string
	post := func(c *http.Client, who, op string, body []byte) (int, []byte, error) {
		var code int
		var b []byte
		var err error
		for try := 0; try < 3; try++ {
			var req *http.Request
			req, err = http.NewRequest("POST", "https://translator/v2/"+op, bytes.NewReader(body))
			if err != nil {
				return 0, nil, err
			}
			req.Header.Set("Content-Type", "application/json")
			var rsp *http.Response
			if rsp, err = c.Do(req); err != nil {
				continue
			}
			b, _ = io.ReadAll(rsp.Body)
			rsp.Body.Close()
			code = rsp.StatusCode
			break
		}
		history = append(history, fmt.Sprintf("%s: POST /v2/%s -> %d %v", who, op, code, err))
		return code, b, err
	}
	A, B := rig.ids[0], rig.ids[1]
	if round%2 == 1 {
		A, B = B, A
	}
	detail := func(extra map[string]interface{}) map[string]interface{} {
		m := map[string]interface{}{"round": round, "listener": "unix socket (all peers share one remote address)", "first_identity": A.name, "second_identity": B.name, "history": append([]string{}, history...)}
		for k, v := range extra {
			m[k] = v
		}
		return m
	}
	protect := func(c *http.Client, id *tlsIdentity) *reuseArtefacts {
		a := &reuseArtefacts{plain: []byte("unix socket value of " + id.name + " " + string(newMarker(rng))), tokenP: "token value of " + id.name + " " + string(newMarker(rng)), stored: map[string][]byte{}}
		for _, op := range []string{"encrypt", "encryptSym", "encryptSearchable", "encryptSymSearchable"} {
			body, _ := json.Marshal(map[string]interface{}{"data": base64.StdEncoding.EncodeToString(a.plain)})
			code, rsp, err := post(c, id.name, op, body)
			var out struct {
				Data []byte `json:"data"`
			}
			if err != nil || code != 200 || json.Unmarshal(rsp, &out) != nil || len(out.Data) == 0 {
				r.Inconclusive(fmt.Sprintf("http peer reuse rig: cannot protect a value through %s's own connection: op=%s code=%d err=%v", id.name, op, code, err))
				continue
			}
			a.stored["de"+op[2:]] = out.Data
		}
		body, _ := json.Marshal(map[string]interface{}{"data": a.tokenP, "type": int(tokenCommon.TokenType_String)})
		code, rsp, err := post(c, id.name, "tokenize", body)
		var out struct {
			Data string `json:"data"`
		}
		if err == nil && code == 200 && json.Unmarshal(rsp, &out) == nil && out.Data != "" && out.Data != a.tokenP {
			a.token = out.Data
		} else {
			r.Inconclusive(fmt.Sprintf("http peer reuse rig: cannot tokenize through %s's own connection: code=%d err=%v body=%.80s", id.name, code, err, rsp))
		}
		return a
	}
	// reveal asks, over a connection presenting `reader`'s certificate, for the reveal of `owner`'s artefacts
	reveal := func(c *http.Client, reader, owner *tlsIdentity, a *reuseArtefacts, mode string) {
		type req struct {
			op    string
			body  []byte
			plain []byte
		}
		var reqs []req
		for _, op := range []string{"decrypt", "decryptSym", "decryptSearchable", "decryptSymSearchable"} {
			if a.stored[op] == nil {
				continue
			}
			b, _ := json.Marshal(map[string]interface{}{"data": base64.StdEncoding.EncodeToString(a.stored[op])})
			reqs = append(reqs, req{op, b, a.plain})
		}
		if a.token != "" {
			b, _ := json.Marshal(map[string]interface{}{"data": a.token, "type": int(tokenCommon.TokenType_String)})
			reqs = append(reqs, req{"detokenize", b, []byte(a.tokenP)})
		}
		for _, q := range reqs {
			r.Case()
			code, rsp, err := post(c, reader.name, q.op, q.body)
			if err != nil {
				r.Inconclusive("http peer reuse: request failed: " + err.Error())
				continue
			}
			inClear := bytes.Contains(rsp, q.plain) || bytes.Contains(rsp, []byte(base64.StdEncoding.EncodeToString(q.plain)))
			if reader == owner {
				if code != 200 || !inClear {
					r.Violation(fmt.Sprintf("http peer reuse: connection cannot reveal the artefact of its own certificate identity: op=%s history=%s listener=unix-socket", q.op, mode),
						detail(map[string]interface{}{"reader": reader.name, "status": code, "response": fmt.Sprintf("%.200s", rsp)}))
				} else {
					r.Count("http_reuse_own_reveals_succeeded", 1)
					r.Distinct("http-reuse|own|" + q.op + "|" + mode)
				}
				continue
			}
			if inClear {
				r.Violation(fmt.Sprintf("http peer reuse: value protected for one certificate identity returned in clear over a connection presenting another certificate: op=%s history=%s listener=unix-socket", q.op, mode),
					detail(map[string]interface{}{"reader": reader.name, "owner": owner.name, "status": code, "plaintext": string(q.plain)}))
			} else {
				r.Count("http_reuse_foreign_reveals_refused", 1)
				r.Distinct("http-reuse|foreign|" + q.op + "|" + mode)
			}
		}
	}
	cA, cB := clientFor(A), clientFor(B)
	// history 1: A first (protects, reveals its own), then B from the same address
	artA := protect(cA, A)
	reveal(cA, A, A, artA, "first-identity")
	r.Count("http_reuse_connections_after_another_identity_from_the_same_address", 1)
	reveal(cB, B, A, artA, "second-identity-after-first")
	artB := protect(cB, B)
	reveal(cB, B, B, artB, "second-identity-after-first")
	// history 2: back to A, which must not have become B
	r.Count("http_reuse_connections_after_another_identity_from_the_same_address", 1)
	reveal(cA, A, B, artB, "first-identity-again")
	reveal(cA, A, A, artA, "first-identity-again")
	// history 3: interleaved, request by request
	for k := 0; k < 2; k++ {
		r.Count("http_reuse_connections_after_another_identity_from_the_same_address", 2)
		reveal(cB, B, A, artA, "interleaved")
		reveal(cA, A, B, artB, "interleaved")
		reveal(cB, B, B, artB, "interleaved")
		reveal(cA, A, A, artA, "interleaved")
	}
	r.SampleN("http-peer-reuse", 1, map[string]interface{}{"round": round, "history": history})
}
