// Package c02 will hold the monitor of property C02 (not built yet; nothing is registered).
package c02
