// Package c02 monitors "data protected for one client is never revealed under another identity".
//
// Level exploration. Real keystores (v1 directory, v2 in-memory, v2 directory back end) hold four clients whose keys are
// rotated in an interleaved order; at every step values carrying unique markers are protected under each client at every
// protect entry point; every reveal-type operation is then executed under every OTHER client on those values and the
// oracle inspects what comes back. Further parts: key-material distinctness, key-file / key-ring relocation (reloc.go),
// token stores (tokens.go), identity override of the gRPC and HTTP services (identity.go).
package c02

import (
	"bytes"
	"context"
	"fmt"
	"runtime/debug"
	"strings"
	"sync"

	"github.com/cossacklabs/acra/acrablock"
	"github.com/cossacklabs/acra/acrastruct"
	"github.com/cossacklabs/acra/crypto"
	"github.com/cossacklabs/acra/hmac"
	"github.com/cossacklabs/acra/keystore"

	"verif/harness/internal/ev"
	"verif/harness/internal/gen"
	"verif/harness/internal/props"
	"verif/harness/internal/rig/envrig"
	"verif/harness/internal/rig/ksrig"
)

func init() { props.Register("C02", props.Monitor{Level: "exploration", Run: Run}) }

var bg = context.Background()

type client struct {
	id        []byte
	rotations int
}

var clients = []client{
	{[]byte("c02_client_alpha"), 0},
	{[]byte("c02-client-bravo"), 1},
	{[]byte("c02 client charlie"), 2},
	{[]byte("c02_client_delta"), 3},
}

// ---------------------------------------------------------------------------------------------
// protect entry points (the artefact kinds of C01)

type protectFn struct {
	name   string
	kind   string // acrastruct | acrablock
	search bool
	f      func(e *envrig.Env, id, x []byte) ([]byte, error)
}

func handlerOf(kind string) crypto.ContainerHandler {
	id := byte(crypto.AcraStructEnvelopeID)
	if kind == "acrablock" {
		id = crypto.AcraBlockEnvelopeID
	}
	h, err := crypto.GetHandlerByEnvelopeID(id)
	if err != nil {
		panic(err)
	}
	return h
}

func protects() []protectFn {
	col := func(column, kind string, search bool) protectFn {
		return protectFn{"column.write(" + column + ")", kind, search, func(e *envrig.Env, id, x []byte) ([]byte, error) {
			return e.WriteChain().EncryptWithClientID(id, append([]byte{}, x...), e.Setting(column))
		}}
	}
	return []protectFn{
		{"lib.CreateAcrastruct", "acrastruct", false, func(e *envrig.Env, id, x []byte) ([]byte, error) {
			pub, err := e.KS.GetClientIDEncryptionPublicKey(id)
			if err != nil {
				return nil, err
			}
			return acrastruct.CreateAcrastruct(x, pub, nil)
		}},
		{"lib.CreateAcraBlock", "acrablock", false, func(e *envrig.Env, id, x []byte) ([]byte, error) {
			k, err := e.KS.GetClientIDSymmetricKey(id)
			if err != nil {
				return nil, err
			}
			return acrablock.CreateAcraBlock(x, k, nil)
		}},
		{"registry.EncryptWithClientID(as)", "acrastruct", false, func(e *envrig.Env, id, x []byte) ([]byte, error) {
			return e.Registry.EncryptWithClientID(id, x, e.Setting("plain_as"))
		}},
		{"registry.EncryptWithClientID(ab)", "acrablock", false, func(e *envrig.Env, id, x []byte) ([]byte, error) {
			return e.Registry.EncryptWithClientID(id, x, e.Setting("plain_ab"))
		}},
		{"registry.EncryptWithHandler(as)", "acrastruct", false, func(e *envrig.Env, id, x []byte) ([]byte, error) {
			return e.Registry.EncryptWithHandler(handlerOf("acrastruct"), id, x)
		}},
		{"registry.EncryptWithHandler(ab)", "acrablock", false, func(e *envrig.Env, id, x []byte) ([]byte, error) {
			return e.Registry.EncryptWithHandler(handlerOf("acrablock"), id, x)
		}},
		{"translator.Encrypt", "acrastruct", false, func(e *envrig.Env, id, x []byte) ([]byte, error) { return e.Translator.Encrypt(bg, x, id, nil) }},
		{"translator.EncryptSym", "acrablock", false, func(e *envrig.Env, id, x []byte) ([]byte, error) { return e.Translator.EncryptSym(bg, x, id, nil) }},
		{"translator.EncryptSearchable", "acrastruct", true, func(e *envrig.Env, id, x []byte) ([]byte, error) {
			r, err := e.Translator.EncryptSearchable(bg, x, id, nil)
			if err != nil {
				return nil, err
			}
			return gen.Cat(r.Hash, r.EncryptedData), nil
		}},
		{"translator.EncryptSymSearchable", "acrablock", true, func(e *envrig.Env, id, x []byte) ([]byte, error) {
			r, err := e.Translator.EncryptSymSearchable(bg, x, id, nil)
			if err != nil {
				return nil, err
			}
			return gen.Cat(r.Hash, r.EncryptedData), nil
		}},
		col("plain_as", "acrastruct", false), col("plain_ab", "acrablock", false),
		col("search_as", "acrastruct", true), col("search_ab", "acrablock", true),
		col("mask_as_l", "acrastruct", false), col("mask_ab_r", "acrablock", false),
	}
}

// ---------------------------------------------------------------------------------------------
// reveal-type operations

type revealFn struct {
	name   string
	column bool
	f      func(e *envrig.Env, id, y []byte) ([]byte, error)
	// mask is the masking pattern of a masked column: when such a column cannot be decrypted Acra replaces the value
	// by the bare pattern (documented masking behaviour, nothing of the value is shown) instead of handing it back.
	mask []byte
}

func splitHash(m []byte) (hash, data []byte) {
	hl := hmac.GetDefaultHashSize()
	if len(m) < hl {
		hl = len(m)
	}
	return append([]byte{}, m[:hl]...), append([]byte{}, m[hl:]...)
}

func reveals() []revealFn {
	col := func(column string, masking bool) revealFn {
		rv := revealFn{name: "column:" + column, column: true, f: func(e *envrig.Env, id, y []byte) ([]byte, error) {
			out, _, err := e.NewReadPipeline(masking).OnColumn(id, e.Setting(column), y)
			return out, err
		}}
		switch column {
		case "mask_as_l":
			rv.mask = []byte("xxxx")
		case "mask_ab_r":
			rv.mask = []byte("**")
		}
		return rv
	}
	return []revealFn{
		{name: "translator.Decrypt", f: func(e *envrig.Env, id, y []byte) ([]byte, error) { return e.Translator.Decrypt(bg, y, id, nil) }},
		{name: "translator.DecryptSym", f: func(e *envrig.Env, id, y []byte) ([]byte, error) { return e.Translator.DecryptSym(bg, y, id, nil) }},
		{name: "translator.DecryptSearchable(hash‖data)", f: func(e *envrig.Env, id, y []byte) ([]byte, error) {
			return e.Translator.DecryptSearchable(bg, y, nil, id, nil)
		}},
		{name: "translator.DecryptSearchable(data,hash)", f: func(e *envrig.Env, id, y []byte) ([]byte, error) {
			h, d := splitHash(y)
			return e.Translator.DecryptSearchable(bg, d, h, id, nil)
		}},
		{name: "translator.DecryptSymSearchable(hash‖data)", f: func(e *envrig.Env, id, y []byte) ([]byte, error) {
			return e.Translator.DecryptSymSearchable(bg, y, nil, id, nil)
		}},
		{name: "translator.DecryptSymSearchable(data,hash)", f: func(e *envrig.Env, id, y []byte) ([]byte, error) {
			h, d := splitHash(y)
			return e.Translator.DecryptSymSearchable(bg, d, h, id, nil)
		}},
		{name: "registry.Process", f: func(e *envrig.Env, id, y []byte) ([]byte, error) { return e.Registry.Process(y, e.ProcCtx(id)) }},
		{name: "registry.DecryptWithHandler(as)", f: func(e *envrig.Env, id, y []byte) ([]byte, error) {
			return e.Registry.DecryptWithHandler(handlerOf("acrastruct"), y, e.ProcCtx(id))
		}},
		{name: "registry.DecryptWithHandler(ab)", f: func(e *envrig.Env, id, y []byte) ([]byte, error) {
			return e.Registry.DecryptWithHandler(handlerOf("acrablock"), y, e.ProcCtx(id))
		}},
		{name: "hmac.NewHashProcessor(registry)", f: func(e *envrig.Env, id, y []byte) ([]byte, error) {
			return hmac.NewHashProcessor(e.Registry, e.KS).Process(y, e.ProcCtx(id))
		}},
		{name: "acrastruct.DecryptRotatedAcrastruct(keys of requester)", f: func(e *envrig.Env, id, y []byte) ([]byte, error) {
			privs, err := e.KS.GetServerDecryptionPrivateKeys(id)
			if err != nil {
				return nil, err
			}
			return acrastruct.DecryptRotatedAcrastruct(y, privs, nil)
		}},
		{name: "acrablock.Decrypt(keys of requester)", f: func(e *envrig.Env, id, y []byte) ([]byte, error) {
			ks, err := e.KS.GetClientIDSymmetricKeys(id)
			if err != nil {
				return nil, err
			}
			blk, err := acrablock.NewAcraBlockFromData(y)
			if err != nil {
				return nil, err
			}
			return blk.Decrypt(ks, nil)
		}},
		{name: "hmac.DecryptRotatedSearchableAcraStruct(keys of requester)", f: func(e *envrig.Env, id, y []byte) ([]byte, error) {
			privs, err := e.KS.GetServerDecryptionPrivateKeys(id)
			if err != nil {
				return nil, err
			}
			hk, err := e.KS.GetHMACSecretKey(id)
			if err != nil {
				return nil, err
			}
			return hmac.DecryptRotatedSearchableAcraStruct(y, hk, privs, nil)
		}},
		{name: "hmac.DecryptRotatedSearchableAcraBlock(keys of requester)", f: func(e *envrig.Env, id, y []byte) ([]byte, error) {
			ks, err := e.KS.GetClientIDSymmetricKeys(id)
			if err != nil {
				return nil, err
			}
			hk, err := e.KS.GetHMACSecretKey(id)
			if err != nil {
				return nil, err
			}
			return hmac.DecryptRotatedSearchableAcraBlock(y, hk, ks, nil)
		}},
		col("plain_as", false), col("plain_ab", false), col("search_as", false), col("search_ab", false),
		col("mask_as_l", true), col("mask_ab_r", true),
	}
}

// ---------------------------------------------------------------------------------------------

type artefact struct {
	env    *envrig.Env
	owner  client
	ep     protectFn
	step   int
	x      []byte // plaintext
	marker []byte // nil for short values (exact test)
	y      []byte // stored protected form
}

func newMarker(rng *gen.Rand) []byte { return []byte(fmt.Sprintf("MK%016x", rng.Uint64())) }

// plaintext returns a value of length n; values of 18+ bytes carry a unique marker.
func plaintext(rng *gen.Rand, n int) (x, marker []byte) {
	const al = "abcdefghijklmnopqrstuvwxyz0123456789"
	x = make([]byte, n)
	for i := range x {
		x[i] = al[rng.Intn(len(al))]
	}
	if n >= 18 {
		marker = newMarker(rng)
		copy(x[rng.Intn(n-18+1):], marker)
	}
	return
}

func safe(rv revealFn, e *envrig.Env, id, y []byte) (out []byte, err error, pan string) {
	defer func() {
		if p := recover(); p != nil {
			pan = fmt.Sprintf("%v\n%s", p, debug.Stack())
		}
	}()
	out, err = rv.f(e, id, append([]byte{}, y...))
	return
}

// leaks reports whether out gives away the plaintext of a: marker substring, or equality for short values
// (a short value may also sit between intact framing bytes in the column path).
func leaks(a *artefact, pre, suf, out []byte) bool {
	if a.marker != nil {
		return bytes.Contains(out, a.marker)
	}
	if bytes.Equal(out, a.x) {
		return true
	}
	return (len(pre) > 0 || len(suf) > 0) && bytes.Equal(out, gen.Cat(pre, a.x, suf))
}

// maskOnly reports whether out is `in` with one region replaced by the bare masking pattern (all other bytes intact).
func maskOnly(out, in, mask []byte) bool {
	lcp := 0
	for lcp < len(out) && lcp < len(in) && out[lcp] == in[lcp] {
		lcp++
	}
	lcs := 0
	for lcs < len(out) && lcs < len(in) && out[len(out)-1-lcs] == in[len(in)-1-lcs] {
		lcs++
	}
	for i := 0; i <= lcp && i+len(mask) <= len(out); i++ {
		t := len(out) - i - len(mask)
		if t <= lcs && len(in)-t >= i+18 && bytes.Equal(out[i:i+len(mask)], mask) {
			return true
		}
	}
	return false
}

type crossJob struct {
	a     *artefact
	other client
	pre   []byte
	suf   []byte
	tag   string // how the identity pair was built (near-identical identities part); part of signature and class keys
}

// crossReveal runs every reveal operation under `other` on a value protected for a.owner.
func crossReveal(r *ev.Run, j crossJob, rvs []revealFn) {
	a := j.a
	for _, rv := range rvs {
		in := a.y
		if rv.column {
			in = gen.Cat(j.pre, a.y, j.suf)
		}
		r.Case()
		out, err, pan := safe(rv, a.env, j.other.id, in)
		detail := func() map[string]interface{} {
			return map[string]interface{}{"keystore": a.env.Name, "owner": string(a.owner.id), "owner_rotations": a.owner.rotations, "requester": string(j.other.id), "requester_rotations": j.other.rotations,
				"produced_by": a.ep.name, "produced_at_step": a.step, "reveal": rv.name, "plaintext": ev.FullHex(a.x), "stored": ev.FullHex(in), "got": ev.FullHex(out), "err": fmt.Sprint(err), "panic": pan}
		}
		sig := fmt.Sprintf("ks=%s produced=%s reveal=%s%s", a.env.Name, a.ep.name, rv.name, j.tag)
		if pan != "" {
			// a crash is C03/C14's subject; here it only means this operation returned nothing
			r.Count("cross_reveal_panicked", 1)
			r.Inconclusive("panic during reveal under another identity (subject of C03/C14): " + sig)
			continue
		}
		if leaks(a, j.pre, j.suf, out) {
			r.Violation("plaintext revealed under another client identity: "+sig, detail())
			continue
		}
		switch {
		case err != nil:
			r.Count("cross_reveal_refused", 1)
			r.Distinct(fmt.Sprintf("%s|%s|%s|own%d|req%d|refused%s", a.env.Name, a.ep.name, rv.name, a.owner.rotations, j.other.rotations, j.tag))
		case bytes.Equal(out, in):
			r.Count("cross_reveal_returned_stored_form_unchanged", 1)
			r.Distinct(fmt.Sprintf("%s|%s|%s|own%d|req%d|unchanged%s", a.env.Name, a.ep.name, rv.name, a.owner.rotations, j.other.rotations, j.tag))
		case rv.mask != nil && maskOnly(out, in, rv.mask):
			// masked column that cannot be decrypted: the bare masking pattern, no byte of the value (C11 judges the window)
			r.Count("cross_reveal_masked_column_returned_bare_pattern", 1)
			r.Distinct(fmt.Sprintf("%s|%s|%s|own%d|req%d|mask-only%s", a.env.Name, a.ep.name, rv.name, a.owner.rotations, j.other.rotations, j.tag))
		default:
			// neither an error nor the stored form: the statement allows only those two
			r.Violation("reveal under another client identity returned an altered value (neither failure nor the stored form): "+sig, detail())
			continue
		}
		r.SampleN("cross:"+rv.name, 1, map[string]interface{}{"keystore": a.env.Name, "owner": string(a.owner.id), "requester": string(j.other.id), "produced_by": a.ep.name, "step": a.step,
			"reveal": rv.name, "plaintext": string(a.x), "stored": ev.Hex(in), "result": ev.Hex(out), "err": fmt.Sprint(err)})
	}
}

// ownerControl: the same operations under the OWNER must reveal (otherwise a refusal under B proves nothing).
func ownerControl(r *ev.Run, a *artefact, rvs []revealFn) {
	for _, rv := range rvs {
		out, err, pan := safe(rv, a.env, a.owner.id, a.y)
		if pan == "" && err == nil && a.marker != nil && bytes.Contains(out, a.marker) {
			r.Count("owner_control_revealed", 1)
			r.Count("owner_control_revealed:"+rv.name, 1)
			r.SetAdd("reveal_operations_effective_for_owner", rv.name)
			r.SetAdd("artefact_kinds_revealed_by_owner", a.env.Name+"|"+a.ep.name)
		}
	}
}

func rotate(e *envrig.Env, c client, withHMAC bool) {
	if err := e.KS.GenerateDataEncryptionKeys(c.id); err != nil {
		panic(fmt.Sprintf("rotate %s: %v", e.Name, err))
	}
	if err := e.KS.GenerateClientIDSymmetricKey(c.id); err != nil {
		panic(fmt.Sprintf("rotate %s: %v", e.Name, err))
	}
	if withHMAC {
		if err := e.KS.GenerateHmacKey(c.id); err != nil {
			panic(fmt.Sprintf("rotate hmac %s: %v", e.Name, err))
		}
	}
}

// keyMaterial reads every key of a client through the public API (values copied).
func keyMaterial(e *envrig.Env, id []byte) map[string][][]byte {
	m := map[string][][]byte{}
	if privs, err := e.KS.GetServerDecryptionPrivateKeys(id); err == nil {
		for _, p := range privs {
			m["storage-private"] = append(m["storage-private"], append([]byte{}, p.Value...))
		}
	}
	if pub, err := e.KS.GetClientIDEncryptionPublicKey(id); err == nil {
		m["storage-public"] = append(m["storage-public"], append([]byte{}, pub.Value...))
	}
	if ks, err := e.KS.GetClientIDSymmetricKeys(id); err == nil {
		for _, k := range ks {
			m["storage-symmetric"] = append(m["storage-symmetric"], append([]byte{}, k...))
		}
	}
	if k, err := e.KS.GetHMACSecretKey(id); err == nil {
		m["search-hmac"] = append(m["search-hmac"], append([]byte{}, k...))
	}
	return m
}

type keyLedger struct {
	mu    sync.Mutex
	owner map[string]string // key bytes -> "ks|client|kind"
}

func (l *keyLedger) add(r *ev.Run, ksName string, c client, kind string, v []byte) {
	l.mu.Lock()
	defer l.mu.Unlock()
	k := ksName + "|" + string(v)
	who := string(c.id)
	if prev, ok := l.owner[k]; ok {
		p := strings.SplitN(prev, "|", 2)
		if p[0] != who {
			r.Violation(fmt.Sprintf("key material shared between two clients: ks=%s kinds=%s/%s", ksName, p[1], kind),
				map[string]interface{}{"keystore": ksName, "client_1": p[0], "client_2": who, "kind_1": p[1], "kind_2": kind})
		}
		return
	}
	l.owner[k] = who + "|" + kind
	r.Count("key_values_compared", 1)
	r.SetAdd("key_kinds_compared", kind)
}

// ProxyLayer, when set, runs the wire part of the monitor (real AcraServer instances with TLS identities) at the end of Run.
var ProxyLayer func(r *ev.Run)

// Run is the C02 monitor.
func Run(r *ev.Run) {
	defer func() {
		if ProxyLayer != nil {
			ProxyLayer(r)
		}
	}()
	r.Rule = "ordered pairs (A,B) of 4 distinct clients whose storage key pair / symmetric key are rotated 0,1,2,3 times in interleaved order (HMAC key of the 3-rotation client rotated at the last step) on a v1 directory keystore, a v2 in-memory keystore and a v2 directory keystore; " +
		"at every step every protect entry point (library, registry, translator incl. searchable, column encryptor chain incl. masking columns) protects fresh values carrying a unique marker MK<16 hex> (plus 1- and 5-byte values judged by equality) under every client; " +
		"every reveal-type operation is run under every other client on those values (quick: on the final key state and a seeded third of the intermediate states; thorough: every state, three value sizes); " +
		"plus: pairwise comparison of all key material read back per client after every step; relocation of every stored key file / key ring of A to every name of B; token stores (memory, BoltDB, each plain and wrapped with encryption) detokenized under B; every RPC of the gRPC service interfaces (by reflection) and every route of the HTTP API (by reflection over the gin engine) called with TLS identity A and a forged request identity B; the gRPC server as grpc_api.NewServer builds and registers it (identity from the TLS connection, tokenizer configured) on a unix socket, every RPC family called through the generated clients by every ordered pair of three certificate identities with the request's client_id empty / own / the other certificate's / an ordinary client's / an id without keys; " +
		"columns bound to an explicit per-column client_id (every column kind: encrypted, searchable, masked, every token type consistent and not, type-aware with every failure policy; bound to the writer / to another identity / unbound; token stores memory and BoltDB, plain and encrypting): written through the query observers of the PostgreSQL proxy factory under every identity's session, stored by the rig's database, read through the decryption subscribers of the factory (type decoder, TokenProcessor, hmac, envelope detector + DecryptHandler + masking, hmac, type encoder) under every identity in the text and binary result formats - the session's identity decides who reveals; " +
		"a case is non-trivial when the same operation reveals the value to its owner; distinct = (keystore, producing entry point, reveal operation, rotations of owner, rotations of requester, outcome) tuples and the per-part class keys"
	r.Assumptions = []string{
		"crypto library replaced by the pure-Go gothemis stand-in (Secure Cell Seal / Secure Message / EC keys); 'cannot be decrypted with another key/context' is the stand-in's AEAD contract",
		"Redis-backed keystores and token stores are not driven (no server in the sandbox)",
		"TLS identities: the certificates of /repo/tests/ssl (acra-writer, acra-writer-2, acra-client) are presented in a real crypto/tls handshake over an in-memory pipe through network.TLSConnectionWrapper.ServerHandshake (gRPC AuthInfo) and over loopback TCP through the HTTP listener chain of acra-translator; certificate validation policy (OCSP/CRL) is not the subject",
		"relocation is done by copying files inside the keystore directory and opening a fresh keystore handle without cache; purpose binding inside ONE v1 identity is deliberately not demanded",
	}
	rng := gen.New(r.Seed, "c02")

	// --- keystores -------------------------------------------------------------------------
	master := ksrig.RandBytes(32)
	v1dir := ksrig.ScratchDir("c02-v1")
	v1, err := ksrig.V1(v1dir, master, keystore.InfiniteCacheSize)
	if err != nil {
		panic(err)
	}
	v2, err := ksrig.V2Mem(ksrig.NewV2Keys())
	if err != nil {
		panic(err)
	}
	v2keys := ksrig.NewV2Keys()
	v2dirPath := ksrig.ScratchDir("c02-v2dir")
	v2d, err := ksrig.V2Dir(v2dirPath+"/ks", v2keys)
	if err != nil {
		panic(err)
	}
	var envs []*envrig.Env
	for _, p := range []struct {
		n  string
		ks ksrig.FullKeyStore
	}{{"v1", v1}, {"v2mem", v2}, {"v2dir", v2d}} {
		e, err := envrig.New(p.n, p.ks, nil, "")
		if err != nil {
			panic(err)
		}
		envs = append(envs, e)
	}
	for _, e := range envs {
		for _, c := range clients {
			if err := ksrig.GenClient(e.KS, c.id); err != nil {
				panic(fmt.Sprintf("keygen %s: %v", e.Name, err))
			}
		}
	}

	pfs := protects()
	rvs := reveals()
	ledger := &keyLedger{owner: map[string]string{}}
	sizes := []int{24}
	if r.Thorough() {
		sizes = []int{18, 40, 300}
	}
	var arts []*artefact
	produce := func(step int) []*artefact {
		var out []*artefact
		for _, e := range envs {
			for _, c := range clients {
				for pi, pf := range pfs {
					ns := append([]int{}, sizes...)
					// short values (exact comparison) at a rotating subset of entry points
					if (pi+step+int(r.Seed%4+4))%4 == 0 {
						ns = append(ns, 1, 5)
					}
					for _, n := range ns {
						x, mk := plaintext(rng, n)
						y, err := pf.f(e, c.id, x)
						if err != nil {
							r.Count("protect_errors", 1)
							continue
						}
						if bytes.Contains(y, x) && n >= 18 {
							r.Count("protect_returned_plaintext_inside", 1) // C01's subject; such a value proves nothing here
							continue
						}
						out = append(out, &artefact{env: e, owner: c, ep: pf, step: step, x: x, marker: mk, y: y})
					}
				}
			}
		}
		return out
	}
	recordKeys := func() {
		for _, e := range envs {
			for _, c := range clients {
				for kind, vals := range keyMaterial(e, c.id) {
					for _, v := range vals {
						ledger.add(r, e.Name, c, kind, v)
					}
				}
			}
		}
	}
	runCross := func(state int, set []*artefact, sample bool) {
		var jobs []crossJob
		for ai, a := range set {
			if sample && (ai+state+int(r.Seed%3+3))%3 != 0 {
				continue
			}
			for _, b := range clients {
				if bytes.Equal(b.id, a.owner.id) {
					continue
				}
				j := crossJob{a: a, other: b}
				switch (ai + len(jobs)) % 3 {
				case 1:
					j.pre, j.suf = []byte("prefix text "), []byte(" suffix text")
				case 2:
					j.pre = gen.Bytes(gen.New(r.Seed, fmt.Sprintf("c02-fr-%d-%d", state, ai)), 7)
					j.pre[0] = 'f' // never a search-hash look-alike (that interplay is a listed C01 finding)
				}
				jobs = append(jobs, j)
			}
		}
		ch := make(chan crossJob, 64)
		var wg sync.WaitGroup
		for w := 0; w < r.Pick(8, 8); w++ {
			wg.Add(1)
			go func() {
				defer wg.Done()
				for j := range ch {
					crossReveal(r, j, rvs)
				}
			}()
		}
		for _, j := range jobs {
			ch <- j
		}
		close(ch)
		wg.Wait()
		r.Count("key_states_explored", 1)
	}

	// --- interleaved key histories -----------------------------------------------------------
	recordKeys()
	for step := 0; step < 4; step++ {
		fresh := produce(step)
		arts = append(arts, fresh...)
		for _, a := range fresh {
			ownerControl(r, a, rvs)
		}
		if step == 3 {
			break
		}
		if r.Thorough() {
			runCross(step, arts, false)
		} else {
			runCross(step, arts, true)
		}
		order := append([]client{}, clients...)
		if step%2 == 1 {
			for i, j := 0, len(order)-1; i < j; i, j = i+1, j-1 {
				order[i], order[j] = order[j], order[i]
			}
		}
		for _, e := range envs {
			for _, c := range order {
				if c.rotations > step {
					rotate(e, c, c.rotations == 3 && step == 2)
					r.Count("rotations_performed", 1)
				}
			}
			e.KS.Reset()
		}
		recordKeys()
	}
	runCross(3, arts, false)
	r.Count("artefacts_protected", int64(len(arts)))

	// values protected before a rotation stay readable for their owner (control that old keys are really in play)
	for _, a := range arts {
		if a.step < 3 && a.owner.rotations > a.step && a.marker != nil {
			for _, rv := range rvs {
				if out, err, pan := safe(rv, a.env, a.owner.id, a.y); pan == "" && err == nil && bytes.Contains(out, a.marker) {
					r.Count("owner_reads_pre_rotation_value", 1)
					break
				}
			}
		}
	}

	// --- other parts ---------------------------------------------------------------------------
	part(r, "search-hash", func() { searchHashUnderOther(r, envs, rng) })
	part(r, "near-identical-identities", func() { nearIdentities(r, rng) })
	part(r, "relocation-v1", func() { relocationV1(r, rng) })
	part(r, "relocation-v2", func() { relocationV2(r, rng) })
	part(r, "token-stores", func() { tokenStores(r, envs, rng) })
	part(r, "columns-bound-to-client-id", func() { boundColumns(r, envs, gen.New(r.Seed, "c02-bound")) })
	part(r, "identity-override-grpc", func() { identityOverrideGRPC(r, envs[0], rng) })
	part(r, "identity-override-http", func() { identityOverrideHTTP(r, envs[0], rng) })
	part(r, "grpc-server-tls", func() { grpcServerTLS(r) })

	// --- non-vacuity ----------------------------------------------------------------------------
	r.RequireAtLeast("owner_control_revealed", 500)
	r.RequireSetAtLeast("reveal_operations_effective_for_owner", len(rvs))
	r.RequireSetAtLeast("artefact_kinds_revealed_by_owner", len(envs)*len(pfs))
	r.RequireAtLeast("cross_reveal_refused", 1000)
	r.RequireAtLeast("cross_reveal_returned_stored_form_unchanged", 300)
	r.RequireAtLeast("owner_reads_pre_rotation_value", 50)
	r.RequireAtLeast("key_values_compared", 60)
	r.RequireSetAtLeast("key_kinds_compared", 4)
}

// part runs one part of the monitor; a part that cannot set up its rig (panic) fails the run as such, without
// losing what the other parts observed.
func part(r *ev.Run, name string, f func()) {
	defer func() {
		if p := recover(); p != nil {
			r.Violation("monitor part could not run: "+name, map[string]interface{}{"panic": fmt.Sprint(p), "stack": string(debug.Stack())})
		}
	}()
	f()
}

// searchHashUnderOther isolates the blind-index check: a value B CAN decrypt but whose search hash was made with A's
// HMAC key must not verify under B ("search-hash verification under B fails or hands back the stored form").
func searchHashUnderOther(r *ev.Run, envs []*envrig.Env, rng *gen.Rand) {
	for _, e := range envs {
		for _, a := range clients {
			for _, b := range clients {
				if bytes.Equal(a.id, b.id) {
					continue
				}
				for _, kind := range []string{"acrastruct", "acrablock"} {
					x, mk := plaintext(rng, 30)
					ka, err := e.KS.GetHMACSecretKey(a.id)
					if err != nil {
						panic(err)
					}
					hashA := hmac.GenerateHMAC(ka, x)
					envB, err := e.Registry.EncryptWithHandler(handlerOf(kind), b.id, x)
					if err != nil {
						panic(err)
					}
					// direct: Hash.IsEqual under B on A's hash
					r.Case()
					if hmac.ExtractHash(hashA).IsEqual(x, b.id, e.KS) {
						r.Violation("search hash of one client verifies under another client: op=hmac.Hash.IsEqual ks="+e.Name, map[string]interface{}{"hash_owner": string(a.id), "verifier": string(b.id), "plaintext": string(x)})
					} else {
						r.Count("foreign_hash_rejected", 1)
					}
					if !hmac.ExtractHash(hashA).IsEqual(x, a.id, e.KS) {
						r.Violation("control: search hash does not verify under its owner: ks="+e.Name, nil)
					} else {
						r.Count("own_hash_verified", 1)
					}
					y := gen.Cat(hashA, envB)
					sr := "as"
					ops := []revealFn{}
					all := reveals()
					for _, rv := range all {
						if strings.Contains(rv.name, "Searchable") || strings.Contains(rv.name, "NewHashProcessor") || rv.name == "column:search_as" || rv.name == "column:search_ab" {
							ops = append(ops, rv)
						}
					}
					_ = sr
					for _, rv := range ops {
						r.Case()
						out, err, pan := safe(rv, e, b.id, y)
						sig := fmt.Sprintf("foreign search hash accepted: ks=%s kind=%s op=%s", e.Name, kind, rv.name)
						switch {
						case pan != "":
							r.Inconclusive("panic: " + sig)
						case err != nil:
							r.Count("foreign_hash_value_refused", 1)
							r.Distinct("foreignhash|" + e.Name + "|" + kind + "|" + rv.name + "|refused")
						case bytes.Equal(out, y):
							r.Count("foreign_hash_value_returned_unchanged", 1)
							r.Distinct("foreignhash|" + e.Name + "|" + kind + "|" + rv.name + "|unchanged")
						case bytes.Contains(out, mk):
							r.Violation(sig, map[string]interface{}{"hash_owner": string(a.id), "requester": string(b.id), "stored": ev.FullHex(y), "got": ev.FullHex(out)})
						default:
							r.Violation("altered value: "+sig, map[string]interface{}{"hash_owner": string(a.id), "requester": string(b.id), "stored": ev.FullHex(y), "got": ev.FullHex(out)})
						}
					}
				}
			}
		}
	}
	r.RequireAtLeast("foreign_hash_rejected", 30)
	r.RequireAtLeast("own_hash_verified", 30)
}
