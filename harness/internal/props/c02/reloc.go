package c02

import (
	"bytes"
	"fmt"
	"io/fs"
	"os"
	"path/filepath"
	"sort"
	"strings"

	"github.com/cossacklabs/acra/keystore"

	"verif/harness/internal/ev"
	"verif/harness/internal/gen"
	"verif/harness/internal/rig/ksrig"
)

// Relocation: "a key stored for one client cannot be loaded as another client's key".
// A's stored key file / key ring is copied to B's name inside the keystore directory, a FRESH keystore handle (no cache) is
// opened and B's keys are requested. Oracle: the request fails, or whatever it returns contains none of A's key material.
// Not demanded: purpose binding inside one identity (v1 uses the client id alone as encryption context).

type keyGetter struct {
	name string
	f    func(ks ksrig.FullKeyStore, id []byte) ([][]byte, error)
}

func getters() []keyGetter {
	return []keyGetter{
		{"GetServerDecryptionPrivateKeys", func(ks ksrig.FullKeyStore, id []byte) ([][]byte, error) {
			ps, err := ks.GetServerDecryptionPrivateKeys(id)
			var out [][]byte
			for _, p := range ps {
				if p != nil {
					out = append(out, append([]byte{}, p.Value...))
				}
			}
			return out, err
		}},
		{"GetServerDecryptionPrivateKey", func(ks ksrig.FullKeyStore, id []byte) ([][]byte, error) {
			p, err := ks.GetServerDecryptionPrivateKey(id)
			if p == nil {
				return nil, err
			}
			return [][]byte{append([]byte{}, p.Value...)}, err
		}},
		{"GetClientIDSymmetricKeys", func(ks ksrig.FullKeyStore, id []byte) ([][]byte, error) {
			kk, err := ks.GetClientIDSymmetricKeys(id)
			var out [][]byte
			for _, k := range kk {
				out = append(out, append([]byte{}, k...))
			}
			return out, err
		}},
		{"GetClientIDSymmetricKey", func(ks ksrig.FullKeyStore, id []byte) ([][]byte, error) {
			k, err := ks.GetClientIDSymmetricKey(id)
			if k == nil {
				return nil, err
			}
			return [][]byte{append([]byte{}, k...)}, err
		}},
		{"GetHMACSecretKey", func(ks ksrig.FullKeyStore, id []byte) ([][]byte, error) {
			k, err := ks.GetHMACSecretKey(id)
			if k == nil {
				return nil, err
			}
			return [][]byte{append([]byte{}, k...)}, err
		}},
		{"GetClientIDEncryptionPublicKey", func(ks ksrig.FullKeyStore, id []byte) ([][]byte, error) {
			p, err := ks.GetClientIDEncryptionPublicKey(id)
			if p == nil {
				return nil, err
			}
			return [][]byte{append([]byte{}, p.Value...)}, err
		}},
	}
}

func safeGet(g keyGetter, ks ksrig.FullKeyStore, id []byte) (out [][]byte, err error, pan string) {
	defer func() {
		if p := recover(); p != nil {
			pan = fmt.Sprint(p)
		}
	}()
	out, err = g.f(ks, id)
	return
}

// secretsOf collects every SECRET key value of a client through a given handle.
func secretsOf(ks ksrig.FullKeyStore, id []byte, withPublic bool) [][]byte {
	var all [][]byte
	for _, g := range getters() {
		if g.name == "GetClientIDEncryptionPublicKey" && !withPublic {
			continue
		}
		vals, err, _ := safeGet(g, ks, id)
		if err == nil {
			all = append(all, vals...)
		}
	}
	return all
}

func listFiles(root string) []string {
	var out []string
	filepath.WalkDir(root, func(p string, d fs.DirEntry, err error) error {
		if err == nil && d.Type().IsRegular() {
			rel, _ := filepath.Rel(root, p)
			out = append(out, rel)
		}
		return nil
	})
	sort.Strings(out)
	return out
}

// relocate copies src over dst (both relative to root), runs fn, then restores dst's previous state.
func relocate(root, src, dst string, fn func()) {
	sp, dp := filepath.Join(root, src), filepath.Join(root, dst)
	data, err := os.ReadFile(sp)
	if err != nil {
		panic(err)
	}
	old, oldErr := os.ReadFile(dp)
	createdDir := ""
	if _, err := os.Stat(filepath.Dir(dp)); err != nil {
		createdDir = filepath.Dir(dp)
		os.MkdirAll(createdDir, 0o700)
	}
	if err := os.WriteFile(dp, data, 0o600); err != nil {
		panic(err)
	}
	os.Chmod(dp, 0o600)
	defer func() {
		if oldErr == nil {
			os.WriteFile(dp, old, 0o600)
		} else {
			os.Remove(dp)
		}
		if createdDir != "" {
			os.Remove(createdDir)
		}
	}()
	fn()
}

func relocClients(r *ev.Run) [][]byte {
	ids := [][]byte{[]byte("reloc_client_one"), []byte("reloc-client-two")}
	if r.Thorough() {
		ids = append(ids, []byte("reloc client three"), []byte("reloc_client_4"))
	}
	return ids
}

// judge runs every getter under B and checks that none of A's secrets comes back.
func judge(r *ev.Run, format string, open func() (ksrig.FullKeyStore, error), a, b []byte, aSecrets [][]byte, srcKind, dstKind, src, dst string) {
	ks, err := open()
	if err != nil {
		// the whole keystore refuses to open with the relocated file: nothing is loaded under B
		r.Count("relocation_keystore_refused_to_open", 1)
		return
	}
	for _, g := range getters() {
		r.Case()
		vals, err, pan := safeGet(g, ks, b)
		sig := fmt.Sprintf("relocated key loaded under another identity: format=%s src=%s dst=%s getter=%s", format, srcKind, dstKind, g.name)
		leaked := false
		for _, v := range vals {
			for _, s := range aSecrets {
				if len(v) > 0 && bytes.Equal(v, s) {
					leaked = true
				}
			}
		}
		switch {
		case leaked:
			r.Violation(sig, map[string]interface{}{"format": format, "owner": string(a), "requester": string(b), "source_file": src, "destination_file": dst, "getter": g.name, "error": fmt.Sprint(err)})
		case pan != "":
			r.Count("relocation_load_panicked", 1)
			r.Inconclusive("panic while loading after relocation (C07/C14's subject): " + sig + ": " + pan)
		case err != nil:
			r.Count("relocation_load_failed", 1)
			r.Distinct(fmt.Sprintf("reloc|%s|%s>%s|%s|failed", format, srcKind, dstKind, g.name))
		default:
			r.Count("relocation_load_returned_only_own_keys", 1)
			r.Distinct(fmt.Sprintf("reloc|%s|%s>%s|%s|own-keys-only", format, srcKind, dstKind, g.name))
		}
	}
	r.SampleN("reloc:"+format+":"+srcKind+">"+dstKind, 1, map[string]interface{}{"format": format, "owner": string(a), "requester": string(b), "source_file": src, "destination_file": dst})
}

// v1Kind classifies a v1 key file of client id: storage | storage_sym | hmac, and whether it is a rotated (.old) copy.
func v1Kind(rel string, id []byte) (kind string, old bool, ok bool) {
	p := string(id) + "_"
	if !strings.HasPrefix(rel, p) {
		return "", false, false
	}
	rest := rel[len(p):]
	dir, base := filepath.Split(rest)
	dir = strings.TrimSuffix(dir, "/")
	name := base
	if dir != "" {
		if !strings.HasSuffix(dir, ".old") {
			return "", false, false
		}
		name = strings.TrimSuffix(dir, ".old")
		old = true
	}
	switch name {
	case "storage", "storage_sym", "hmac":
		return name, old, true
	}
	return "", false, false // public keys (.pub) are stored in clear by design and are not part of this demand
}

func relocationV1(r *ev.Run, rng *gen.Rand) {
	master := ksrig.RandBytes(32)
	dir := ksrig.ScratchDir("c02-reloc-v1")
	ks, err := ksrig.V1(dir, master, keystore.WithoutCache)
	if err != nil {
		panic(err)
	}
	ids := relocClients(r)
	for i, id := range ids {
		if err := ksrig.GenClient(ks, id); err != nil {
			panic(err)
		}
		for k := 0; k <= i%2; k++ { // one or two rotations: every client has .old copies of every kind
			if err := ks.GenerateDataEncryptionKeys(id); err != nil {
				panic(err)
			}
			if err := ks.GenerateClientIDSymmetricKey(id); err != nil {
				panic(err)
			}
			if err := ks.GenerateHmacKey(id); err != nil {
				panic(err)
			}
		}
	}
	open := func() (ksrig.FullKeyStore, error) { return ksrig.V1(dir, master, keystore.WithoutCache) }
	files := listFiles(dir)
	secrets := map[string][][]byte{}
	for _, id := range ids {
		h, _ := open()
		secrets[string(id)] = secretsOf(h, id, false)
		if len(secrets[string(id)]) < 5 {
			panic(fmt.Sprintf("relocation rig: too few keys readable for %s: %d", id, len(secrets[string(id)])))
		}
		// rotated HMAC keys are not returned by any getter: read them by placing them as current key of their owner
		for _, f := range files {
			if k, old, ok := v1Kind(f, id); ok && old && k == "hmac" {
				relocate(dir, f, string(id)+"_hmac", func() {
					h2, _ := open()
					if v, err := h2.GetHMACSecretKey(id); err == nil {
						secrets[string(id)] = append(secrets[string(id)], append([]byte{}, v...))
						r.Count("v1_rotated_hmac_keys_read_for_comparison", 1)
					}
				})
			}
		}
	}
	for _, a := range ids {
		for _, b := range ids {
			if bytes.Equal(a, b) {
				continue
			}
			for _, src := range files {
				sk, sold, ok := v1Kind(src, a)
				if !ok {
					continue
				}
				for _, dk := range []string{"storage", "storage_sym", "hmac"} {
					// destination: B's current file of kind dk, and a rotated slot of B of kind dk
					dsts := []string{string(b) + "_" + dk, filepath.Join(string(b)+"_"+dk+".old", filepath.Base(src))}
					if !sold {
						dsts[1] = filepath.Join(string(b)+"_"+dk+".old", "2020-01-01T00:00:00.000000001")
					}
					for di, dst := range dsts {
						srcKind := sk
						if sold {
							srcKind += ".old"
						}
						dstKind := dk
						if di == 1 {
							dstKind += ".old"
						}
						relocate(dir, src, dst, func() {
							judge(r, "v1", open, a, b, secrets[string(a)], srcKind, dstKind, src, dst)
						})
						r.Count("relocations_v1", 1)
					}
				}
			}
		}
	}
	// control: the SAME copy under the owner's own name keeps working (the rig really swaps files that get loaded)
	for _, a := range ids {
		h, _ := open()
		if got := secretsOf(h, a, false); len(got) >= 5 {
			r.Count("relocation_control_owner_loads_after_restore", 1)
		} else {
			r.Violation("relocation rig: owner cannot load own keys after restore (rig fault)", map[string]interface{}{"client": string(a)})
		}
	}
	r.RequireAtLeast("relocations_v1", 40)
}

func relocationV2(r *ev.Run, rng *gen.Rand) {
	keys := ksrig.NewV2Keys()
	root := filepath.Join(ksrig.ScratchDir("c02-reloc-v2"), "ks")
	ks, err := ksrig.V2Dir(root, keys)
	if err != nil {
		panic(err)
	}
	ids := relocClients(r)
	for i, id := range ids {
		if err := ksrig.GenClient(ks, id); err != nil {
			panic(err)
		}
		for k := 0; k <= i%2; k++ {
			if err := ks.GenerateDataEncryptionKeys(id); err != nil {
				panic(err)
			}
			if err := ks.GenerateClientIDSymmetricKey(id); err != nil {
				panic(err)
			}
		}
	}
	open := func() (ksrig.FullKeyStore, error) { return ksrig.V2Dir(root, keys) }
	files := listFiles(root)
	ringsOf := func(id []byte) []string {
		var out []string
		p := filepath.Join("client", string(id)) + string(filepath.Separator)
		for _, f := range files {
			if strings.HasPrefix(f, p) && strings.HasSuffix(f, ".keyring") {
				out = append(out, f)
			}
		}
		return out
	}
	secrets := map[string][][]byte{}
	for _, id := range ids {
		h, err := open()
		if err != nil {
			panic(err)
		}
		secrets[string(id)] = secretsOf(h, id, true) // v2 keeps the public key inside the signed ring: included
		if len(ringsOf(id)) < 3 || len(secrets[string(id)]) < 5 {
			panic(fmt.Sprintf("relocation rig: v2 layout not as expected for %s: rings=%v", id, ringsOf(id)))
		}
	}
	r.Extra("v2_key_ring_files_of_one_client", ringsOf(ids[0]))
	for _, a := range ids {
		for _, b := range ids {
			if bytes.Equal(a, b) {
				continue
			}
			for _, src := range ringsOf(a) {
				for _, dst := range ringsOf(b) {
					sk := strings.TrimSuffix(filepath.Base(src), ".keyring")
					dk := strings.TrimSuffix(filepath.Base(dst), ".keyring")
					relocate(root, src, dst, func() {
						judge(r, "v2", open, a, b, secrets[string(a)], sk, dk, src, dst)
					})
					r.Count("relocations_v2", 1)
				}
			}
			// the whole client directory of A under B's name
			func() {
				var undo []func()
				for _, src := range ringsOf(a) {
					dst := filepath.Join("client", string(b), filepath.Base(src))
					dp := filepath.Join(root, dst)
					old, oldErr := os.ReadFile(dp)
					data, _ := os.ReadFile(filepath.Join(root, src))
					os.WriteFile(dp, data, 0o600)
					undo = append(undo, func() {
						if oldErr == nil {
							os.WriteFile(dp, old, 0o600)
						} else {
							os.Remove(dp)
						}
					})
				}
				judge(r, "v2", open, a, b, secrets[string(a)], "whole-client-directory", "whole-client-directory", "client/"+string(a), "client/"+string(b))
				for _, u := range undo {
					u()
				}
				r.Count("relocations_v2", 1)
			}()
		}
	}
	for _, a := range ids {
		h, err := open()
		if err != nil || len(secretsOf(h, a, true)) < 5 {
			r.Violation("relocation rig: owner cannot load own v2 keys after restore (rig fault)", map[string]interface{}{"client": string(a), "err": fmt.Sprint(err)})
		} else {
			r.Count("relocation_control_owner_loads_after_restore", 1)
		}
	}
	r.RequireAtLeast("relocations_v2", 15)
	r.RequireAtLeast("relocation_load_failed", 50)
	_ = ev.Hex
}
