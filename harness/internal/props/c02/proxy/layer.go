// Package proxy is the wire layer of the C02 monitor ("a value protected for one client is never returned in clear under
// another identity; when the identity is taken from the TLS connection that is the identity that counts"): real AcraServer
// instances with a real TLS wrapper between applications that switch to TLS inside the database protocol (PostgreSQL
// SSLRequest, MySQL SSL request of the handshake) with client certificates, and fake databases that accept the upgrade.
package proxy

import (
	"bytes"
	"crypto/tls"
	"encoding/hex"
	"fmt"
	"os"
	"strings"
	"sync"
	"time"

	"github.com/cossacklabs/acra/keystore"
	"github.com/cossacklabs/acra/pseudonymization/storage"

	"verif/harness/internal/ev"
	"verif/harness/internal/gen"
	"verif/harness/internal/props/c02"
	"verif/harness/internal/rig/fakemysql"
	"verif/harness/internal/rig/fakepg"
	"verif/harness/internal/rig/ksrig"
	"verif/harness/internal/rig/proxyrig"
)

const staticID = "c02_static_service"

var table = proxyrig.TableSpec{Name: "t_c02", Cols: []proxyrig.ColSpec{
	{Name: "id", AppType: fakepg.Int4, StoreType: fakepg.Int4},
	{Name: "owner", AppType: fakepg.Text, StoreType: fakepg.Text},
	{Name: "e_ab", Kind: "enc", Envelope: "acrablock", AppType: fakepg.Bytea, StoreType: fakepg.Bytea},
	{Name: "e_as", Kind: "enc", Envelope: "acrastruct", AppType: fakepg.Bytea, StoreType: fakepg.Bytea},
	{Name: "t_str", Kind: "token", TokenType: "str", Consist: true, AppType: fakepg.Text, StoreType: fakepg.Text},
}}

// Layer runs the wire part of C02.
func Layer(r *ev.Run) {
	defer proxyrig.SetDialect(false)
	t0 := time.Now()
	defer func() { r.Extra("proxy_layer_wall_s", time.Since(t0).Seconds()) }()
	r.Rule += " || wire layer: per round one keystore with keys for a static identity and for the identities AcraServer derives from two application certificates (throw-away PKI), one fake PostgreSQL and one fake MySQL that accept the in-protocol TLS upgrade, and per database three AcraServer instances with a real TLS wrapper: (1) identity from the certificate only, (2) static --client_id plus identity from the certificate, (3) static --client_id with TLS but identity not taken from the certificate. Applications write rows (AcraBlock, AcraStruct and consistently tokenized columns, values with unique markers) in their own sessions - over TLS with a client certificate or in clear - and every kind of session reads all rows back (text and binary protocol), sequentially, interleaved on one server and concurrently: a row protected for another identity than the session's effective one (certificate identity when taken from TLS, static identity otherwise) must not arrive in clear (marker raw/hex in the delivered stream), rows of the effective identity must be revealed"
	r.Assumptions = append(r.Assumptions, "wire layer: certificates are generated at run time (ECDSA P-256, one CA); client id = acra-server's default extractor (distinguished name, hex converter); OCSP/CRL not configured; MySQL client = go-sql-driver with tls=<config>, PostgreSQL client = pgproto3 over crypto/tls after SSLRequest")
	rng := gen.New(r.Seed, "c02-proxy")
	rounds := r.Pick(6, 60)
	for i := 0; i < rounds; i++ {
		for _, my := range []bool{false, true} {
			round(r, gen.New(r.Seed, fmt.Sprintf("c02-proxy-%d-%v-%d", i, my, rng.Int63())), i, my)
		}
	}
	// columns bound to an explicit per-column client_id, read through sessions of every identity (bound.go)
	boundLayer(r)
	// the HTTP API of AcraTranslator on a unix-socket listener: identities of successive connections from one peer address
	c02.HTTPPeerReuse(r)
	r.RequireAtLeast("proxy_foreign_values_checked_not_in_clear", 2000)
	r.RequireAtLeast("proxy_own_values_revealed", 1000)
	r.RequireAtLeast("proxy_tls_sessions_with_certificate_identity", 40)
	r.RequireAtLeast("proxy_tls_sessions_on_server_with_static_and_certificate_identity", 20)
	r.RequireAtLeast("proxy_concurrent_reads_checked", 1000)
	r.RequireAtLeast("proxy_database_side_tls_upgrades", 40)
	r.RequireSetAtLeast("proxy_databases", 2)
}

type row struct {
	id         int
	owner      string // identity label the row is protected for: static | alpha | beta
	ab, as, tk []byte
}

// session is one application connection.
type session struct {
	my    bool
	pg    *proxyrig.PGClient
	mc    *proxyrig.MyClient
	label string
}

func (s *session) close() {
	if s.pg != nil {
		s.pg.Close()
	}
	if s.mc != nil {
		s.mc.Close()
	}
}

func open(my bool, port int, cfg *tls.Config) (*session, error) {
	s := &session{my: my}
	var err error
	switch {
	case my:
		s.mc, err = proxyrig.DialMyTLS(port, 0, cfg)
	case cfg != nil:
		s.pg, err = proxyrig.DialPGTLS(port, cfg)
	default:
		s.pg, _, err = proxyrig.DialPG(port)
	}
	if err != nil {
		return nil, err
	}
	return s, nil
}

func bytesLit(my bool, b []byte) string {
	if my {
		return "X'" + hex.EncodeToString(b) + "'"
	}
	return `'\x` + hex.EncodeToString(b) + "'"
}

func (s *session) insert(rw row) error {
	sql := fmt.Sprintf("insert into t_c02 (id, owner, e_ab, e_as, t_str) values (%d, '%s', %s, %s, '%s')", rw.id, rw.owner, bytesLit(s.my, rw.ab), bytesLit(s.my, rw.as), rw.tk)
	if s.my {
		res := s.mc.Exec(sql)
		return res.Err
	}
	msgs, err := s.pg.Simple(sql)
	if err != nil {
		return err
	}
	if e := proxyrig.ErrorOf(msgs); e != nil {
		return fmt.Errorf("%s", e.Message)
	}
	return nil
}

// read returns, per row id, the three protected fields as delivered (decoded from the text encoding where needed), plus the raw delivered stream.
func (s *session) read(binary bool) (map[int][3][]byte, []byte, error) {
	const sql = "select id, e_ab, e_as, t_str from t_c02 order by id"
	out := map[int][3][]byte{}
	var stream []byte
	if s.my {
		var res *proxyrig.MyResult
		if binary {
			ps, pr := s.mc.Prepare(sql)
			if ps == nil {
				return nil, nil, pr.Err
			}
			res = ps.Query()
			ps.Close()
		} else {
			res = s.mc.Query(sql)
		}
		if res.Err != nil {
			return nil, nil, res.Err
		}
		for _, rw := range res.Rows {
			var id int
			fmt.Sscan(string(rw[0].B), &id)
			out[id] = [3][]byte{rw[1].B, rw[2].B, rw[3].B}
			for _, v := range rw[1:] {
				stream = append(stream, v.B...)
				stream = append(stream, 0)
			}
		}
		return out, stream, nil
	}
	var msgs []proxyrig.BackendMsg
	var err error
	if binary {
		msgs, err = s.pg.Extended("", sql, nil, nil, nil, []int16{1}, 0)
	} else {
		msgs, err = s.pg.Simple(sql)
	}
	if err != nil {
		return nil, nil, err
	}
	if e := proxyrig.ErrorOf(msgs); e != nil {
		return nil, nil, fmt.Errorf("%s", e.Message)
	}
	for _, m := range msgs {
		stream = append(stream, m.Raw...)
	}
	for _, rw := range proxyrig.Rows(msgs) {
		var id int
		if binary && len(rw[0]) == 4 {
			id = int(int32(uint32(rw[0][0])<<24 | uint32(rw[0][1])<<16 | uint32(rw[0][2])<<8 | uint32(rw[0][3])))
		} else {
			fmt.Sscan(string(rw[0]), &id)
		}
		f := [3][]byte{rw[1], rw[2], rw[3]}
		if !binary {
			for k := 0; k < 2; k++ {
				if d, err := fakepg.DecodeByteaText(string(f[k])); err == nil {
					stream = append(stream, d...)
					stream = append(stream, 0)
					f[k] = d
				}
			}
		}
		out[id] = f
	}
	return out, stream, nil
}

func leak(stream, m []byte) string {
	if bytes.Contains(stream, m) {
		return "raw"
	}
	if bytes.Contains(stream, []byte(hex.EncodeToString(m))) {
		return "hex"
	}
	return ""
}

func ownerClass(owner, reader string) string {
	switch {
	case owner == "static":
		return "the static identity"
	case reader == "static":
		return "a certificate identity"
	default:
		return "another certificate identity"
	}
}

func readerClass(reader string) string {
	if reader == "static" {
		return "the static identity"
	}
	return "the identity of its TLS certificate"
}

type world struct {
	r       *ev.Run
	my      bool
	db      string
	rows    []row
	mu      sync.Mutex
	ridx    int
	details func(extra map[string]interface{}) map[string]interface{}
}

// check judges one read of a session whose effective identity is `effective`.
func (w *world) check(got map[int][3][]byte, stream []byte, effective, config, transport, proto, mode string) {
	r := w.r
	w.mu.Lock()
	rows := append([]row{}, w.rows...)
	w.mu.Unlock()
	cols := []string{"enc/acrablock", "enc/acrastruct", "token/str"}
	// foreign rows first (the property's own clause), then the session's own rows
	ordered := make([]row, 0, len(rows))
	for _, rw := range rows {
		if rw.owner != effective {
			ordered = append(ordered, rw)
		}
	}
	for _, rw := range rows {
		if rw.owner == effective {
			ordered = append(ordered, rw)
		}
	}
	for _, rw := range ordered {
		plain := [3][]byte{rw.ab, rw.as, rw.tk}
		g, delivered := got[rw.id]
		for k := 0; k < 3; k++ {
			if rw.owner == effective {
				if !delivered || !bytes.Equal(g[k], plain[k]) {
					r.Violation(fmt.Sprintf("proxy identity: value of the session's own identity not revealed: session identity=%s db=%s config=%s transport=%s protocol=%s column=%s", readerClass(effective), w.db, config, transport, proto, cols[k]),
						w.details(map[string]interface{}{"row": rw.id, "owner": rw.owner, "effective_identity": effective, "got": ev.Hex(g[k]), "want": ev.Hex(plain[k]), "mode": mode}))
				} else {
					r.Count("proxy_own_values_revealed", 1)
					r.Distinct(fmt.Sprintf("proxy|%s|%s|%s|%s|own-revealed|%s", w.db, config, transport, proto, cols[k]))
				}
				continue
			}
			how := leak(stream, plain[k])
			if how == "" && delivered && bytes.Equal(g[k], plain[k]) {
				how = "field"
			}
			if how != "" {
				r.Violation(fmt.Sprintf("proxy identity: value protected for %s delivered in clear (%s) to a session running under %s: db=%s config=%s transport=%s protocol=%s column=%s", ownerClass(rw.owner, effective), how, readerClass(effective), w.db, config, transport, proto, cols[k]),
					w.details(map[string]interface{}{"row": rw.id, "owner": rw.owner, "effective_identity": effective, "plaintext": ev.Hex(plain[k]), "mode": mode}))
			} else {
				r.Count("proxy_foreign_values_checked_not_in_clear", 1)
				if mode != "sequential" {
					r.Count("proxy_concurrent_reads_checked", 1)
				}
				r.Distinct(fmt.Sprintf("proxy|%s|%s|%s|%s|foreign-%s-hidden|%s|%s", w.db, config, transport, proto, rw.owner, cols[k], mode))
			}
		}
	}
}

func round(r *ev.Run, rng *gen.Rand, idx int, my bool) {
	r.Case()
	dbName := map[bool]string{false: "postgresql", true: "mysql"}[my]
	kit, err := proxyrig.NewTLSKit("alpha", "beta")
	if err != nil {
		panic(err)
	}
	dir := ksrig.ScratchDir("c02px")
	defer os.RemoveAll(dir)
	ks, err := ksrig.V1(dir, ksrig.RandBytes(32), keystore.InfiniteCacheSize)
	if err != nil {
		panic(err)
	}
	ids := map[string][]byte{"static": []byte(staticID), "alpha": kit.IDs["alpha"], "beta": kit.IDs["beta"]}
	for _, id := range ids {
		if err := ksrig.GenClient(ks, id); err != nil {
			panic(err)
		}
	}
	// database accepting the TLS upgrade
	db := fakepg.NewDB()
	var cols []fakepg.Column
	for _, c := range table.Cols {
		cols = append(cols, fakepg.Column{Name: c.Name, Type: c.StoreType})
	}
	db.CreateTable(table.Name, cols)
	dbTLS := kit.ServerConfig()
	var dbPort int
	var closers []func()
	defer func() {
		for i := len(closers) - 1; i >= 0; i-- {
			closers[i]()
		}
	}()
	var pgFront *fakepg.TLSFront
	var mySrv *fakemysql.Server
	if my {
		mySrv, err = fakemysql.NewServerTLS(db, dbTLS)
		if err != nil {
			panic(err)
		}
		closers = append(closers, mySrv.Close)
		dbPort = mySrv.Port()
	} else {
		srv, err := fakepg.NewServer(db)
		if err != nil {
			panic(err)
		}
		closers = append(closers, srv.Close)
		pgFront, err = fakepg.NewTLSFront(srv.Port(), dbTLS)
		if err != nil {
			panic(err)
		}
		closers = append(closers, pgFront.Close)
		dbPort = pgFront.Port()
	}
	mem, err := storage.NewMemoryTokenStorage()
	if err != nil {
		panic(err)
	}
	enc, err := storage.NewSCellEncryptor(ks)
	if err != nil {
		panic(err)
	}
	tokens := storage.WrapStorageWithEncryption(mem, enc)
	schema := proxyrig.YAML([]proxyrig.TableSpec{table})
	type serverCfg struct {
		name     string
		static   []byte
		fromCert bool
	}
	cfgs := []serverCfg{{"certificate-identity-only", nil, true}, {"static-id+certificate-identity", []byte(staticID), true}, {"static-id-only", []byte(staticID), false}}
	servers := map[string]*proxyrig.Acra{}
	for _, c := range cfgs {
		a, err := proxyrig.StartTLS(proxyrig.Opts{KS: ks, DBPort: dbPort, SchemaYAML: schema, TokenStore: tokens, MySQL: my}, proxyrig.TLSOpts{Kit: kit, StaticClientID: c.static, IDFromCert: c.fromCert})
		if err != nil {
			r.Violation("proxy rig: acra with TLS could not be started", map[string]interface{}{"err": err.Error(), "config": c.name})
			return
		}
		servers[c.name] = a
		closers = append(closers, a.Stop)
	}
	var history []string
	w := &world{r: r, my: my, db: dbName}
	w.details = func(extra map[string]interface{}) map[string]interface{} {
		m := map[string]interface{}{"round": idx, "db": dbName, "history": append([]string{}, history...), "identities": map[string]string{"static": staticID, "alpha": string(ids["alpha"]), "beta": string(ids["beta"])}}
		for k, v := range extra {
			m[k] = v
		}
		return m
	}
	// effective identity of a session: certificate identity when the server takes it from TLS and the session switched to TLS, else the static one
	effective := func(c serverCfg, cert string) string {
		if cert != "" && c.fromCert {
			return cert
		}
		return "static"
	}
	connect := func(c serverCfg, cert string) *session {
		var tc *tls.Config
		transport := "clear"
		if cert != "" {
			tc = kit.ClientConfig(cert)
			transport = "tls-upgrade"
		}
		s, err := open(my, servers[c.name].Port, tc)
		history = append(history, fmt.Sprintf("connect config=%s transport=%s certificate=%q -> %v", c.name, transport, cert, err))
		if err != nil {
			r.Violation(fmt.Sprintf("proxy identity: session could not be established: db=%s config=%s transport=%s", dbName, c.name, transport), w.details(map[string]interface{}{"err": err.Error()}))
			return nil
		}
		s.label = transport
		if cert != "" {
			r.Count("proxy_tls_sessions", 1)
			if c.fromCert {
				r.Count("proxy_tls_sessions_with_certificate_identity", 1)
				if c.static != nil {
					r.Count("proxy_tls_sessions_on_server_with_static_and_certificate_identity", 1)
				}
			}
		}
		return s
	}
	nextID := 0
	write := func(s *session, owner string, n int) bool {
		for i := 0; i < n; i++ {
			nextID++
			rw := row{id: nextID, owner: owner,
				ab: append([]byte(fmt.Sprintf("MKab%s%08x", owner, rng.Uint32())), gen.Bytes(rng, 4+rng.Intn(40))...),
				as: append([]byte(fmt.Sprintf("MKas%s%08x", owner, rng.Uint32())), gen.Bytes(rng, 4+rng.Intn(40))...),
				tk: []byte(fmt.Sprintf("MKtk%s%08xzz", owner, rng.Uint32()))}
			if err := s.insert(rw); err != nil {
				r.Violation(fmt.Sprintf("proxy identity: write under the session's identity failed: session identity=%s db=%s transport=%s", readerClass(owner), dbName, s.label), w.details(map[string]interface{}{"err": err.Error()}))
				return false
			}
			w.mu.Lock()
			w.rows = append(w.rows, rw)
			w.mu.Unlock()
			history = append(history, fmt.Sprintf("row %d written for %s (%s)", rw.id, owner, s.label))
		}
		return true
	}
	readBoth := func(s *session, eff, config, mode string) bool {
		for _, bin := range []bool{false, true} {
			proto := map[bool]string{false: "text", true: "binary"}[bin]
			got, stream, err := s.read(bin)
			if err != nil {
				r.Violation(fmt.Sprintf("proxy identity: read failed: db=%s config=%s transport=%s protocol=%s", dbName, config, s.label, proto), w.details(map[string]interface{}{"err": err.Error()}))
				return false
			}
			w.check(got, stream, eff, config, s.label, proto, mode)
		}
		return true
	}
	// --- writes: every identity through its own kind of session
	type wstep struct {
		cfg  serverCfg
		cert string
		n    int
	}
	doWrites := func(steps []wstep) bool {
		for _, ws := range steps {
			s := connect(ws.cfg, ws.cert)
			if s == nil {
				return false
			}
			// a failed write is reported; the round goes on with the rows that exist (the read oracles do not depend on it)
			write(s, effective(ws.cfg, ws.cert), ws.n)
			s.close()
		}
		return true
	}
	// first rows whose owner cannot be in doubt: certificate identities on the certificate-only server, the static identity in clear
	if !doWrites([]wstep{{cfgs[0], "alpha", 2}, {cfgs[0], "beta", 2}, {cfgs[1], "", 2}}) {
		return
	}
	// the sessions where two identities meet: static id configured, identity taken from the certificate after the TLS upgrade
	for _, cert := range []string{"beta", "alpha"} {
		s := connect(cfgs[1], cert)
		if s == nil {
			return
		}
		ok := readBoth(s, effective(cfgs[1], cert), cfgs[1].name, "sequential")
		s.close()
		if !ok {
			return
		}
	}
	// more rows, written by TLS sessions on the servers that also have a static identity
	if !doWrites([]wstep{{cfgs[1], "beta", 1}, {cfgs[2], "alpha", 1}, {cfgs[1], "alpha", 1}}) {
		return
	}
	// --- sequential reads: every configuration x {clear, alpha, beta}
	for _, c := range cfgs {
		for _, cert := range []string{"", "alpha", "beta"} {
			if cert == "" && c.static == nil {
				continue // no identity at all: nothing to read with
			}
			s := connect(c, cert)
			if s == nil {
				return
			}
			ok := readBoth(s, effective(c, cert), c.name, "sequential")
			s.close()
			if !ok {
				return
			}
		}
	}
	// --- two sessions of different identities open at once on one server, statements interleaved
	for _, c := range cfgs[:2] {
		a, b := connect(c, "alpha"), connect(c, "beta")
		if a == nil || b == nil {
			return
		}
		for k := 0; k < 2; k++ {
			if !readBoth(a, effective(c, "alpha"), c.name, "interleaved") || !readBoth(b, effective(c, "beta"), c.name, "interleaved") {
				a.close()
				b.close()
				return
			}
		}
		// --- and truly concurrent
		var wg sync.WaitGroup
		for _, p := range []struct {
			s    *session
			cert string
		}{{a, "alpha"}, {b, "beta"}} {
			wg.Add(1)
			go func(s *session, cert string) {
				defer wg.Done()
				for k := 0; k < 3; k++ {
					for _, bin := range []bool{false, true} {
						got, stream, err := s.read(bin)
						if err != nil {
							r.Inconclusive("concurrent read failed: " + err.Error())
							return
						}
						w.check(got, stream, effective(c, cert), c.name, s.label, map[bool]string{false: "text", true: "binary"}[bin], "concurrent")
					}
				}
			}(p.s, p.cert)
		}
		wg.Wait()
		a.close()
		b.close()
	}
	r.SetAdd("proxy_databases", dbName)
	if pgFront != nil {
		r.Count("proxy_database_side_tls_upgrades", int64(pgFront.UpgradeCount()))
	}
	if mySrv != nil {
		r.Count("proxy_database_side_tls_upgrades", int64(mySrv.TLSUpgrades()))
	}
	r.SampleN("proxy-round-"+dbName, 1, map[string]interface{}{"db": dbName, "history": history})
	_ = strings.TrimSpace
}
