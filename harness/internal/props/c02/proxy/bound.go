package proxy

// Columns bound to an explicit per-column client_id, on the wire: one real AcraServer per identity (static client id) in front
// of one fake PostgreSQL / MySQL, tables whose protected columns all carry `client_id: <alpha>` / `client_id: <beta>` / no client_id.
// Every identity writes rows into every table through its own session (literal statements and bound parameters), every identity
// reads every table back (text and binary result format). Clause: "a value protected for client A is never returned in clear to
// a request running under a different client identity B" - the identity of the SESSION decides who reveals, whatever identity the
// column configuration names; the identity the value is protected for is the column's client_id, or the writer when it has none.

import (
	"bytes"
	"encoding/binary"
	"encoding/hex"
	"fmt"
	"os"
	"strconv"
	"strings"
	"time"

	"github.com/cossacklabs/acra/keystore"
	"github.com/cossacklabs/acra/pseudonymization/storage"

	"verif/harness/internal/ev"
	"verif/harness/internal/gen"
	"verif/harness/internal/props/c02"
	"verif/harness/internal/rig/fakemysql"
	"verif/harness/internal/rig/fakepg"
	"verif/harness/internal/rig/ksrig"
	"verif/harness/internal/rig/proxyrig"
)

type boundIdent struct {
	label string
	id    []byte
}

var boundIdents = []boundIdent{{"alpha", []byte("c02_bound_alpha")}, {"beta", []byte("c02_bound_beta")}, {"gamma", []byte("c02_bound_gamma")}}

// boundWireCols: the catalogue of the in-process part minus what the rigs cannot carry.
func boundWireCols(my bool) []c02.BoundCol {
	var out []c02.BoundCol
	for _, c := range c02.BoundCols() {
		if my && c.Name == "ty_i32_c" {
			// MySQL, binary protocol, integer column with response_on_fail: ciphertext and rows of both outcomes in one result set:
			// listed C19 finding (result set does not parse); the unbound table would have such result sets
			continue
		}
		out = append(out, c)
	}
	return out
}

func boundErrorPolicy(c c02.BoundCol) bool {
	for _, l := range c.YAML {
		if l == "response_on_fail: error" {
			return true
		}
	}
	return false
}

type boundWireCell struct {
	table   c02.BoundTable
	col     c02.BoundCol
	writer  string
	owner   string // label of the identity the value is protected for
	binding string
	how     string // literal | parameters
	value   c02.BoundValue
	rowID   int
	stored  []byte // as the database holds it (text rendering for integers)
}

func boundLayer(r *ev.Run) {
	r.Rule += " || wire layer, columns bound to a client_id: per database one keystore with three identities, one AcraServer per identity (static client id), three tables of 24-25 protected columns (encrypted, searchable, masked, every token type consistent and not, type-aware with every failure policy) all bound to identity alpha / all bound to beta / unbound; every identity writes two rows into every table through its own session (literals; bound parameters), every identity reads every table in the text and the binary result format (columns with response_on_fail: error one row at a time); a cell read by another session than the identity it is protected for (column client_id, else the writer) must not arrive in clear, the identity it is protected for must get the original"
	t0 := time.Now()
	defer func() { r.Extra("proxy_bound_layer_wall_s", time.Since(t0).Seconds()) }()
	rng := gen.New(r.Seed, "c02-proxy-bound")
	rounds := r.Pick(1, 4)
	for i := 0; i < rounds; i++ {
		for _, my := range []bool{false, true} {
			boundRound(r, gen.New(r.Seed, fmt.Sprintf("c02-proxy-bound-%d-%v-%d", i, my, rng.Int63())), i, my)
		}
	}
	r.RequireSetAtLeast("proxy_bound_databases", 2)
	// every (database, column, binding class, protocol, way of writing) judged under foreign sessions was revealed to the identity it is protected for
	r.RequireSetAtLeast("proxy_bound_owner_classes_judged", 250)
	r.RequireSetAtLeast("proxy_bound_owner_revealed_classes", r.SetSize("proxy_bound_owner_classes_judged"))
	r.RequireAtLeast("proxy_bound_foreign_cells_not_revealed:bound-to-other", 700)
	r.RequireAtLeast("proxy_bound_foreign_cells_not_revealed:bound-to-writer", 300)
	r.RequireAtLeast("proxy_bound_foreign_cells_not_revealed:unbound", 700)
	r.RequireAtLeast("proxy_bound_writer_session_could_not_read_back_value_bound_to_other", 300)
	r.RequireAtLeast("proxy_bound_owner_session_got_original:bound-to-other", 300)
	r.RequireAtLeast("proxy_bound_owner_session_got_original:bound-to-writer", 150)
	r.RequireAtLeast("proxy_bound_owner_session_got_original:unbound", 300)
}

func boundRound(r *ev.Run, rng *gen.Rand, idx int, my bool) {
	r.Case()
	dbName := map[bool]string{false: "postgresql", true: "mysql"}[my]
	dir := ksrig.ScratchDir("c02pxb")
	defer os.RemoveAll(dir)
	ks, err := ksrig.V1(dir, ksrig.RandBytes(32), keystore.InfiniteCacheSize)
	if err != nil {
		panic(err)
	}
	for _, id := range boundIdents {
		if err := ksrig.GenClient(ks, id.id); err != nil {
			panic(err)
		}
	}
	cols := boundWireCols(my)
	tables := []c02.BoundTable{{Name: "bw_alpha", Binding: string(boundIdents[0].id)}, {Name: "bw_beta", Binding: string(boundIdents[1].id)}, {Name: "bw_none"}}
	labelOf := map[string]string{}
	for _, id := range boundIdents {
		labelOf[string(id.id)] = id.label
	}
	yaml := c02.BoundYAML(tables, cols)
	db := fakepg.NewDB()
	for _, t := range tables {
		dbc := []fakepg.Column{{Name: "id", Type: fakepg.Int4}}
		for _, c := range cols {
			dbc = append(dbc, fakepg.Column{Name: c.Name, Type: c.Store})
		}
		db.CreateTable(t.Name, dbc)
	}
	var closers []func()
	defer func() {
		for i := len(closers) - 1; i >= 0; i-- {
			closers[i]()
		}
	}()
	var dbPort int
	if my {
		srv, err := fakemysql.NewServer(db)
		if err != nil {
			panic(err)
		}
		closers = append(closers, srv.Close)
		dbPort = srv.Port()
	} else {
		srv, err := fakepg.NewServer(db)
		if err != nil {
			panic(err)
		}
		closers = append(closers, srv.Close)
		dbPort = srv.Port()
	}
	mem, err := storage.NewMemoryTokenStorage()
	if err != nil {
		panic(err)
	}
	enc, err := storage.NewSCellEncryptor(ks)
	if err != nil {
		panic(err)
	}
	tokens := storage.WrapStorageWithEncryption(mem, enc)
	servers := map[string]*proxyrig.Acra{}
	for _, id := range boundIdents {
		a, err := proxyrig.Start(proxyrig.Opts{KS: ks, ClientID: id.id, DBPort: dbPort, SchemaYAML: yaml, TokenStore: tokens, MySQL: my})
		if err != nil {
			r.Violation("proxy rig: acra could not be started with columns bound to a client_id", map[string]interface{}{"err": err.Error(), "db": dbName, "config": yaml})
			return
		}
		servers[id.label] = a
		closers = append(closers, a.Stop)
	}
	sessions := map[string]*session{}
	connect := func(label string) *session {
		if s := sessions[label]; s != nil {
			return s
		}
		s, err := open(my, servers[label].Port, nil)
		if err != nil {
			r.Inconclusive(fmt.Sprintf("bound columns (wire): session could not be established: db=%s: %v", dbName, err))
			return nil
		}
		sessions[label] = s
		return s
	}
	drop := func(label string) {
		if s := sessions[label]; s != nil {
			s.close()
			delete(sessions, label)
		}
	}
	defer func() {
		for l := range sessions {
			drop(l)
		}
	}()
	var history []string

	// --- writes
	vg := c02.NewBoundValueGen(rng)
	var cells []*boundWireCell
	rowID := 0
	for _, t := range tables {
		for _, w := range boundIdents {
			for _, how := range []string{"literal", "parameters"} {
				rowID++
				s := connect(w.label)
				if s == nil {
					return
				}
				names := []string{"id"}
				var lits []string
				var row []*boundWireCell
				for _, c := range cols {
					names = append(names, c.Name)
					cell := &boundWireCell{table: t, col: c, writer: w.label, how: how, value: vg.Next(c), rowID: rowID}
					switch {
					case t.Binding == "":
						cell.owner, cell.binding = w.label, "unbound"
					case t.Binding == string(w.id):
						cell.owner, cell.binding = w.label, "bound-to-writer"
					default:
						cell.owner, cell.binding = labelOf[t.Binding], "bound-to-other"
					}
					row = append(row, cell)
				}
				var werr error
				if how == "literal" {
					lits = append(lits, strconv.Itoa(rowID))
					for _, cell := range row {
						switch {
						case my && cell.col.App == "bytes":
							lits = append(lits, "X'"+hex.EncodeToString(cell.value.Raw)+"'")
						default:
							lits = append(lits, cell.value.PGLiteral(cell.col))
						}
					}
					sql := fmt.Sprintf("insert into %s (%s) values (%s)", t.Name, strings.Join(names, ", "), strings.Join(lits, ", "))
					if my {
						werr = s.mc.Exec(sql).Err
					} else {
						werr = pgExecErr(s.pg.Simple(sql))
					}
				} else {
					// bound parameters: PostgreSQL alternates text and binary parameter formats per row, MySQL sends typed arguments
					binParams := rowID%4 < 2
					var ph []string
					var pgParams [][]byte
					var myArgs []interface{}
					add := func(app string, raw []byte) {
						if my {
							ph = append(ph, "?")
							switch app {
							case "i32", "i64":
								n, _ := strconv.ParseInt(string(raw), 10, 64)
								myArgs = append(myArgs, n)
							case "bytes":
								myArgs = append(myArgs, append([]byte{}, raw...))
							default:
								myArgs = append(myArgs, string(raw))
							}
							return
						}
						ph = append(ph, fmt.Sprintf("$%d", len(ph)+1))
						p := append([]byte{}, raw...)
						switch app {
						case "i32", "i64":
							if binParams {
								n, _ := strconv.ParseInt(string(raw), 10, 64)
								if app == "i32" {
									p = make([]byte, 4)
									binary.BigEndian.PutUint32(p, uint32(int32(n)))
								} else {
									p = make([]byte, 8)
									binary.BigEndian.PutUint64(p, uint64(n))
								}
							}
						case "bytes":
							if !binParams {
								p = []byte(`\x` + hex.EncodeToString(raw))
							}
						}
						pgParams = append(pgParams, p)
					}
					add("i32", []byte(strconv.Itoa(rowID)))
					for _, cell := range row {
						add(cell.col.App, cell.value.Raw)
					}
					sql := fmt.Sprintf("insert into %s (%s) values (%s)", t.Name, strings.Join(names, ", "), strings.Join(ph, ", "))
					if my {
						werr = s.mc.Exec(sql, myArgs...).Err
					} else {
						var pf []int16
						if binParams {
							pf = []int16{1}
						}
						werr = pgExecErr(s.pg.Extended("", sql, nil, pgParams, pf, nil, 0))
					}
				}
				history = append(history, fmt.Sprintf("row %d of %s written by the session of %s (%s) -> %v", rowID, t.Name, w.label, how, werr))
				if werr != nil {
					r.Count("proxy_bound_write_failed", 1)
					r.Inconclusive(fmt.Sprintf("bound columns (wire): write failed: db=%s table-binding=%s how=%s: %v", dbName, bindingOfTable(t, labelOf), how, werr))
					drop(w.label)
					continue
				}
				// stored form, straight from the database
				var stored []fakepg.Value
				for _, sr := range db.Snapshot(t.Name) {
					if n, ok := sr[0].(int64); ok && int(n) == rowID {
						stored = sr
					}
				}
				if stored == nil {
					r.Count("proxy_bound_written_row_not_found_in_database", 1)
					continue
				}
				for ci, cell := range row {
					cell.stored = fakepg.EncodeValue(stored[ci+1], cell.col.Store, cell.col.Store == fakepg.Bytea)
					if c02.BoundReveals(cell.value, cell.stored, cell.stored) {
						// stored in clear: C01/C04's subject; proves nothing here
						r.Count("proxy_bound_write_left_value_in_clear", 1)
						r.SampleN("proxy-bound-write-clear", 2, map[string]interface{}{"db": dbName, "column": cell.col.Name, "binding": cell.binding, "how": how, "value": string(cell.value.Raw), "stored": ev.Hex(cell.stored)})
						continue
					}
					cells = append(cells, cell)
					r.Count("proxy_bound_values_written", 1)
					r.Count("proxy_bound_values_written:"+cell.binding+":"+how, 1)
				}
			}
		}
	}

	// --- reads
	details := func(cell *boundWireCell, reader, proto string, delivered []byte, err error) map[string]interface{} {
		return map[string]interface{}{"round": idx, "db": dbName, "table": cell.table.Name, "column": cell.col.Name, "column_client_id": cell.table.Binding, "row": cell.rowID,
			"written_by_session_of": cell.writer, "written_with": cell.how, "protected_for": cell.owner, "read_by_session_of": reader, "protocol": proto,
			"original": string(cell.value.Raw), "stored": ev.FullHex(cell.stored), "delivered": ev.FullHex(delivered), "err": fmt.Sprint(err), "history": append([]string{}, history...),
			"identities": map[string]string{"alpha": string(boundIdents[0].id), "beta": string(boundIdents[1].id), "gamma": string(boundIdents[2].id)}}
	}
	judge := func(cell *boundWireCell, reader, proto string, bin bool, delivered []byte, got bool, stream []byte, err error) {
		r.Case()
		class := fmt.Sprintf("db=%s column=%s(%s) binding=%s protocol=%s", dbName, cell.col.Name, cell.col.Kind, cell.binding, proto)
		app := delivered
		if !my {
			app = c02.BoundAppValue(cell.col, delivered, bin)
		}
		if reader == cell.owner {
			key := class + " written-with=" + cell.how
			r.SetAdd("proxy_bound_owner_classes_judged", key)
			if err == nil && got && bytes.Equal(app, cell.value.Raw) {
				r.Count("proxy_bound_owner_session_got_original", 1)
				r.Count("proxy_bound_owner_session_got_original:"+cell.binding, 1)
				r.SetAdd("proxy_bound_owner_revealed_classes", key)
			} else {
				r.Count("proxy_bound_owner_session_did_not_get_original", 1)
				r.SampleN("proxy-bound-owner-miss:"+dbName+":"+cell.col.Name, 1, details(cell, reader, proto, delivered, err))
			}
			return
		}
		relation := "reader-is-neither-writer-nor-binding"
		if reader == cell.writer {
			relation = "reader-wrote-the-value"
		}
		how := ""
		if got && c02.BoundReveals(cell.value, delivered, app) {
			how = "field"
		} else if cell.value.Marker != nil {
			if l := leak(stream, cell.value.Marker); l != "" {
				how = "stream:" + l
			}
		}
		if how != "" {
			d := details(cell, reader, proto, delivered, err)
			d["reader"], d["seen_in"] = relation, how
			r.Violation("proxy: column bound to a client_id delivered in clear to a session of another identity: "+class, d)
			return
		}
		oc := "other"
		switch {
		case err != nil:
			oc = "refused"
		case !got:
			oc = "row-not-delivered"
		case bytes.Equal(app, cell.stored) || bytes.Equal(delivered, cell.stored):
			oc = "stored-form-unchanged"
		case cell.col.Default != nil && bytes.Equal(app, cell.col.Default):
			oc = "configured-default-value"
		case cell.col.Mask != nil && bytes.Contains(app, cell.col.Mask):
			oc = "masking-pattern"
		}
		r.Count("proxy_bound_foreign_cells_not_revealed", 1)
		r.Count("proxy_bound_foreign_cells_not_revealed:"+cell.binding, 1)
		r.Count("proxy_bound_foreign_cell_outcome:"+oc, 1)
		if relation == "reader-wrote-the-value" {
			r.Count("proxy_bound_writer_session_could_not_read_back_value_bound_to_other", 1)
		}
		r.Distinct(fmt.Sprintf("proxy-bound|%s|%s|%s", class, relation, oc))
		r.SampleN("proxy-bound:"+dbName+":"+cell.col.Kind+":"+cell.binding+":"+oc, 1, details(cell, reader, proto, delivered, err))
	}
	// columns read together / one row at a time
	var together, alone []c02.BoundCol
	for _, c := range cols {
		if boundErrorPolicy(c) {
			alone = append(alone, c)
		} else {
			together = append(together, c)
		}
	}
	byTable := map[string][]*boundWireCell{}
	for _, cell := range cells {
		byTable[cell.table.Name] = append(byTable[cell.table.Name], cell)
	}
	for _, rd := range boundIdents {
		for _, t := range tables {
			for _, bin := range []bool{false, true} {
				proto := map[bool]string{false: "text", true: "binary"}[bin]
				// all columns without the error policy in one statement
				var names []string
				for _, c := range together {
					names = append(names, c.Name)
				}
				s := connect(rd.label)
				if s == nil {
					return
				}
				rows, stream, err := boundSelect(s, fmt.Sprintf("select id, %s from %s order by id", strings.Join(names, ", "), t.Name), bin)
				history = append(history, fmt.Sprintf("session of %s read %s (%s) -> %v", rd.label, t.Name, proto, err))
				if err != nil {
					r.Count("proxy_bound_read_failed", 1)
					r.Inconclusive(fmt.Sprintf("bound columns (wire): read failed: db=%s table-binding=%s protocol=%s: %v", dbName, bindingOfTable(t, labelOf), proto, err))
					drop(rd.label)
					continue
				}
				pos := map[string]int{}
				for i, n := range names {
					pos[n] = i + 1
				}
				for _, cell := range byTable[t.Name] {
					p, ok := pos[cell.col.Name]
					if !ok {
						continue
					}
					rw, got := rows[cell.rowID]
					var f []byte
					if got && p < len(rw) {
						f = rw[p]
					}
					judge(cell, rd.label, proto, bin, f, got, stream, nil)
				}
				// columns with response_on_fail: error, one row at a time (a failure is reported for the whole statement)
				for _, cell := range byTable[t.Name] {
					if !boundErrorPolicy(cell.col) {
						continue
					}
					s := connect(rd.label)
					if s == nil {
						return
					}
					rows, stream, err := boundSelect(s, fmt.Sprintf("select id, %s from %s where id = %d", cell.col.Name, t.Name, cell.rowID), bin)
					if err != nil && !boundStatementError(err) {
						r.Count("proxy_bound_read_failed", 1)
						r.Inconclusive(fmt.Sprintf("bound columns (wire): read failed: db=%s table-binding=%s protocol=%s column=%s: %v", dbName, bindingOfTable(t, labelOf), proto, cell.col.Name, err))
						drop(rd.label)
						continue
					}
					rw, got := rows[cell.rowID]
					var f []byte
					if got && len(rw) > 1 {
						f = rw[1]
					}
					judge(cell, rd.label, proto, bin, f, got, stream, err)
				}
			}
		}
	}
	_ = alone
	r.SetAdd("proxy_bound_databases", dbName)
	r.SampleN("proxy-bound-round-"+dbName, 1, map[string]interface{}{"db": dbName, "history": history})
}

func bindingOfTable(t c02.BoundTable, labelOf map[string]string) string {
	if t.Binding == "" {
		return "none"
	}
	return labelOf[t.Binding]
}

// stmtError is an error the server reported for the statement (the session goes on).
type stmtError struct{ msg string }

func (e *stmtError) Error() string { return e.msg }

func boundStatementError(err error) bool {
	_, ok := err.(*stmtError)
	return ok
}

func pgExecErr(msgs []proxyrig.BackendMsg, err error) error {
	if err != nil {
		return err
	}
	if e := proxyrig.ErrorOf(msgs); e != nil {
		return &stmtError{e.Message}
	}
	return nil
}

// boundSelect runs one SELECT whose first column is the row id; it returns the delivered fields per row id (NULL = nil) and
// everything that was delivered as one byte stream.
func boundSelect(s *session, sql string, binaryFmt bool) (map[int][][]byte, []byte, error) {
	out := map[int][][]byte{}
	var stream []byte
	if s.my {
		var res *proxyrig.MyResult
		mark := s.mc.Mark()
		if binaryFmt {
			ps, pr := s.mc.Prepare(sql)
			if ps == nil {
				if pr.ErrNo != 0 && !pr.Broken {
					return out, nil, &stmtError{pr.ErrMsg}
				}
				return nil, nil, pr.Err
			}
			res = ps.Query()
			ps.Close()
		} else {
			res = s.mc.Query(sql)
		}
		_, stream = s.mc.Since(mark)
		if res.Err != nil {
			if res.ErrNo != 0 && !res.Broken {
				return out, stream, &stmtError{res.ErrMsg}
			}
			return nil, stream, res.Err
		}
		for _, rw := range res.Rows {
			var id int
			fmt.Sscan(string(rw[0].B), &id)
			f := make([][]byte, len(rw))
			for i, v := range rw {
				if !v.Null {
					f[i] = v.B
				}
			}
			out[id] = f
		}
		return out, stream, nil
	}
	var msgs []proxyrig.BackendMsg
	var err error
	if binaryFmt {
		msgs, err = s.pg.Extended("", sql, nil, nil, nil, []int16{1}, 0)
	} else {
		msgs, err = s.pg.Simple(sql)
	}
	if err != nil {
		return nil, nil, err
	}
	for _, m := range msgs {
		stream = append(stream, m.Raw...)
	}
	for _, rw := range proxyrig.Rows(msgs) {
		var id int
		if binaryFmt && len(rw[0]) == 4 {
			id = int(int32(binary.BigEndian.Uint32(rw[0])))
		} else {
			fmt.Sscan(string(rw[0]), &id)
		}
		out[id] = rw
	}
	if e := proxyrig.ErrorOf(msgs); e != nil {
		return out, stream, &stmtError{e.Message}
	}
	return out, stream, nil
}
